#!/bin/bash
# usage: try_refmut.sh <dir with patch.diff> <file> <perl -pe expression>  — applies a behaviour-preserving refactoring AND then a
# breaking one-line edit to a scratch copy; the checks must fire (guards against rules that went blind after a refactoring).
src=$1; file=$2; expr=$3
export GOFLAGS=-mod=mod GOPROXY=off GOSUMDB=off GOTOOLCHAIN=local; unset GOWORK
d=$(mktemp -d /tmp/tryrm.XXXXXX)
cp -r /repo/. $d/ && rm -rf $d/.git
(cd $d && patch -p1 -s < $src/patch.diff) || { echo "$src: PATCH-FAILED"; rm -rf $d; exit 2; }
cp $d/$file $d/$file.orig
perl -0pi -e "$expr" $d/$file
if cmp -s $d/$file $d/$file.orig; then echo "EDIT DID NOT APPLY"; rm -rf $d; exit 2; fi
rm $d/$file.orig
(cd $d && go build ./... ) || { echo "$src: BUILD-FAILS"; rm -rf $d; exit 2; }
out=$(timeout 600 ${GENQLCHECK:-/verif/bin/genqlcheck} -repo $d -property all -no-evidence 2>&1 | grep -E '^(VIOLATED|UNDECIDED|CHECKER PANIC|ERROR)' | sort -u)
if [ -z "$out" ]; then echo "$src + edit: SILENT (BLIND!)"; else echo "$src + edit: FIRES"; echo "$out" | cut -c1-260 | head -5; fi
rm -rf $d
