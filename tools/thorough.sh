#!/bin/bash
# thorough tier for one property: the quick rules at tier=thorough, then the rule self-validation
# (scratch-copy variants under mktemp -d, analysed statically, never executed).
pid=$1
export VERIF_TIER=thorough
/verif/bin/genqlcheck -repo /repo -verif /verif -property "$pid" -tier thorough
rc=$?
if [ -x /verif/tools/selftest.sh ]; then
  /verif/tools/selftest.sh "$pid" || { echo "SELFTEST-FAIL property=$pid"; [ $rc = 0 ] && rc=3; }
fi
exit $rc
