#!/usr/bin/env python3
"""try_edit.py <pid> <file> <<< 'OLD\n====\nNEW'  — copy /repo to a scratch dir, replace OLD by NEW in <file> (must occur once), go build, run the property's check. Static only."""
import os, subprocess, sys, tempfile, shutil
pid, fn = sys.argv[1:3]
old, new = sys.stdin.read().split("\n====\n")
new = new.rstrip("\n")
d = tempfile.mkdtemp(prefix="tryedit.", dir="/tmp")
try:
    subprocess.run(f"cp -r /repo/. {d}/ && rm -rf {d}/.git", shell=True, check=True)
    p = os.path.join(d, fn); s = open(p).read()
    assert s.count(old) == 1, f"OLD occurs {s.count(old)} times"
    open(p, "w").write(s.replace(old, new))
    env = dict(os.environ, GOFLAGS="-mod=mod", GOPROXY="off", GOSUMDB="off", GOTOOLCHAIN="local"); env.pop("GOWORK", None)
    b = subprocess.run("go build ./...", shell=True, cwd=d, env=env, capture_output=True, text=True)
    if b.returncode: print("BUILD-FAILS", b.stderr[:500]); sys.exit(2)
    if os.environ.get("SUITE"):
        t = subprocess.run("go test -vet=off -count=1 ./... 2>&1 | tail -5", shell=True, cwd=d, env=env, capture_output=True, text=True); print(t.stdout)
    r = subprocess.run([os.environ.get("GENQLCHECK", "/verif/bin/genqlcheck"), "-repo", d, "-property", os.environ.get("PID_OVERRIDE", pid), "-no-evidence"], capture_output=True, text=True)
    lines = [l[:260] for l in r.stdout.splitlines() if l.startswith(("VIOLATED", "UNDECIDED"))]
    print("CAUGHT" if r.returncode else "MISSED"); print("\n".join(lines[:5]))
finally:
    shutil.rmtree(d)
