#!/bin/bash
# usage: store_round.sh <pid> <round>  — stores every CONFIRMED mutant of /tmp/wt/<pid>r<round>/MUTANTS as seeded/<pid>-r<round>-m<k> from the try_round log /tmp/r<round>/<pid>.log
pid=$1; r=$2; log=/tmp/r$r/$pid.log
for m in /tmp/wt/${pid}r${r}/MUTANTS/m*; do
  [ -f $m/patch.diff ] || continue
  k=$(basename $m)
  blk=$(awk -v s="== $m" '$0==s{f=1;next} /^== /{f=0} f' $log)
  echo "$blk" | grep -q '^CONFIRMED' || { echo "$pid $k NOT CONFIRMED - skipped"; continue; }
  p=$(grep -m1 '^package ' $m/demo_test.go | awk '{print $2}' | sed 's/_test$//'); case "$p" in genql) pkg=.;; sanitize) pkg=sanitizer;; *) pkg=$p;; esac
  what=$(grep -v '^\s*$' $m/README.md | grep -v '^#' | head -2 | tr '\n' ' ' | cut -c1-300)
  if echo "$blk" | grep -q "^CAUGHT by $pid"; then c=$(echo "$blk" | awk '/^CAUGHT/{f=1;next} /^-- all/{f=0} f' | awk '{print $2}' | sort -u | tr '\n' ' '); else c="MISSED when it arrived"; fi
  python3 /verif/tools/store_seed.py $pid $m $pid-r$r-$k $pkg "$k - $what" "see README.md (round $r)" "$c"
done
