#!/usr/bin/env python3
"""commit_fix.py <pid> <finding-dir or -> <name> <what (for known_findings)>  < commit message on stdin
Commits /repo's working tree as one fix: commit (message must start with 'fix:'), records it under `fixed` in
known_findings.json and keeps the finding's demonstration under /verif/findings/<name>/ (failing input against the old code)."""
import json, os, shutil, subprocess, sys
pid, fdir, name, what = sys.argv[1:5]
msg = sys.stdin.read().strip()
assert msg.startswith("fix:"), "message must start with fix:"
subprocess.run(["git", "-C", "/repo", "commit", "-qam", msg], check=True)
h = subprocess.check_output(["git", "-C", "/repo", "log", "--format=%h", "-1"], text=True).strip()
p = '/verif/known_findings.json'
d = json.load(open(p))
d['fixed'].append({"property": pid, "commit": h, "what": f"fixed: property={pid} {h} {what}"})
json.dump(d, open(p, 'w'), indent=1)
if fdir != "-":
    dst = f"/verif/findings/{name}"
    os.makedirs(dst, exist_ok=True)
    for f in ("demo_test.go", "README.md"):
        if os.path.exists(os.path.join(fdir, f)):
            shutil.copy(os.path.join(fdir, f), os.path.join(dst, f))
    json.dump({"property": pid, "fixed_by": h, "origin": "defect hunt by an independent sub-agent given only the property text (tools/hunt_prompt.py); demo_test.go (TestFindingDemo) fails on the tree before the fix and passes after it"}, open(os.path.join(dst, "meta.json"), "w"), indent=1)
print("committed", h)
