#!/bin/bash
# usage: round_pending.sh <round> [jobs]  — runs try_round.sh for every property whose agent has left MUTANTS/m1..m3 complete and that has no log yet
r=$1; j=${2:-3}
for i in $(seq -w 1 20); do
  pid=C$i; d=/tmp/wt/${pid}r$r/MUTANTS
  [ -f /tmp/r$r/$pid.log ] && continue
  n=$(ls $d/m*/README.md 2>/dev/null | wc -l)
  [ "$n" -ge 3 ] || continue
  echo $pid
done | xargs -P $j -I{} bash -c "/verif/tools/try_round.sh {} $r > /tmp/r$r/{}.log.tmp 2>&1; mv /tmp/r$r/{}.log.tmp /tmp/r$r/{}.log; echo {} done"
