#!/bin/bash
# usage: try_mutant.sh <pid> <dir with patch.diff + demo_test.go> [pkgdir]  — confirm (scratch worktree) and run the property's check on a patched scratch copy
pid=$1; src=$2; pkg=${3:-.}
echo "== $src"
/verif/tools/confirm_seed.sh $src $pkg | tail -2
d=$(mktemp -d /tmp/trymut.XXXXXX)
cp -r /repo/. $d/ && rm -rf $d/.git
(cd $d && patch -p1 -s < $src/patch.diff) || { echo PATCH-FAILED; rm -rf $d; exit 2; }
out=$(timeout 600 ${GENQLCHECK:-/verif/bin/genqlcheck} -repo $d -property $pid -no-evidence 2>&1)
if echo "$out" | grep -q '^VIOLATION'; then echo "CAUGHT by $pid:"; echo "$out" | grep -E '^(VIOLATED|UNDECIDED)' | head -4 | cut -c1-260; else echo "MISSED by $pid"; fi
if [ -n "$ALSO" ]; then out=$(timeout 600 ${GENQLCHECK:-/verif/bin/genqlcheck} -repo $d -property all -no-evidence 2>&1); echo "-- all properties:"; echo "$out" | grep -E '^(VIOLATED|UNDECIDED)' | head -6 | cut -c1-200; fi
rm -rf $d
