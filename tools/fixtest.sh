#!/bin/bash
# usage: fixtest.sh <finding dir> [pkgdir]  — runs the pinned suite on /repo's working tree and the finding's demo (TestFindingDemo) against it
src=$1; pkg=${2:-.}
export GOFLAGS=-mod=mod GOPROXY=off GOSUMDB=off GOTOOLCHAIN=local; unset GOWORK
/verif/tools/baseline.sh | head -3
cd /repo && cp $src/demo_test.go $pkg/zz_finding_demo_test.go && go test -vet=off -count=1 -run 'TestFindingDemo' ./$pkg 2>&1 | tail -8; rm -f $pkg/zz_finding_demo_test.go
