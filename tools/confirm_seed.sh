#!/bin/bash
# usage: confirm_seed.sh <dir containing patch.diff and demo_test.go> [pkgdir relative to repo, default .]
# Confirms in a scratch worktree of /repo HEAD: demo passes on HEAD; patch applies, builds, suite passes, demo fails.
src=$1; pkg=${2:-.}
export GOFLAGS=-mod=mod GOPROXY=off GOSUMDB=off GOTOOLCHAIN=local; unset GOWORK
wt=$(mktemp -d /tmp/confirm.XXXXXX); rmdir $wt
git -C /repo worktree add -q --detach $wt HEAD || exit 2
trap 'git -C /repo worktree remove --force $wt >/dev/null 2>&1; rm -rf $wt' EXIT
cd $wt
cp $src/demo_test.go $pkg/zz_demo_test.go
go test -vet=off -count=1 -run 'TestMutantDemo' ./$pkg >/tmp/confirm_head.log 2>&1; head_rc=$?
rm $pkg/zz_demo_test.go
git apply $src/patch.diff || { echo "PATCH-DOES-NOT-APPLY"; exit 3; }
go build ./... || { echo "BUILD-FAILS"; exit 3; }
out=$(go test -json -vet=off -count=1 ./... 2>&1)
pass=$(echo "$out" | grep -c '"Action":"pass","Package":[^,]*,"Test"')
fail=$(echo "$out" | grep -c '"Action":"fail","Package":[^,]*,"Test"')
cp $src/demo_test.go $pkg/zz_demo_test.go
go test -vet=off -count=1 -run 'TestMutantDemo' ./$pkg >/tmp/confirm_mut.log 2>&1; mut_rc=$?
echo "demo_on_head_rc=$head_rc suite_pass=$pass suite_fail=$fail demo_on_mutant_rc=$mut_rc"
[ $head_rc = 0 ] && [ $fail = 0 ] && [ $pass -ge 267 ] && [ $mut_rc != 0 ] && echo CONFIRMED
