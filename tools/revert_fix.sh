#!/bin/bash
# usage: revert_fix.sh <property> <commit>  — re-introduces one repaired defect: reverse-applies the fix: commit to a scratch
# copy of /repo's working tree and runs the property's static check there. The check must report it again
# ("a fixed entry suppresses nothing"). Prints DETECTED / MISSED / NOAPPLY (later commits rewrote the lines) / NOBUILD.
pid=$1; c=$2
export GOFLAGS=-mod=mod GOPROXY=off GOSUMDB=off GOTOOLCHAIN=local; unset GOWORK
d=$(mktemp -d /tmp/revfix.XXXXXX)
trap 'rm -rf $d' EXIT
cp -r /repo/. $d/ && rm -rf $d/.git
git -C /repo show --format= $c -- '*.go' ':!*_test.go' > $d/.rev.diff
(cd $d && patch -R -p1 -s --no-backup-if-mismatch -f < .rev.diff >/dev/null 2>&1) || { echo "$pid $c: NOAPPLY"; exit 0; }
(cd $d && go build ./... >/dev/null 2>&1) || { echo "$pid $c: NOBUILD"; exit 0; }
out=$(timeout 600 ${GENQLCHECK:-/verif/bin/genqlcheck} -repo $d -property $pid -no-evidence 2>&1 | grep -E '^(VIOLATED|UNDECIDED)' | head -2 | cut -c1-160 | tr '\n' ' ')
own=DETECTED
if [ -z "$out" ]; then
  own=MISSED
  out=$(timeout 600 ${GENQLCHECK:-/verif/bin/genqlcheck} -repo $d -property all -no-evidence 2>&1 | grep -E '^(VIOLATED|UNDECIDED)' | head -2 | cut -c1-160 | tr '\n' ' ')
  [ -n "$out" ] && own=OTHER-PROPERTY
fi
echo "$pid $c: $own $out"
