#!/bin/bash
# Runs the pinned genql suite (guard off = plain build) and prints pass/fail counts.
# usage: baseline.sh [dir]   (default /repo)
dir=${1:-/repo}
export GOFLAGS=-mod=mod GOPROXY=off GOSUMDB=off GOTOOLCHAIN=local; unset GOWORK
cd "$dir" || exit 2
out=$(go test -json -vet=off -count=1 -timeout 25m ./... 2>&1)
pass=$(echo "$out" | grep -c '"Action":"pass","Package":[^,]*,"Test"')
fail=$(echo "$out" | grep -c '"Action":"fail","Package":[^,]*,"Test"')
echo "pass=$pass fail=$fail"
if [ "$fail" != 0 ]; then echo "$out" | grep '"Action":"fail"' | head -20; fi
[ "$fail" = 0 ] && [ "$pass" -ge 267 ]
