#!/bin/bash
# usage: run_seeded.sh [name ...]   — runs the check of each seeded mutant's property on a scratch copy of /repo with the patch applied
# (static analysis only; nothing is executed). Prints CAUGHT/MISSED per mutant.
cd /verif/seeded || exit 2
names="$@"; [ -z "$names" ] && names=$(ls)
rc=0
for n in $names; do
  pid=$(python3 -c "import json;print(json.load(open('$n/meta.json'))['property'])")
  d=$(mktemp -d /tmp/seedrun.XXXXXX)
  cp -r /repo/. $d/ && rm -rf $d/.git
  if ! (cd $d && patch -p1 -s < /verif/seeded/$n/patch.diff); then echo "$n: PATCH-FAILED"; rm -rf $d; rc=1; continue; fi
  out=$(timeout 600 ${GENQLCHECK:-/verif/bin/genqlcheck} -repo $d -property $pid -no-evidence 2>&1)
  if echo "$out" | grep -q '^VIOLATION'; then echo "$n ($pid): CAUGHT  $(echo "$out" | grep -E '^(VIOLATED|UNDECIDED)' | head -2 | cut -c1-160 | tr '\n' '|')"; else echo "$n ($pid): MISSED"; rc=1; fi
  rm -rf $d
done
exit $rc
