#!/bin/bash
exec python3 /verif/tools/selftest.py "$1"
