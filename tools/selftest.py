#!/usr/bin/env python3
"""Rule self-validation (thorough tier): applies each corpus variant and each seeded patch of the property to a scratch copy of
/repo under mktemp (removed at once), checks the copy still compiles, runs the STATIC checker on it and requires a VIOLATION; it also applies each behaviour-preserving refactoring under /verif/refactorings and requires silence.
Nothing of genql is executed. Exit 0: all applicable variants detected; exit 3: SELFTEST-FAIL (the checker, not /repo, is broken)."""
import os, sys, subprocess, tempfile, shutil, json, glob
from concurrent.futures import ThreadPoolExecutor
sys.path.insert(0, '/verif/selftest')
import corpus
import refmut
import re
pid = sys.argv[1]
ENV = dict(os.environ, GOFLAGS='-mod=mod', GOPROXY='off', GOSUMDB='off', GOTOOLCHAIN='local')
ENV.pop('GOWORK', None)

def scratch():
    d = tempfile.mkdtemp(prefix='genql-selftest-')
    subprocess.run(['rsync', '-a', '--exclude', '.git', '/repo/', d + '/'], check=True)
    return d

def check(d, rule):
    # no `go build` of the scratch copy: the checker type-checks what it loads and refuses a tree that does not compile
    # (exit 2, "ERROR load"); thousands of scratch builds would otherwise fill the Go build cache (one entry per copy)
    try:
        r = subprocess.run([os.environ.get('GENQLCHECK', '/verif/bin/genqlcheck'), '-repo', d, '-verif', '/verif', '-property', pid, '-no-evidence'], capture_output=True, text=True, env=ENV, timeout=900)
    except subprocess.TimeoutExpired:
        # a checker that does not come back is a broken checker: reported as a miss (and as an alarm on a refactoring)
        return 'TIMEOUT', 'the checker did not finish within 900 s'
    if r.returncode == 2 or r.stdout.startswith('ERROR'):
        return 'NOCOMPILE', (r.stdout + r.stderr)[:200]
    lines = [l for l in r.stdout.splitlines() if l.startswith('VIOLATED') or l.startswith('UNDECIDED')]
    if not lines:
        return 'MISSED', ''
    if rule and not any(rule in l for l in lines):
        return 'OTHER-RULE', lines[0][:160]
    return 'DETECTED', lines[0][:160]

def run_variant(item):
    name, rule, edits = item
    d = scratch()
    try:
        for fn, old, new in edits:
            p = os.path.join(d, fn)
            s = open(p).read()
            if old not in s:
                return name, 'SKIPPED', 'edit no longer applies to ' + fn
            open(p, 'w').write(s.replace(old, new, 1))
        st, info = check(d, rule)
        return name, st, info
    finally:
        shutil.rmtree(d, ignore_errors=True)

def run_seed(sd):
    name = os.path.basename(sd)
    d = scratch()
    try:
        a = subprocess.run(['patch', '-p1', '-s', '-i', os.path.join(sd, 'patch.diff')], cwd=d, capture_output=True, text=True)
        if a.returncode != 0:
            return 'seed:' + name, 'SKIPPED', 'patch no longer applies'
        st, info = check(d, '')
        return 'seed:' + name, st, info
    finally:
        shutil.rmtree(d, ignore_errors=True)

jobs = [(run_variant, it) for it in corpus.V.get(pid, [])]
for sd in sorted(glob.glob('/verif/seeded/*')):
    try:
        if json.load(open(sd + '/meta.json'))['property'] == pid:
            jobs.append((run_seed, sd))
    except Exception:
        pass
import hashlib
_state_key = None
def state_key():
    """Identifies what a verdict on a refactoring depends on: the checker binary, /repo's working tree, the known findings."""
    global _state_key
    if _state_key is None:
        h = hashlib.sha1()
        h.update(open(os.environ.get('GENQLCHECK', '/verif/bin/genqlcheck'), 'rb').read())
        h.update(open('/verif/known_findings.json', 'rb').read())
        for root, dirs, files in os.walk('/repo'):
            dirs[:] = sorted(x for x in dirs if x != '.git')
            for f in sorted(files):
                if f.endswith('.go') or f in ('go.mod', 'go.sum'):
                    h.update(os.path.join(root, f).encode()); h.update(open(os.path.join(root, f), 'rb').read())
        _state_key = h.hexdigest()
    return _state_key

def check_all(d):
    """One run of every property's check on the scratch copy d: {property: [VIOLATED/UNDECIDED lines]} or a status string."""
    try:
        r = subprocess.run([os.environ.get('GENQLCHECK', '/verif/bin/genqlcheck'), '-repo', d, '-verif', '/verif', '-property', 'all', '-no-evidence'], capture_output=True, text=True, env=ENV, timeout=1800)
    except subprocess.TimeoutExpired:
        return 'TIMEOUT'
    if r.returncode == 2 or r.stdout.startswith('ERROR'):
        return 'NOCOMPILE'
    per, cur = {}, []
    for l in r.stdout.splitlines():
        if l.startswith('VIOLATED') or l.startswith('UNDECIDED'):
            cur.append(l)
        elif l.startswith('VIOLATION property='):
            per.setdefault(l.split('=')[1].split()[0], []).extend(cur); cur = []
        elif l.startswith('CHECKER PANIC'):
            return 'TIMEOUT'
    return per

def refactoring_verdicts(rd, d_factory):
    """The verdicts of all twenty checks on one refactoring, computed once (one process analysing the copy for every property)
    and shared between the per-property self-tests through a cache keyed by everything the verdict depends on. The cache only
    saves time: when it is absent the verdicts are recomputed."""
    key = hashlib.sha1((state_key() + open(os.path.join(rd, 'patch.diff'), 'rb').read().hex()).encode()).hexdigest()
    cdir = '/tmp/genql-selftest-cache'
    os.makedirs(cdir, exist_ok=True)
    cf = os.path.join(cdir, key + '.json')
    if os.path.exists(cf):
        try:
            return json.load(open(cf))
        except Exception:
            pass
    d = d_factory()
    try:
        a = subprocess.run(['patch', '-p1', '-s', '-i', os.path.join(rd, 'patch.diff')], cwd=d, capture_output=True, text=True)
        res = 'NOPATCH' if a.returncode != 0 else check_all(d)
    finally:
        shutil.rmtree(d, ignore_errors=True)
    tmp = cf + '.%d.tmp' % os.getpid()
    json.dump(res, open(tmp, 'w'))
    os.replace(tmp, cf)
    return res

def run_refactoring(rd):
    """A behaviour-preserving refactoring: the check of this property must stay silent on it."""
    name = os.path.basename(rd)
    if os.environ.get('SELFTEST_NO_SHARED_RUNS') != '1':
        res = refactoring_verdicts(rd, scratch)
        if res == 'NOPATCH':
            return 'refactoring:' + name, 'SKIPPED', 'patch no longer applies'
        if res == 'NOCOMPILE':
            return 'refactoring:' + name, 'SKIPPED', 'does not compile any more'
        if res == 'TIMEOUT':
            return 'refactoring:' + name, 'FALSE-ALARM', 'the checker did not finish (or panicked) on the refactored tree'
        lines = res.get(pid, [])
        if not lines:
            return 'refactoring:' + name, 'SILENT', ''
        return 'refactoring:' + name, 'FALSE-ALARM', lines[0][:160]
    d = scratch()
    try:
        a = subprocess.run(['patch', '-p1', '-s', '-i', os.path.join(rd, 'patch.diff')], cwd=d, capture_output=True, text=True)
        if a.returncode != 0:
            return 'refactoring:' + name, 'SKIPPED', 'patch no longer applies'
        st, info = check(d, '')
        if st == 'MISSED':
            return 'refactoring:' + name, 'SILENT', ''
        if st == 'NOCOMPILE':
            return 'refactoring:' + name, 'SKIPPED', 'does not compile any more'
        return 'refactoring:' + name, 'FALSE-ALARM', info
    finally:
        shutil.rmtree(d, ignore_errors=True)

for rd in sorted(glob.glob('/verif/refactorings/*')):
    jobs.append((run_refactoring, rd))

def run_refmut(item):
    """A refactoring followed by one breaking edit: the check must still fire (a rule must not go blind on refactored code)."""
    name, ref, fn, rx, repl = item
    d = scratch()
    try:
        a = subprocess.run(['patch', '-p1', '-s', '-i', f'/verif/refactorings/{ref}/patch.diff'], cwd=d, capture_output=True, text=True)
        if a.returncode != 0:
            return 'refmut:' + name, 'SKIPPED', 'refactoring no longer applies'
        p = os.path.join(d, fn)
        s = open(p).read()
        if len(re.findall(rx, s)) != 1:
            return 'refmut:' + name, 'SKIPPED', 'edit no longer applies to the refactored ' + fn
        open(p, 'w').write(re.sub(rx, lambda m: repl, s, count=1))
        st, info = check(d, '')
        return 'refmut:' + name, st, info
    finally:
        shutil.rmtree(d, ignore_errors=True)

for it in refmut.R.get(pid, []):
    jobs.append((run_refmut, it))
def run_revert(item):
    """A repaired defect re-introduced: the fix: commit reverse-applied (diff kept under /verif/fixes). The check must report it again."""
    commit = item
    d = scratch()
    try:
        a = subprocess.run(['patch', '-R', '-p1', '-s', '-f', '--no-backup-if-mismatch', '-i', f'/verif/fixes/{commit}.diff'], cwd=d, capture_output=True, text=True)
        if a.returncode != 0:
            return 'revert:' + commit, 'SKIPPED', 'later commits rewrote the lines of this fix'
        st, info = check(d, '')
        if st == 'NOCOMPILE':
            return 'revert:' + commit, 'SKIPPED', 'the reverted tree does not compile (later commits build on the fix)'
        return 'revert:' + commit, st, info
    finally:
        shutil.rmtree(d, ignore_errors=True)

try:
    for f in json.load(open('/verif/known_findings.json')).get('fixed', []):
        if f['property'] == pid and os.path.exists(f"/verif/fixes/{f['commit']}.diff"):
            jobs.append((run_revert, f['commit']))
except Exception:
    pass
res = []
with ThreadPoolExecutor(max_workers=10) as ex:
    for r in ex.map(lambda j: j[0](j[1]), jobs):
        res.append(r)
bad = 0
cnt = {}
for name, st, info in res:
    cnt[st] = cnt.get(st, 0) + 1
    print(f"selftest {pid} {name}: {st} {info}")
    if st in ('MISSED', 'NOCOMPILE', 'FALSE-ALARM', 'TIMEOUT'):
        bad += 1
print(f"selftest {pid}: " + ' '.join(f"{k}={v}" for k, v in sorted(cnt.items())))
json.dump({'property': pid, 'variants': [{'name': n, 'status': s, 'info': i} for n, s, i in res], 'counts': cnt}, open(f'/verif/evidence/selftest_{pid}.json', 'w'), indent=1)
if bad:
    print(f"SELFTEST-FAIL property={pid} undetected_noncompiling_or_false_alarm={bad}")
    sys.exit(3)
