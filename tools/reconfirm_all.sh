#!/bin/bash
# Re-confirms every seeded mutant against /repo HEAD (demo passes on HEAD; patch applies, builds, suite green, demo fails)
# and runs the static check of its property on the patched copy. Prints one line per seed.
cd /verif/seeded || exit 2
rc=0
for n in $(ls); do
  pkg=$(python3 -c "import json;print(json.load(open('$n/meta.json')).get('demo_package_dir','.'))")
  r=$(/verif/tools/confirm_seed.sh /verif/seeded/$n $pkg 2>&1 | tail -2 | tr '\n' ' ')
  s=$(/verif/tools/run_seeded.sh $n 2>&1 | grep -o 'CAUGHT\|MISSED\|PATCH-FAILED' | head -1)
  echo "$n: $r static=$s"
  case "$r" in *CONFIRMED*) ;; *) rc=1;; esac
  [ "$s" = CAUGHT ] || rc=1
done
exit $rc
