#!/usr/bin/env python3
"""store_seed.py <pid> <srcdir> <name> <pkgdir> <what> <needs> <caught_by>"""
import json, os, shutil, sys
pid, src, name, pkg, what, needs, caught = sys.argv[1:8]
dst = f"/verif/seeded/{name}"
os.makedirs(dst, exist_ok=True)
for f in ("patch.diff", "demo_test.go", "README.md"):
    if os.path.exists(os.path.join(src, f)):
        shutil.copy(os.path.join(src, f), os.path.join(dst, f))
meta = {"property": pid, "what": what, "needs_to_manifest": needs,
        "origin": "independent sub-agent given only the property text and a scratch worktree",
        "confirmed": "tools/confirm_seed.sh: demo passes on HEAD; patch applies, go build ok, suite 267/267, TestMutantDemo fails with the patch",
        "demo_package_dir": pkg, "caught_by": caught,
        "ran": [f"tools/confirm_seed.sh seeded/{name} {pkg}", f"tools/run_seeded.sh {name}"]}
json.dump(meta, open(os.path.join(dst, "meta.json"), "w"), indent=1)
print("stored", dst)
