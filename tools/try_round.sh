#!/bin/bash
# usage: try_round.sh <pid> <round>  — confirms and checks every mutant an agent left under /tmp/wt/<pid>r<round>/MUTANTS
pid=$1; r=$2
for m in /tmp/wt/${pid}r${r}/MUTANTS/m*; do
  [ -f $m/patch.diff ] || continue
  p=$(grep -m1 '^package ' $m/demo_test.go | awk '{print $2}' | sed 's/_test$//')
  case "$p" in genql) pkg=.;; sanitize) pkg=sanitizer;; *) pkg=$p;; esac
  ALSO=1 /verif/tools/try_mutant.sh $pid $m $pkg
done
