#!/bin/bash
# usage: try_refactor.sh <dir with patch.diff>  — applies a behaviour-preserving refactoring to a scratch copy, checks that the
# suite still passes there, and runs ALL properties' static checks: any VIOLATED/UNDECIDED line is a false alarm to triage.
src=$1
export GOFLAGS=-mod=mod GOPROXY=off GOSUMDB=off GOTOOLCHAIN=local; unset GOWORK
d=$(mktemp -d /tmp/tryref.XXXXXX)
cp -r /repo/. $d/ && rm -rf $d/.git
(cd $d && patch -p1 -s < $src/patch.diff) || { echo "$src: PATCH-FAILED"; rm -rf $d; exit 2; }
(cd $d && go build ./... ) || { echo "$src: BUILD-FAILS"; rm -rf $d; exit 2; }
suite=$(/verif/tools/baseline.sh $d | head -1)
out=$(timeout 600 ${GENQLCHECK:-/verif/bin/genqlcheck} -repo $d -property all -no-evidence 2>&1 | grep -E '^(VIOLATED|UNDECIDED|CHECKER PANIC|ERROR)' | sort -u)
if [ -z "$out" ]; then echo "$src: SILENT ($suite)"; else echo "$src: ALARM ($suite)"; echo "$out" | cut -c1-330 | head -12; fi
rm -rf $d
