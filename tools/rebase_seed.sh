#!/bin/bash
# usage: rebase_seed.sh <seed name>  — re-generates seeded/<name>/patch.diff against /repo HEAD using patch(1) with fuzz
n=$1; wt=$(mktemp -d /tmp/rebase.XXXXXX); rmdir $wt
git -C /repo worktree add -q --detach $wt HEAD || exit 2
trap 'git -C /repo worktree remove --force $wt >/dev/null 2>&1' EXIT
cd $wt && patch -p1 -F3 < /verif/seeded/$n/patch.diff || { echo "REBASE-FAILED $n"; exit 1; }
find . -name '*.orig' -delete
git diff > /verif/seeded/$n/patch.diff
python3 - "$n" <<'PY'
import json,sys
p=f"/verif/seeded/{sys.argv[1]}/meta.json"; d=json.load(open(p))
d["note"]=(d.get("note","")+" patch re-generated against a later /repo HEAD (context lines changed by a fix: commit).").strip()
json.dump(d,open(p,"w"),indent=1)
PY
echo "rebased $n"
