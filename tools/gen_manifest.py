#!/usr/bin/env python3
"""Generates /verif/MANIFEST.json from the table below (kept in one place so the manifest is always valid)."""
import json, sys

ENV = "GOFLAGS=-mod=mod GOPROXY=off GOSUMDB=off GOTOOLCHAIN=local GOWORK=off"
SETUP = f"cd /verif/checker && env {ENV} go build -o /verif/bin/genqlcheck ."

# property -> (technique, level text, level note, design ref)
CLAIMED = {}
NOT_APPLICABLE = {}

def claim(pid, technique, text, note, ref):
    CLAIMED[pid] = dict(technique=technique, text=text, note=note, ref=ref)

def na(pid, reason):
    NOT_APPLICABLE[pid] = reason

exec(open('/verif/tools/claims.py').read())

checks = []
for pid in sorted(CLAIMED):
    c = CLAIMED[pid]
    checks.append({
        "property_id": pid,
        "quick_cmd": f"/verif/bin/genqlcheck -repo /repo -verif /verif -property {pid} -tier quick",
        "thorough_cmd": f"/verif/tools/thorough.sh {pid}",
        "evidence_file": f"/verif/evidence/{pid}.json",
        "replay_cmd_template": "/verif/bin/genqlcheck -repo /repo -verif /verif -replay {path}",
        "engine": "genqlcheck",
        "level_claimed": {"category": "other", "text": c["text"], "design_ref": c["ref"]},
        "level_note": c["note"],
        "technique": c["technique"],
    })

manifest = {
    "version": 1,
    "setup_cmd": SETUP,
    "hooks": {
        "guard": "verif",
        "enable": "none needed: the analysis reads /repo's sources; nothing is instrumented (no hook commits)",
        "baseline_off_cmd": "cd /repo && go test -json -vet=off -count=1 -timeout 25m ./...",
        "source_commits": [],
        "add_only": True,
    },
    "engines": [{
        "name": "genqlcheck",
        "path": "/verif/checker",
        "serves_properties": sorted(CLAIMED),
        "kind_free_text": "repo-specific static analyser: go/packages + go/ssa (instantiated generics) + VTA call graph; value-origin terms, path-sensitive abstract walker over finite domains (decision tables), inclusion-based ownership analysis, locksets, error-flow; nothing in genql is executed",
    }],
    "checks": checks,
    "notes": "All claims are at level 'other': each check decides structural necessary conditions of its property over the resolved program, for all inputs; see DESIGN.md sections 0 and 2. Genuine defects of the pinned tree are either repaired by fix: commits in /repo or listed in /verif/known_findings.json.",
    "not_applicable": [{"property_id": k, "reason": v} for k, v in sorted(NOT_APPLICABLE.items())],
}
json.dump(manifest, open('/verif/MANIFEST.json', 'w'), indent=1)
print("claimed", sorted(CLAIMED), "n/a", sorted(NOT_APPLICABLE))
