# Claims table (executed by gen_manifest.py). Keep in step with DESIGN.md.
NOTE = ("Trusted: Go type checker, go/ssa, dominators, VTA over-approximation of dynamic calls, the small reference tables in the checker. "
        "Decides structural necessary conditions for ALL inputs; does not prove the behaviour (value-level clauses are listed as not decided in the evidence).")

claim("C08", "struct-copy correspondence + path enumeration of the nested-array arm (go/ssa)",
      "For every input: the mix top-level function and its callees write only into storage they allocate (ownership analysis); the per-dimension query copy takes each field from the source's same field (WHERE, select list, data, options present), and the []any arm of exec sets copy.from to the inner array, propagates the nested error and appends exactly one nested result. A violated instance breaks C08 for some document; passing does not prove result equality.",
      NOTE, "DESIGN.md 2/C08")

claim("C01", "decision-table extraction over finite abstract domains (sign of Compare, operand truth, operator enum) + per-iteration path counting of the filter loop + term-shape check of the LIKE translation (go/ssa)",
      "For every input: the row filter appends the loop's own row exactly once iff the WHERE predicate is true and returns predicate errors; each of = != < <= > >= returns the reference truth table of sign(compare.Compare(unwrap(Left), unwrap(Right))); IN/NOT IN use the same equality oracle and are complements on the found/exhausted paths; BETWEEN is (c1>=0 && c2<=0)==IsBetween over unwrapped point/from/to; LIKE quotes the pattern before translating exactly % and _, anchored, same case fold; AND/OR/NOT/IS tables over all IsExprOperator constants. A violated row breaks C01 for some table; passing does not prove result equality.",
      NOTE, "DESIGN.md 2/C01")

claim("C05", "guarded-index prover over dominating branch facts (len, not cap) + decision table of the ORDER BY comparator + wiring checks (go/ssa)",
      "For every input: each reslice of the result in exec is proven within len of the very value resliced, OFFSET is applied before LIMIT is clamped, absent LIMIT/OFFSET default to all/0, and no error exit exists in the window code; the comparator's full table (no keys, NULL first/second, sign of Compare, ASC/DESC, tie => same comparator on the remaining keys with the same slice,i,j) equals the reference; Sort/ExecOrderBy/exec wiring and the BuildLimit/BuildOrder field correspondences hold. Does not prove sortedness of concrete outputs (sort.Slice trusted).",
      NOTE, "DESIGN.md 2/C05")
claim("C15", "decision table over order classes + type-lattice check of every conversion on the comparison path, per generic instantiation (go/ssa with instantiated generics)",
      "For every input: every return of Compare/Cmp[T]/compare[T] (all 12+12 instantiations) is in {-1,0,1} or strings.Compare; Cmp[T] is the trichotomy of the two values it compares; both operands are converted exactly (no float->int, signed->unsigned, narrowing) into one comparison type D for all 12x12 (T,S) pairs; dispatch covers all 12 numeric types on both sides with operands in order; text comparisons put the left operand first. Antisymmetry/transitivity follow by argument from these, they are not computed on values.",
      NOTE, "DESIGN.md 2/C15")

claim("C11", "inclusion-based (Andersen-style, field-based, context-insensitive) may-alias / ownership analysis over the whole module: every write site classified by the abstract objects its target may denote (go/ssa + VTA)",
      "For every input and every failure point: no map update, delete, element store, copy, maps.Copy, sort or append-onto-existing-storage site in package genql can target the caller's document (the abstract object seeded at the data parameters of New, Prepare and ExecReader, closed under reachability), except the temporary <- marker when the same function immediately defers the delete of the same key (restored on every exit incl. errors and panics). Over-approximates aliasing; assumes user functions do not mutate their arguments.",
      NOTE, "DESIGN.md 2/C11")

claim("C19", "error-flow analysis: per error-returning call site, path enumeration from the call with the nil branch pruned and classification of every exit (go/ssa), plus nil-result-with-error table of the API functions and ownership/lock-pairing obligations for clean failure",
      "For every call site (309 on this tree) whose callee can return an error, at any depth and for every invocation: the error is propagated on every path where it is non-nil (never discarded, overwritten, tested-then-nil, swallowed by a loop, turned into an unconverted panic, or its value result used before the test); New/Prepare/exec/execAndPostProcess/Exec return a nil result with every error; nothing caller-visible stays modified after a failure (C11's ownership obligations, cache filled after parse, mutex released). Replaces the k-th-invocation quantifier by a per-site argument; ASYNC/SPIN user calls are outside the property.",
      NOTE, "DESIGN.md 2/C19")

claim("C10", "crash-discipline rules over the resolved program: deferred-recover dominance at API entries, recover-handler totality, per-go-statement recover/WaitGroup discipline, explicit-panic placement, CTE re-entrancy guard (path enumeration), marker-copy guard (dominating branch facts), lock pairing (go/ssa + VTA)",
      "For every query, option set and input: New and Exec defer a recover-to-error handler as their first action; no recover handler can re-panic; every go statement's function recovers before anything that can panic and defers WaitGroup.Done (Add precedes go); explicit panics exist only under a synchronous caller's recover; the CTE thunk replaces its own entry before evaluating its body on every path; the star projection cannot copy the <- back-reference; every Lock is released on all paths with nothing panicking in between. Does not decide termination of loops in general.",
      NOTE, "DESIGN.md 2/C10")

claim("C13", "lockset discipline: must-hold mutex dataflow at every access of shared globals and Options.vars, goroutine captured-variable synchronisation (Wait dominance, stores under a lock in loops), escape of per-query state into globals and writes into shared document storage via the ownership analysis (go/ssa + VTA)",
      "For all schedules, as a discipline any race-free implementation must have: every access of a package-level map/slice that is written on the query path is made with the package mutex held on every path (others are written only off the query path); Options.vars reads hold varsMut, writes hold its write lock; a goroutine's stores to captured variables are read by the spawner only after WaitGroup.Wait with a deferred Done, and are under a lock where instances overlap; no Query/Options state can reach a global; no write site can target document storage (not even a restored marker). Schedules are not enumerated.",
      NOTE, "DESIGN.md 2/C13")

claim("C02", "structural operator-table match on the value-origin terms of each dispatch arm (operand order, operator, integer conversions), NULL-propagation guards, per-iteration path counting of the projection loop, key/alias decision table, CASE path table (go/ssa)",
      "For every input: each of the 11 binary operators computes the reference Go operation with the left operand from expr.Left and the right from expr.Right (order free only when commutative), DIV & | ^ << >> on int64 conversions, % as math.Mod; a NULL operand returns NULL before conversion; unary - ~ ! tables; the projection loop appends exactly one projected row (or nested result) per input row and returns projection errors; output keys are the alias when non-empty else the column name, Ommit adds nothing, the output map is per-call; CASE yields the value of the first true WHEN, else ELSE, else NULL; the star copy cannot carry the <- key. Float values themselves are not computed.",
      NOTE, "DESIGN.md 2/C02")

claim("C03", "per-iteration path counting of group formation and HAVING emission, key-map construction/membership-loop completeness, map-iteration-order lint, memo-key dependence, filtered-rows value flow, loop transfer functions of the registered aggregates (go/ssa)",
      "For every input: each row is appended to exactly one group per iteration; the row's key map holds reader(row,k) for every grouping key and membership compares every key (an equal key continues); the output is never appended under a Go map range; the group's map carries its own members and is emitted iff HAVING is true; the aggregate memo key depends on the call, lookup and store agree; the all-aggregate branch and the aggregate evaluator use the filtered rows under \"*\" and COUNT(*) counts them; the functions registered as sum/avg/min/max have the reference per-member transfer (NULL skipped before conversion, acc+number, min keeps smaller, max larger) and result (all-NULL => NULL, avg = acc/count). Numeric values are not computed.",
      NOTE, "DESIGN.md 2/C03")

_pending = "rule set for this property is not implemented yet in this round (see DESIGN.md section 2 for the planned structural rules)"
for p in ["C01","C02","C03","C04","C05","C06","C07","C09","C10","C11","C12","C13","C14","C15","C16","C17","C18","C19","C20"]:
    if p not in CLAIMED:
        na(p, _pending)
