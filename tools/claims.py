# Claims table (executed by gen_manifest.py). Keep in step with DESIGN.md.
NOTE = ("Trusted: Go type checker, go/ssa, dominators, VTA over-approximation of dynamic calls, the small reference tables in the checker. "
        "Decides structural necessary conditions for ALL inputs; does not prove the behaviour (value-level clauses are listed as not decided in the evidence).")

claim("C08", "struct-copy correspondence + path enumeration of the nested-array arm (go/ssa)",
      "For every input: the mix top-level function and its callees write only into storage they allocate (ownership analysis); the per-dimension query copy takes each field from the source's same field (WHERE, select list, data, options present), and the []any arm of exec sets copy.from to the inner array, propagates the nested error and appends exactly one nested result. A violated instance breaks C08 for some document; passing does not prove result equality.",
      NOTE, "DESIGN.md 2/C08")

claim("C01", "decision-table extraction over finite abstract domains (sign of Compare, operand truth, operator enum) + per-iteration path counting of the filter loop + term-shape check of the LIKE translation (go/ssa)",
      "For every input: the row filter appends the loop's own row exactly once iff the WHERE predicate is true and returns predicate errors; each of = != < <= > >= returns the reference truth table of sign(compare.Compare(unwrap(Left), unwrap(Right))); IN/NOT IN use the same equality oracle and are complements on the found/exhausted paths; BETWEEN is (c1>=0 && c2<=0)==IsBetween over unwrapped point/from/to; LIKE quotes the pattern before translating exactly % and _, anchored, same case fold; AND/OR/NOT/IS tables over all IsExprOperator constants. A violated row breaks C01 for some table; passing does not prove result equality.",
      NOTE, "DESIGN.md 2/C01")

claim("C05", "guarded-index prover over dominating branch facts (len, not cap) + decision table of the ORDER BY comparator + wiring checks (go/ssa)",
      "For every input: each reslice of the result in exec is proven within len of the very value resliced, OFFSET is applied before LIMIT is clamped, absent LIMIT/OFFSET default to all/0, and no error exit exists in the window code; the comparator's full table (no keys, NULL first/second, sign of Compare, ASC/DESC, tie => same comparator on the remaining keys with the same slice,i,j) equals the reference; Sort/ExecOrderBy/exec wiring and the BuildLimit/BuildOrder field correspondences hold. Does not prove sortedness of concrete outputs (sort.Slice trusted).",
      NOTE, "DESIGN.md 2/C05")
claim("C15", "decision table over order classes + type-lattice check of every conversion on the comparison path, per generic instantiation (go/ssa with instantiated generics)",
      "For every input: every return of Compare/Cmp[T]/compare[T] (all 12+12 instantiations) is in {-1,0,1} or strings.Compare; Cmp[T] is the trichotomy of the two values it compares; both operands are converted exactly (no float->int, signed->unsigned, narrowing) into one comparison type D for all 12x12 (T,S) pairs; dispatch covers all 12 numeric types on both sides with operands in order; text comparisons put the left operand first. Antisymmetry/transitivity follow by argument from these, they are not computed on values.",
      NOTE, "DESIGN.md 2/C15")

claim("C11", "inclusion-based (Andersen-style, field-based, context-insensitive) may-alias / ownership analysis over the whole module: every write site classified by the abstract objects its target may denote (go/ssa + VTA)",
      "For every input and every failure point: no map update, delete, element store, copy, maps.Copy, sort or append-onto-existing-storage site in package genql can target the caller's document (the abstract object seeded at the data parameters of New, Prepare and ExecReader, closed under reachability), except the temporary <- marker when the same function immediately defers the delete of the same key (restored on every exit incl. errors and panics). Over-approximates aliasing; assumes user functions do not mutate their arguments.",
      NOTE, "DESIGN.md 2/C11")

claim("C19", "error-flow analysis: per error-returning call site, path enumeration from the call with the nil branch pruned and classification of every exit (go/ssa), plus nil-result-with-error table of the API functions and ownership/lock-pairing obligations for clean failure",
      "For every call site (309 on this tree) whose callee can return an error, at any depth and for every invocation: the error is propagated on every path where it is non-nil (never discarded, overwritten, tested-then-nil, swallowed by a loop, turned into an unconverted panic, or its value result used before the test); New/Prepare/exec/execAndPostProcess/Exec return a nil result with every error; nothing caller-visible stays modified after a failure (C11's ownership obligations, cache filled after parse, mutex released). Replaces the k-th-invocation quantifier by a per-site argument; ASYNC/SPIN user calls are outside the property.",
      NOTE, "DESIGN.md 2/C19")

claim("C10", "crash-discipline rules over the resolved program: deferred-recover dominance at API entries, recover-handler totality, per-go-statement recover/WaitGroup discipline, explicit-panic placement, CTE re-entrancy guard (path enumeration), marker-copy guard (dominating branch facts), lock pairing (go/ssa + VTA)",
      "For every query, option set and input: New and Exec defer a recover-to-error handler as their first action; no recover handler can re-panic; every go statement's function recovers before anything that can panic and defers WaitGroup.Done (Add precedes go); explicit panics exist only under a synchronous caller's recover; the CTE thunk replaces its own entry before evaluating its body on every path; the star projection cannot copy the <- back-reference; every Lock is released on all paths with nothing panicking in between. Does not decide termination of loops in general.",
      NOTE, "DESIGN.md 2/C10")

claim("C13", "lockset discipline: must-hold mutex dataflow at every access of shared globals and Options.vars, goroutine captured-variable synchronisation (Wait dominance, stores under a lock in loops), escape of per-query state into globals and writes into shared document storage via the ownership analysis (go/ssa + VTA)",
      "For all schedules, as a discipline any race-free implementation must have: every access of a package-level map/slice that is written on the query path is made with the package mutex held on every path (others are written only off the query path); Options.vars reads hold varsMut, writes hold its write lock; a goroutine's stores to captured variables are read by the spawner only after WaitGroup.Wait with a deferred Done, and are under a lock where instances overlap; no Query/Options state can reach a global; no write site can target document storage (not even a restored marker). Schedules are not enumerated.",
      NOTE, "DESIGN.md 2/C13")

claim("C02", "structural operator-table match on the value-origin terms of each dispatch arm (operand order, operator, integer conversions), NULL-propagation guards, per-iteration path counting of the projection loop, key/alias decision table, CASE path table (go/ssa)",
      "For every input: each of the 11 binary operators computes the reference Go operation with the left operand from expr.Left and the right from expr.Right (order free only when commutative), DIV & | ^ << >> on int64 conversions, % as math.Mod; a NULL operand returns NULL before conversion; unary - ~ ! tables; the projection loop appends exactly one projected row (or nested result) per input row and returns projection errors; output keys are the alias when non-empty else the column name, Ommit adds nothing, the output map is per-call; CASE yields the value of the first true WHEN, else ELSE, else NULL; the star copy cannot carry the <- key. Float values themselves are not computed.",
      NOTE, "DESIGN.md 2/C02")

claim("C03", "per-iteration path counting of group formation and HAVING emission, key-map construction/membership-loop completeness, map-iteration-order lint, memo-key dependence, filtered-rows value flow, loop transfer functions of the registered aggregates (go/ssa)",
      "For every input: each row is appended to exactly one group per iteration; the row's key map holds reader(row,k) for every grouping key and membership compares every key (an equal key continues); the output is never appended under a Go map range; the group's map carries its own members and is emitted iff HAVING is true; the aggregate memo key depends on the call, lookup and store agree; the all-aggregate branch and the aggregate evaluator use the filtered rows under \"*\" and COUNT(*) counts them; the functions registered as sum/avg/min/max have the reference per-member transfer (NULL skipped before conversion, acc+number, min keeps smaller, max larger) and result (all-NULL => NULL, avg = acc/count). Numeric values are not computed.",
      NOTE, "DESIGN.md 2/C03")

claim("C06", "AST-field def-use of *sqlparser.Union, success-path effect order of the union builder, zero-iteration path of the all-aggregate classifier, per-iteration path counting of duplicate elimination, stage wiring (go/ssa + VTA)",
      "For every input: the union builder reads Left, Right, Distinct, Limit and With; on its success path the source rows are append(append(fresh, rows of Left...), rows of Right...), query.distinct comes from the statement, the select list is a whole-row projection and the LIMIT is applied; no unchecked assertion touches a branch and nested unions recurse through the dispatch; an empty select list is never all-aggregate; duplicate elimination records exactly the whole-row fingerprint it looked up and appends the row once iff unseen, returns rows untouched when DISTINCT is off, and runs on the projection's output. Fingerprint collisions are value-level and not decided.",
      NOTE, "DESIGN.md 2/C06")

claim("C04", "decision tables of the two matchers (ON result, matched flag, join type, bucket presence), no-reordering flow of the key columns via the write-site inventory, strategy table of (*Join).Exec, type-switch table of the equi-join analysis, sibling cross-check of the side swap, lock/wait discipline of the PARALLEL variants (go/ssa + VTA)",
      "For every pair of tables: the nested-loop matcher emits rows for a key pair only when ON is true and NULL-pads a left key exactly when no partner was found and the join is not INNER; the hash matcher processes a bucket iff present on the right or not INNER, padding only for an empty right bucket; join columns reach the key loop in ON order on both sides (no sort/reorder); the hash matcher is selected only when the equi-join analysis accepted ON, and that analysis accepts only AND-trees of equalities; Join() and HashJoin() swap rows and identifiers together iff not a left join and build catalogs in the same orientation; PARALLEL goroutines write shared state under the mutex and are awaited. Multiset equality on concrete tables is not computed.",
      NOTE, "DESIGN.md 2/C04")

claim("C14", "effect-order and path tables of the strategy dispatch per qualifier (finite-domain atoms for qualifier, immediate flag, memo hit), must-pass-through of wg.Wait before post-processors, slot round-trip binding check, nested wait-group chaining, goroutine discipline shared with C10/C13 (go/ssa + VTA)",
      "For all schedules, structurally: execAndPostProcess waits for query.wg before any post-processor and Exec only goes through it; per qualifier the dispatch rejects immediate functions before evaluating arguments or spawning, evaluates arguments on the query goroutine, invokes the user function exactly once inside one goroutine, counts ASYNC and SPINASYNC (not SPIN) in query.wg before the go statement with a deferred Done, returns the written slot's address (ASYNC) or Ommit (SPIN/SPINASYNC); ONCE calls nothing on a hit and stores under the looked-up key on a miss, never memoising a failure; unqualified calls are made once inline; the projection registers a post-processor bound to the same key and map for every *any value; nested executions chain their wait group and hand over post-processors. Value equality under latencies is not decided.",
      NOTE, "DESIGN.md 2/C14")
claim("C20", "register-cell path tables of the functions registered as setvar/getvar, store inventory of Options.vars, must-hold lock dataflow, registration and loop-shape checks for evaluation order (go/ssa)",
      "For all histories, structurally: setvar performs exactly one update vars[text(args[0])] = args[1] under the write lock and returns Ommit; getvar reads vars[text(args[0])] under a lock and returns the value or NULL when absent, never writing; the only store to Options.vars is the caller's own map (WithVars), so the caller and later queries observe the writes; both functions are registered immediate (qualifiers rejected), and arguments, select items and rows are evaluated by in-order slice loops without goroutines. Concrete histories are not enumerated.",
      NOTE, "DESIGN.md 2/C20")

claim("C18", "per registered name (resolved from the init registration calls): arity-guard dominance for every constant argument read, guard decision table, writer/reader table agreement of encode/decode and of hash labels vs constructors, two-sided guarded-index proofs, path tables of the selection functions, dependence check of daterange (go/ssa)",
      "For all argument values and arities: every args[k] read is dominated by Guard(n>k) or a length test and fixed-arity functions guard first; Guard errs iff len != n; encode and decode switch over the same bases and use the same encoding object and gob wrapper per base, unknown bases fail; each hash label uses the constructor of the package it names and returns hex(Sum(nil)) of the fed bytes with no time/random dependence; first/last/elementat read the reference element under proven two-sided bounds and handle out-of-range (NULL / error); unwind spreads exactly one level, array returns its args, concat writes each argument once in order; if, to_lower/to_upper, changetype, constant and daterange have the reference tables. Round-trip values themselves are library behaviour and not computed.",
      NOTE, "DESIGN.md 2/C18")

claim("C16", "writer/reader table agreement between sanitizer.QuoteString / the placeholder lexer and the string scanners of the sqlparser tokenizer that genql.Parse calls (constants extracted from both sides' SSA), two-sided guarded-index proof, per-arm producer table and accounting paths of Sanitize (go/ssa)",
      "For every argument string: every character the consuming tokenizer treats as special inside a quoted literal (extracted from scanString/scanStringSlow: the delimiter and backslash) is replaced by a two-character escape in QuoteString and the result is wrapped in quotes; the placeholder lexer has a dedicated state for every construct in which the tokenizer sees no placeholder (' \" ` -- # /*) and its string states consume backslash escapes; args[i] and argUse[i] are proven within 0 <= i < len (so $0 is an error); each argument type is rendered by its quoting/formatting function, the used-mark is set at the substituted index and an unused argument is an error. That the substituted text parses to the same statement shape is not computed.",
      NOTE, "DESIGN.md 2/C16")

claim("C09", "totality rules over every function reachable from ExecReader (call graph without thunk calls): comma-ok dominance for type assertions, two-sided guarded-index/slice prover with len facts, transitivity, known array lengths, library facts and non-nullable selector patterns (regexp/syntax on the constant patterns as data); ownership analysis for read-only; lock pairing; sibling check of the thunk arms (go/ssa + VTA)",
      "For every document and selector string: no function reachable from ExecReader contains a type assertion, index or slice expression that can panic (each is proven from dominating guards), so a step applied to a wrong shape or an index/bound outside the array yields an error; no write site on that path can target the document; the selector cache mutex is released on every path; every selector-kind arm resolves lazy CTE thunks and re-dispatches the same selectors. Agreement of the evaluation with the documented grammar (values computed by regexp tokenisation, e.g. the data[keep=>…] split) is NOT decided.",
      NOTE, "DESIGN.md 2/C09")

claim("C12", "type-flow / sink rules: arm table of the unwrapper, def-use walk from every call of the expression dispatcher to container sinks, dominance of the engine-marker tests over the item store, inventory of order-sensitive map iterations and time/random sources reachable from New/Exec, slot round-trip and marker-copy rules shared with C14/C10 (go/ssa + VTA)",
      "For every query: the unwrapper resolves ColumnName, NeutalString and *float64 and no return boxes a wrapper-typed value; no raw result of Expr is appended to a slice or stored in a map without passing through ValueOf; the item store is unreachable for Ommit and Fuse values; every *any slot gets a post-processor bound to its key and map; the <- key cannot be copied into an output row; every loop over a Go map that feeds an order-sensitive sink is one of the enumerated allowed sites (row order of joins, guarded single-entry reads), time is read only by TIMESTAMP and no random source is used. JSON-representability of user-function values and equality of repeated runs on concrete inputs are not decided.",
      NOTE, "DESIGN.md 2/C12")

claim("C07", "structural conditions of the composed path only: scope-argument path tables of the subquery/EXISTS evaluators, CTE thunk memo and re-entrancy paths, arm table of the FROM builder, alias wrapper shape, sibling check of the thunk arms of Reader, nested wait/post-processor hand-over, shared Options pointer (go/ssa)",
      "The property itself (composed query == staged evaluation) is a relation between two executions and is NOT decided. Decided, for every input: a row-scoped subquery/EXISTS is prepared over the current row made navigable with the enclosing options, executed, and its rows returned unchanged (EXISTS = len(rows) > 0); the CTE thunk prepares its own subquery with the enclosing options, runs it to completion, stores the rows under its own key and guards re-entry; CTE, derived-table and plain sources all pass AsArray and the alias wrapper, which is the identity without alias and {alias: row i} at position i otherwise; every selector-kind arm resolves thunks and re-dispatches the same selectors; nested executions hand over post-processors and chain wait groups; nested statements share the enclosing Options.",
      NOTE, "DESIGN.md 2/C07")
claim("C17", "thin structural conditions: case inventory of the two byte scanners vs the three quote kinds, dominance of the bracket tests by the no-open-quote test and of the backtick writes by the double-quote arm, constant-folded length accounting of the bracket rewriter, option/rewrite/parse order table of New over the 8 option combinations (go/ssa)",
      "The property itself (option + alternative spelling == canonical spelling, over all queries and quote interleavings) is a statement about values two hand-written byte scanners compute and is NOT decided. Decided: both scanners have cases for ' \" ` and backslash; backticks are written only inside the double-quote arm; brackets are recognised only while no quote is open; the offset added per rewritten pair equals bytes inserted before the content minus the removed bracket and the closing replacement has the bracket's length; New applies each rewrite only under its option, quotes before arrays, both before Parse, parses exactly the rewritten text, and Wrapped makes q.data a fresh single-entry map {root: data}.",
      NOTE, "DESIGN.md 2/C17")

# Additions of the second mutation round (appended to the decided-text of each claim).
EXTRA = {
 "C01": " Round 2: the expression dispatcher routes every AST node type to the evaluator of that type and forwards its results (expr.dispatch); literals yield the parse of their own text (literal.table); the statement dispatch and the exec stage pipeline are complete on every success path; the clause-definition fields of Query are written only by their builder, the constructors and CopyQuery (def.writers); kept rows are collected in storage made by the call (exec.kept-fresh); the selector cache is keyed by the text it parses (c09.cache-key); collection-size thresholds beyond the unrolling bound are reported as undecided (size.threshold).",
 "C02": " Round 2: expr.dispatch, literal.table, exec.kept-fresh, c09.cache-key and size.threshold as for C01; the star copy stores every entry except `<-` under its own key (c02.star-all-keys); the unwrapper's number-pointer arm tests nil before the dereference (c12.unwrap-table); every return of CASE is an evaluated branch or an error.",
 "C03": " Round 2: aggregate arguments are read from the member rows under \"*\" by the column's own name (c03.arg-reader); the one-row whole-table branch is dominated by the absence of GROUP BY (c03.one-row-only-ungrouped); exec.kept-fresh, c09.cache-key, exec.pipeline.",
 "C04": " Round 2: every success return of (*Join).Exec/Join/HashJoin/StraightJoin forwards a matcher's results applied to (catalog of left, catalog of right) (c04.entry-matcher); the ON comparison table and the value ordering (c01.cmp-table, C15 family) are checked for C04 as well.",
 "C05": " Round 2: Sort sorts on every path; the C15 value-ordering rules and the unwrapper's NULL handling are checked for C05 as well; def.writers for limit/offset/orderBy.",
 "C06": " Round 2: every completing iteration of duplicate elimination consults the seen set; def.writers (a branch helper cannot assign the union's LIMIT/DISTINCT); exec.pipeline.",
 "C07": " Round 2: every nested row of EXISTS is merged into a map made inside the loop (c07.exists-fresh-row); the CTE guard stays installed during every evaluating call.",
 "C08": " Round 2: every field of Query is carried into the per-dimension copy or is an enumerated per-copy reset; MixArray appends exactly once per element (array => spread of its own flattening, other => itself, no further condition); AsArray returns a []any source as it is; exec.kept-fresh.",
 "C09": " Round 2: every error-returning call site inside selector.go propagates its error on every path (c09.errors-propagate); the cache is filled only after a complete successful parse.",
 "C10": " Round 2: the CTE entry holds a failing guard during every call that can evaluate the body (not only before the first).",
 "C12": " Round 2: (*Query).exec is called only by the enumerated by-reference sites (c12.exec-callers); lazy CTE thunks are excluded from the star copy and evaluated by the unwrapper, a document read as a value passes through PlainDocument, and no item is stored under `<-` (c12.thunk-resolved, c12.plain-document, c12.marker-key, c12.marker-value); selector cache discipline (c09.cache-key, cache-after-parse).",
 "C14": " Round 2: c12.exec-callers (rows with unresolved slots are not copied by value).",
}
for _p, _t in EXTRA.items():
    if _p in CLAIMED:
        CLAIMED[_p]["text"] += _t

# Additions after the defect hunt on the unchanged tree (DESIGN.md 5.1): each names the rule that now reports the repaired defect.
EXTRA2 = {
 "C01": " After the defect hunt: the LIKE wildcards match every character incl. the line feed (s flag); IN and NOT IN both read the single column of a subquery row; every component of a dotted column reference reaches the selector (c02.column-name-complete); number against string uses the decimal text (c15.decimal-text).",
 "C02": " After the defect hunt: a CASE condition is unwrapped (a bare boolean column is legal) and NULL-guarded; three-part column references keep their first part; the memoised CTE stays a CTE entry (the star of `dual` never gains a column).",
 "C03": " After the defect hunt: each grouping value is stored along the path its name is read through (c03.group-row-addressable: `GROUP BY a.g` on an aliased table).",
 "C04": " After the defect hunt: every kind of join side carries its identifier (c04.side-ident); a bucket-key component is self-delimiting (length prefix; c04.key-encoding).",
 "C05": " After the defect hunt: the union builder consumes Union.OrderBy and calls BuildOrder; DISTINCT/ORDER BY run on resolved ASYNC values (c14.resolve-before-compare).",
 "C06": " After the defect hunt: the fingerprint format is the injective Go-syntax verb; a union branch keeps its own WITH (c06.branch-with); Union.OrderBy is consumed; c14.resolve-before-compare.",
 "C07": " After the defect hunt: in EXISTS the element's entries are written after the outer row's (inner scope hides outer); NOT IN over a subquery reads the row's column; a top-level selector function never receives an unevaluated thunk; the memoised CTE stays a thunk; a derived table keeps its identifier as a join side; union branches keep their WITH.",
 "C08": " After the defect hunt: the alias wrapper recurses into inner arrays (c08.alias-nesting).",
 "C09": " After the defect hunt: `=>` is a function arrow only after an identifier; `::` splits only outside quotes; `{k|string}` keeps NULL and converts numbers with FormatFloat('f', -1); a selector function is applied to the evaluated CTE.",
 "C10": " After the defect hunt: an object a FROM path resolves to becomes a row only through PlainDocument (no cyclic document, no stack overflow); the parallel nested-loop matcher runs only under isParallelSafe (no concurrent map write).",
 "C12": " After the defect hunt: the memoised CTE stays a thunk; join sides hand over post-processors and wait groups; the enclosing document is a FROM row only as plain data. Recorded, not repaired: join row order under a LIMIT window (c12.join-order-window, known finding).",
 "C13": " After the defect hunt: c13.parallel-guard; join sides adopted; failing nested queries wait; AWAIT waits.",
 "C14": " After the defect hunt: DISTINCT/ORDER BY only after the outstanding calls are awaited and resolved; join sides adopted; the failure path of exec and of nested queries waits; the AWAIT post-processor waits for what its argument launched.",
 "C15": " After the defect hunt: textual comparisons use text(v): floats by FormatFloat('f', -1) (c15.decimal-text).",
 "C16": " After the defect hunt: the lexer and the tokenizer agree on where a comment is (terminators extracted from both sides, `//`, `--` before white space, no nesting), the end of input is a zero-width decode, placeholder numbers are bounded, floats are rendered only when finite (c16.lexer-tokenizer).",
 "C17": " After the defect hunt: input bytes are written as bytes; a backtick inside a double-quoted identifier is doubled; the bracket locator skips after a backslash only inside a non-backtick quote; an open quote is closed only by the same quote character.",
 "C18": " After the defect hunt: TextOf renders floats without an exponent and ToInt parses it; ELEMENTAT of an empty array is NULL; the gob type id of the hash preimage is fixed at init and arrays are hashed element-wise; IF tests the condition pointer for nil. Recorded, not repaired: CONCAT renders NULL as <nil> (pinned by the suite).",
}
for _p, _t in EXTRA2.items():
    if _p in CLAIMED:
        CLAIMED[_p]["text"] += _t

EXTRA3 = {
 "C01": " After mutation round 3: a subquery's value is the nested result itself, also when it is empty (c07.scope-arg); every selector pattern takes any run of word characters as one token (c09.word-token).",
 "C02": " After mutation round 3: every selector pattern takes any run of word characters as one token (c09.word-token: keys that start with a digit); every aliased select item is evaluated on every round (c02.item-always-evaluated); BuildLiteral hands back the node's own kind and text.",
 "C04": " After mutation round 3: a value stored into the selector cache is complete when stored (shared.publish-complete); a record with its own mutex is written only under it wherever goroutines run (c13.record-locks).",
 "C05": " After mutation round 3: the comparator treats (a, b) and (b, a) alike (c15.symmetric-dispatch, numeric arm forwards the operands as they are).",
 "C06": " After mutation round 3: the WITH of a union reaches every branch unconditionally (no guard other than the type switch in front of SetWith).",
 "C07": " After mutation round 3: the copy of the nested element in EXISTS is unconditional too; a WITH registers into a map made by that very call (c07.registry-fresh); a resolved thunk's result is re-dispatched as it is; every recogniser of a lazy CTE names the type it is stored under (thunk.type-agree).",
 "C08": " After mutation round 3: a nil inner result is replaced by an empty array before it enters the output (c08.inner-array-nonnull); thunk.type-agree.",
 "C09": " After mutation round 3: c09.word-token; shared.publish-complete; the dimension walk is decided in its recursive and in its loop form.",
 "C10": " After mutation round 3: no goroutine started in a loop blocks on a channel of constant capacity (c10.bounded-send); the recover handler is deferred first on every path, also behind a conditional defer.",
 "C11": " After mutation round 3: c07.registry-fresh (the caller's map never gains CTE entries, also under Wrapped()).",
 "C12": " After mutation round 3: PlainDocument returns the document itself only after a complete scan; the comparator is symmetric in its operands (ORDER BY is deterministic over a join); parsed selectors in the cache are never written (c09.parsed-immutable); thunk.type-agree.",
 "C13": " After mutation round 3: no *Options can be reached from a package-level variable; shared.publish-complete; c13.record-locks.",
 "C14": " After mutation round 3: the post-processors exec runs ahead of DISTINCT/ORDER BY are removed from the list before it returns (run once); every aliased select item is evaluated on every round.",
 "C15": " After mutation round 3: the numeric arm of compare forwards both operands as they are (no parsing of strings on one side only); the join key text is the %v text (c04.key-encoding); the rules also decide the helper written without type parameters.",
 "C16": " After mutation round 3: a prepared Command is only read by its methods (c16.command-immutable); the bracket locator pairs every backslash inside a string literal with the next byte (its rules are part of the round trip under IdomaticArrays).",
 "C17": " After mutation round 3: the escape skip of the bracket locator does not depend on the byte that follows; c07.registry-fresh.",
 "C19": " After mutation round 3: RAISE and a firing RAISE_WHEN end with a non-nil error on every path (c19.raise-fails: the error comes from a constructor or a module function all of whose returns are non-nil errors); an error kept in a shared record's field is returned by some function of the module.",
 "C20": " After mutation round 3: every aliased select item is evaluated on every round, in its place (c02.item-always-evaluated).",
}
for _p, _t in EXTRA3.items():
    if _p in CLAIMED:
        CLAIMED[_p]["text"] += _t

EXTRA4 = {
 "C01": " After mutation round 4: every field of Query is carried into the per-dimension copy or is an enumerated reset (c08.copy-fields); the selector's step dispatch (c09.step-dispatch); the stages append onto storage of their own (stage.kept-fresh).",
 "C02": " After mutation round 4: c08.copy-fields, c09.step-dispatch, stage.kept-fresh; nested statements are prepared over the data as it is (c17.prepare-data).",
 "C03": " After mutation round 4: stage.kept-fresh.",
 "C04": " After mutation round 4: BuildJoin builds the left operand first and the right second, and every success path runs the join executor and keeps its rows (c04.build-join); the key text is the decimal text of the value (TextOf) — the %v text was a defect of the pinned tree (fixed: 8502fd2); c09.cache-key.",
 "C05": " After mutation round 4: the selector cache is keyed by the exact text (c09.cache-key).",
 "C06": " After mutation round 4: only execAndPostProcess callers run a union branch (c12.exec-callers); c09.cache-key; stage.kept-fresh.",
 "C07": " After mutation round 4: the scan and the stage chain of exec (exec.pipeline, exec.kept-fresh, stage.kept-fresh: a CTE read twice is not overwritten by its first reader); c08.copy-fields; c17.prepare-data; c09.cache-key.",
 "C09": " After mutation round 4: a column reference goes through the selector reader, never through a literal-key shortcut (c12.unwrap-table).",
 "C12": " After mutation round 4: immediate functions are refused under ASYNC/SPIN whatever the spelling (c14.immediate-registry); pending post-processors are dropped only behind the loop that runs them (c14.drain-after-run); no state between the query text and the parsed statement (parse.pure).",
 "C13": " After mutation round 4: parse.pure; c18.pure (built-ins keep no package-level state).",
 "C14": " After mutation round 4: c14.drain-after-run; c18.pure; c12.exec-callers; exec.pipeline.",
 "C15": " After mutation round 4: the join key text is TextOf (fixed defect 8502fd2).",
 "C16": " After mutation round 4: parse.pure (no statement or rewrite cache keyed by the text or a normalised form of it).",
 "C17": " After mutation round 4: parse.pure.",
 "C20": " After mutation round 4: every row is projected before the window is cut (exec.pipeline); a join builds its left operand first (c04.build-join).",
}
for _p, _t in EXTRA4.items():
    if _p in CLAIMED:
        CLAIMED[_p]["text"] += _t

EXTRA5 = {
 "C01": " After the second defect hunt: LIKE / NOT LIKE match a number by its decimal text (c01.like-escape/decimal-text, fixed defect 7743328).",
 "C02": " After the second defect hunt: DIV is Trunc(L / R) of the doubles — the reference no longer repeats the tree's formula (c02.arith-table, fixed defect 50d25e1); every builder of a column name (found by its reads of ColName.Qualifier, including the join's own column reader) keeps the outer qualifier (c02.column-name-complete, fixed defect 9662b22).",
 "C03": " After the second defect hunt: the path writer of the group emission takes its keys from the selector parser and stores under the raw text of a name only on a condition that comes from the parser (c03.group-row-addressable, fixed defect de59be0); known finding: a grouping column with an index step reads NULL in the output row (c03.group-row-addressable @ SetPath/non-key-step).",
 "C04": " After the second defect hunt: c02.column-name-complete on the join's column reader (three-part column in ON).",
 "C05": " After the second defect hunt: two NULL values of a key tie and the remaining keys decide, in both forms of the comparator (c05.less-table, fixed defect d01275e).",
 "C09": " After the second defect hunt: {k|number} leaves a missing key NULL (c09.pipe-number, fixed defect b3a27dd); known finding: the flatten depth of a bracket group counts written dimensions (c09.dimension-walk @ SelectMany/flatten-depth).",
 "C18": " After the second defect hunt: CONSTANT and DATERANGE render numbers through TextOf (c18.select-contracts, fixed defects a565626, c89a2cd).",
}
for _p, _t in EXTRA5.items():
    if _p in CLAIMED:
        CLAIMED[_p]["text"] += _t

EXTRA6 = {
 "C01": " After mutation round 5: IN / NOT IN lists hold plain values (c12.sink-unwrapped); the option rewriters keep their quote states (c17.quote-states, c17.termination-byte, c17.option-order, c17.escape-skip, c17.byte-copy); a selector text is never a literal key of the row (c09.no-literal-shortcut); every numeric kind is a number for Compare (c15.symmetric-dispatch).",
 "C02": " After mutation round 5: c09.no-literal-shortcut; the option rewriters (c17.*).",
 "C03": " After mutation round 5: c15.symmetric-dispatch (HAVING compares COUNT results, Go ints, as numbers).",
 "C04": " After mutation round 5: the sides of a join come from the FROM builder and its alias wrapper on rows of their own (c07.from-arms, c07.alias); the key text is the decimal text at any magnitude (c18.text-of).",
 "C05": " After mutation round 5: an empty window is an empty row sequence — no (nil, nil) exit of exec outside the FROM-less arm (c05.window/empty-window-shape).",
 "C06": " After mutation round 5: with DISTINCT no path of the duplicate elimination returns its rows unexamined (c06.distinct-first).",
 "C07": " After mutation round 5: the memo is stored into the very registry the CTE was registered in, and nothing deferred by the thunk writes that registry (c07.cte-memo; closure factories followed).",
 "C09": " After mutation round 5: c09.no-literal-shortcut; option order and the bracket scanner's quote states (c17.option-order, c17.quote-states).",
 "C10": " After mutation round 5: a goroutine counted with wg.Add signals Done (c10.go-closure/done-after-add); what isParallelSafe admits writes no query state (c13.parallel-evaluators).",
 "C12": " After mutation round 5: c18.pure, c14.resolve-before-compare, c08.copy-fields.",
 "C13": " After mutation round 5: c13.parallel-evaluators.",
 "C14": " After mutation round 5: c07.cte-memo (a CTE body's calls run once); c10.go-closure incl. done-after-add.",
 "C15": " After mutation round 5: c12.sink-unwrapped, c18.text-of.",
 "C16": " After mutation round 5: a literal node is evaluated by the literal evaluator, not served from a memo keyed by its bare text (expr.dispatch); the quote rewriter copies bytes (c17.byte-copy and siblings).",
 "C18": " After mutation round 5: the error of a built-in leaves FunExpr as an error with or without a handler (c19.no-drop).",
 "C20": " After mutation round 5: c07.cte-memo (SETVAR in a CTE body runs once).",
}
for _p, _t in EXTRA6.items():
    if _p in CLAIMED:
        CLAIMED[_p]["text"] += _t

EXTRA7 = {
 "C01": " After the third defect hunt: the FROM-less arm of exec evaluates WHERE (exec.dual-where, fixed defect b47772a); IN / NOT IN take the only column of a subquery row only from a row known to have one (c12.arbitrary-entry, fixed defect 2085080).",
 "C03": " After the third defect hunt: HAVING without grouping columns is refused, never skipped (build.having-needs-group, fixed defect 64be30c).",
 "C10": " After the third defect hunt: Prepare recovers like New (c10.entry-recover, fixed defect f5ef079); a lazy CTE entry read as a join key is evaluated while the catalog is built (c13.catalog-resolves-thunks, fixed defect 9a98085); a strategy goroutine gets a snapshot of its row (c13.goroutine-row-snapshot, fixed defect 7104f51).",
 "C12": " After the third defect hunt: only execAndPostProcess and EXISTS call exec(); whoever reads or keeps nested rows runs the nested query to completion (c12.exec-callers restated, fixed defect b551faf); post-processors of an execution leave the list when it returns (c14.drain-after-run/run-once, fixed defect 6fdefe6); c12.arbitrary-entry; colliding key forms under a map range (c12.determinism, fixed defect 407c159).",
 "C13": " After the third defect hunt: c14.drain-after-run/run-once; failure exits behind a nested exec await its calls (c14.nested-failure-waits, c14.await-waits, fixed defect c9d5b63); c13.catalog-resolves-thunks; c13.goroutine-row-snapshot.",
 "C14": " After the third defect hunt: c14.drain-after-run/run-once (a Query executed again made 3, 6, 9 calls); c12.exec-callers (an ASYNC column of a derived table was read before delivery); c14.nested-failure-waits and c14.await-waits on failure paths.",
 "C16": " After the third defect hunt: inside double quotes the quote rewriter pairs escapes as the placeholder lexer does (c17.dq-escapes, fixed defect 860a4ce: an argument could close an identifier of the template under PostgresEscapingDialect); the rewriters skip comments (c17.comment-states, fixed defect 7a8cecb); an integer argument is rendered only when a float64 holds it exactly (c16.lexer-tokenizer/int-exact, fixed defect 165e681).",
 "C17": " After the third defect hunt: c17.dq-escapes; c17.comment-states.",
 "C19": " After the third defect hunt: a failed CTE evaluation puts the unevaluated entry back (c07.cte-memo/failure-restores, fixed defect 4418c6e); exec.dual-where; build.having-needs-group.",
 "C20": " After the third defect hunt: a register is named by the decimal text of the key, TextOf (c20.cell, fixed defect 4b88a8c).",
}
for _p, _t in EXTRA7.items():
    if _p in CLAIMED:
        CLAIMED[_p]["text"] += _t

EXTRA8 = {
 "C01": " Round 7: an empty list is a list -- no failure exit of the IN / NOT IN arms depends on the asserted right side being nil or empty (c01.in-siblings/empty-list); every strconv conversion of the module is the exact one (num.strconv-exact: constant base 10, bit size of the value's type).",
 "C02": " Round 7: an unaliased item is keyed by the parser's own name of the item, not by a name rebuilt from the parts of the reference (c02.keys); Cmp[T] is the trichotomy of the two values for the comparisons of CASE WHEN as well (c15.trichotomy); num.strconv-exact.",
 "C04": " Round 7: the textual form writes the value itself, not a rounded or recomputed number (c18.text-of), so the join keys tell apart what Compare tells apart; num.strconv-exact; digits formatted into a local scratch array and copied by Write count as the length prefix they are.",
 "C05": " Round 7: OFFSET is applied whether or not there is a LIMIT -- the offset reslice is not control-dependent on limitDefinition unless every writer of offsetDefinition also stores the row count on each of its success exits (c05.window/offset-unconditional, a condition over two functions); num.strconv-exact.",
 "C06": " Round 7: the error discipline of C19 inside the union builder and the branch executor (c06.branch-errors): a failing branch is never taken for a branch without rows.",
 "C07": " Round 7: the name of a CTE wins over an entry of the enclosing registry -- no unconditional copy into the registry can run after a registration (c07.registry-fresh/wins-over-copied-entries).",
 "C09": " Round 7: num.strconv-exact ({k|string} writes a float64 with bit size 64; index literals are parsed in base 10).",
 "C13": " Round 7: no goroutine started in a loop performs a blocking send on a channel of constant capacity (c10.bounded-send: the second failing key of a PARALLEL join would block before Done).",
 "C15": " Round 7: num.strconv-exact; c18.text-of writes the value itself.",
 "C16": " Round 7: num.strconv-exact (integer literals and arguments in base 10, floats with bit size 64).",
 "C18": " Round 7: num.strconv-exact (CHANGETYPE(..., 'integer') parses base 10: '00120' is 120, '0x1F' is refused); c18.text-of writes the value itself.",
 "C19": " Round 7: an error stored into a captured variable by a callback (a sort comparator) or by a closure created in a loop is stored only when it is non-nil -- otherwise the nil of a later run overwrites an earlier failure (c19.no-drop, status `overwritten`); an error stored through a *error out-parameter is handed to the caller.",
 "C20": " Round 7: the argument list of a call is storage made by that call (c18.arg-reader: SETVAR('b', GETVAR('a')) keeps its own first argument); a NULL arithmetic result stored by SETVAR is the untyped NULL (c12.unwrap-table); num.strconv-exact.",
}
for _p, _t in EXTRA8.items():
    if _p in CLAIMED:
        CLAIMED[_p]["text"] += _t

EXTRA9 = {
 "C02": " Round 8: unary minus is -x or -1*x, not 0-x (which loses the sign of zero; the reference table had accepted it); a table aliased to its own name is still wrapped under the alias (c07.from-arms).",
 "C03": " Round 8: inside the loop over the grouping keys the key-map store depends on nothing but the loop's own test and the reader's error (c03.key-equality/every-key-stored: a NULL key is a key).",
 "C05": " Round 8: c06.union-clauses-last (a LIMIT on a union applies to the combined result).",
 "C06": " Round 8: `no rows` is answered only for a branch whose result is nil -- the object a FROM-less branch hands over is a row (c06.branch-exec); the functions that run a branch read the union's LIMIT/OFFSET/ORDER BY only if the builder stores them after both branches ran (c06.union-clauses-last, a condition over two functions: either half of the seeded change alone is silent).",
 "C07": " Round 8: a copy of the enclosing registry made by a deferred closure of the CTE builder runs after the registrations and is refused like one placed after the loop (c07.registry-fresh/wins-over-copied-entries); PlainDocument hands out the document itself only after looking at all of its entries (c12.plain-document); the goroutine that chains a nested query waits for the nested group and signals the enclosing one, not the reverse.",
 "C09": " Round 8: the `each` test (index == -1) is made under the INDEX arm of the kind dispatch, or no RANGE selector is built with a value in its index field (c09.each-only-for-index, a condition over two functions).",
}
for _p, _t in EXTRA9.items():
    if _p in CLAIMED:
        CLAIMED[_p]["text"] += _t

_pending = "rule set for this property is not implemented yet in this round (see DESIGN.md section 2 for the planned structural rules)"
for p in ["C01","C02","C03","C04","C05","C06","C07","C09","C10","C11","C12","C13","C14","C15","C16","C17","C18","C19","C20"]:
    if p not in CLAIMED:
        na(p, _pending)
