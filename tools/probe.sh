#!/bin/bash
# usage: probe.sh <pid> <file> <name>  (stdin: OLD\n====\nNEW) — one line: does the suite still pass, does the check of <pid> report the edit (static; GENQLCHECK=… selects the binary)
pid=$1; f=$2; name=$3
out=$(SUITE=1 python3 /verif/tools/try_edit.py $pid $f 2>&1)
suite=$(echo "$out" | grep -c '^ok  .*genql\s')
verdict=$(echo "$out" | grep -E '^(CAUGHT|MISSED|BUILD-FAILS)' | head -1)
[ -z "$verdict" ] && verdict="ERR $(echo "$out" | tail -1 | cut -c1-100)"
echo "$name [$pid] suite_ok=$suite $verdict $(echo "$out" | grep -E '^(VIOLATED|UNDECIDED)' | head -1 | cut -c1-120)"
