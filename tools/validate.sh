#!/bin/bash
# validates MANIFEST.json and every evidence file against the schemas
python3-vt - <<'PY'
import json,jsonschema,glob,sys
ok=True
try:
    jsonschema.validate(json.load(open('/verif/MANIFEST.json')), json.load(open('/root/.vp/MANIFEST.schema.json'))); print('manifest ok')
except Exception as e: print('MANIFEST INVALID', e); ok=False
s=json.load(open('/root/.vp/EVIDENCE.schema.json'))
for f in sorted(glob.glob('/verif/evidence/C*.json')):
    try: jsonschema.validate(json.load(open(f)), s)
    except Exception as e: print('EVIDENCE INVALID', f, str(e)[:300]); ok=False
print('evidence files', len(glob.glob('/verif/evidence/C*.json')))
sys.exit(0 if ok else 1)
PY
