#!/usr/bin/env python3
"""Prints the prompt for an independent defect-hunting sub-agent: find inputs on which the UNMODIFIED tree violates the property.
Used for triage only (to find genuine defects to repair or record); the checks themselves stay static."""
import json, sys
pid = sys.argv[1]
for l in open('/verif/properties.jsonl'):
    d = json.loads(l)
    if d['id'] == pid:
        break
else:
    sys.exit("no such property")
wt = f"/tmp/wt/{pid}hunt"
print(f"""You are reviewing the Go library github.com/vedadiyan/genql (a MySQL-dialect SELECT engine plus a path-selector language over in-memory maps/slices). You have your own scratch git worktree of the repository at {wt} . Work ONLY inside {wt} (never touch /repo or /verif, and do not read anything under /verif).

Environment: the sandbox has no network. Before every go command run:
  export GOFLAGS=-mod=mod GOPROXY=off GOSUMDB=off GOTOOLCHAIN=local; unset GOWORK
The existing suite is `cd {wt} && go test -vet=off -count=1 ./...` (267 tests, a few seconds).

Here is a semantic property the library is supposed to satisfy:

  {d['id']} - {d['title']}
  {d['statement']}
  (quantified {d['quantifier']['text']})

Your task: find concrete inputs (document + query, or function arguments, or call sequences / goroutine schedules) on which the UNMODIFIED library at this commit VIOLATES this property. Read the code paths the property depends on carefully, form hypotheses about edge cases (NULL / missing keys, empty collections, mixed numeric Go types, nested arrays, aliases vs no aliases, several clauses combined, repeated execution of the same Query object, option combinations, error paths), and test each hypothesis with small throw-away Go tests in the package directory (delete them afterwards). Stay strictly inside what the property states: a behaviour the statement does not speak about is not a violation; say so when a case is a matter of interpretation. Be systematic: cover every clause of the statement and every part of its quantifier at least once, and write a small randomized differential test against a straightforward reference implementation where the clause allows it (e.g. a reference evaluator for filters/projections/aggregates in plain Go).

For each DISTINCT violation k you can reproduce, create the directory {wt}/FINDINGS/f<k>/ containing:
  - demo_test.go : a Go test file (package genql, or the relevant package) with ONE test function named TestFindingDemo that FAILS on the unmodified HEAD because of the violation (assert the behaviour the property requires), runnable with `go test -vet=off -count=1 -run TestFindingDemo .` after copying it into the package directory
  - README.md : which clause of the property is violated, the minimal input, expected vs actual, the root cause in the source (file, function, line) and - if you see one - a minimal fix that would keep the existing suite green (check with the suite; do NOT leave the fix applied). Note when an existing test in the suite pins the current (violating) behaviour.
Also create {wt}/FINDINGS/go.mod containing the single line `module findings` so that `go test ./...` skips that directory. Group findings with the same root cause into one. Quality over quantity: 0 findings is an acceptable answer if you covered the clauses and found nothing - then list in your final report what you covered. Leave the worktree clean (only the FINDINGS directory untracked). End with a short summary: one line per finding (clause, input, root cause) and one line per clause you covered without finding anything.""")
