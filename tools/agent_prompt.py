#!/usr/bin/env python3
"""Prints the prompt given to an independent mutation sub-agent for one property (nothing from /verif but the property text)."""
import json, sys
pid = sys.argv[1]
n = sys.argv[2] if len(sys.argv) > 2 else "3"
ROUND = sys.argv[3] if len(sys.argv) > 3 else "1"
wt_suffix = "" if ROUND == "1" else "r" + ROUND
for l in open('/verif/properties.jsonl'):
    d = json.loads(l)
    if d['id'] == pid:
        break
else:
    sys.exit("no such property")
wt = f"/tmp/wt/{pid}{wt_suffix}"
print(f"""You are helping test a verification effort for the Go library github.com/vedadiyan/genql (a MySQL-dialect SELECT engine plus a path-selector language over in-memory maps/slices). You have your own scratch git worktree of the repository at {wt} . Work ONLY inside {wt} (never touch /repo or /verif, and do not read anything under /verif).

Environment: the sandbox has no network. Before every go command run:
  export GOFLAGS=-mod=mod GOPROXY=off GOSUMDB=off GOTOOLCHAIN=local; unset GOWORK
The existing suite is `cd {wt} && go test -vet=off -count=1 ./...` (267 tests, a few seconds).

Here is a semantic property the library is supposed to satisfy:

  {d['id']} - {d['title']}
  {d['statement']}
  (quantified {d['quantifier']['text']})

Your task: produce {n} DIFFERENT, independent, realistic source changes ("mutants") to the library's non-test Go code, each of which BREAKS this property while
  (a) the module still compiles,
  (b) the existing test suite still passes unchanged (all tests),
  (c) the breakage needs something specific to manifest - a particular kind of input, an unusual value, a multi-step sequence, a particular interleaving, a failure at a particular point, or two cooperating sites that each look fine alone - NOT something that ordinary use would expose at once. Think of the kind of subtle regression a real refactoring, optimisation or "cleanup" commit could introduce. Prefer changes to different functions/mechanisms for the different mutants.
Each mutant should be small (a few lines), look plausible, and not be a no-op.""" + ("" if ROUND == "1" else """
Additional guidance for this round: spread the mutants over DIFFERENT source files / mechanisms that the property depends on (read the whole library first to find all of them, including helpers that several features share); at least one mutant must consist of two cooperating edits at different sites that each look harmless alone; at least one must only misbehave on a failure/empty/boundary path (an error in the middle, an empty collection, NULL, the last element, a second call on the same object); avoid the most obvious single-operator flips.""" + ("" if ROUND not in ("4", "5") else """ This is a late round: earlier rounds already produced the central mutations (changed operators, removed guards and dropped calls in the main evaluation functions). Look instead at (i) the property as it holds in COMBINATION with another feature - inside a subquery or EXISTS, in a CTE body, in a union branch, on an aliased table, under GROUP BY, in a PARALLEL or hash join, with a multi-dimensional source, under each query option (Wrapped, PostgresEscapingDialect, IdomaticArrays, WithVars, error handlers); (ii) small shared helpers and conversion functions that the feature relies on indirectly; (iii) state that survives one evaluation (caches, memoised results, a Query executed twice, a prepared command used twice); (iv) "optimisations" that add a fast path, a cache or a pre-sized buffer, and "clean-ups" that merge two similar functions or move a check from a callee to its callers and miss one caller.""") + ("" if ROUND != "7" else """ This is a very late round: six earlier rounds already produced changed operators, removed guards, dropped calls, caches keyed too coarsely, fast paths, merged helpers, state kept across executions and checks moved to the wrong caller. Do NOT repeat those. Read the whole library, then look for changes of these kinds instead: (i) a change of DATA REPRESENTATION that is lossy or ambiguous only for unusual values - the type of a field or local (int vs int64 vs float64, string vs []byte vs []rune), a key or fingerprint format, a separator, a hash or truncated form standing in for the value, a numeric text form; (ii) LIFETIME and ALIASING - a buffer, slice, map or struct reused across iterations, rows, calls or goroutines (pre-allocated scratch, sync.Pool, append onto a shared backing array, a sub-slice handed out and later overwritten, a shallow copy where a deep one is needed or the reverse); (iii) the ORDER of two steps that are both kept (unlock before the last read, publish before complete, wait after read, defer order, evaluate right before left, check after use); (iv) a LIBRARY SUBSTITUTION that is almost equivalent (sort.Slice vs SliceStable, strings.EqualFold/ToLower vs exact, strconv.Atoi/ParseInt/ParseFloat flavours and bit sizes, fmt verbs, regexp flags, strings.Fields vs Split, utf8 vs byte indexing, maps.Clone vs manual copy, slices.Compact, math.Round vs truncation); (v) ERROR PLUMBING - errors collected and reported later, first vs last error, errors.Join, an error converted to a value (NULL, false, empty) on one path, a panic/recover pair whose scope moved, a sentinel compared by text; (vi) CONCURRENCY MECHANICS - a lock scope narrowed or split in two, RLock where a write can happen, a double-checked flag, an atomic counter instead of a WaitGroup, a goroutine started earlier/later relative to Add/Wait, a channel buffer size, a results slice indexed by a captured loop variable; (vii) a BOUNDARY in index arithmetic or a loop (off-by-one only at the first/last element, an empty or single-element collection, a negative or zero count, len vs cap, rune vs byte length).""")) + f""" Do not add build tags, do not touch test files, go.mod, or anything outside the library's .go files.

For each mutant k = 1..{n} create the directory {wt}/MUTANTS/m<k>/ containing:
  - patch.diff : the change as a unified diff produced by `git diff` against the worktree's HEAD (must apply with `git apply` on a clean checkout of HEAD)
  - demo_test.go : a Go test file (package genql, or the relevant package) with ONE test function named TestMutantDemo that FAILS with the patch applied and PASSES on the unmodified HEAD, when copied into the package directory and run with `go test -vet=off -count=1 -run TestMutantDemo .` (if the demonstration needs the race detector or repetition say so in README and make the test self-sufficient, e.g. loop enough times)
  - README.md : 5-10 lines: what was changed, why it breaks the property, what specific circumstance is needed for it to manifest, which package directory the demo belongs in, and the exact commands you ran.
Verify everything yourself: for each mutant, from a clean tree (git -C {wt} checkout -- . ; remove stray demo files), (1) demo passes on HEAD, (2) apply patch, `go build ./...`, full suite passes, demo fails, (3) revert. Leave the worktree clean (only the MUTANTS directory untracked) when you finish. Report a short summary of the mutants at the end.""")
