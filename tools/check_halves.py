#!/usr/bin/env python3
"""Triage aid (not a check): splits every seeded patch that has exactly two hunks into its halves, applies each half alone to a
scratch copy and runs all static checks on it. A half that is behaviour-preserving on its own (the seed's README says which) and is
reported is an over-strict rule: see DESIGN section 10, round 10. Usage: tools/check_halves.py [glob under /verif/seeded]"""
import re,sys,os,glob,subprocess,tempfile,shutil,json
from concurrent.futures import ThreadPoolExecutor
def hunks(patch):
    files=re.split(r'(?m)^(?=diff --git )',patch)
    out=[]
    for f in files:
        if not f.strip(): continue
        m=re.search(r'(?m)^@@',f)
        head=f[:m.start()]; body=f[m.start():]
        hs=re.split(r'(?m)^(?=@@ )',body)
        for h in hs:
            if h.strip(): out.append(head+h)
    return out
jobs=[]
for sd in sorted(glob.glob('/verif/seeded/' + (sys.argv[1] if len(sys.argv) > 1 else '*'))):
    hs=hunks(open(sd+'/patch.diff').read())
    if len(hs)!=2: continue
    for i,h in enumerate(hs):
        jobs.append((os.path.basename(sd),i,h))
def run(j):
    name,i,h=j
    d=tempfile.mkdtemp(prefix='genql-half-')
    subprocess.run(['rsync','-a','--exclude','.git','/repo/',d+'/'],check=True)
    pf=d+'/.half.diff'; open(pf,'w').write(h)
    a=subprocess.run(['patch','-p1','-s','-i',pf],cwd=d,capture_output=True,text=True)
    os.remove(pf)
    if a.returncode!=0:
        shutil.rmtree(d); return name,i,'PATCH-FAIL',''
    r=subprocess.run(['/verif/bin/genqlcheck','-repo',d,'-property','all','-no-evidence'],capture_output=True,text=True)
    shutil.rmtree(d)
    if r.stdout.startswith('ERROR') or r.returncode==2: return name,i,'NOCOMPILE',r.stdout[:100]
    lines=sorted({l.split('  ')[0] for l in r.stdout.splitlines() if l.startswith(('VIOLATED','UNDECIDED'))})
    return name,i,('ALARM' if lines else 'silent'),'; '.join(lines)[:300]
with ThreadPoolExecutor(5) as ex:
    for name,i,st,info in ex.map(run,jobs):
        print(name,'half',i,st,info)
