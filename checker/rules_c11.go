package main

import (
	"fmt"
	"regexp"
	"sort"
	"strings"

	"golang.org/x/tools/go/ssa"
)

func init() { register("C11", ruleC11Writes) }

// documentSeeds: the API parameters that carry the caller's document.
func (c *Ctx) documentSeeds() map[*ssa.Function][]int {
	seeds := map[*ssa.Function][]int{}
	for _, name := range []string{"New", "Prepare", "ExecReader"} {
		if f := c.P.Func(modPath, name); f != nil {
			seeds[f] = []int{0}
		}
	}
	return seeds
}

var ownCache = map[*Program]*Own{}

// SSA register names are not stable under edits: they never appear in obligation keys.
var regNameRe = regexp.MustCompile(`@t[0-9]+`)

func (c *Ctx) own() *Own {
	if o, ok := ownCache[c.P]; ok {
		return o
	}
	o := NewOwn(c.P, c.documentSeeds())
	ownCache[c.P] = o
	return o
}

// writeKey: line-independent key of a write site: function / kind / target term [/ constant key].
func (c *Ctx) writeKey(w *WriteSite) string {
	tbd := NewTB()
	t := tbd.Of(w.Target).String()
	if len(t) > 80 {
		t = t[:80] + "…"
	}
	t = regNameRe.ReplaceAllString(t, "")
	k := c.P.funcKey(w.Fn) + "/" + w.Kind + "/" + t
	if mu, ok := w.Instr.(*ssa.MapUpdate); ok {
		if s, isConst := constString(mu.Key); isConst {
			k += "[" + s + "]"
		}
	}
	if call, ok := w.Instr.(*ssa.Call); ok && w.Kind == "delete" && len(call.Common().Args) == 2 {
		if s, isConst := constString(call.Common().Args[1]); isConst {
			k += "[" + s + "]"
		}
	}
	return k
}

// markerRestored: the write is `m[K] = v` with constant K and the same function unconditionally
// defers delete(m, K) (the deferred call is registered in a block that dominates every exit
// reachable after the write, and before any call that could panic in between).
func markerRestored(w *WriteSite) bool {
	mu, ok := w.Instr.(*ssa.MapUpdate)
	if !ok {
		return false
	}
	k, isConst := constString(mu.Key)
	if !isConst {
		return false
	}
	b := mu.Block()
	// a Defer of builtin delete(m, K) in the same block, with no call between the write and the defer
	seenWrite := false
	for _, in := range b.Instrs {
		if in == ssa.Instruction(mu) {
			seenWrite = true
			continue
		}
		if !seenWrite {
			continue
		}
		switch in := in.(type) {
		case *ssa.Defer:
			if bi, ok := in.Call.Value.(*ssa.Builtin); ok && bi.Name() == "delete" && len(in.Call.Args) == 2 {
				if dk, ok := constString(in.Call.Args[1]); ok && dk == k && in.Call.Args[0] == mu.Map {
					return true
				}
			}
		case *ssa.Call, *ssa.Go, *ssa.Return, *ssa.If, *ssa.Panic:
			return false
		}
	}
	return false
}

// restoringDelete: delete(m, K) with constant K inside a function (or a closure of a function)
// that also performs m'[K] = v with the same constant key: the cleanup half of a marker.
func restoringDelete(w *WriteSite) bool {
	call, ok := w.Instr.(*ssa.Call)
	if !ok || w.Kind != "delete" || len(call.Common().Args) != 2 {
		return false
	}
	k, isConst := constString(call.Common().Args[1])
	if !isConst {
		return false
	}
	for f := w.Fn; f != nil; f = f.Parent() {
		found := false
		allInstrs(f, func(_ *ssa.BasicBlock, in ssa.Instruction) {
			if mu, ok := in.(*ssa.MapUpdate); ok {
				if mk, ok := constString(mu.Key); ok && mk == k {
					found = true
				}
			}
		})
		if found {
			return true
		}
	}
	return false
}

func (c *Ctx) classifyWrites(rule string, restrict map[*ssa.Function]bool, tolerateMarker bool) (nSites, nInput int) {
	o := c.own()
	type agg struct {
		w     *WriteSite
		input bool
		n     int
		tol   bool
	}
	byKey := map[string]*agg{}
	var keys []string
	for _, w := range o.Writes {
		if restrict != nil && !restrict[w.Fn] {
			continue
		}
		if funcPkgPath(w.Fn) != modPath {
			continue
		}
		k := c.writeKey(w)
		a := byKey[k]
		if a == nil {
			a = &agg{w: w}
			byKey[k] = a
			keys = append(keys, k)
		}
		a.n++
		if w.Input {
			a.input = true
			a.w = w
			a.tol = (tolerateMarker && markerRestored(w)) || restoringDelete(w)
		}
	}
	sort.Strings(keys)
	for _, k := range keys {
		a := byKey[k]
		nSites += a.n
		c.Fn(c.P.funcKey(a.w.Fn))
		switch {
		case !a.input:
			c.Pass(rule, k, c.P.Pos(a.w.Instr.Pos()), "target objects: "+o.describe(a.w.Objs))
		case a.tol && a.w.Kind == "delete":
			c.Pass(rule, k, c.P.Pos(a.w.Instr.Pos()), "delete of a constant key that the enclosing function itself sets on the same kind of map: the restoring half of a temporary marker (the unrestored write is the obligation)")
		case a.tol:
			c.Pass(rule, k, c.P.Pos(a.w.Instr.Pos()), "temporary marker on a document map, removed by an unconditional deferred delete of the same key in the same function (tolerated for C11; a C13 obligation)")
		default:
			nInput++
			c.Fail(rule, k, c.P.Pos(a.w.Instr.Pos()), fmt.Sprintf("%s may write into the caller's document: target %s may be {%s}", a.w.Kind, NewTB().Of(a.w.Target).String(), o.describe(a.w.Objs)))
		}
	}
	return
}

func ruleC11Writes(c *Ctx) {
	c.Doc("own.write", "every write site of package genql (map update, delete, element store, copy, maps.Copy, sort, append onto non-fresh storage) is classified by an inclusion-based may-alias analysis seeded with the document parameters of New, Prepare and ExecReader; a site whose target may be the caller's document (or anything reachable from it) is a violation")
	c.Doc("own.marker", "the temporary-marker idiom m[K] = v on a document map is tolerated for C11 only if the same function unconditionally defers delete(m, K) immediately (restored on every exit, including errors and panics)")
	c.NotDecidedClause("C11: nothing value-level is needed; residual assumptions are listed")
	c.Assume("user-registered functions (unknown callees) do not mutate their arguments")
	c.Assume("the analysis is context-insensitive and field-based: it over-approximates aliasing (may report a write that no execution performs) and never under-approximates within the module")
	o := c.own()
	for _, s := range o.seeds {
		c.Anchor("document seed", s)
	}
	n, bad := c.classifyWrites("own.write", nil, true)
	c.CallSites = n
	if n < 40 {
		c.Unknown("own.write", "write-site-inventory", "-", fmt.Sprintf("only %d write sites found in package genql (>= 40 expected): the inventory is broken", n))
	}
	c.Notes = append(c.Notes, fmt.Sprintf("own.write: %d write sites classified, %d may touch the caller's document; %d abstract objects", n, bad, len(o.objs)))
	// positive control: the analysis must see the document flowing into Query.data and Query.from
	for _, fld := range []string{"Query.data", "Query.from"} {
		id, ok := o.fieldO[fld]
		c.Check(ok && o.content[id][o.Input], "own.flow-control", fld, "-", "the document reaches "+fld+" (the analysis sees the flow it must see)", "the analysis no longer sees the caller's document flowing into "+fld+": seeds or field model broken")
	}
}

func shortList(xs []string) string { return strings.Join(firstN(xs, 6), ", ") }
