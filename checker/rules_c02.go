package main

import (
	"fmt"
	"go/constant"
	"go/token"
	"os"
	"strings"

	"golang.org/x/tools/go/ssa"
)

func init() {
	register("C02", ruleC02Arith, ruleC02Unary, ruleC02OnePerRow, ruleC02Keys, ruleC02Case, ruleC10MarkerNotCopied)
}

// numOperand: *AsType[float64](unwrap(expr.<field>))#0
func numOperand(t *Term, ep, field string) bool {
	if t == nil || t.Op != "load" {
		return false
	}
	inner := ext0(t.Args[0])
	if inner == nil {
		return false
	}
	a, ok := callArgs(inner, "AsType")
	return ok && len(a) == 1 && unwrappedField(a[0], ep, field)
}

type arithRef struct {
	op          string
	integer     bool
	commutative bool
}

var arithTable = map[string]arithRef{
	"PlusOp":       {"+", false, true},
	"MinusOp":      {"-", false, false},
	"MultOp":       {"*", false, true},
	"DivOp":        {"/", false, false},
	"IntDivOp":     {"div", false, false},
	"ModOp":        {"%", false, false},
	"BitAndOp":     {"&", true, true},
	"BitOrOp":      {"|", true, true},
	"BitXorOp":     {"^", true, true},
	"ShiftLeftOp":  {"<<", true, false},
	"ShiftRightOp": {">>", true, false},
}

// storedInto: the value stored on this path into the cell the path returns.
func storedInto(p *Path, cell *Term) *Term {
	var out *Term
	for _, e := range p.Effects {
		if e.Kind == "store" && len(e.Args) == 2 && e.Args[0].V != nil && e.Args[0].V == cell.V {
			out = e.Args[1]
		}
	}
	return out
}

func ruleC02Arith(c *Ctx) {
	c.Doc("c02.arith-table", "arithmetic dispatch (the function taking *sqlparser.BinaryExpr): for each of the 11 BinaryExprOperator constants the arm computes the Go operation of the reference table (+ - * / on float64; DIV as math.Trunc of the quotient of the doubles; & | ^ << >> on int64 conversions of both operands, converted back; % as math.Mod) with the left operand originating from expr.Left and the right from expr.Right (order free only for commutative operators); a NULL operand yields (nil, nil) before any conversion")
	c.NotDecidedClause("C02: floating-point result values; column/path lookup (C09); generated expression trees (each node kind is decided separately)")
	f := c.theFunc("arithmetic dispatch", "*sqlparser.BinaryExpr", "BinaryExpr")
	if f == nil {
		c.Unknown("c02.arith-table", "BinaryExpr", "-", "anchor lost: no function takes *sqlparser.BinaryExpr")
		return
	}
	ep := paramNameOfType(f, "*sqlparser.BinaryExpr")
	consts := c.P.enumConsts(sqlp, "BinaryExprOperator")
	key := c.P.funcKey(f)
	atoms := []Atom{opAtom("op", ep, "Operator", consts),
		{Name: "leftNil", Dom: boolDom, Match: func(t *Term) bool { x, ok := isNilTest(t); return ok && unwrappedField(x, ep, "Left") }},
		{Name: "rightNil", Dom: boolDom, Match: func(t *Term) bool { x, ok := isNilTest(t); return ok && unwrappedField(x, ep, "Right") }},
	}
	tb := BuildTable(f, atoms, true)
	if tb.Err != nil {
		c.Unknown("c02.arith-table", key, c.P.Pos(f.Pos()), tb.Err.Error())
		return
	}
	armSeen := map[string]bool{}
	nullOK, nullWhy := true, ""
	sawNull := map[string]bool{}
	for _, p := range tb.SuccessPaths() {
		nm := tb.namesOnPath(p)
		ln, hasL := nm["leftNil"]
		rn, hasR := nm["rightNil"]
		if hasL && isTrueC(ln) || hasR && isTrueC(rn) {
			// NULL operand: must return nil, and before the conversion of that operand
			side := "Left"
			if !(hasL && isTrueC(ln)) {
				side = "Right"
			}
			sawNull[side] = true
			if !p.Ret[0].Nil {
				nullOK, nullWhy = false, "a NULL "+side+" operand does not yield NULL: returns "+avString(p.Ret[0])
			}
			for _, e := range p.Effects {
				if e.Kind == "call" && strings.HasPrefix(e.Callee, "AsType") && len(e.Args) == 1 && unwrappedField(e.Args[0], ep, side) {
					nullOK, nullWhy = false, "the NULL test of the "+side+" operand comes after its conversion"
				}
			}
			continue
		}
		opv, has := nm["op"]
		if !has {
			continue
		}
		iv, _ := constant.Int64Val(opv)
		name := consts[iv]
		ref, known := arithTable[name]
		if !known {
			continue
		}
		armSeen[name] = true
		okArm, why := true, ""
		cell := p.Ret[0].T
		val := storedInto(p, cell)
		if val == nil {
			okArm, why = false, "the arm does not return a freshly computed value: "+avString(p.Ret[0])
		} else {
			okArm, why = matchArith(val, ref, ep)
		}
		c.Check(okArm, "c02.arith-table", key+"/"+name, c.P.Pos(f.Pos()), "computes L "+ref.op+" R with L from expr.Left and R from expr.Right", why)
	}
	for name := range arithTable {
		found := false
		for _, n := range consts {
			if n == name {
				found = true
			}
		}
		if !found {
			c.Unknown("c02.arith-table", key+"/"+name, "-", "operator constant "+name+" not found in sqlparser")
		} else if !armSeen[name] {
			c.Fail("c02.arith-table", key+"/"+name, c.P.Pos(f.Pos()), "no arm computes "+name+" (operator missing from the dispatch or not reachable on a success path)")
		}
	}
	if !sawNull["Left"] || !sawNull["Right"] {
		nullOK, nullWhy = false, nullWhy+fmt.Sprintf(" NULL tests found: left=%v right=%v", sawNull["Left"], sawNull["Right"])
	}
	c.Check(nullOK, "c02.null-prop", key, c.P.Pos(f.Pos()), "each NULL operand returns (nil, nil) before its conversion", strings.TrimSpace(nullWhy))
}

func matchArith(val *Term, ref arithRef, ep string) (bool, string) {
	isL := func(t *Term) bool { return numOperand(t, ep, "Left") }
	isR := func(t *Term) bool { return numOperand(t, ep, "Right") }
	conv := func(t *Term, typ string) *Term {
		if t.Op == "conv" && t.Name == typ {
			return t.Args[0]
		}
		return nil
	}
	orient := func(x, y *Term, l, r func(*Term) bool) (bool, string) {
		if l(x) && r(y) {
			return true, ""
		}
		if l(y) && r(x) {
			if ref.commutative {
				return true, ""
			}
			return false, "operands are swapped: computes R " + ref.op + " L"
		}
		return false, "operands are not (value of expr.Left, value of expr.Right): " + x.String() + " , " + y.String()
	}
	if ref.op == "div" {
		// integer division of two doubles: the quotient of the doubles, truncated (9 DIV 2.5 = 3). Truncating the
		// operands first gives 9/2 = 4, and a divisor below 1 becomes a division by zero
		if a, ok := callArgs(val, "math.Trunc"); ok && len(a) == 1 && a[0].Op == "bin" && a[0].Name == "/" {
			return orient(a[0].Args[0], a[0].Args[1], isL, isR)
		}
		if a, ok := callArgs(val, "math.Floor"); ok && len(a) == 1 {
			return false, "DIV rounds towards minus infinity (math.Floor): -7 DIV 2 is -3, not -4"
		}
		return false, "DIV does not compute math.Trunc(L / R) on the doubles: " + val.String() + " (truncating the operands first makes 9 DIV 2.5 = 4 and 7.5 DIV 0.5 a division by zero)"
	}
	if ref.op == "%" {
		if a, ok := callArgs(val, "math.Mod"); ok && len(a) == 2 {
			return orient(a[0], a[1], isL, isR)
		}
		if val.Op == "bin" && val.Name == "%" {
			return false, "% on converted integers loses the fractional part of DOUBLE operands (math.Mod expected): " + val.String()
		}
		return false, "ModOp does not compute math.Mod(L, R): " + val.String()
	}
	if !ref.integer {
		if val.Op != "bin" || val.Name != ref.op {
			return false, "expected L " + ref.op + " R, found " + val.String()
		}
		return orient(val.Args[0], val.Args[1], isL, isR)
	}
	inner := conv(val, "float64")
	if inner == nil || inner.Op != "bin" || inner.Name != ref.op {
		return false, "expected float64(int64(L) " + ref.op + " int64(R)), found " + val.String()
	}
	intL := func(t *Term) bool { x := conv(t, "int64"); return x != nil && isL(x) }
	intR := func(t *Term) bool { x := conv(t, "int64"); return x != nil && isR(x) }
	return orient(inner.Args[0], inner.Args[1], intL, intR)
}

func ruleC02Unary(c *Ctx) {
	c.Doc("c02.unary-table", "unary dispatch: - is the numeric negation of the operand (-x or -1*x; not 0-x, which loses the sign of zero), ~ is ^ on its int64 conversion converted back, ! is the boolean negation; the operand is the unwrapped evaluation of expr.Expr")
	f := c.theFunc("unary dispatch", "*sqlparser.UnaryExpr", "UnaryExpr")
	if f == nil {
		c.Unknown("c02.unary-table", "UnaryExpr", "-", "anchor lost")
		return
	}
	ep := paramNameOfType(f, "*sqlparser.UnaryExpr")
	consts := c.P.enumConsts(sqlp, "UnaryExprOperator")
	key := c.P.funcKey(f)
	tb := BuildTable(f, []Atom{opAtom("op", ep, "Operator", consts)}, true)
	if tb.Err != nil {
		c.Unknown("c02.unary-table", key, c.P.Pos(f.Pos()), tb.Err.Error())
		return
	}
	operand := func(t *Term, typ string) bool {
		if t == nil || t.Op != "load" {
			return false
		}
		inner := ext0(t.Args[0])
		if inner == nil {
			return false
		}
		a, ok := callArgs(inner, "AsType")
		return ok && strings.Contains(inner.Name, "["+typ+"]") && len(a) == 1 && unwrappedField(a[0], ep, "Expr")
	}
	seen := map[string]bool{}
	for _, p := range tb.SuccessPaths() {
		opv, has := tb.namesOnPath(p)["op"]
		if !has {
			continue
		}
		iv, _ := constant.Int64Val(opv)
		name := consts[iv]
		if name != "UMinusOp" && name != "TildaOp" && name != "BangOp" {
			continue
		}
		seen[name] = true
		t := p.Ret[0].T
		val := t
		if t != nil && t.Op == "alloc" {
			val = storedInto(p, t)
		}
		ok, why := false, "unexpected result "+avString(p.Ret[0])
		if val != nil {
			switch name {
			case "UMinusOp":
				switch {
				case val.Op == "un" && val.Name == "-" && operand(val.Args[0], "float64"):
					ok = true
				case val.Op == "bin" && val.Name == "*" && (val.Args[0].Name == "-1" && operand(val.Args[1], "float64") || val.Args[1].Name == "-1" && operand(val.Args[0], "float64")):
					ok = true
				case val.Op == "bin" && val.Name == "-" && val.Args[0].Name == "0" && operand(val.Args[1], "float64"):
					// (accepted until round 8: the table had taken 0-x for -x, which it is not on IEEE doubles)
					why = "unary minus computes 0 - x: the negation of 0 is -0 (1/-z is -Inf), and 0 - 0 is +0"
				default:
					why = "unary minus computes " + val.String()
				}
			case "TildaOp":
				if val.Op == "conv" && val.Name == "float64" && val.Args[0].Op == "un" && val.Args[0].Name == "^" && val.Args[0].Args[0].Op == "conv" && val.Args[0].Args[0].Name == "int64" && operand(val.Args[0].Args[0].Args[0], "float64") {
					ok = true
				} else {
					why = "~ computes " + val.String()
				}
			case "BangOp":
				if val.Op == "un" && val.Name == "!" && operand(val.Args[0], "bool") {
					ok = true
				} else {
					why = "! computes " + val.String()
				}
			}
		}
		c.Check(ok, "c02.unary-table", key+"/"+name, c.P.Pos(f.Pos()), "reference operation on the unwrapped operand", why)
	}
	for _, n := range []string{"UMinusOp", "TildaOp", "BangOp"} {
		if !seen[n] {
			c.Fail("c02.unary-table", key+"/"+n, c.P.Pos(f.Pos()), "no arm for "+n)
		}
	}
}

// ruleC02OnePerRow: the projection loop appends exactly one projected row per input row.
func ruleC02OnePerRow(c *Ctx) {
	c.Doc("c02.one-per-row", "the projection loop (the function that ranges over the kept rows and calls the projection): on the Map arm exactly one projected row is appended per iteration or the projection's error is returned; on the []any arm exactly one nested result; the projected row is the projection of the loop's own row with the query's select list")
	var f *ssa.Function
	proj := c.P.Func(modPath, "SelectExpr")
	for _, g := range c.P.pkgFuncs(modPath) {
		if g.Parent() != nil || g == proj {
			continue
		}
		calls, loops := false, len(rangeLoops(g)) > 0
		allInstrs(g, func(_ *ssa.BasicBlock, in ssa.Instruction) {
			if call, ok := in.(*ssa.Call); ok && call.Common().StaticCallee() == proj && proj != nil {
				calls = true
			}
		})
		if calls && loops {
			f = g
		}
	}
	if f == nil {
		c.Unknown("c02.one-per-row", "ExecSelect", "-", "anchor lost: no loop calls the projection")
		return
	}
	key := c.P.funcKey(f)
	c.Fn(key)
	c.Anchor("projection loop", key+" "+c.P.Pos(f.Pos()))
	var lp *loopInfo
	for _, l := range rangeLoops(f) {
		if t := NewTB().Of(l.over); t.Op == "param" {
			lp = l
		}
	}
	if lp == nil {
		c.Unknown("c02.one-per-row", key, c.P.Pos(f.Pos()), "anchor lost: no range loop over the rows parameter")
		return
	}
	paths, err := WalkFrom(f, lp.body, lp.header, WalkCfg{StopAt: func(b *ssa.BasicBlock) bool { return b == lp.header }, MaxVisits: 1})
	if err != nil {
		c.Unknown("c02.one-per-row", key, c.P.Pos(f.Pos()), err.Error())
		return
	}
	var why []string
	nMap, nArr := 0, 0
	for _, p := range paths {
		arm := ""
		for _, k := range p.Order {
			kt := p.KeyTerm[k]
			if kt == nil || kt.Op != "ext" || kt.Name != "1" || kt.Args[0].Op != "assertok" {
				continue
			}
			if v, _ := p.Assumed(k); v {
				if isMapAssert(kt.Args[0]) {
					arm = "map"
				} else {
					arm = "array"
				}
			}
		}
		if arm == "" {
			if p.Exit == "stop" {
				why = append(why, "a row that is neither an object nor an array is skipped silently")
			}
			continue
		}
		appends := 0
		var projCall, recCall *Effect
		var appended *Term
		for i := range p.Effects {
			e := &p.Effects[i]
			if e.Kind != "call" {
				continue
			}
			switch {
			case e.Callee == "builtin:append":
				appends++
				appended = e.Args[1]
			case proj != nil && e.Callee == funcName(proj):
				projCall = e
			case e.Callee == funcName(f):
				recCall = e
			}
		}
		errNonNil := false
		for k, v := range p.Asg {
			if kt := p.KeyTerm[k]; kt != nil {
				if x, ok := isNilTest(kt); ok && isErrorType(x) && !isTrueC(v) {
					errNonNil = true
				}
			}
		}
		if errNonNil {
			if p.Exit != "return" || p.Ret[1].Nil || appends != 0 {
				why = append(why, "an error of the "+arm+" arm does not end the projection with that error")
			}
			continue
		}
		if p.Exit != "stop" || appends != 1 {
			why = append(why, fmt.Sprintf("%s arm: %d appends, exit %s (want exactly one, then next row)", arm, appends, p.Exit))
			continue
		}
		if arm == "map" {
			nMap++
			if projCall == nil {
				why = append(why, "the Map arm does not call the projection")
			} else {
				if !(len(projCall.Args) >= 3 && elemOfLoop(projCall.Args[1], lp) && projCall.Args[2].HasField("selectDefinition")) {
					why = append(why, "the projection is not applied to (the loop's own row, query.selectDefinition)")
				}
				if !(appended != nil && appended.Op == "varargs" && len(appended.Args) == 1 && ext0(appended.Args[0]) != nil && ext0(appended.Args[0]).V == projCall.Instr.(ssa.Value)) {
					why = append(why, "the appended value is not the projection's result")
				}
			}
		} else {
			nArr++
			// an inner array's result was produced (filtered and projected) by its own copy of the query in
			// exec: it is passed through as it is; projecting it again would apply the select list twice
			passThrough := appended != nil && appended.Op == "varargs" && len(appended.Args) == 1 && elemOfLoop(appended.Args[0], lp) &&
				!appended.Args[0].Contains(func(x *Term) bool { return x.Op == "call" && c.P.Func(modPath, strings.TrimPrefix(x.Name, "")) != nil })
			if !passThrough && appended != nil && appended.Op == "varargs" && len(appended.Args) == 1 && isFreshSliceTerm(appended.Args[0]) {
				// a nil inner result (no row survived) replaced by an empty array: the same value as far as rows go
				for k, v := range p.Asg {
					if x, isN := isNilTest(p.KeyTerm[k]); isN && isTrueC(v) && elemOfLoop(x, lp) {
						passThrough = true
					}
				}
			}
			if recCall != nil || projCall != nil {
				why = append(why, "the []any arm projects the rows of an inner result again (the select list is applied twice: aliases and computed columns become NULL)")
			} else if !passThrough {
				why = append(why, "the []any arm does not pass the inner result through")
			}
		}
	}
	if nMap == 0 {
		why = append(why, "no Map arm found")
	}
	c.Check(len(why) == 0, "c02.one-per-row", key, c.P.Pos(f.Pos()), fmt.Sprintf("map arm paths=%d, array arm paths=%d: one append per row", nMap, nArr), strings.Join(uniq(why), "; "))
}

// ruleC02Keys: key/alias table of the projection.
func ruleC02Keys(c *Ctx) {
	c.Doc("c02.keys", "projection (the function taking *sqlparser.SelectExprs): the output map is allocated per call; for an aliased item the stored key is expr.As when non-empty and expr.ColumnName() otherwise; the stored value is the unwrapped evaluation of the item's own expression on the row parameter; Ommit values add no key; the star arm copies from the row parameter only")
	f := c.theFunc("projection", "*sqlparser.SelectExprs", "SelectExpr")
	if f == nil {
		c.Unknown("c02.keys", "SelectExpr", "-", "anchor lost")
		return
	}
	key := c.P.funcKey(f)
	row := paramNameOfType(f, "Map")
	var why []string
	// every MapUpdate in f (not in closures): map is the fresh output map
	var out ssa.Value
	nStores := 0
	tbd := NewTB()
	allInstrs(f, func(_ *ssa.BasicBlock, in ssa.Instruction) {
		mu, ok := in.(*ssa.MapUpdate)
		if !ok {
			return
		}
		nStores++
		if _, fresh := mu.Map.(*ssa.MakeMap); !fresh {
			// captured output map: loaded from its cell
			t := tbd.Of(mu.Map)
			if t.Op != "make" {
				why = append(why, "a projection store targets "+t.String()+", not the freshly allocated output map")
			}
		}
		if out == nil {
			out = mu.Map
		}
	})
	if nStores == 0 {
		why = append(why, "no store into an output map found")
	}
	// the aliased arm: walk paths of one loop iteration and look at the store whose value is ValueOf(Expr(item.Expr))
	var lp *loopInfo
	for _, l := range rangeLoops(f) {
		if t := tbd.Of(l.over); t.Op == "field" && t.Name == "Exprs" {
			lp = l
		}
	}
	if lp == nil {
		c.Unknown("c02.keys", key, c.P.Pos(f.Pos()), "anchor lost: no loop over the select list")
		return
	}
	atoms := []Atom{{Name: "hasAlias", Dom: boolDom, Match: func(t *Term) bool {
		// len(expr.As.String()) > 0
		if t.Op != "bin" || (t.Name != ">" && t.Name != "!=" && t.Name != "==") {
			return false
		}
		return strings.Contains(t.String(), "builtin:len(") && strings.Contains(t.String(), ".As")
	}}}
	_ = atoms
	paths, err := WalkFrom(f, lp.body, lp.header, WalkCfg{StopAt: func(b *ssa.BasicBlock) bool { return b == lp.header }, MaxVisits: 1, MaxPaths: 4000})
	if err != nil {
		c.Unknown("c02.keys", key, c.P.Pos(f.Pos()), err.Error())
		return
	}
	nAliased := 0
	sawAs, sawCol, sawOmmit := false, false, false
	for _, p := range paths {
		if p.Exit != "stop" {
			continue
		}
		// Ommit path: no store
		ommit := false
		for _, k := range p.Order {
			kt := p.KeyTerm[k]
			if kt != nil && kt.Op == "ext" && kt.Name == "1" && kt.Args[0].Op == "assertok" && kt.Args[0].Name == "Ommit" {
				if v, _ := p.Assumed(k); v {
					ommit = true
				}
			}
		}
		var stores []Effect
		for _, e := range p.Effects {
			if e.Kind == "mapupdate" {
				stores = append(stores, e)
			}
		}
		if ommit {
			sawOmmit = true
			if len(stores) != 0 {
				why = append(why, "an Ommit value still adds a key to the output row")
			}
			continue
		}
		for _, st := range stores {
			k, v := st.Args[1], st.Args[2]
			// aliased item store: value derives from ValueOf(.., Expr(.., item.Expr ..))
			isItemValue := v.Contains(func(x *Term) bool {
				a, ok := callArgs(x, "ValueOf")
				if !ok || len(a) < 3 {
					return false
				}
				in := ext0(a[2])
				if in == nil {
					return false
				}
				ea, ok := callArgs(in, "Expr")
				return ok && len(ea) >= 3 && ea[2].Op == "field" && ea[2].Name == "Expr" && ea[1].Op == "param" && ea[1].Name == row
			})
			if !isItemValue {
				continue
			}
			// skip Fuse stores (key built from the fuse's own keys)
			if strings.Contains(v.String(), "assertok[Fuse]") {
				continue
			}
			nAliased++
			ks := k.String()
			switch {
			case strings.Contains(ks, ".As") && strings.Contains(ks, "String("):
				sawAs = true
				// must be on a path where the alias is non-empty
			case strings.Contains(ks, "ColumnName("):
				sawCol = true
			default:
				why = append(why, "an item is stored under a key that is neither its alias nor its column name: "+ks)
			}
			// the value stored is the unwrapped value itself (or its *any slot)
			if v.Op == "phi" {
				continue
			}
		}
	}
	if nAliased == 0 {
		why = append(why, "no store of an item's unwrapped value found")
	}
	if !sawAs || !sawCol {
		why = append(why, fmt.Sprintf("key choice incomplete: alias used=%v, column name used=%v", sawAs, sawCol))
	}
	if !sawOmmit {
		why = append(why, "no Ommit arm: SETVAR-style results would add a column")
	}
	// alias precedence: the key cell is {ColumnName() by default, As.String() when len(As.String()) > 0}
	c.Check(len(why) == 0, "c02.keys", key, c.P.Pos(f.Pos()), fmt.Sprintf("%d item stores keyed by alias-or-column-name into the per-call output map; Ommit adds nothing", nAliased), strings.Join(uniq(why), "; "))

	// alias decision table on the name cell: walk from loop body with atom on len(As)>0 and look at the key of the store on each side
	tbl := &Table{Fn: f, Atoms: atoms, Seen: map[string]string{}}
	cfg := WalkCfg{StopAt: func(b *ssa.BasicBlock) bool { return b == lp.header }, MaxVisits: 1, MaxPaths: 4000,
		Domain: func(t *Term) []constant.Value {
			if atoms[0].Match(t) {
				tbl.Seen[t.String()] = "hasAlias"
				return boolDom
			}
			return nil
		}}
	paths2, _ := WalkFrom(f, lp.body, lp.header, cfg)
	okT, whyT, nT := true, "", 0
	for _, p := range paths2 {
		var hv constant.Value
		var hk *Term
		for k, v := range p.Asg {
			if tbl.Seen[k] == "hasAlias" {
				hv, hk = v, p.KeyTerm[k]
			}
		}
		if hv == nil {
			continue
		}
		// truth of "alias non-empty" given the comparison operator
		nonEmpty := isTrueC(hv)
		if hk != nil && hk.Name == "==" {
			nonEmpty = !nonEmpty
		}
		for _, e := range p.Effects {
			if e.Kind != "mapupdate" || strings.Contains(e.Args[2].String(), "assertok[Fuse]") {
				continue
			}
			ks := e.Args[1].String()
			if !strings.Contains(ks, "ColumnName(") && !strings.Contains(ks, ".As") {
				continue
			}
			nT++
			if os.Getenv("GENQLCHECK_DEBUG") != "" {
				fmt.Println("DEBUG c02.keys key:", nonEmpty, ks)
			}
			usesAs := strings.Contains(ks, ".As") && !strings.Contains(ks, "ColumnName(")
			if usesAs != nonEmpty {
				okT, whyT = false, fmt.Sprintf("with alias non-empty=%v the row is keyed by %s", nonEmpty, ks)
			}
			// the name of an unaliased item is the parser's name of that item (the last component of a dotted reference):
			// a name rebuilt from the parts of the reference changes the key of `SELECT a.b.c` only
			if !usesAs && !strings.HasPrefix(ks, "(*sqlparser.AliasedExpr).ColumnName(") {
				okT, whyT = false, "an unaliased item is keyed by "+ks+", not by the parser's ColumnName() of the item"
			}
		}
	}
	if nT == 0 {
		okT, whyT = false, "no keyed store depends on whether the alias is empty"
	}
	c.Check(okT, "c02.keys", key+"/alias-precedence", c.P.Pos(f.Pos()), fmt.Sprintf("%d stores: alias when non-empty, column name otherwise", nT), whyT)
}

func ruleC02Case(c *Ctx) {
	c.Doc("c02.case", "CASE: the first WHEN whose condition is true yields that WHEN's own value expression; when none is true the ELSE expression, or NULL when there is no ELSE; conditions are evaluated in clause order on the current row")
	f := c.theFunc("CASE evaluation", "*sqlparser.CaseExpr", "CaseExpr")
	if f == nil {
		c.Unknown("c02.case", "CaseExpr", "-", "anchor lost")
		return
	}
	key := c.P.funcKey(f)
	ep := paramNameOfType(f, "*sqlparser.CaseExpr")
	atoms := []Atom{
		{Name: "cond", Dom: boolDom, Match: func(t *Term) bool {
			// the asserted boolean of Expr(.., when.Cond)
			return t.Op == "ext" && t.Name == "0" && t.Args[0].Op == "assertok" && t.Args[0].Name == "bool" && strings.Contains(t.Args[0].Args[0].String(), ".Cond")
		}},
		{Name: "noElse", Dom: boolDom, Match: func(t *Term) bool {
			x, ok := isNilTest(t)
			return ok && x.Op == "field" && x.Name == "Else"
		}},
	}
	// three visits of the loop header: two complete WHEN iterations and the exit (first-match-wins needs two)
	tb := BuildTable(f, atoms, true, func(cfg *WalkCfg) { cfg.MaxVisits = 3 })
	if tb.Err != nil {
		c.Unknown("c02.case", key, c.P.Pos(f.Pos()), tb.Err.Error())
		return
	}
	var why []string
	sawThen, sawElse, sawNull := false, false, false
	for _, p := range tb.Paths {
		if p.Exit != "return" || len(p.Ret) != 2 {
			continue
		}
		nm := tb.namesOnPath(p)
		ret := ext0(p.Ret[0].T)
		var a []*Term
		isExpr := false
		if ret != nil {
			a, isExpr = callArgs(ret, "Expr")
		}
		if !isExpr || len(a) < 3 {
			// every success path answers with an evaluated branch (or the NULL literal's value)
			if p.Ret[1].Nil {
				if ne, has := tb.namesOnPath(p)["noElse"]; p.Ret[0].Nil && has && isTrueC(ne) {
					sawNull = true // NULL written directly instead of evaluating a NULL literal
				} else {
					why = append(why, "a success path answers with "+avString(p.Ret[0])+" instead of evaluating a WHEN value or the ELSE expression")
				}
			}
			continue
		}
		target := a[2].String()
		// the condition assumed true on this path (earlier WHENs were assumed false)
		// the FIRST condition (in evaluation order) assumed true on this path
		var trueCond *Term
		hasCond := false
		for _, k := range p.Order {
			if tb.Seen[k] == "cond" {
				hasCond = true
				if isTrueC(p.Asg[k]) && trueCond == nil {
					trueCond = p.KeyTerm[k]
				}
			}
		}
		cv := boolOf(trueCond != nil)
		whenOf := func(s, suffix string) string {
			i := strings.Index(s, "Whens[")
			j := strings.Index(s, "])."+suffix)
			if i < 0 || j < i {
				return "?"
			}
			return s[i:j]
		}
		switch {
		case trueCond != nil:
			sawThen = true
			if !strings.Contains(target, ".Val") {
				why = append(why, "a true condition yields "+target+" instead of that WHEN's value")
			} else if whenOf(trueCond.String(), "Cond") != whenOf(target, "Val") {
				why = append(why, "the value is not taken from the WHEN whose condition was true: "+whenOf(trueCond.String(), "Cond")+" vs "+whenOf(target, "Val"))
			}
		default:
			ne, hasNE := nm["noElse"]
			if hasNE && isTrueC(ne) {
				sawNull = true
				if !strings.Contains(target, "NullVal") && !strings.Contains(a[2].String(), "alloc") {
					why = append(why, "without ELSE the result is "+target+", not NULL")
				}
			} else if hasNE {
				sawElse = true
				if !(a[2].Op == "field" && a[2].Name == "Else" && a[2].Args[0].Op == "param" && a[2].Args[0].Name == ep) {
					why = append(why, "with no true condition the result is "+target+", not the ELSE expression")
				}
			}
		}
		if hasCond && !isTrueC(cv) && strings.Contains(target, ".Val") {
			why = append(why, "a false condition yields its WHEN's value")
		}
	}
	if !sawThen || !sawElse || !sawNull {
		why = append(why, fmt.Sprintf("paths found: then=%v else=%v null=%v", sawThen, sawElse, sawNull))
	}
	// the condition is read from the row (a bare boolean column is a legal condition) and a NULL condition selects nothing
	nAssert := 0
	allInstrs(f, func(b *ssa.BasicBlock, in ssa.Instruction) {
		ta, ok := in.(*ssa.TypeAssert)
		if !ok || shortType(ta.AssertedType) != "bool" {
			return
		}
		xt := NewTB().Of(ta.X)
		if !strings.Contains(xt.String(), ".Cond") {
			return
		}
		nAssert++
		x0 := ext0(xt)
		if _, isUnwrap := callArgs(x0, "ValueOf"); x0 == nil || !isUnwrap {
			why = append(why, "the WHEN condition is asserted to bool without being unwrapped (ValueOf): a condition that is a column reference fails instead of reading the row")
			return
		}
		guarded := false
		for _, fc := range relFacts(factsAt(b)) {
			if fc.r == relNE && isNilConst(fc.y) && fc.x == ta.X {
				guarded = true
			}
		}
		if !guarded {
			why = append(why, "a NULL condition reaches the bool assertion (an error) instead of being treated as not true")
		}
	})
	if nAssert == 0 {
		why = append(why, "no bool assertion of the WHEN condition found")
	}
	// independent of the unrolling bound: every return instruction answers with an evaluation's results or with an error
	exprFn := c.P.Func(modPath, "Expr")
	allInstrs(f, func(_ *ssa.BasicBlock, in ssa.Instruction) {
		r, ok := in.(*ssa.Return)
		if !ok || len(r.Results) != 2 {
			return
		}
		if ex, isEx := r.Results[0].(*ssa.Extract); isEx && ex.Index == 0 {
			if call, isCall := ex.Tuple.(*ssa.Call); isCall && call.Common().StaticCallee() == exprFn {
				if e1, is1 := r.Results[1].(*ssa.Extract); is1 && e1.Tuple == ex.Tuple && e1.Index == 1 {
					return
				}
			}
		}
		if cst, isC := r.Results[0].(*ssa.Const); isC && cst.IsNil() {
			if c1, is1 := r.Results[1].(*ssa.Const); !is1 || !c1.IsNil() {
				return
			}
			// (nil, nil): NULL, allowed only where no ELSE exists (dominated by expr.Else == nil)
			for _, fc := range relFacts(factsAt(r.Block())) {
				if fc.r != relEQ {
					continue
				}
				if y, isY := fc.y.(*ssa.Const); isY && y.IsNil() {
					if ft := NewTB().Of(fc.x); ft.Op == "field" && ft.Name == "Else" {
						return
					}
				}
			}
		}
		why = append(why, "the return at "+c.P.Pos(r.Pos())+" answers with "+NewTB().Of(r.Results[0]).String()+", which is neither an evaluated branch nor an error")
	})
	c.Check(len(why) == 0, "c02.case", key, c.P.Pos(f.Pos()), "true condition => its value; none => ELSE or NULL", strings.Join(uniq(why), "; "))
}

func init() {
	register("C02", ruleC02ColumnNameComplete)
	register("C01", ruleC02ColumnNameComplete)
	register("C04", ruleC02ColumnNameComplete)
	register("C09", ruleC02ColumnNameComplete)
}

// ruleC02ColumnNameComplete: every component of a dotted column reference reaches the selector.
func ruleC02ColumnNameComplete(c *Ctx) {
	c.Doc("c02.column-name-complete", "column references (BuildColumnName, and the join's own reader of ON columns extractColumnsFromExpr): the parser stores a.b.c as ColName{Qualifier: TableName{Qualifier: a, Name: b}, Name: c}; the builder reads all three name fields (Name, Qualifier.Name, Qualifier.Qualifier) and both of its string results derive from them — dropping the outermost component makes `n.x.y` read the unrelated column `x.y`")
	// found by what they do, not by name: every module function that reads the qualifier of a *sqlparser.ColName
	// (it builds a name out of the node)
	n := 0
	for _, f := range c.P.pkgFuncs(modPath) {
		if f.Parent() != nil || len(f.Blocks) == 0 {
			continue
		}
		builds := false
		allInstrs(f, func(_ *ssa.BasicBlock, in ssa.Instruction) {
			fa, ok := in.(*ssa.FieldAddr)
			if ok && strings.HasSuffix(shortType(fa.X.Type()), "sqlparser.ColName") && fieldName(fa.X.Type(), fa.Field) == "Qualifier" {
				builds = true
			}
		})
		if builds {
			n++
			c.columnNameComplete(f)
		}
	}
	if n < 2 {
		c.Unknown("c02.column-name-complete", "builders", "-", fmt.Sprintf("only %d functions read the qualifier of a column node (the expression path and the join's ON reader expected)", n))
	}
}

// columnNameComplete: the function reads every component of a (possibly three-part) column reference.
func (c *Ctx) columnNameComplete(f *ssa.Function) {
	fname := c.P.funcKey(f)
	c.Fn(fname)
	read := map[string]bool{}
	allInstrs(f, func(_ *ssa.BasicBlock, in ssa.Instruction) {
		var base ssa.Value
		name := ""
		switch x := in.(type) {
		case *ssa.FieldAddr:
			base, name = x.X, fieldName(x.X.Type(), x.Field)
		case *ssa.Field:
			base, name = x.X, fieldName(x.X.Type(), x.Field)
		default:
			return
		}
		path := name
		for base != nil {
			switch b := base.(type) {
			case *ssa.FieldAddr:
				path = fieldName(b.X.Type(), b.Field) + "." + path
				base = b.X
				continue
			case *ssa.Field:
				path = fieldName(b.X.Type(), b.Field) + "." + path
				base = b.X
				continue
			case *ssa.UnOp:
				base = b.X
				continue
			}
			break
		}
		read[path] = true
	})
	var missing []string
	for _, want := range []string{"Name", "Qualifier.Name", "Qualifier.Qualifier"} {
		found := false
		for p := range read {
			if p == want || strings.HasSuffix(p, "."+want) && !strings.HasSuffix(p, "Qualifier."+want) || p == want {
				found = true
			}
			if want == "Name" && p == "Name" {
				found = true
			}
		}
		if !found {
			missing = append(missing, want)
		}
	}
	c.Check(len(missing) == 0, "c02.column-name-complete", fname, c.P.Pos(f.Pos()), "Name, Qualifier.Name and Qualifier.Qualifier are read", "the column-name builder never reads "+strings.Join(missing, ", ")+": that component of a dotted reference is dropped and another column is read")
}

func init() {
	register("C02", ruleC02ItemAlways)
	register("C20", ruleC02ItemAlways)
	register("C14", ruleC02ItemAlways)
}

// ruleC02ItemAlways: every item of the select list is evaluated, in its place, for every row.
func ruleC02ItemAlways(c *Ctx) {
	c.Doc("c02.item-always-evaluated", "projection (SelectExpr): inside the loop over the select items, the evaluation of an aliased item's expression is reached on every round that finds such an item — the only conditions in front of it are the arms of the type switch over the item: an item that is skipped because \"a later one overwrites the column anyway\" loses its side effects (a SETVAR write, an ASYNC launch, a RAISE) and the order of evaluation C20 and C14 rely on")
	f := c.theFunc("projection", "*sqlparser.SelectExprs", "SelectExpr")
	if f == nil {
		c.Unknown("c02.item-always-evaluated", "SelectExpr", "-", "anchor lost")
		return
	}
	var lp *loopInfo
	for _, l := range rangeLoops(f) {
		if t := NewTB().Of(l.over); t.Op == "field" && t.Name == "Exprs" {
			lp = l
		}
	}
	if lp == nil {
		c.Unknown("c02.item-always-evaluated", c.P.funcKey(f), c.P.Pos(f.Pos()), "anchor lost: no loop over the select items")
		return
	}
	n := 0
	deepInstrs(f, func(g *ssa.Function, _ *TB, b *ssa.BasicBlock, in ssa.Instruction) {
		call, ok := in.(*ssa.Call)
		if !ok || g != f || call.Common().StaticCallee() == nil || call.Common().StaticCallee().Name() != "Expr" || !inNaturalLoop(lp.header, b) {
			return
		}
		n++
		bad := ""
		for _, fc := range factsAt(b) {
			cond := fc.cond
			for {
				u, isU := cond.(*ssa.UnOp)
				if !isU || u.Op != token.NOT {
					break
				}
				cond = u.X
			}
			if ex, isEx := cond.(*ssa.Extract); isEx {
				if _, isTA := ex.Tuple.(*ssa.TypeAssert); isTA {
					continue
				}
			}
			ci, isI := cond.(ssa.Instruction)
			if !isI || ci.Block() == nil || ci.Block() == lp.header || !inNaturalLoop(lp.header, ci.Block()) {
				continue // the loop's own condition, or something decided before the loop
			}
			bad = "the item's expression is evaluated only under the condition " + NewTB().Of(fc.cond).String() + ": an item that fails it is skipped together with its side effects"
		}
		c.Check(bad == "", "c02.item-always-evaluated", fmt.Sprintf("%s/item#%d", c.P.funcKey(f), n), c.P.Pos(call.Pos()), "reached on every round that finds an aliased item", bad)
	})
	if n == 0 {
		c.Unknown("c02.item-always-evaluated", c.P.funcKey(f), c.P.Pos(f.Pos()), "anchor lost: the loop over the select items does not call the expression evaluator")
	}
}
