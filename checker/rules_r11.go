package main

import (
	"fmt"
	"go/token"
	"go/types"
	"sort"
	"strings"

	"golang.org/x/tools/go/ssa"
)

// Rules added in round 11 (brief: the wrong variable of the same type, literals and tables, boolean structure and NULL,
// second use, particular interleavings).

// ---------------------------------------------------------------------------------------------------------------------
// go.nil-test-sibling — a contradiction rule (Engler et al.): a function obtains two pointers p and q of one type from
// two calls of one conversion function, tests q against nil, and under that test dereferences p, which no test covers,
// while q itself is not dereferenced there: the test names the wrong one of the two. (`IF(false, NULL, y)`: the exit for a
// condition that is not true tested whenTrue and returned *whenFalse.)
func init() {
	for _, id := range allProps() {
		registerLate(id, ruleGoNilTestSibling)
	}
}

func allProps() []string {
	var out []string
	for i := 1; i <= 20; i++ {
		out = append(out, fmt.Sprintf("C%02d", i))
	}
	return out
}

// nilFact: the fact says ptr != nil.
func nilFactPtr(fc fact) ssa.Value {
	bo, ok := fc.cond.(*ssa.BinOp)
	if !ok || (bo.Op != token.EQL && bo.Op != token.NEQ) {
		return nil
	}
	var ptr ssa.Value
	if c, isC := bo.Y.(*ssa.Const); isC && c.Value == nil {
		ptr = bo.X
	} else if c, isC := bo.X.(*ssa.Const); isC && c.Value == nil {
		ptr = bo.Y
	}
	if ptr == nil {
		return nil
	}
	if (bo.Op == token.NEQ) == fc.truth {
		return ptr
	}
	return nil
}

// convSource: p is the first result of a call of a module function (the conversion helper); returns that callee.
func convSource(p ssa.Value) *ssa.Function {
	ex, ok := p.(*ssa.Extract)
	if !ok || ex.Index != 0 {
		return nil
	}
	call, ok := ex.Tuple.(*ssa.Call)
	if !ok {
		return nil
	}
	sc := call.Common().StaticCallee()
	if sc == nil {
		return nil
	}
	if o := sc.Origin(); o != nil {
		sc = o
	}
	if !strings.HasPrefix(funcPkgPath(sc), modPath) {
		return nil
	}
	return sc
}

func ruleGoNilTestSibling(c *Ctx) {
	c.Doc("go.nil-test-sibling", "a pointer that is the result of a conversion helper is not dereferenced under the nil test of a sibling — another result of the same helper, of the same type — when no nil test of its own covers the dereference and the sibling is not dereferenced under that test: the test names the wrong one of the two (the functions reachable from the ones this property's rules analyse)")
	reach := c.reachableFromAnalysed()
	var fns []*ssa.Function
	for _, f := range c.P.ModFuncs {
		if len(f.Blocks) == 0 || !strings.HasPrefix(funcPkgPath(f), modPath) || len(f.TypeArgs()) > 0 {
			continue
		}
		r := f
		for r.Parent() != nil {
			r = r.Parent()
		}
		if reach[r] {
			fns = append(fns, f)
		}
	}
	sort.Slice(fns, func(i, j int) bool { return c.P.funcKey(fns[i]) < c.P.funcKey(fns[j]) })
	n, derefs := 0, 0
	for _, f := range fns {
		n++
		// all dereferences of conversion results, per block
		type deref struct {
			p   ssa.Value
			in  *ssa.UnOp
			src *ssa.Function
		}
		var all []deref
		allInstrs(f, func(b *ssa.BasicBlock, in ssa.Instruction) {
			u, ok := in.(*ssa.UnOp)
			if !ok || u.Op != token.MUL {
				return
			}
			if src := convSource(u.X); src != nil {
				all = append(all, deref{u.X, u, src})
			}
		})
		if len(all) == 0 {
			continue
		}
		var bad []string
		for _, d := range all {
			derefs++
			facts := factsAt(d.in.Block())
			own := false
			var siblings []ssa.Value
			sibCond := map[ssa.Value]ssa.Value{}
			for _, fc := range facts {
				ptr := nilFactPtr(fc)
				if ptr == nil {
					continue
				}
				if ptr == d.p {
					own = true
				} else if convSource(ptr) == d.src && types.Identical(ptr.Type(), d.p.Type()) {
					siblings = append(siblings, ptr)
					sibCond[ptr] = fc.cond
				}
			}
			if own || len(siblings) == 0 {
				continue
			}
			// is p tested anywhere in the function? (a pointer that is never tested is assumed non-nil by its producer: no verdict)
			// the slip this rule names: the sibling's test covers this dereference and no dereference of the sibling itself
			for _, q := range siblings {
				qDeref := false
				for _, e := range all {
					if e.p != q {
						continue
					}
					for _, fc := range factsAt(e.in.Block()) {
						if nilFactPtr(fc) == q && fc.cond == sibCond[q] {
							qDeref = true // this very test covers a dereference of the pointer it names
						}
					}
				}
				if !qDeref {
					bad = append(bad, fmt.Sprintf("%s: the dereference is covered by the nil test of a sibling result of %s and by none of its own; the sibling is never dereferenced under its test", c.P.Pos(d.in.Pos()), fnShort(d.src)))
				}
			}
		}
		if len(bad) > 0 {
			c.Fail("go.nil-test-sibling", c.P.funcKey(f), c.P.Pos(f.Pos()), strings.Join(uniq(bad), "; "))
		}
	}
	c.Check(n > 0, "go.nil-test-sibling", "inventory", "-", fmt.Sprintf("%d functions, %d dereferences of conversion results; none under a sibling's nil test only", n, derefs), "no function analysed")
}

// ---------------------------------------------------------------------------------------------------------------------
// c03.path-walk — SetPath writes a grouping column back under its path. The walk keeps a current node; the branch that is
// already there is looked up in the current node, the fresh copy is stored into the current node, and the current node
// advances to the copy. Read from the row instead (the same type), the look-up is right for the first step only: with
// `GROUP BY t.addr.city, t.addr.zip` the second column's walk replaces the branch the first one wrote.
func init() {
	register("C03", ruleC03PathWalk)
	register("C12", ruleC03PathWalk)
	register("C02", ruleC03PathWalk)
}

func ruleC03PathWalk(c *Ctx) {
	c.Doc("c03.path-walk", "SetPath: inside the loop over the leading parts of the path every map look-up and every store uses the walk's current node (the loop-carried map that starts as the row and advances to the copy made in the round), never the row parameter itself; after the loop the value is stored into the current node")
	f := c.P.Func(modPath, "SetPath")
	if f == nil {
		c.Unknown("c03.path-walk", "SetPath", "-", "anchor lost")
		return
	}
	c.Fn("SetPath")
	key, pos := "SetPath", c.P.Pos(f.Pos())
	if len(f.Params) == 0 {
		c.Unknown("c03.path-walk", key, pos, "anchor lost: no row parameter")
		return
	}
	row := f.Params[0]
	// the loop-carried node: a phi of map type one of whose edges is the row parameter
	var node *ssa.Phi
	allInstrs(f, func(_ *ssa.BasicBlock, in ssa.Instruction) {
		ph, ok := in.(*ssa.Phi)
		if !ok || !types.Identical(ph.Type(), row.Type()) {
			return
		}
		for _, e := range ph.Edges {
			if e == ssa.Value(row) {
				node = ph
			}
		}
	})
	if node == nil {
		c.Unknown("c03.path-walk", key, pos, "anchor lost: no loop-carried node that starts as the row")
		return
	}
	hdr := node.Block()
	var why []string
	nLook, nStore := 0, 0
	deepInstrs(f, func(g *ssa.Function, tb *TB, b *ssa.BasicBlock, in ssa.Instruction) {
		if g != f || !inNaturalLoop(hdr, b) {
			return
		}
		switch x := in.(type) {
		case *ssa.Lookup:
			if !types.Identical(x.X.Type(), row.Type()) {
				return
			}
			nLook++
			if x.X == ssa.Value(row) {
				why = append(why, "the branch that is already there is looked up in the row, not in the current node of the walk, at "+c.P.Pos(x.Pos())+": right for the first part of a path only — a second column under the same two-part prefix replaces the branch the first one wrote")
			}
		case *ssa.MapUpdate:
			if !types.Identical(x.Map.Type(), row.Type()) {
				return
			}
			if _, fresh := x.Map.(*ssa.MakeMap); fresh {
				return
			}
			nStore++
			if x.Map == ssa.Value(row) {
				why = append(why, "the copy of a branch is stored into the row, not into the current node of the walk, at "+c.P.Pos(x.Pos()))
			}
		}
	})
	if nLook == 0 || nStore == 0 {
		c.Unknown("c03.path-walk", key, pos, fmt.Sprintf("inventory: %d look-ups and %d stores inside the walk", nLook, nStore))
		return
	}
	c.Check(len(why) == 0, "c03.path-walk", key, pos, fmt.Sprintf("%d look-ups and %d stores of the walk use its current node", nLook, nStore), strings.Join(uniq(why), "; "))
}

// Cross registrations of round 11: a change that was reported only by another property's rule.
func init() {
	register("C02", ruleC09ParsedImmutable)                        // `scores[(1:end)]` in a select list: the markers resolved inside the cached selector, the second row is cut at the first row's length
	register("C06", ruleC05Window)                                // LIMIT 0 on a union / DISTINCT: the -1 defaults dropped and `limit > 0` for "a limit was given"
	register("C15", ruleC04Strategy)                              // a requested HASH_JOIN on `o.minimum < f.price`: `<` decided by the equality of the key texts
}
