package main

import (
	"fmt"
	"go/token"
	"go/types"
	"sort"
	"strings"

	"golang.org/x/tools/go/ssa"
)

// Rules added in round 11 (brief: the wrong variable of the same type, literals and tables, boolean structure and NULL,
// second use, particular interleavings).

// ---------------------------------------------------------------------------------------------------------------------
// go.nil-test-sibling — a contradiction rule (Engler et al.): a function obtains two pointers p and q of one type from
// two calls of one conversion function, tests q against nil, and under that test dereferences p, which no test covers,
// while q itself is not dereferenced there: the test names the wrong one of the two. (`IF(false, NULL, y)`: the exit for a
// condition that is not true tested whenTrue and returned *whenFalse.)
func init() {
	for _, id := range allProps() {
		registerLate(id, ruleGoNilTestSibling)
	}
}

func allProps() []string {
	var out []string
	for i := 1; i <= 20; i++ {
		out = append(out, fmt.Sprintf("C%02d", i))
	}
	return out
}

// nilFact: the fact says ptr != nil.
func nilFactPtr(fc fact) ssa.Value {
	bo, ok := fc.cond.(*ssa.BinOp)
	if !ok || (bo.Op != token.EQL && bo.Op != token.NEQ) {
		return nil
	}
	var ptr ssa.Value
	if c, isC := bo.Y.(*ssa.Const); isC && c.Value == nil {
		ptr = bo.X
	} else if c, isC := bo.X.(*ssa.Const); isC && c.Value == nil {
		ptr = bo.Y
	}
	if ptr == nil {
		return nil
	}
	if (bo.Op == token.NEQ) == fc.truth {
		return ptr
	}
	return nil
}

// convSource: p is the first result of a call of a module function (the conversion helper); returns that callee.
func convSource(p ssa.Value) *ssa.Function {
	ex, ok := p.(*ssa.Extract)
	if !ok || ex.Index != 0 {
		return nil
	}
	call, ok := ex.Tuple.(*ssa.Call)
	if !ok {
		return nil
	}
	sc := call.Common().StaticCallee()
	if sc == nil {
		return nil
	}
	if o := sc.Origin(); o != nil {
		sc = o
	}
	if !strings.HasPrefix(funcPkgPath(sc), modPath) {
		return nil
	}
	return sc
}

func ruleGoNilTestSibling(c *Ctx) {
	c.Doc("go.nil-test-sibling", "a pointer that is the result of a conversion helper is not dereferenced under the nil test of a sibling — another result of the same helper, of the same type — when no nil test of its own covers the dereference and the sibling is not dereferenced under that test: the test names the wrong one of the two (the functions reachable from the ones this property's rules analyse)")
	reach := c.reachableFromAnalysed()
	var fns []*ssa.Function
	for _, f := range c.P.ModFuncs {
		if len(f.Blocks) == 0 || !strings.HasPrefix(funcPkgPath(f), modPath) || len(f.TypeArgs()) > 0 {
			continue
		}
		r := f
		for r.Parent() != nil {
			r = r.Parent()
		}
		if reach[r] {
			fns = append(fns, f)
		}
	}
	sort.Slice(fns, func(i, j int) bool { return c.P.funcKey(fns[i]) < c.P.funcKey(fns[j]) })
	n, derefs := 0, 0
	for _, f := range fns {
		n++
		// all dereferences of conversion results, per block
		type deref struct {
			p   ssa.Value
			in  *ssa.UnOp
			src *ssa.Function
		}
		var all []deref
		allInstrs(f, func(b *ssa.BasicBlock, in ssa.Instruction) {
			u, ok := in.(*ssa.UnOp)
			if !ok || u.Op != token.MUL {
				return
			}
			if src := convSource(u.X); src != nil {
				all = append(all, deref{u.X, u, src})
			}
		})
		if len(all) == 0 {
			continue
		}
		var bad []string
		for _, d := range all {
			derefs++
			facts := factsAt(d.in.Block())
			own := false
			var siblings []ssa.Value
			sibCond := map[ssa.Value]ssa.Value{}
			for _, fc := range facts {
				ptr := nilFactPtr(fc)
				if ptr == nil {
					continue
				}
				if ptr == d.p {
					own = true
				} else if convSource(ptr) == d.src && types.Identical(ptr.Type(), d.p.Type()) {
					siblings = append(siblings, ptr)
					sibCond[ptr] = fc.cond
				}
			}
			if own || len(siblings) == 0 {
				continue
			}
			// is p tested anywhere in the function? (a pointer that is never tested is assumed non-nil by its producer: no verdict)
			// the slip this rule names: the sibling's test covers this dereference and no dereference of the sibling itself
			for _, q := range siblings {
				qDeref := false
				for _, e := range all {
					if e.p != q {
						continue
					}
					for _, fc := range factsAt(e.in.Block()) {
						if nilFactPtr(fc) == q && fc.cond == sibCond[q] {
							qDeref = true // this very test covers a dereference of the pointer it names
						}
					}
				}
				if !qDeref {
					bad = append(bad, fmt.Sprintf("%s: the dereference is covered by the nil test of a sibling result of %s and by none of its own; the sibling is never dereferenced under its test", c.P.Pos(d.in.Pos()), fnShort(d.src)))
				}
			}
		}
		if len(bad) > 0 {
			c.Fail("go.nil-test-sibling", c.P.funcKey(f), c.P.Pos(f.Pos()), strings.Join(uniq(bad), "; "))
		}
	}
	c.Check(n > 0, "go.nil-test-sibling", "inventory", "-", fmt.Sprintf("%d functions, %d dereferences of conversion results; none under a sibling's nil test only", n, derefs), "no function analysed")
}

// ---------------------------------------------------------------------------------------------------------------------
// c03.path-walk — SetPath writes a grouping column back under its path. The walk keeps a current node; the branch that is
// already there is looked up in the current node, the fresh copy is stored into the current node, and the current node
// advances to the copy. Read from the row instead (the same type), the look-up is right for the first step only: with
// `GROUP BY t.addr.city, t.addr.zip` the second column's walk replaces the branch the first one wrote.
func init() {
	register("C03", ruleC03PathWalk)
	register("C12", ruleC03PathWalk)
	register("C02", ruleC03PathWalk)
}

func ruleC03PathWalk(c *Ctx) {
	c.Doc("c03.path-walk", "SetPath: inside the loop over the leading parts of the path every map look-up and every store uses the walk's current node (the loop-carried map that starts as the row and advances to the copy made in the round), never the row parameter itself; after the loop the value is stored into the current node")
	f := c.P.Func(modPath, "SetPath")
	if f == nil {
		c.Unknown("c03.path-walk", "SetPath", "-", "anchor lost")
		return
	}
	c.Fn("SetPath")
	key, pos := "SetPath", c.P.Pos(f.Pos())
	if len(f.Params) == 0 {
		c.Unknown("c03.path-walk", key, pos, "anchor lost: no row parameter")
		return
	}
	row := f.Params[0]
	// the loop-carried node: a phi of map type one of whose edges is the row parameter
	var node *ssa.Phi
	allInstrs(f, func(_ *ssa.BasicBlock, in ssa.Instruction) {
		ph, ok := in.(*ssa.Phi)
		if !ok || !types.Identical(ph.Type(), row.Type()) {
			return
		}
		for _, e := range ph.Edges {
			if e == ssa.Value(row) {
				node = ph
			}
		}
	})
	if node == nil {
		c.Unknown("c03.path-walk", key, pos, "anchor lost: no loop-carried node that starts as the row")
		return
	}
	hdr := node.Block()
	var why []string
	nLook, nStore := 0, 0
	deepInstrs(f, func(g *ssa.Function, tb *TB, b *ssa.BasicBlock, in ssa.Instruction) {
		if g != f || !inNaturalLoop(hdr, b) {
			return
		}
		switch x := in.(type) {
		case *ssa.Lookup:
			if !types.Identical(x.X.Type(), row.Type()) {
				return
			}
			nLook++
			if x.X == ssa.Value(row) {
				why = append(why, "the branch that is already there is looked up in the row, not in the current node of the walk, at "+c.P.Pos(x.Pos())+": right for the first part of a path only — a second column under the same two-part prefix replaces the branch the first one wrote")
			}
		case *ssa.MapUpdate:
			if !types.Identical(x.Map.Type(), row.Type()) {
				return
			}
			if _, fresh := x.Map.(*ssa.MakeMap); fresh {
				return
			}
			nStore++
			if x.Map == ssa.Value(row) {
				why = append(why, "the copy of a branch is stored into the row, not into the current node of the walk, at "+c.P.Pos(x.Pos()))
			}
		}
	})
	if nLook == 0 || nStore == 0 {
		c.Unknown("c03.path-walk", key, pos, fmt.Sprintf("inventory: %d look-ups and %d stores inside the walk", nLook, nStore))
		return
	}
	c.Check(len(why) == 0, "c03.path-walk", key, pos, fmt.Sprintf("%d look-ups and %d stores of the walk use its current node", nLook, nStore), strings.Join(uniq(why), "; "))
}

// Cross registrations of round 11: a change that was reported only by another property's rule.
func init() {
	register("C02", ruleC09ParsedImmutable)                        // `scores[(1:end)]` in a select list: the markers resolved inside the cached selector, the second row is cut at the first row's length
	register("C06", ruleC05Window)                                // LIMIT 0 on a union / DISTINCT: the -1 defaults dropped and `limit > 0` for "a limit was given"
	register("C15", ruleC04Strategy)                              // a requested HASH_JOIN on `o.minimum < f.price`: `<` decided by the equality of the key texts
}

// ---------------------------------------------------------------------------------------------------------------------
// c07.cte-name-as-written — the registry of common table expressions is read by the selector reader, whose keys are exact.
// The builder therefore registers, marks and restores each CTE under its name as written; a case-folded name on one of
// these writes (and a second, folded look-up in the FROM builder) makes `FROM OpenOrders.lines`, `mix=>OpenOrders` and the
// cycle marker of `WITH Tmp AS (SELECT * FROM Tmp)` miss the entry (rounds 11: C07 and C10, two independent agents).
func init() {
	register("C07", ruleC07CteNameAsWritten)
	register("C10", ruleC07CteNameAsWritten)
}

var caseFolders = map[string]bool{"ToLower": true, "ToUpper": true, "ToTitle": true, "Title": true, "EqualFold": true, "ToLowerSpecial": true, "ToUpperSpecial": true, "Lowered": true}

func ruleC07CteNameAsWritten(c *Ctx) {
	c.Doc("c07.cte-name-as-written", "BuildCte (with its function literals and the helpers it calls) does not fold the case of anything: the name a CTE is registered, marked as running and restored under is the identifier as written, which is what the exact-match selector reader looks for")
	f := c.P.Func(modPath, "BuildCte")
	if f == nil {
		c.Unknown("c07.cte-name-as-written", "BuildCte", "-", "anchor lost")
		return
	}
	c.Fn("BuildCte")
	var why []string
	writes := 0
	for _, g := range withClosures(f) {
		deepInstrs(g, func(h *ssa.Function, _ *TB, _ *ssa.BasicBlock, in ssa.Instruction) {
			if _, isMU := in.(*ssa.MapUpdate); isMU {
				writes++
			}
			ci, ok := in.(ssa.CallInstruction)
			if !ok {
				return
			}
			name := ""
			if ci.Common().IsInvoke() {
				name = ci.Common().Method.Name()
			} else if sc := ci.Common().StaticCallee(); sc != nil {
				name = sc.Name()
				if sc.Pkg != nil && strings.HasPrefix(sc.Pkg.Pkg.Path(), modPath) {
					return // a module function: looked through (unknown helper) or judged by its own rules
				}
			}
			if caseFolders[name] {
				why = append(why, "the CTE builder folds the case of a name at "+c.P.Pos(in.Pos())+" ("+name+"): the registry is read with exact keys, an entry registered under another spelling than the one written is missed by `cte.column`, `mix=>cte` and the cycle marker")
			}
		})
	}
	if writes == 0 {
		c.Unknown("c07.cte-name-as-written", "BuildCte", c.P.Pos(f.Pos()), "inventory: no write to the registry found")
		return
	}
	c.Check(len(why) == 0, "c07.cte-name-as-written", "BuildCte", c.P.Pos(f.Pos()), fmt.Sprintf("%d registry writes, no case folding in the builder", writes), strings.Join(uniq(why), "; "))
}

// ---------------------------------------------------------------------------------------------------------------------
// c12.async-slot-chain — the post-processor of an ASYNC select item follows the chain of result slots (a slot may hold
// another slot) down to the delivered value and stores that value into the row. Round 11: (C10) the chain test looked at
// the head of the chain every round, so a slot holding a slot never ends — Exec hangs; (C12) the store moved into one exit
// of the loop, so a failed or NULL call leaves the unresolved slot in the row.
func init() {
	register("C12", ruleC12AsyncSlotChain)
	register("C10", ruleC12AsyncSlotChain)
	register("C14", ruleC12AsyncSlotChain)
}

func dependsOnPhiOf(v ssa.Value, hdr *ssa.BasicBlock, depth int) bool {
	if depth > 8 || v == nil {
		return false
	}
	switch x := v.(type) {
	case *ssa.Phi:
		if x.Block() == hdr {
			return true
		}
		for _, e := range x.Edges {
			if dependsOnPhiOf(e, hdr, depth+1) {
				return true
			}
		}
	case *ssa.UnOp:
		return dependsOnPhiOf(x.X, hdr, depth+1)
	case *ssa.TypeAssert:
		return dependsOnPhiOf(x.X, hdr, depth+1)
	case *ssa.Extract:
		return dependsOnPhiOf(x.Tuple, hdr, depth+1)
	case *ssa.MakeInterface:
		return dependsOnPhiOf(x.X, hdr, depth+1)
	case *ssa.ChangeInterface:
		return dependsOnPhiOf(x.X, hdr, depth+1)
	}
	return false
}

func ruleC12AsyncSlotChain(c *Ctx) {
	c.Doc("c12.async-slot-chain", "SelectExpr, the function literal that resolves the slot of an ASYNC item: the loop that follows the chain of slots tests the value it carries from round to round (not a value that no round changes: the loop would never end for a slot that holds a slot), and the store of the carried value into the row lies on every way from the loop to the literal's return — whichever exit the loop takes, no slot stays in the row")
	f := c.P.Func(modPath, "SelectExpr")
	if f == nil {
		c.Unknown("c12.async-slot-chain", "SelectExpr", "-", "anchor lost")
		return
	}
	c.Fn("SelectExpr")
	found := 0
	var why []string
	// the literal may have become a method of a record (`pendingColumn.settle`, stored refactoring pipeline2-r3): the loop is
	// recognised by its shape wherever in the module it lives
	var cands []*ssa.Function
	for _, g := range c.P.ModFuncs {
		if len(g.Blocks) > 0 && strings.HasPrefix(funcPkgPath(g), modPath) && len(g.TypeArgs()) == 0 {
			cands = append(cands, g)
		}
	}
	sort.Slice(cands, func(i, j int) bool { return c.P.funcKey(cands[i]) < c.P.funcKey(cands[j]) })
	for _, g := range cands {
		g := g
		hs := loopHeaders(g)
		if len(hs) == 0 {
			continue
		}
		allInstrs(g, func(b *ssa.BasicBlock, in ssa.Instruction) {
			ta, ok := in.(*ssa.TypeAssert)
			if !ok || !ta.CommaOk {
				return
			}
			pt, isP := ta.AssertedType.Underlying().(*types.Pointer)
			if !isP {
				return
			}
			if _, isI := pt.Elem().Underlying().(*types.Interface); !isI {
				return
			}
			var hdr *ssa.BasicBlock
			for _, h := range hs {
				if h == b || inNaturalLoop(h, b) {
					hdr = h
				}
			}
			if hdr == nil {
				return
			}
			// a chain loop: what the asserted pointer points to is carried into the next round
			var derived func(v ssa.Value, depth int) bool
			derived = func(v ssa.Value, depth int) bool {
				if depth > 6 || v == nil {
					return false
				}
				switch x := v.(type) {
				case *ssa.TypeAssert:
					return x == ta
				case *ssa.Extract:
					return derived(x.Tuple, depth+1)
				case *ssa.UnOp:
					return derived(x.X, depth+1)
				case *ssa.MakeInterface:
					return derived(x.X, depth+1)
				}
				return false
			}
			chain := false
			for _, hin := range hdr.Instrs {
				if ph, isPhi := hin.(*ssa.Phi); isPhi {
					for _, e := range ph.Edges {
						if derived(e, 0) {
							chain = true
						}
					}
				}
			}
			if !chain {
				return
			}
			found++
			// (1) the tested value advances
			if !dependsOnPhiOf(ta.X, hdr, 0) {
				// a chain followed through a cell that the loop itself overwrites is the same walk
				writes := false
				if ld, isLd := ta.X.(*ssa.UnOp); isLd && ld.Op == token.MUL {
					allInstrs(g, func(sb *ssa.BasicBlock, sin ssa.Instruction) {
						if st, isSt := sin.(*ssa.Store); isSt && st.Addr == ld.X && (sb == hdr || inNaturalLoop(hdr, sb)) {
							writes = true
						}
					})
				}
				if !writes {
					why = append(why, "the chain test at "+c.P.Pos(ta.Pos())+" looks at a value no round of the loop changes: a slot that holds another slot is followed for ever (Exec never returns)")
				}
			}
			// (2) the carried value is stored on every way out
			var stores []*ssa.BasicBlock
			allInstrs(g, func(sb *ssa.BasicBlock, sin ssa.Instruction) {
				if mu, isMU := sin.(*ssa.MapUpdate); isMU && dependsOnPhiOf(mu.Value, hdr, 0) {
					stores = append(stores, sb)
				}
			})
			if len(stores) == 0 {
				why = append(why, "the value the chain ends in is not stored into the row (loop at "+c.P.Pos(ta.Pos())+")")
				return
			}
			// blocks reachable from the loop header
			seen := map[*ssa.BasicBlock]bool{}
			work := []*ssa.BasicBlock{hdr}
			for len(work) > 0 {
				x := work[len(work)-1]
				work = work[:len(work)-1]
				if seen[x] {
					continue
				}
				seen[x] = true
				work = append(work, x.Succs...)
			}
			for rb := range seen {
				if len(rb.Instrs) == 0 {
					continue
				}
				if _, isRet := rb.Instrs[len(rb.Instrs)-1].(*ssa.Return); !isRet {
					continue
				}
				dom := false
				for _, sb := range stores {
					if sb.Dominates(rb) {
						dom = true
					}
				}
				if !dom {
					why = append(why, "a way from the slot-chain loop to the return at "+c.P.Pos(rb.Instrs[len(rb.Instrs)-1].Pos())+" does not pass the store of the delivered value: after that exit the row keeps the unresolved slot (a failed or NULL call)")
				}
			}
		})
	}
	if found == 0 {
		c.Unknown("c12.async-slot-chain", "SelectExpr", c.P.Pos(f.Pos()), "anchor lost: no loop that follows a chain of result slots")
		return
	}
	c.Check(len(why) == 0, "c12.async-slot-chain", "SelectExpr", c.P.Pos(f.Pos()), fmt.Sprintf("%d slot-chain loop(s): the carried value is tested and is stored on every way out", found), strings.Join(uniq(why), "; "))
}

// ---------------------------------------------------------------------------------------------------------------------
// c04.side-by-first-part — a condition over two functions (§10, round 8). extractColumnsFromExpr answers, for an ON column,
// (is it this side's, the part it was decided on, the column's path): the decision and the part agree — both are the
// outermost part of the name, so `a.k.id` belongs to the side `a`. The callers use the boolean. Round 11: the part became
// the qualifier's table name (`k`) — harmless, nobody read it — and the callers began to compare the part with the
// identifier themselves — harmless, the two were the same string. Together a three-part column belongs to neither side.
func init() { register("C04", ruleC04SideByFirstPart) }

func ruleC04SideByFirstPart(c *Ctx) {
	c.Doc("c04.side-by-first-part", "join-column extraction, two functions: either the callers of extractColumnsFromExpr decide a column's side by its boolean result, or the part it returns next to the boolean is the very value the boolean compares the identifier with (the outermost part of the name). Violated only when the callers read the returned part AND that part is no longer what the boolean was decided on; each half alone is silent")
	prod := c.P.Func(modPath, "extractColumnsFromExpr")
	cons := c.P.Func(modPath, "extractJoinColumns")
	if prod == nil || cons == nil {
		// the pair this condition is about does not exist in this shape (the per-operand helper inlined or renamed): there is
		// no second result for a caller to read; the extraction itself is c04.key-alignment's
		c.PassTrivial("c04.side-by-first-part", "extractColumnsFromExpr+extractJoinColumns", "-", "no per-operand helper with a returned part: nothing for the callers to read")
		return
	}
	c.Fn("extractColumnsFromExpr")
	c.Fn("extractJoinColumns")
	// producer: on every return whose first result compares the identifier with X, the second result is X
	tb := NewTB()
	decided, lost := 0, ""
	allInstrs(prod, func(_ *ssa.BasicBlock, in ssa.Instruction) {
		ret, ok := in.(*ssa.Return)
		if !ok || len(ret.Results) < 2 {
			return
		}
		r0 := tb.Of(ret.Results[0])
		if r0.Op != "bin" || r0.Name != "==" {
			return
		}
		var x *Term
		switch {
		case r0.Args[0].Op == "param":
			x = r0.Args[1]
		case r0.Args[1].Op == "param":
			x = r0.Args[0]
		default:
			return
		}
		decided++
		if r1 := tb.Of(ret.Results[1]); r1.String() != x.String() {
			lost = "the part returned at " + c.P.Pos(ret.Pos()) + " (" + r1.String() + ") is not the value the side was decided on (" + x.String() + ")"
		}
	})
	if decided == 0 {
		c.Unknown("c04.side-by-first-part", "extractColumnsFromExpr", c.P.Pos(prod.Pos()), "anchor lost: no return that decides the side by comparing the identifier")
		return
	}
	// consumer: does it read the second result?
	reads := ""
	for _, g := range c.P.ModFuncs {
		if len(g.Blocks) == 0 || !strings.HasPrefix(funcPkgPath(g), modPath) {
			continue
		}
		allInstrs(g, func(_ *ssa.BasicBlock, in ssa.Instruction) {
			ex, ok := in.(*ssa.Extract)
			if !ok || ex.Index != 1 {
				return
			}
			call, isCall := ex.Tuple.(*ssa.Call)
			if !isCall || call.Common().StaticCallee() != prod {
				return
			}
			if refs := ex.Referrers(); refs != nil {
				for _, r := range *refs {
					if _, dbg := r.(*ssa.DebugRef); !dbg {
						reads = c.P.funcKey(g) + " reads the returned part at " + c.P.Pos(r.Pos())
					}
				}
			}
		})
	}
	bad := lost != "" && reads != ""
	c.Check(!bad, "c04.side-by-first-part", "extractColumnsFromExpr+extractJoinColumns", c.P.Pos(prod.Pos()), fmt.Sprintf("%d deciding return(s); part returned = part decided on: %v; callers read the part: %v", decided, lost == "", reads != ""), reads+"; "+lost+": a column `a.k.id` is decided by `k`, belongs to neither side, and both catalogs are keyed by the same column")
}

// ---------------------------------------------------------------------------------------------------------------------
// c16.accounting/scan-on-every-success — the scan of the argument-use marks is the only thing that turns a surplus argument
// into an error. Round 11 (two cooperating edits): the lexer counts the placeholders it emits, and Sanitize returns early
// when that count equals len(args) — occurrences, not distinct placeholders: `$1 … $1` with two arguments is accepted.
func init() { register("C16", ruleC16ScanOnEverySuccess) }

func ruleC16ScanOnEverySuccess(c *Ctx) {
	c.Doc("c16.accounting/scan-on-every-success", "(*Command).Sanitize: every return that hands out text (a nil error) is dominated by the loop over the argument-use marks: no shortcut answers before the unused-argument scan has run")
	f := c.P.Method(sanitizePath, "Command", "Sanitize")
	if f == nil {
		c.Unknown("c16.accounting/scan-on-every-success", "(*Command).Sanitize", "-", "anchor lost")
		return
	}
	var scan *ssa.BasicBlock
	for _, l := range rangeLoops(f) {
		if shortType(l.over.Type()) == "[]bool" {
			scan = l.header
		}
	}
	if scan == nil {
		// the scan as a library call: slices.Index(argUse, false) / slices.Contains / slices.IndexFunc
		allInstrs(f, func(b *ssa.BasicBlock, in ssa.Instruction) {
			call, ok := in.(*ssa.Call)
			if !ok || len(call.Common().Args) == 0 || shortType(call.Common().Args[0].Type()) != "[]bool" {
				return
			}
			sc := call.Common().StaticCallee()
			if sc == nil {
				return
			}
			if o := sc.Origin(); o != nil {
				sc = o
			}
			if sc.Pkg != nil && sc.Pkg.Pkg.Path() == "slices" && (sc.Name() == "Index" || sc.Name() == "Contains" || sc.Name() == "IndexFunc" || sc.Name() == "ContainsFunc") {
				scan = b
			}
		})
	}
	if scan == nil {
		c.Unknown("c16.accounting/scan-on-every-success", "(*Command).Sanitize", c.P.Pos(f.Pos()), "anchor lost: no loop over the argument-use marks")
		return
	}
	n := 0
	var why []string
	allInstrs(f, func(b *ssa.BasicBlock, in ssa.Instruction) {
		ret, ok := in.(*ssa.Return)
		if !ok || len(ret.Results) != 2 {
			return
		}
		if cst, isC := ret.Results[1].(*ssa.Const); !isC || cst.Value != nil {
			return
		}
		n++
		if scan != b && !scan.Dominates(b) {
			why = append(why, "the success return at "+c.P.Pos(ret.Pos())+" is reached without the scan for unused arguments: a surplus argument is accepted silently")
		}
	})
	if n == 0 {
		c.Unknown("c16.accounting/scan-on-every-success", "(*Command).Sanitize", c.P.Pos(f.Pos()), "no success return found")
		return
	}
	c.Check(len(why) == 0, "c16.accounting/scan-on-every-success", "(*Command).Sanitize", c.P.Pos(f.Pos()), fmt.Sprintf("%d success return(s), each behind the unused-argument scan", n), strings.Join(why, "; "))
}

// ---------------------------------------------------------------------------------------------------------------------
// c17.rewriter-errors-are-the-locator's — FixIdiomaticArray only re-spells what the bracket locator found: the one failure
// it knows is the locator's. Round 11: an added "unclosed bracket" validation (`index[1]-index[0] <= 1`) refuses the empty
// list `[]`, which must mean ARRAY().
func init() { register("C17", ruleC17RewriterErrors) }

func ruleC17RewriterErrors(c *Ctx) {
	c.Doc("c17.rewriter-errors", "FixIdiomaticArray: every error it returns is the error the bracket locator (FindArrayIndex) returned — the rewriter has no refusals of its own: any pair of brackets the locator reports, the empty list `[]` included, is re-spelled")
	f := c.P.Func(modPath, "FixIdiomaticArray")
	if f == nil {
		c.Unknown("c17.rewriter-errors", "FixIdiomaticArray", "-", "anchor lost")
		return
	}
	c.Fn("FixIdiomaticArray")
	n := 0
	var why []string
	var fromLocator func(v ssa.Value, depth int) bool
	fromLocator = func(v ssa.Value, depth int) bool {
		if depth > 6 {
			return false
		}
		switch x := v.(type) {
		case *ssa.Extract:
			if call, ok := x.Tuple.(*ssa.Call); ok {
				if sc := call.Common().StaticCallee(); sc != nil && strings.HasPrefix(funcPkgPath(sc), modPath) && (fnShort(sc) == "FindArrayIndex" || isUnknownHelper(sc)) {
					return true
				}
			}
		case *ssa.Phi:
			for _, e := range x.Edges {
				if !fromLocator(e, depth+1) {
					return false
				}
			}
			return len(x.Edges) > 0
		case *ssa.UnOp:
			if a, ok := x.X.(*ssa.Alloc); ok {
				sts := storesTo(a)
				for _, st := range sts {
					if cst, isC := st.Val.(*ssa.Const); isC && cst.Value == nil {
						continue
					}
					if !fromLocator(st.Val, depth+1) {
						return false
					}
				}
				return len(sts) > 0
			}
		}
		return false
	}
	allInstrs(f, func(_ *ssa.BasicBlock, in ssa.Instruction) {
		ret, ok := in.(*ssa.Return)
		if !ok || len(ret.Results) != 2 {
			return
		}
		if cst, isC := ret.Results[1].(*ssa.Const); isC && cst.Value == nil {
			return
		}
		n++
		if !fromLocator(ret.Results[1], 0) {
			why = append(why, "the error returned at "+c.P.Pos(ret.Pos())+" is made by the rewriter itself: a bracket pair the locator reported is refused (`[]` must mean ARRAY())")
		}
	})
	c.Check(len(why) == 0, "c17.rewriter-errors", "FixIdiomaticArray", c.P.Pos(f.Pos()), fmt.Sprintf("%d failing return(s), each forwarding the locator's error", n), strings.Join(why, "; "))
}

// ---------------------------------------------------------------------------------------------------------------------
// c04.side-plumbing — own probes of round 11 (after c04.emit-sides): the two sides of a join travel as two pairs of
// same-typed values (rows, rows) and (identifier, identifier) through BuildJoin -> ExecJoin -> NewJoin -> the Join record
// -> ToCatalog -> extractJoinColumns. Exchanged at any one hop — which type-checks — the right rows are keyed by the left
// side's columns, or the catalogs name each other's identifier. Three probes (identifiers exchanged in the call of NewJoin,
// crossed in NewJoin's assignments, exchanged in ToCatalog's call of the extractor) passed every check and the 267 tests.
func init() { register("C04", ruleC04SidePlumbing) }

func ruleC04SidePlumbing(c *Ctx) {
	c.Doc("c04.side-plumbing", "the hand-over of the two join sides keeps them apart and in order at every hop: BuildJoin hands the rows and the identifiers of its two side queries in the same order of sides; a function that forwards several of its parameters of one type to NewJoin / the column extractor forwards them in parameter order; NewJoin stores its same-typed parameters into the record's same-typed fields in declaration order")
	var why []string
	hops := 0
	// forwarding hops: same-typed parameters are forwarded in order
	forward := func(caller *ssa.Function, calleeName string) {
		if caller == nil {
			return
		}
		allInstrs(caller, func(_ *ssa.BasicBlock, in ssa.Instruction) {
			call, ok := in.(*ssa.Call)
			if !ok {
				return
			}
			sc := call.Common().StaticCallee()
			if sc == nil || fnShort(sc) != calleeName || !strings.HasPrefix(funcPkgPath(sc), modPath) {
				return
			}
			hops++
			last := map[string]int{}
			for _, a := range call.Common().Args {
				p, isP := a.(*ssa.Parameter)
				if !isP {
					continue
				}
				idx := -1
				for i, q := range caller.Params {
					if q == p {
						idx = i
					}
				}
				ty := p.Type().String()
				if prev, seen := last[ty]; seen && idx < prev {
					why = append(why, fmt.Sprintf("%s hands its parameters of type %s to %s out of order at %s (%s in front of an earlier one): the two sides are exchanged for one of the two pairs only", c.P.funcKey(caller), shortType(p.Type()), calleeName, c.P.Pos(call.Pos()), p.Name()))
				}
				last[ty] = idx
			}
		})
	}
	forward(c.P.Func(modPath, "ExecJoin"), "NewJoin")
	forward(c.P.Func(modPath, "ToCatalog"), "extractJoinColumns")
	// NewJoin: parameters into fields, same-typed ones in declaration order
	if nj := c.P.Func(modPath, "NewJoin"); nj != nil {
		c.Fn("NewJoin")
		type pair struct{ field, param int }
		byType := map[string][]pair{}
		allInstrs(nj, func(_ *ssa.BasicBlock, in ssa.Instruction) {
			st, ok := in.(*ssa.Store)
			if !ok {
				return
			}
			fa, isFA := st.Addr.(*ssa.FieldAddr)
			p, isP := st.Val.(*ssa.Parameter)
			if !isFA || !isP {
				return
			}
			idx := -1
			for i, q := range nj.Params {
				if q == p {
					idx = i
				}
			}
			byType[p.Type().String()] = append(byType[p.Type().String()], pair{fa.Field, idx})
		})
		for ty, ps := range byType {
			if len(ps) < 2 {
				continue
			}
			hops++
			sort.Slice(ps, func(i, j int) bool { return ps[i].field < ps[j].field })
			for i := 1; i < len(ps); i++ {
				if ps[i].param < ps[i-1].param {
					why = append(why, fmt.Sprintf("NewJoin stores its %s parameters into the record's fields out of order (%s <- %s): one pair of the two sides is crossed", ty, fieldName(nj.Params[0].Type(), ps[i].field), nj.Params[ps[i].param].Name()))
				}
			}
		}
	}
	// BuildJoin: rows and identifiers of the two side queries in the same order of sides
	if bj := c.P.Func(modPath, "BuildJoin"); bj != nil {
		deepInstrs(bj, func(g *ssa.Function, tb *TB, _ *ssa.BasicBlock, in ssa.Instruction) {
			call, ok := in.(*ssa.Call)
			if !ok {
				return
			}
			sc := call.Common().StaticCallee()
			if sc == nil || !strings.HasPrefix(funcPkgPath(sc), modPath) || (fnShort(sc) != "ExecJoin" && fnShort(sc) != "NewJoin") || g != bj {
				return
			}
			// (the two side queries are two calls of one constructor with one argument: their terms are the same text, so the
			// record a field is read from is identified by its SSA value)
			var rows, idents []ssa.Value
			_ = tb
			for _, a := range call.Common().Args {
				ld, isLd := a.(*ssa.UnOp)
				if !isLd || ld.Op != token.MUL {
					continue
				}
				fa, isFA := ld.X.(*ssa.FieldAddr)
				if !isFA {
					continue
				}
				base := fa.X
				if bl, isBL := base.(*ssa.UnOp); isBL && bl.Op == token.MUL {
					if cell, isCell := bl.X.(*ssa.Alloc); isCell {
						base = cell // a side query kept in a captured variable: every read is a load of the one cell
					}
				}
				switch fieldName(fa.X.Type(), fa.Field) {
				case "from":
					rows = append(rows, base)
				case "ident":
					idents = append(idents, base)
				}
			}
			if len(rows) == 2 && len(idents) == 2 {
				hops++
				if rows[0] == rows[1] || idents[0] == idents[1] {
					why = append(why, "BuildJoin hands the same side twice at "+c.P.Pos(call.Pos()))
				} else if rows[0] != idents[0] || rows[1] != idents[1] {
					why = append(why, "BuildJoin hands the rows of its side queries in one order and their identifiers in the other at "+c.P.Pos(call.Pos())+": each catalog is keyed by the other side's columns")
				}
			}
		})
	}
	if hops < 3 {
		c.Unknown("c04.side-plumbing", "BuildJoin..extractJoinColumns", "-", fmt.Sprintf("inventory: %d hand-over sites recognised (at least 3 on the tree as read)", hops))
		return
	}
	c.Check(len(why) == 0, "c04.side-plumbing", "BuildJoin..extractJoinColumns", "-", fmt.Sprintf("%d hand-over sites keep the sides apart and in order", hops), strings.Join(uniq(why), "; "))
}

// ---------------------------------------------------------------------------------------------------------------------
// c04.bucket-once — ToCatalog groups the rows of a side by their key. A bucket is started (an empty list stored) only
// for a key that has none yet; started again for a key that is already there it drops the rows collected so far (own
// probe of round 11: `; ok` for `; !ok` on the presence test — the 267 tests pass).
func init() { register("C04", ruleC04BucketOnce) }

func ruleC04BucketOnce(c *Ctx) {
	c.Doc("c04.bucket-once", "ToCatalog: an empty row list is stored into the catalog only under the fact that the catalog has no entry for that key (the comma-ok look-up answered false); every row is appended to its bucket on every path of its round that reaches the next row")
	f := c.P.Func(modPath, "ToCatalog")
	if f == nil {
		c.Unknown("c04.bucket-once", "ToCatalog", "-", "anchor lost")
		return
	}
	n := 0
	var why []string
	deepInstrs(f, func(g *ssa.Function, tb *TB, b *ssa.BasicBlock, in ssa.Instruction) {
		mu, ok := in.(*ssa.MapUpdate)
		if !ok {
			return
		}
		fresh := false
		switch v := mu.Value.(type) {
		case *ssa.MakeSlice:
			fresh = true
		case *ssa.Slice:
			// make([]T, 0) with constant bounds is an allocated array, sliced
			if a, isA := v.X.(*ssa.Alloc); isA && a.Comment == "makeslice" {
				fresh = true
			}
		}
		if !fresh {
			return
		}
		mt := tb.Of(mu.Map)
		if !(mt.Op == "field" && mt.Name == "Rows") {
			return
		}
		n++
		absent := false
		for _, fc := range factsAt(b) {
			cond, truth := fc.cond, fc.truth
			for {
				u, isU := cond.(*ssa.UnOp)
				if !isU || u.Op != token.NOT {
					break
				}
				cond, truth = u.X, !truth
			}
			ex, isEx := cond.(*ssa.Extract)
			if !isEx || ex.Index != 1 {
				continue
			}
			lk, isLk := ex.Tuple.(*ssa.Lookup)
			if !isLk || !lk.CommaOk {
				continue
			}
			lt := tb.Of(lk.X)
			if lt.Op == "field" && (lt.Name == "Rows" || lt.Name == "Keys") && tb.Of(lk.Index).String() == tb.Of(mu.Key).String() {
				if truth {
					why = append(why, "an empty list is stored at "+c.P.Pos(mu.Pos())+" for a key the catalog already has: the rows collected for it so far are dropped")
				} else {
					absent = true
				}
			}
		}
		if !absent && len(why) == 0 {
			why = append(why, "an empty list is stored at "+c.P.Pos(mu.Pos())+" without the catalog having been asked whether the key is new")
		}
	})
	if n == 0 {
		// buckets grown by append alone (append to the nil list of a missing key): nothing is ever reset
		c.PassTrivial("c04.bucket-once", "ToCatalog", c.P.Pos(f.Pos()), "no bucket is started explicitly")
		return
	}
	c.Check(len(why) == 0, "c04.bucket-once", "ToCatalog", c.P.Pos(f.Pos()), fmt.Sprintf("%d explicit bucket start(s), each for an absent key", n), strings.Join(uniq(why), "; "))
}

// ---------------------------------------------------------------------------------------------------------------------
// go.nil-test-sibling, indexed form — the same contradiction for the elements of one argument list: `if args[0] != nil {
// to = TextOf(args[1]) }` (own probe of round 11 in DATERANGE: the upper bound is taken when the LOWER one is not NULL — a
// NULL upper bound renders as the text of nil, a NULL lower bound leaves a given upper bound out).
func init() {
	for _, id := range allProps() {
		registerLate(id, ruleGoNilTestSiblingIndexed)
	}
}

// constElem: v is a load of s[k] with constant k.
func constElem(v ssa.Value) (ssa.Value, int64, bool) {
	ld, ok := v.(*ssa.UnOp)
	if !ok || ld.Op != token.MUL {
		return nil, 0, false
	}
	ia, ok := ld.X.(*ssa.IndexAddr)
	if !ok {
		return nil, 0, false
	}
	k, isK := constIntOf(ia.Index)
	if !isK {
		return nil, 0, false
	}
	return ia.X, k, true
}

func ruleGoNilTestSiblingIndexed(c *Ctx) {
	c.Doc("go.nil-test-sibling/indexed", "an element s[i] of a slice (constant i) is not read under the test `s[j] != nil` of another element of the same slice when no test of s[i] covers the read and s[j] itself is not read anywhere that test holds: the test names the wrong element (the functions reachable from the ones this property's rules analyse)")
	reach := c.reachableFromAnalysed()
	var fns []*ssa.Function
	for _, f := range c.P.ModFuncs {
		if len(f.Blocks) == 0 || !strings.HasPrefix(funcPkgPath(f), modPath) || len(f.TypeArgs()) > 0 {
			continue
		}
		r := f
		for r.Parent() != nil {
			r = r.Parent()
		}
		if reach[r] {
			fns = append(fns, f)
		}
	}
	sort.Slice(fns, func(i, j int) bool { return c.P.funcKey(fns[i]) < c.P.funcKey(fns[j]) })
	n, reads := 0, 0
	for _, f := range fns {
		n++
		type rd struct {
			s  ssa.Value
			k  int64
			in ssa.Instruction
		}
		var all []rd
		allInstrs(f, func(_ *ssa.BasicBlock, in ssa.Instruction) {
			if v, isV := in.(ssa.Value); isV {
				if s, k, ok := constElem(v); ok {
					all = append(all, rd{s, k, in})
				}
			}
		})
		var bad []string
		for _, r := range all {
			reads++
			// a read that only feeds a nil test is the test itself
			onlyTest := true
			if refs := r.in.(ssa.Value).Referrers(); refs != nil {
				for _, u := range *refs {
					if bo, isBO := u.(*ssa.BinOp); isBO && (bo.Op == token.EQL || bo.Op == token.NEQ) {
						continue
					}
					if _, dbg := u.(*ssa.DebugRef); dbg {
						continue
					}
					onlyTest = false
				}
			}
			if onlyTest {
				continue
			}
			own := false
			var sib []fact
			var sibK []int64
			for _, fc := range factsAt(r.in.Block()) {
				ptr := nilFactPtr(fc)
				if ptr == nil {
					continue
				}
				s, k, ok := constElem(ptr)
				if !ok || s != r.s {
					continue
				}
				if k == r.k {
					own = true
				} else {
					sib = append(sib, fc)
					sibK = append(sibK, k)
				}
			}
			if own {
				continue
			}
			for i, fc := range sib {
				used := false
				for _, e := range all {
					if e.s != r.s || e.k != sibK[i] {
						continue
					}
					// a real use (not the test itself) of the tested element where the test holds
					isUse := false
					if refs := e.in.(ssa.Value).Referrers(); refs != nil {
						for _, u := range *refs {
							if bo, isBO := u.(*ssa.BinOp); isBO && (bo.Op == token.EQL || bo.Op == token.NEQ) {
								continue
							}
							if _, dbg := u.(*ssa.DebugRef); dbg {
								continue
							}
							isUse = true
						}
					}
					if !isUse {
						continue
					}
					for _, g := range factsAt(e.in.Block()) {
						if g.cond == fc.cond && g.truth == fc.truth {
							used = true
						}
					}
				}
				if !used {
					bad = append(bad, fmt.Sprintf("%s: element %d is read under the nil test of element %d, which is not read anywhere that test holds, and under no test of its own", c.P.Pos(r.in.Pos()), r.k, sibK[i]))
				}
			}
		}
		if len(bad) > 0 {
			c.Fail("go.nil-test-sibling/indexed", c.P.funcKey(f), c.P.Pos(f.Pos()), strings.Join(uniq(bad), "; "))
		}
	}
	c.Check(n > 0, "go.nil-test-sibling/indexed", "inventory", "-", fmt.Sprintf("%d functions, %d reads of constant elements; none under a sibling element's nil test only", n, reads), "no function analysed")
}
