package main

import (
	"fmt"
	"go/constant"
	"go/token"
	"sort"
	"strings"

	"golang.org/x/tools/go/ssa"
)

// Path walker (engine E-table / E-once): a path-sensitive abstract interpretation of one
// function's SSA over a finite abstract domain. Values are either known constants (literals
// of the program, or members of a finite domain the rule declares for an atom, e.g. the sign
// {-1,0,1} of a compare call or the constants of an operator enum) or symbolic terms.
// Branches on symbolic conditions fork the path and record the assumption. Nothing of genql
// is executed and no solver is involved: conditions are decided by substitution only.

type AV struct {
	C      constant.Value
	Nil    bool
	NonNil bool // known not to be nil (a value boxed into an interface, an address, a fresh allocation)
	T      *Term
}

func (a AV) Known() bool { return a.C != nil || a.Nil }

type Effect struct {
	Kind   string // call go defer store mapupdate send panic
	Instr  ssa.Instruction
	Callee string
	Args   []*Term
	Vals   []AV
	Block  int
	NAsg   int // number of assumptions (Path.Order) made before the effect
}

type Path struct {
	Asg       Asg
	Order     []string
	Effects   []Effect
	Exit      string // return panic stop cut
	Ret       []AV
	ExitInstr ssa.Instruction
	StopBlock *ssa.BasicBlock
	Blocks    []int
	KeyTerm   map[string]*Term // shared: the term behind every assumption key
	// PhiIn: for a path that stops at a block (loop header), the value each phi of that block
	// receives from this path: the loop's per-iteration transfer function.
	PhiIn map[*ssa.Phi]AV
	final *wstate // state at the exit (used when the path belongs to an inlined callee)
}

// Assumed returns the assumed truth of a condition key (normalised) and whether it was assumed.
func (p *Path) Assumed(key string) (bool, bool) {
	v, ok := p.Asg[key]
	if !ok || v.Kind() != constant.Bool {
		return false, false
	}
	return constant.BoolVal(v), true
}

func (p *Path) String() string {
	var sb strings.Builder
	for _, k := range p.Order {
		fmt.Fprintf(&sb, "[%s=%s]", k, p.Asg[k].ExactString())
	}
	sb.WriteString(" -> " + p.Exit)
	for _, r := range p.Ret {
		sb.WriteString(" " + avString(r))
	}
	return sb.String()
}

func avString(a AV) string {
	if a.C != nil {
		return a.C.ExactString()
	}
	if a.Nil {
		return "nil"
	}
	return a.T.String()
}

type WalkCfg struct {
	// Domain returns the finite domain of an atom term, or nil.
	Domain func(t *Term) []constant.Value
	// Prune is asked before a branch assumption (key=val) is followed; return true to drop the branch.
	Prune     func(key string, t *Term, val constant.Value) bool
	StopAt    func(b *ssa.BasicBlock) bool
	MaxPaths  int
	MaxVisits int
	// Pre-assigned atoms.
	Pre Asg
	// NoEffects: do not record call effects (saves memory on big functions)
	NoEffects bool
	// NoInline: keep every call opaque (the error-flow engine reasons per call site)
	NoInline bool
	// InlineOnly: with NoInline, the helpers that are inlined all the same (a helper that receives all results of the call under analysis)
	InlineOnly func(f *ssa.Function) bool
	// Bind: values known before the walk starts (the parameters of a helper bound to its call site's arguments)
	Bind map[ssa.Value]AV
}

// bindArgs: the parameters of the helper called at `call`, bound to the argument values of that call as seen from the
// caller (constants, function literals with what they capture, and the caller's own terms).
func bindArgs(call *ssa.Call) map[ssa.Value]AV {
	if call == nil || call.Common().StaticCallee() == nil {
		return nil
	}
	h := call.Common().StaticCallee()
	tb := NewTB()
	out := map[ssa.Value]AV{}
	for i, p := range h.Params {
		if i >= len(call.Common().Args) {
			break
		}
		a := call.Common().Args[i]
		av := AV{T: tb.Of(a)}
		if k, ok := a.(*ssa.Const); ok {
			if k.Value != nil {
				av.C = k.Value
			} else if isNillable(k.Type()) {
				av.Nil = true
			}
		}
		// only what the helper's own terms cannot express: constants and function values; every other parameter stays
		// symbolic, so that rules written against the helper's values (its loop, its elements) still match
		if av.C == nil && !av.Nil && av.T.Op != "closure" && av.T.Op != "fn" {
			continue
		}
		out[p] = av
	}
	return out
}

type wstate struct {
	env     map[ssa.Value]AV
	mem     map[*ssa.Alloc]AV
	heap    map[string]AV
	asg     Asg
	order   []string
	effects []Effect
	visits  map[int]int
	blocks  []int
	rng     map[string][2]int64
	tuples  map[ssa.Value][]AV // results of inlined multi-result calls
	refunds int                // visits given back for loop tests that were decided by program constants (bounded)
}

func (s *wstate) clone() *wstate {
	n := &wstate{env: make(map[ssa.Value]AV, len(s.env)), mem: make(map[*ssa.Alloc]AV, len(s.mem)), heap: make(map[string]AV, len(s.heap)),
		asg: make(Asg, len(s.asg)), visits: make(map[int]int, len(s.visits)), refunds: s.refunds}
	for k, v := range s.env {
		n.env[k] = v
	}
	for k, v := range s.mem {
		n.mem[k] = v
	}
	for k, v := range s.heap {
		n.heap[k] = v
	}
	for k, v := range s.asg {
		n.asg[k] = v
	}
	for k, v := range s.visits {
		n.visits[k] = v
	}
	n.rng = make(map[string][2]int64, len(s.rng))
	for k, v := range s.rng {
		n.rng[k] = v
	}
	if len(s.tuples) > 0 {
		n.tuples = make(map[ssa.Value][]AV, len(s.tuples))
		for k, v := range s.tuples {
			n.tuples[k] = v
		}
	}
	n.order = append([]string(nil), s.order...)
	n.effects = append([]Effect(nil), s.effects...)
	n.blocks = append([]int(nil), s.blocks...)
	return n
}

type walker struct {
	fn      *ssa.Function
	cfg     WalkCfg
	tb      *TB
	paths   []*Path
	over    bool
	local   map[*ssa.Alloc]bool
	keyTerm map[string]*Term
	stack   []*ssa.Function // functions being inlined (outermost first)
}

// WalkFunc enumerates the abstract paths of fn from its entry.
func WalkFunc(fn *ssa.Function, cfg WalkCfg) ([]*Path, error) {
	if len(fn.Blocks) == 0 {
		return nil, fmt.Errorf("%s has no body", fn)
	}
	return WalkFrom(fn, fn.Blocks[0], nil, cfg)
}

// WalkFrom enumerates the abstract paths starting at block `start` (entered from `prev`, may be nil).
func WalkFrom(fn *ssa.Function, start, prev *ssa.BasicBlock, cfg WalkCfg) ([]*Path, error) {
	if cfg.MaxPaths == 0 {
		cfg.MaxPaths = 4000
	}
	if cfg.MaxVisits == 0 {
		cfg.MaxVisits = 2
	}
	w := &walker{fn: fn, cfg: cfg, tb: NewTB(), local: map[*ssa.Alloc]bool{}, keyTerm: map[string]*Term{}}
	for _, b := range fn.Blocks {
		for _, in := range b.Instrs {
			if a, ok := in.(*ssa.Alloc); ok && isLocalCell(a) {
				w.local[a] = true
			}
		}
	}
	s := &wstate{env: map[ssa.Value]AV{}, mem: map[*ssa.Alloc]AV{}, heap: map[string]AV{}, asg: Asg{}, visits: map[int]int{}, rng: map[string][2]int64{}}
	for k, v := range cfg.Pre {
		s.asg[k] = v
	}
	for k, v := range cfg.Bind {
		s.env[k] = v
	}
	w.block(s, start, prev, 0)
	if w.over {
		return w.paths, fmt.Errorf("path budget exceeded (%d) in %s", cfg.MaxPaths, fn)
	}
	return w.paths, nil
}

// isLocalCell: the cell's contents can be tracked flow-sensitively in its owning function: it
// is only loaded and stored directly, or captured by closures that never store to it.
func isLocalCell(a *ssa.Alloc) bool {
	refs := a.Referrers()
	if refs == nil {
		return true
	}
	captured := false
	for _, r := range *refs {
		switch r := r.(type) {
		case *ssa.Store:
			if r.Addr != a {
				return false
			}
		case *ssa.UnOp:
			if r.Op != token.MUL {
				return false
			}
		case *ssa.DebugRef:
		case *ssa.MakeClosure:
			captured = true
		default:
			return false
		}
	}
	if captured {
		for _, st := range storesTo(a) {
			if st.Parent() != a.Parent() {
				return false
			}
		}
		// the closures must use the captured cell only for loads (not pass its address on)
		if !freeVarOnlyLoaded(a, map[ssa.Value]bool{}) {
			return false
		}
	}
	return true
}

func freeVarOnlyLoaded(v ssa.Value, seen map[ssa.Value]bool) bool {
	if seen[v] {
		return true
	}
	seen[v] = true
	refs := v.Referrers()
	if refs == nil {
		return true
	}
	for _, r := range *refs {
		mc, ok := r.(*ssa.MakeClosure)
		if !ok {
			continue
		}
		fn := mc.Fn.(*ssa.Function)
		for i, b := range mc.Bindings {
			if b != v || i >= len(fn.FreeVars) {
				continue
			}
			fv := fn.FreeVars[i]
			if fr := fv.Referrers(); fr != nil {
				for _, u := range *fr {
					switch u := u.(type) {
					case *ssa.UnOp:
						if u.Op != token.MUL {
							return false
						}
					case *ssa.DebugRef:
					case *ssa.MakeClosure:
						if !freeVarOnlyLoaded(fv, seen) {
							return false
						}
					default:
						return false
					}
				}
			}
		}
	}
	return true
}

func (w *walker) emit(s *wstate, exit string, in ssa.Instruction, ret []AV, stop *ssa.BasicBlock) {
	if len(w.paths) >= w.cfg.MaxPaths {
		w.over = true
		return
	}
	w.paths = append(w.paths, &Path{Asg: s.asg, Order: s.order, Effects: s.effects, Exit: exit, Ret: ret, ExitInstr: in, StopBlock: stop, Blocks: s.blocks, KeyTerm: w.keyTerm, final: s})
}

func (w *walker) val(s *wstate, v ssa.Value) AV {
	if av, ok := s.env[v]; ok {
		return av
	}
	switch v := v.(type) {
	case *ssa.Const:
		t := constTerm(v)
		if v.Value != nil {
			return AV{C: v.Value, T: t}
		}
		if isNillable(v.Type()) {
			return AV{Nil: true, T: t}
		}
		return AV{T: t}
	}
	t := w.tb.Of(v)
	return w.refine(s, AV{T: t})
}

// refine applies the path's assumptions to a symbolic value.
func (w *walker) refine(s *wstate, a AV) AV {
	if a.Known() || a.T == nil {
		return a
	}
	if c, ok := EvalTermN(a.T, s.asg); ok {
		a.C = c
	}
	return a
}

func (w *walker) block(s *wstate, b, prev *ssa.BasicBlock, depth int) {
	w.blockFrom(s, b, prev, depth, 0)
}

// blockFrom continues the walk at instruction index `from` of block b (from > 0: the block was entered
// earlier on this path and an inlined call has just returned).
func (w *walker) blockFrom(s *wstate, b, prev *ssa.BasicBlock, depth int, from int) {
	for {
		if w.over {
			return
		}
		if from == 0 {
			if w.cfg.StopAt != nil && prev != nil && w.cfg.StopAt(b) {
				w.emit(s, "stop", nil, nil, b)
				if n := len(w.paths); n > 0 && w.paths[n-1].Exit == "stop" {
					pin := map[*ssa.Phi]AV{}
					idx := -1
					for i, p := range b.Preds {
						if p == prev {
							idx = i
						}
					}
					for _, in := range b.Instrs {
						ph, ok := in.(*ssa.Phi)
						if !ok {
							break
						}
						if idx >= 0 {
							pin[ph] = w.val(s, ph.Edges[idx])
						}
					}
					w.paths[n-1].PhiIn = pin
				}
				return
			}
			s.visits[b.Index]++
			if s.visits[b.Index] > w.cfg.MaxVisits {
				w.emit(s, "cut", nil, nil, b)
				return
			}
			s.blocks = append(s.blocks, b.Index)
			// phis first, evaluated simultaneously
			phiVals := map[*ssa.Phi]AV{}
			for _, in := range b.Instrs {
				ph, ok := in.(*ssa.Phi)
				if !ok {
					break
				}
				if prev == nil {
					phiVals[ph] = AV{T: w.tb.Of(ph)}
					continue
				}
				idx := -1
				for i, p := range b.Preds {
					if p == prev {
						idx = i
						break
					}
				}
				if idx < 0 {
					phiVals[ph] = AV{T: w.tb.Of(ph)}
				} else {
					phiVals[ph] = w.val(s, ph.Edges[idx])
				}
			}
			for ph, av := range phiVals {
				s.env[ph] = av
			}
		}
		var next *ssa.BasicBlock
		for idx, in := range b.Instrs {
			if idx < from {
				continue
			}
			if call, isCall := in.(*ssa.Call); isCall && w.shouldInline(s, call) {
				w.inlineCall(s, b, prev, depth, idx, call)
				return
			}
			switch in := in.(type) {
			case *ssa.Phi:
				continue
			case *ssa.If:
				w.branch(s, b, in, depth)
				return
			case *ssa.Jump:
				next = b.Succs[0]
			case *ssa.Return:
				ret := make([]AV, len(in.Results))
				for i, r := range in.Results {
					ret[i] = w.val(s, r)
				}
				w.emit(s, "return", in, ret, nil)
				return
			case *ssa.Panic:
				s.effects = append(s.effects, Effect{NAsg: len(s.order), Kind: "panic", Instr: in, Args: []*Term{w.val(s, in.X).T}, Block: b.Index})
				w.emit(s, "panic", in, nil, nil)
				return
			default:
				w.instr(s, b, in)
			}
		}
		if next == nil {
			w.emit(s, "cut", nil, nil, b)
			return
		}
		prev, b = b, next
		from = 0
	}
}

// shouldInline: a static call of a module function that the rule tables do not know (a helper extracted by
// a refactoring, say) is analysed by inlining, so that the rules see through it; known functions stay
// opaque anchors. Bounded: no recursion, nesting depth 3.
func (w *walker) shouldInline(s *wstate, call *ssa.Call) bool {
	cal, _ := w.inlineTarget(s, call)
	return cal != nil
}

// inlineTarget: the function to inline for a call, and the closure term when the callee is a function literal that
// reached the call as a value (through a helper's parameter, a captured variable or a read-only dispatch table).
func (w *walker) inlineTarget(s *wstate, call *ssa.Call) (*ssa.Function, *Term) {
	cc := call.Common()
	if cc.IsInvoke() || len(w.stack) >= 3 {
		return nil, nil
	}
	if w.cfg.NoInline && !(w.cfg.InlineOnly != nil && cc.StaticCallee() != nil && w.cfg.InlineOnly(cc.StaticCallee())) {
		return nil, nil
	}
	var cal *ssa.Function
	var clo *Term
	if sc := cc.StaticCallee(); sc != nil {
		if sc.Parent() != nil {
			return nil, nil // closures called directly: left opaque
		}
		if sc.Pkg == nil && sc.Origin() == nil {
			return nil, nil
		}
		if knownFuncs[knownKey(sc)] {
			return nil, nil
		}
		cal = sc
	} else {
		switch cc.Value.(type) {
		case *ssa.Parameter, *ssa.FreeVar, *ssa.Extract, *ssa.Lookup:
		case *ssa.UnOp:
			// a function value read from a variable (a local helper closure the body captured: `fail := func…`)
		default:
			return nil, nil
		}
		t := w.val(s, cc.Value).T
		if t == nil {
			return nil, nil
		}
		t = w.tableEntry(s, t)
		switch t.Op {
		case "closure":
			mc, ok := t.V.(*ssa.MakeClosure)
			if !ok {
				return nil, nil
			}
			cal, clo = mc.Fn.(*ssa.Function), t
		case "fn":
			f, ok := t.V.(*ssa.Function)
			if !ok || (!isUnknownHelper(f) && f.Parent() == nil) {
				return nil, nil // a named function the rules know: stays an (opaque) call of it
			}
			cal = f
		default:
			return nil, nil
		}
	}
	if cal == nil || len(cal.Blocks) == 0 || cal == w.fn || !strings.HasPrefix(funcPkgPath(cal), modPath) {
		return nil, nil
	}
	for _, f := range w.stack {
		if f == cal {
			return nil, nil
		}
	}
	if calleesInclude(cal, cal, 0) {
		return nil, nil // directly or mutually recursive helper
	}
	return cal, clo
}

// tableEntry: a function value read from a read-only dispatch table under a key the path determines is the
// entry's function.
func (w *walker) tableEntry(s *wstate, t *Term) *Term {
	lt := t
	if t.Op == "ext" && t.Name == "0" && len(t.Args) == 1 {
		lt = t.Args[0]
	}
	if e, present, decided := roLookup(lt, s.asg); decided && present && e != nil {
		return w.tb.Of(e)
	}
	return t
}

func knownKey(f *ssa.Function) string {
	if o := f.Origin(); o != nil {
		f = o
	}
	return funcName(f)
}

// calleesInclude: target is reachable from f through static calls (depth-bounded).
func calleesInclude(f, target *ssa.Function, d int) bool {
	if d > 4 {
		return false
	}
	found := false
	allInstrs(f, func(_ *ssa.BasicBlock, in ssa.Instruction) {
		if found {
			return
		}
		if ci, ok := in.(ssa.CallInstruction); ok {
			if c := ci.Common().StaticCallee(); c != nil {
				if c == target {
					found = true
				} else if c != f && len(c.Blocks) > 0 && strings.HasPrefix(funcPkgPath(c), modPath) && !knownFuncs[knownKey(c)] && calleesInclude(c, target, d+1) {
					found = true
				}
			}
		}
	})
	return found
}

// inlineCall walks the callee with its parameters bound to the caller's argument values and, for every
// path of the callee, continues the caller after the call.
func (w *walker) inlineCall(s *wstate, b, prev *ssa.BasicBlock, depth, idx int, call *ssa.Call) {
	cal, clo := w.inlineTarget(s, call)
	sw := &walker{fn: cal, cfg: w.cfg, tb: NewTB(), local: map[*ssa.Alloc]bool{}, keyTerm: w.keyTerm, stack: append(append([]*ssa.Function(nil), w.stack...), w.fn)}
	sw.cfg.StopAt = nil
	sw.cfg.MaxPaths = w.cfg.MaxPaths
	for _, blk := range cal.Blocks {
		for _, in := range blk.Instrs {
			if a, ok := in.(*ssa.Alloc); ok && isLocalCell(a) {
				sw.local[a] = true
			}
		}
	}
	cs := s.clone()
	cs.visits = map[int]int{}
	cs.blocks = nil
	for i, p := range cal.Params {
		if i < len(call.Common().Args) {
			cs.env[p] = w.val(s, call.Common().Args[i])
		}
	}
	if clo != nil {
		mc := clo.V.(*ssa.MakeClosure)
		for i, fv := range cal.FreeVars {
			switch {
			case i < len(clo.Args):
				cs.env[fv] = AV{T: clo.Args[i]}
			case clo.env != nil && i < len(mc.Bindings):
				cs.env[fv] = AV{T: clo.env.Of(mc.Bindings[i])}
			}
		}
	}
	sw.block(cs, cal.Blocks[0], nil, 0)
	if sw.over {
		w.over = true
		return
	}
	for _, p := range sw.paths {
		fs := p.final
		if fs == nil {
			continue
		}
		n := fs.clone()
		// the caller's own bookkeeping
		n.visits = make(map[int]int, len(s.visits))
		for k, v := range s.visits {
			n.visits[k] = v
		}
		n.blocks = append([]int(nil), s.blocks...)
		// the callee may have written anything reachable
		for k := range n.heap {
			delete(n.heap, k)
		}
		switch p.Exit {
		case "return":
			if len(p.Ret) == 1 {
				n.env[call] = p.Ret[0]
			} else if len(p.Ret) > 1 {
				if n.tuples == nil {
					n.tuples = map[ssa.Value][]AV{}
				}
				n.tuples[call] = p.Ret
				n.env[call] = AV{T: &Term{Op: "tuple", Name: funcName(cal), V: call, Typ: call.Type()}}
			}
			w.blockFrom(n, b, prev, depth, idx+1)
		case "panic":
			w.emit(n, "panic", p.ExitInstr, nil, nil)
		default:
			w.emit(n, "cut", nil, nil, b)
		}
		if w.over {
			return
		}
	}
}

func (w *walker) branch(s *wstate, b *ssa.BasicBlock, in *ssa.If, depth int) {
	av := w.val(s, in.Cond)
	if av.C != nil && av.C.Kind() == constant.Bool && s.refunds < 48 {
		// decided by the program's own constants, before any assumption of the path is consulted (the counter of a
		// loop over a table of fixed length: `for _, step := range [5]func…`): such a test does not fork the path, so
		// it does not use up the visit budget of its block — the loop is unrolled
		s.refunds++
		s.visits[b.Index]--
		// ... and neither do the blocks of the loop this test heads: each round of an unrolled loop is a first visit
		for _, x := range b.Parent().Blocks {
			if x != b && s.visits[x.Index] > 0 && b.Dominates(x) && inNaturalLoop(b, x) {
				s.visits[x.Index]--
			}
		}
	}
	av = w.refine(s, av)
	if av.C != nil && av.C.Kind() == constant.Bool {
		if constant.BoolVal(av.C) {
			w.block(s, b.Succs[0], b, depth+1)
		} else {
			w.block(s, b.Succs[1], b, depth+1)
		}
		return
	}
	// finite-domain fork on the first unassigned atom inside the (normalised) condition
	if w.cfg.Domain != nil {
		var atom *Term
		var dom []constant.Value
		nk, _ := normCond(av.T)
		nk.Walk(func(x *Term) bool {
			if atom != nil {
				return false
			}
			if _, done := s.asg[x.String()]; done {
				return false
			}
			if d := w.cfg.Domain(x); d != nil {
				atom, dom = x, d
				return false
			}
			return true
		})
		if atom != nil {
			for _, d := range dom {
				if w.cfg.Prune != nil && w.cfg.Prune(atom.String(), atom, d) {
					continue
				}
				n := s.clone()
				n.asg[atom.String()] = d
				n.order = append(n.order, atom.String())
				w.keyTerm[atom.String()] = atom
				// undo the visit bookkeeping of this block for the re-dispatch
				w.branch(n, b, in, depth)
			}
			return
		}
	}
	key, pol := normCond(av.T)
	// integer-range reasoning: a comparison of some term with an integer constant is decided by
	// (and refines) the range the path already knows for that term; len(...) terms start at [0, inf)
	if sub, rel, k, ok := cmpWithConst(key); ok {
		lo, hi := s.rangeOf(sub)
		for _, truth := range []bool{true, false} {
			kv := truth == pol
			nlo, nhi, feasible := refineRange(lo, hi, rel, k, kv)
			if !feasible {
				continue
			}
			if w.cfg.Prune != nil && w.cfg.Prune(key.String(), key, constant.MakeBool(kv)) {
				continue
			}
			n := s.clone()
			n.asg[key.String()] = constant.MakeBool(kv)
			n.order = append(n.order, key.String())
			w.keyTerm[key.String()] = key
			n.rng[sub.String()] = [2]int64{nlo, nhi}
			if truth {
				w.block(n, b.Succs[0], b, depth+1)
			} else {
				w.block(n, b.Succs[1], b, depth+1)
			}
		}
		return
	}
	for _, truth := range []bool{true, false} {
		kv := truth == pol // value assigned to the normalised key
		if w.cfg.Prune != nil && w.cfg.Prune(key.String(), key, constant.MakeBool(kv)) {
			continue
		}
		n := s.clone()
		n.asg[key.String()] = constant.MakeBool(kv)
		n.order = append(n.order, key.String())
		w.keyTerm[key.String()] = key
		if truth {
			w.block(n, b.Succs[0], b, depth+1)
		} else {
			w.block(n, b.Succs[1], b, depth+1)
		}
	}
}

const rngInf = int64(1) << 62

func (s *wstate) rangeOf(t *Term) (int64, int64) {
	if r, ok := s.rng[t.String()]; ok {
		return r[0], r[1]
	}
	if t.Op == "call" && (t.Name == "builtin:len" || t.Name == "builtin:cap") {
		return 0, rngInf
	}
	return -rngInf, rngInf
}

// cmpWithConst: key is (T rel c) or (c rel T) with c an integer constant and T not constant;
// returns T, the relation normalised to "T rel c", and c.
func cmpWithConst(key *Term) (*Term, string, int64, bool) {
	if key.Op != "bin" || len(key.Args) != 2 {
		return nil, "", 0, false
	}
	switch key.Name {
	case "==", "<", "<=", ">", ">=":
	default:
		return nil, "", 0, false
	}
	intOf := func(t *Term) (int64, bool) {
		if t.Op != "const" {
			return 0, false
		}
		c, ok := t.V.(*ssa.Const)
		if !ok || c.Value == nil || c.Value.Kind() != constant.Int {
			return 0, false
		}
		return constant.Int64Val(c.Value)
	}
	isLen := func(t *Term) bool { return t.Op == "call" && (t.Name == "builtin:len" || t.Name == "builtin:cap") }
	if k, ok := intOf(key.Args[1]); ok && isLen(key.Args[0]) {
		return key.Args[0], key.Name, k, true
	}
	if k, ok := intOf(key.Args[0]); ok && isLen(key.Args[1]) {
		flip := map[string]string{"==": "==", "<": ">", "<=": ">=", ">": "<", ">=": "<="}
		return key.Args[1], flip[key.Name], k, true
	}
	return nil, "", 0, false
}

// refineRange: the range of T given that (T rel k) has truth value kv; feasible=false if empty.
func refineRange(lo, hi int64, rel string, k int64, kv bool) (int64, int64, bool) {
	if !kv {
		switch rel {
		case "<":
			rel = ">="
		case "<=":
			rel = ">"
		case ">":
			rel = "<="
		case ">=":
			rel = "<"
		case "==":
			// T != k: only refines at the borders
			if lo == k && hi == k {
				return lo, hi, false
			}
			if lo == k {
				lo++
			}
			if hi == k {
				hi--
			}
			return lo, hi, lo <= hi
		}
	}
	switch rel {
	case "<":
		if k-1 < hi {
			hi = k - 1
		}
	case "<=":
		if k < hi {
			hi = k
		}
	case ">":
		if k+1 > lo {
			lo = k + 1
		}
	case ">=":
		if k > lo {
			lo = k
		}
	case "==":
		if k > lo {
			lo = k
		}
		if k < hi {
			hi = k
		}
	}
	return lo, hi, lo <= hi
}

// normCond strips negations: returns the positive condition term and the polarity such that
// cond == (key == polarity).
func normCond(t *Term) (*Term, bool) {
	pol := true
	for {
		if t.Op == "un" && t.Name == "!" {
			t = t.Args[0]
			pol = !pol
			continue
		}
		if t.Op == "bin" && t.Name == "!=" {
			t = &Term{Op: "bin", Name: "==", Args: t.Args, Typ: t.Typ}
			pol = !pol
			continue
		}
		break
	}
	return t, pol
}

// EvalTermN is EvalTerm that also understands normalised condition keys.
func EvalTermN(t *Term, asg Asg) (constant.Value, bool) {
	if v, ok := EvalTerm(t, asg); ok {
		return v, true
	}
	key, pol := normCond(t)
	if v, ok := asg[key.String()]; ok && v.Kind() == constant.Bool {
		return constant.MakeBool(constant.BoolVal(v) == pol), true
	}
	if key != t {
		if v, ok := EvalTerm(key, asg); ok && v.Kind() == constant.Bool {
			return constant.MakeBool(constant.BoolVal(v) == pol), true
		}
	}
	// x == nil with a known-nil constant on one side is handled by the walker (AV.Nil)
	return nil, false
}

var pureCallPrefixes = []string{"builtin:len", "builtin:cap", "builtin:append", "fmt.Sprintf", "fmt.Sprint", "fmt.Errorf", "strings.", "strconv.", "math.",
	"compare.Compare", "compare.Cmp", "compare.As", "compare.compare", "AsType[", "errors.", "unicode/utf8.", "bytes.", "encoding/hex.", "sort.Search"}

func isPureCall(name string) bool {
	for _, p := range pureCallPrefixes {
		if strings.HasPrefix(name, p) {
			return true
		}
	}
	return false
}

func (w *walker) instr(s *wstate, b *ssa.BasicBlock, in ssa.Instruction) {
	tv := func(v ssa.Value) *Term { return w.val(s, v).T }
	switch in := in.(type) {
	case *ssa.Alloc:
		t := &Term{Op: "alloc", Name: in.Comment + "@" + in.Name(), V: in, Typ: in.Type()}
		s.env[in] = AV{T: t}
		if w.local[in] {
			// zero value
			delete(s.mem, in)
		}
	case *ssa.Store:
		val := w.val(s, in.Val)
		if a, ok := in.Addr.(*ssa.Alloc); ok && w.local[a] {
			s.mem[a] = val
			return
		}
		at := tv(in.Addr)
		s.heap[at.String()] = val
		if !w.cfg.NoEffects {
			s.effects = append(s.effects, Effect{NAsg: len(s.order), Kind: "store", Instr: in, Args: []*Term{at, val.T}, Vals: []AV{{T: at}, val}, Block: b.Index})
		}
	case *ssa.UnOp:
		if in.Op == token.MUL {
			if a, ok := in.X.(*ssa.Alloc); ok && w.local[a] {
				if v, ok := s.mem[a]; ok {
					s.env[in] = v
				} else {
					s.env[in] = zeroAV(in)
				}
				return
			}
			at := tv(in.X)
			if v, ok := s.heap[at.String()]; ok {
				s.env[in] = v
				return
			}
			if at.Op == "cellof" {
				// the cell of a factory's parameter: holds the argument of the factory call
				s.env[in] = w.refine(s, AV{T: at.Args[0]})
				return
			}
			if a, ok := at.V.(*ssa.Alloc); ok && at.Op == "alloc" {
				// a cell of an enclosing function, read through a captured variable of an inlined closure
				if v, ok := s.mem[a]; ok {
					s.env[in] = v
					return
				}
				if a.Parent() != in.Parent() && cellStableForClosures(a) {
					// ... or of the function that created the closure under analysis: everything ever stored there
					s.env[in] = w.refine(s, AV{T: w.tb.cellValue(a)})
					return
				}
			}
			if fa, ok := in.X.(*ssa.FieldAddr); ok {
				// a field of a local record whose whole value is known on this path (a value receiver spilled to a
				// cell, a record that carries what a closure used to capture)
				if a, isA := fa.X.(*ssa.Alloc); isA {
					whole, known := s.mem[a]
					if !known {
						whole, known = s.heap[tv(a).String()]
					}
					if known && whole.T != nil && whole.T.Op == "struct" && fa.Field < len(whole.T.Args) {
						s.env[in] = w.refine(s, AV{T: whole.T.Args[fa.Field]})
						return
					}
					if !known {
						// the record is assigned once, as a whole, and never written again or handed out: what was stored
						// holds across calls
						if sv := wholeStoredRecord(a); sv != nil {
							if ev, have := s.env[sv]; have {
								whole, known = ev, true
							}
						}
					}
					if known && whole.T != nil && whole.T.Op != "struct" && whole.C == nil && wholeStoredRecord(a) != nil {
						// a local copy of a record read from elsewhere (`head := orderBy[0]`): the field of what was copied
						ft := &Term{Op: "field", Name: fieldName(fa.X.Type(), fa.Field), Args: []*Term{whole.T}, V: in, Typ: in.Type()}
						s.env[in] = w.refine(s, AV{T: ft})
						return
					}
				}
			}
			var t *Term
			switch at.Op {
			case "field", "index":
				t = at // loads of fields / elements are named by their address term
			default:
				t = &Term{Op: "load", Args: []*Term{at}}
			}
			t2 := *t
			t2.V, t2.Typ, t2.str = in, in.Type(), ""
			s.env[in] = w.refine(s, AV{T: &t2})
			return
		}
		x := w.val(s, in.X)
		if x.C != nil {
			if c, ok := foldUn(in.Op.String(), x.C); ok {
				s.env[in] = AV{C: c, T: &Term{Op: "un", Name: in.Op.String(), Args: []*Term{x.T}, V: in, Typ: in.Type()}}
				return
			}
		}
		s.env[in] = w.refine(s, AV{T: &Term{Op: "un", Name: in.Op.String(), Args: []*Term{x.T}, V: in, Typ: in.Type()}})
	case *ssa.BinOp:
		x, y := w.val(s, in.X), w.val(s, in.Y)
		x, y = w.refine(s, x), w.refine(s, y)
		t := &Term{Op: "bin", Name: in.Op.String(), Args: []*Term{foldedTerm(x), foldedTerm(y)}, V: in, Typ: in.Type()}
		if x.C != nil && y.C != nil {
			if c, ok := foldBin(in.Op.String(), x.C, y.C); ok {
				s.env[in] = AV{C: c, T: t}
				return
			}
		}
		if (in.Op == token.EQL || in.Op == token.NEQ) && x.Nil && y.Nil {
			s.env[in] = AV{C: constant.MakeBool(in.Op == token.EQL), T: t}
			return
		}
		if (in.Op == token.EQL || in.Op == token.NEQ) && (x.Nil && y.NonNil || x.NonNil && y.Nil) {
			s.env[in] = AV{C: constant.MakeBool(in.Op == token.NEQ), T: t}
			return
		}
		s.env[in] = w.refine(s, AV{T: t})
	case *ssa.Call:
		name := calleeName(in.Common())
		var boundRecv *Term
		if name == "dyn" {
			if ft := w.val(s, in.Common().Value).T; ft != nil {
				if ft = w.tableEntry(s, ft); ft.Op == "fn" {
					if f, ok := ft.V.(*ssa.Function); ok && f.Parent() == nil {
						name = funcName(f) // a named function behind a function value
					}
				} else if ft.Op == "closure" && len(ft.Args) == 1 {
					// a method value (`dec := enc.DecodeString; dec(x)`): the call of that method on the bound receiver
					if mc, ok := ft.V.(*ssa.MakeClosure); ok {
						if f, ok := mc.Fn.(*ssa.Function); ok && strings.HasSuffix(f.Name(), "$bound") && curProgram != nil && !curProgram.InModule(f) {
							name = strings.TrimSuffix(funcName(f), "$bound")
							boundRecv = ft.Args[0]
						}
					}
				}
			}
		}
		t := &Term{Op: "call", Name: name, V: in, Typ: in.Type()}
		var vals []AV
		if boundRecv != nil {
			t.Args = append(t.Args, boundRecv)
			vals = append(vals, AV{T: boundRecv})
		}
		if in.Common().IsInvoke() || name == "dyn" {
			a := w.val(s, in.Common().Value)
			t.Args = append(t.Args, a.T)
			vals = append(vals, a)
		}
		for _, a := range in.Common().Args {
			av := w.val(s, a)
			t.Args = append(t.Args, av.T)
			vals = append(vals, av)
		}
		if name == "builtin:len" && len(vals) == 1 && vals[0].C != nil && vals[0].C.Kind() == constant.String {
			s.env[in] = AV{C: constant.MakeInt64(int64(len(constant.StringVal(vals[0].C)))), T: t}
			return
		}
		s.env[in] = w.refine(s, AV{T: t})
		if !isPureCall(name) {
			// a call may write anything reachable: forget non-local memory facts
			for k := range s.heap {
				delete(s.heap, k)
			}
		}
		if !w.cfg.NoEffects {
			s.effects = append(s.effects, Effect{NAsg: len(s.order), Kind: "call", Instr: in, Callee: name, Args: t.Args, Vals: vals, Block: b.Index})
		}
	case *ssa.Go, *ssa.Defer:
		kind := "go"
		var cc *ssa.CallCommon
		if g, ok := in.(*ssa.Go); ok {
			cc = g.Common()
		} else {
			kind = "defer"
			cc = in.(*ssa.Defer).Common()
		}
		e := Effect{NAsg: len(s.order), Kind: kind, Instr: in, Callee: calleeName(cc), Block: b.Index}
		if cc.IsInvoke() || e.Callee == "dyn" {
			e.Args = append(e.Args, tv(cc.Value))
		}
		for _, a := range cc.Args {
			e.Args = append(e.Args, tv(a))
		}
		s.effects = append(s.effects, e)
		for k := range s.heap {
			delete(s.heap, k)
		}
	case *ssa.RunDefers:
	case *ssa.DebugRef:
	case *ssa.MapUpdate:
		m, k, v := w.val(s, in.Map), w.val(s, in.Key), w.val(s, in.Value)
		s.effects = append(s.effects, Effect{NAsg: len(s.order), Kind: "mapupdate", Instr: in, Args: []*Term{m.T, k.T, v.T}, Vals: []AV{m, k, v}, Block: b.Index})
	case *ssa.Send:
		s.effects = append(s.effects, Effect{NAsg: len(s.order), Kind: "send", Instr: in, Args: []*Term{tv(in.Chan), tv(in.X)}, Block: b.Index})
	case *ssa.Extract:
		if comps, ok := s.tuples[in.Tuple]; ok && in.Index < len(comps) {
			s.env[in] = comps[in.Index]
			return
		}
		tu := w.val(s, in.Tuple)
		t := &Term{Op: "ext", Name: fmt.Sprint(in.Index), Args: []*Term{tu.T}, V: in, Typ: in.Type()}
		s.env[in] = w.refine(s, AV{T: t})
	case *ssa.MakeInterface:
		x := w.val(s, in.X)
		s.env[in] = AV{C: x.C, T: x.T, NonNil: true} // boxing is transparent; a boxed value is never nil
	case *ssa.ChangeInterface:
		s.env[in] = w.val(s, in.X)
	case *ssa.ChangeType:
		s.env[in] = w.val(s, in.X)
	case *ssa.Convert:
		x := w.val(s, in.X)
		t := &Term{Op: "conv", Name: shortType(in.Type()), Args: []*Term{x.T}, V: in, Typ: in.Type()}
		av := AV{T: t}
		if x.C != nil && (x.C.Kind() == constant.Bool || x.C.Kind() == constant.String || x.C.Kind() == constant.Int) {
			// conversions between integer kinds keep small constants; strings/bools are unchanged
			if bt, ok := in.Type().Underlying().(interface{ Info() int }); ok {
				_ = bt
			}
			av.C = x.C
		}
		s.env[in] = w.refine(s, av)
	case ssa.Value:
		// every other value: build the term from the operands' path-sensitive terms
		t := w.generic(s, in)
		s.env[in] = w.refine(s, AV{T: t})
	default:
		// Select and anything unexpected: ignored (no rule walks functions with them)
	}
}

// foldedTerm: the operand's term, replaced by a constant term when the path determines its value
// (so that keys read `0 < len(x)` rather than `(-1 + 1) < len(x)`).
func foldedTerm(a AV) *Term {
	if a.C != nil && a.T != nil && a.T.Op != "const" && (a.C.Kind() == constant.Int || a.C.Kind() == constant.Bool) {
		return &Term{Op: "const", Name: a.C.ExactString(), V: ssa.NewConst(a.C, a.T.Typ), Typ: a.T.Typ}
	}
	return a.T
}

func zeroAV(v ssa.Value) AV {
	t := &Term{Op: "const", Name: "zero", V: v, Typ: v.Type()}
	if isNillable(v.Type()) {
		return AV{Nil: true, T: &Term{Op: "const", Name: "nil", V: v, Typ: v.Type()}}
	}
	return AV{T: t}
}

func (w *walker) generic(s *wstate, v ssa.Value) *Term {
	tv := func(x ssa.Value) *Term {
		if x == nil {
			return &Term{Op: "const", Name: "-"}
		}
		return w.val(s, x).T
	}
	var t *Term
	switch v := v.(type) {
	case *ssa.FieldAddr:
		t = &Term{Op: "field", Name: fieldName(v.X.Type(), v.Field), Args: []*Term{tv(v.X)}}
	case *ssa.Field:
		t = &Term{Op: "field", Name: fieldName(v.X.Type(), v.Field), Args: []*Term{tv(v.X)}}
	case *ssa.IndexAddr:
		t = &Term{Op: "index", Args: []*Term{tv(v.X), tv(v.Index)}}
	case *ssa.Index:
		t = &Term{Op: "index", Args: []*Term{tv(v.X), tv(v.Index)}}
	case *ssa.Lookup:
		op := "lookup"
		if v.CommaOk {
			op = "lookupok"
		}
		t = &Term{Op: op, Args: []*Term{tv(v.X), tv(v.Index)}}
	case *ssa.TypeAssert:
		op := "assert"
		if v.CommaOk {
			op = "assertok"
		}
		t = &Term{Op: op, Name: shortType(v.AssertedType), Args: []*Term{tv(v.X)}}
	case *ssa.Slice:
		if a, ok := v.X.(*ssa.Alloc); ok && a.Comment == "varargs" {
			t = w.tb.varargs(a)
			// re-resolve elements path-sensitively when they were stored on this path
			if refs := a.Referrers(); refs != nil {
				type ent struct {
					i int64
					t *Term
				}
				var es []ent
				okAll := true
				for _, r := range *refs {
					ia, isIA := r.(*ssa.IndexAddr)
					if !isIA {
						continue
					}
					k, isK := constIntOf(ia.Index)
					if !isK {
						okAll = false
						break
					}
					at, has := s.env[ia]
					if !has || at.T == nil {
						okAll = false
						break
					}
					hv, stored := s.heap[at.T.String()]
					if !stored || hv.T == nil {
						okAll = false
						break
					}
					es = append(es, ent{k, foldedTerm(hv)})
				}
				if okAll && len(es) == len(t.Args) && len(es) > 0 {
					sort.Slice(es, func(i, j int) bool { return es[i].i < es[j].i })
					nt := &Term{Op: "varargs"}
					for _, e := range es {
						nt.Args = append(nt.Args, e.t)
					}
					t = nt
				}
			}
			break
		}
		t = &Term{Op: "slice", Args: []*Term{tv(v.X), tv(v.Low), tv(v.High), tv(v.Max)}}
	case *ssa.MakeMap:
		t = &Term{Op: "make", Name: "map@" + v.Name()}
	case *ssa.MakeSlice:
		t = &Term{Op: "make", Name: "slice@" + v.Name()}
	case *ssa.MakeChan:
		t = &Term{Op: "make", Name: "chan@" + v.Name()}
	case *ssa.MakeClosure:
		t = &Term{Op: "closure", Name: funcName(v.Fn.(*ssa.Function))}
		for _, bnd := range v.Bindings {
			t.Args = append(t.Args, tv(bnd))
		}
	case *ssa.Next:
		t = &Term{Op: "next", Name: fmt.Sprintf("%s#%d", v.Name(), s.visits[v.Block().Index]), Args: []*Term{tv(v.Iter)}}
	case *ssa.Range:
		t = &Term{Op: "range", Args: []*Term{tv(v.X)}}
	default:
		t = &Term{Op: "unknown", Name: fmt.Sprintf("%T", v)}
	}
	t.V, t.Typ = v, v.Type()
	return t
}

// regClosure: the function literal (or bound method value) stored by a map update, through conversions and boxing.
func regClosure(mu *ssa.MapUpdate) *ssa.MakeClosure {
	if mu == nil {
		return nil
	}
	mc, _ := stripBox(mu.Value).(*ssa.MakeClosure)
	return mc
}

// closureVia: the closure a value stands for — a closure made on the spot (possibly held in a once-assigned variable),
// or the result of a module function all of whose returns hand out one and the same closure (a closure factory:
// the body of a lazy entry extracted into a named constructor). call is the factory call, nil for a direct closure.
func closureVia(v ssa.Value) (mc *ssa.MakeClosure, call *ssa.Call) {
	v = stripBox(v)
	if m, ok := v.(*ssa.MakeClosure); ok {
		return m, nil
	}
	cl, ok := v.(*ssa.Call)
	if !ok {
		return nil, nil
	}
	g := cl.Common().StaticCallee()
	if g == nil || g.Blocks == nil {
		return nil, nil
	}
	for _, b := range g.Blocks {
		for _, in := range b.Instrs {
			r, ok := in.(*ssa.Return)
			if !ok {
				continue
			}
			if len(r.Results) == 0 {
				return nil, nil
			}
			m, ok := stripBox(r.Results[0]).(*ssa.MakeClosure)
			if !ok || mc != nil && mc != m {
				return nil, nil
			}
			mc = m
		}
	}
	if mc == nil {
		return nil, nil
	}
	return mc, cl
}

// bindFreeVarsVia: like bindFreeVars; for a closure handed out by a factory, a captured parameter of the factory is
// bound to the argument of the factory call (in the caller's terms).
func bindFreeVarsVia(mc *ssa.MakeClosure, call *ssa.Call) map[ssa.Value]AV {
	if mc == nil {
		return nil
	}
	if call == nil {
		return bindFreeVars(mc)
	}
	fn := mc.Fn.(*ssa.Function)
	g := mc.Parent()
	ctb := NewTB()
	argOf := func(p *ssa.Parameter) *Term {
		for k, q := range g.Params {
			if q == p && k < len(call.Call.Args) {
				return ctb.Of(call.Call.Args[k])
			}
		}
		return nil
	}
	out := map[ssa.Value]AV{}
	for i, fv := range fn.FreeVars {
		if i >= len(mc.Bindings) {
			continue
		}
		switch b := mc.Bindings[i].(type) {
		case *ssa.Parameter:
			if t := argOf(b); t != nil {
				out[fv] = AV{T: t}
				continue
			}
		case *ssa.Alloc:
			// the cell a captured parameter was spilled to: holds the argument, as long as nothing else is stored there
			var only *ssa.Parameter
			n := 0
			if b.Referrers() != nil {
				for _, r := range *b.Referrers() {
					if st, ok := r.(*ssa.Store); ok && st.Addr == ssa.Value(b) {
						n++
						only, _ = st.Val.(*ssa.Parameter)
					}
				}
			}
			if n == 1 && only != nil && cellStableForClosures(b) {
				if t := argOf(only); t != nil {
					out[fv] = AV{T: &Term{Op: "cellof", Args: []*Term{t}, Typ: b.Type()}}
					continue
				}
			}
		}
		out[fv] = AV{T: ctb.Of(mc.Bindings[i])}
	}
	return out
}

// bindFreeVars: the captured variables of the closure created at mc, bound to the creating function's terms, so that
// the closure's body (and the methods a bound method value leads to) speaks of the creator's own values.
func bindFreeVars(mc *ssa.MakeClosure) map[ssa.Value]AV {
	if mc == nil {
		return nil
	}
	fn := mc.Fn.(*ssa.Function)
	ctb := NewTB()
	out := map[ssa.Value]AV{}
	for i, fv := range fn.FreeVars {
		if i < len(mc.Bindings) {
			out[fv] = AV{T: ctb.Of(mc.Bindings[i])}
		}
	}
	return out
}
