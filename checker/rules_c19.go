package main

import (
	"fmt"
	"go/token"
	"sort"
	"strings"

	"golang.org/x/tools/go/ssa"
)

func init() { register("C19", ruleC19NoDrop, ruleC19NoPartial, ruleC19CleanFailure) }

func ruleC19NoDrop(c *Ctx) {
	c.Doc("c19.no-drop", "every call site in the module whose callee can return a non-nil error (module functions, dynamic Function/thunk/top-level calls, sqlparser, strconv, regexp, encoding/*): on every path from the call on which the error is non-nil the enclosing function ends by returning a non-nil error; accepted idioms: `if err != nil { return …, err }`, `return f()`, `return v, err`, ok-flag dispatch when the callee returns ok=false with every error, panic(err) under the caller's recover (sort comparator), store to a captured variable, hand-off to options.errors; flagged: discarded, never tested, tested then nil returned, loop continues, value result used before the test, panic with no converting caller")
	c.NotDecidedClause("C19: which k-th invocation fails (replaced by a per-call-site argument); errors inside ASYNC/SPIN/SPINASYNC calls (excluded by the property)")
	sites := c.P.errSites()
	c.CallSites = len(sites)
	idiomCount := map[string]int{}
	byFn := map[string]int{}
	for _, s := range sites {
		if funcPkgPath(s.fn) == comparePath {
			continue
		}
		c.Fn(c.P.funcKey(s.fn))
		byFn[c.P.funcKey(s.fn)]++
		v := c.P.checkErrSite(s)
		pos := c.P.Pos(s.call.Pos())
		switch v.status {
		case "ok":
			idiomCount[v.idiom]++
			c.Pass("c19.no-drop", s.key, pos, v.idiom)
		case "undecided":
			c.Unknown("c19.no-drop", s.key, pos, v.detail)
		default:
			c.Fail("c19.no-drop", s.key, pos, v.status+": "+v.detail)
		}
	}
	var ids []string
	for k, n := range idiomCount {
		ids = append(ids, fmt.Sprintf("%q x%d", k, n))
	}
	sort.Strings(ids)
	c.Notes = append(c.Notes, "c19.no-drop idioms on this tree: "+strings.Join(ids, "; "))
	if len(sites) < 150 {
		c.Unknown("c19.no-drop", "call-site-inventory", "-", fmt.Sprintf("only %d error-returning call sites found (>= 150 expected)", len(sites)))
	}
}

// ruleC19NoPartial: the API-level functions return a nil/zero first result with every non-nil error.
func ruleC19NoPartial(c *Ctx) {
	c.Doc("c19.no-partial", "in New, Prepare, (*Query).exec, execAndPostProcess and Exec every return whose error operand may be non-nil has a nil first result (path enumeration; named results spilled by defer are read through their cells)")
	fns := []*ssa.Function{c.P.Func(modPath, "New"), c.P.Func(modPath, "Prepare"), c.P.Method(modPath, "Query", "exec"), c.P.Method(modPath, "Query", "execAndPostProcess"), c.P.Method(modPath, "Query", "Exec")}
	for i, f := range fns {
		name := []string{"New", "Prepare", "(*Query).exec", "(*Query).execAndPostProcess", "(*Query).Exec"}[i]
		if f == nil {
			c.Unknown("c19.no-partial", name, "-", "anchor lost")
			continue
		}
		c.Fn(name)
		paths, err := WalkFunc(f, WalkCfg{MaxVisits: 1, MaxPaths: 6000, NoEffects: true})
		if err != nil {
			c.Unknown("c19.no-partial", name, c.P.Pos(f.Pos()), err.Error())
			continue
		}
		ok, why, n := true, "", 0
		for _, p := range paths {
			if p.Exit != "return" || len(p.Ret) != 2 {
				continue
			}
			if p.Ret[1].Nil {
				continue
			}
			n++
			if !p.Ret[0].Nil {
				ok, why = false, "returns "+avString(p.Ret[0])+" together with the error "+avString(p.Ret[1])+" at "+c.P.Pos(p.ExitInstr.Pos())
			}
		}
		if n == 0 {
			ok, why = false, "no error return found"
		}
		c.Check(ok, "c19.no-partial", name, c.P.Pos(f.Pos()), fmt.Sprintf("%d error returns, all with a nil result", n), why)
	}
}

// ruleC19CleanFailure: nothing that outlives a failed call is left modified: (a) no write into
// the document survives an error exit (C11's marker rule), (b) the selector cache is filled only
// after every selector parsed, (c) the global mutex is released on the error path.
func ruleC19CleanFailure(c *Ctx) {
	c.Doc("c19.clean-failure", "usable afterwards: no write into caller-owned storage survives an error exit (the ownership obligations of C11, including the marker-restored-by-defer rule); the selector cache entry is stored only after every ParseSelector call succeeded; ExecReader releases the global mutex on every path (lock pairing)")
	_, bad := c.classifyWrites("c19.clean-failure/own", nil, true)
	_ = bad
	ruleSelectorCacheDiscipline(c)
}

// ruleSelectorCacheDiscipline: the selector cache is filled only after a complete successful parse (shared by C19 and C09).
func ruleSelectorCacheDiscipline(c *Ctx) {
	if c.Property != "C19" {
		c.Doc("c19.clean-failure", "the selector cache entry is stored only after every ParseSelector call succeeded (a selector that fails to parse must fail on every evaluation, not only the first); the cache function releases the global mutex on every path")
	}
	// the function that fills the process-wide selector cache (a map update on a package-level map)
	var er *ssa.Function
	for _, f := range c.P.pkgFuncs(modPath) {
		allInstrs(f, func(_ *ssa.BasicBlock, in ssa.Instruction) {
			if mu, ok := in.(*ssa.MapUpdate); ok {
				if ld, ok := mu.Map.(*ssa.UnOp); ok {
					if g, ok := ld.X.(*ssa.Global); ok && globalName(g) == "cache" {
						er = f
					}
				}
			}
		})
	}
	if er == nil {
		c.Unknown("c19.clean-failure", "selector-cache", "-", "anchor lost: no function stores into the selector cache")
		return
	}
	erKey := c.P.funcKey(er)
	c.Fn(erKey)
	c.Anchor("selector cache writer", erKey+" "+c.P.Pos(er.Pos()))
	// cache store dominated by success of ParseSelector: no path reaches the store of the global cache map with a non-nil parse error
	paths, err := WalkFunc(er, WalkCfg{MaxVisits: 2, MaxPaths: 4000})
	if err != nil {
		c.Unknown("c19.clean-failure", erKey+"/cache", c.P.Pos(er.Pos()), err.Error())
		return
	}
	okC, whyC := true, ""
	okL, whyL := true, ""
	nStore := 0
	deferredUnlock := false
	allInstrs(er, func(_ *ssa.BasicBlock, in ssa.Instruction) {
		if d, ok := in.(*ssa.Defer); ok && strings.HasSuffix(calleeName(d.Common()), "Mutex).Unlock") {
			deferredUnlock = true
		}
	})
	for _, p := range paths {
		errSeen := false
		held := 0
		for _, e := range p.Effects {
			switch e.Kind {
			case "mapupdate":
				if e.Args[0].Op == "load" && e.Args[0].Args[0].Op == "global" || e.Args[0].Op == "global" {
					nStore++
					if errSeen {
						okC, whyC = false, "the cache is written on a path where a selector failed to parse"
					}
				}
			case "call":
				if strings.HasSuffix(e.Callee, "Mutex).Lock") {
					held++
				}
				if strings.HasSuffix(e.Callee, "Mutex).Unlock") {
					held--
				}
			}
		}
		for k, v := range p.Asg {
			kt := p.KeyTerm[k]
			if kt == nil {
				continue
			}
			if x, isNil := isNilTest(kt); isNil && isErrorType(x) && strings.Contains(x.String(), "ParseSelector") && !isTrueC(v) {
				errSeen = true
			}
		}
		if errSeen {
			for _, e := range p.Effects {
				if e.Kind == "mapupdate" && (e.Args[0].Op == "global" || e.Args[0].Op == "load" && e.Args[0].Args[0].Op == "global") {
					okC, whyC = false, "the cache is written on a path where a selector failed to parse"
				}
			}
		}
		if p.Exit == "return" && held != 0 && !deferredUnlock {
			okL, whyL = false, fmt.Sprintf("a return at %s leaves the global mutex %s", c.P.Pos(p.ExitInstr.Pos()), map[bool]string{true: "locked", false: "over-unlocked"}[held > 0])
		}
	}
	if nStore == 0 {
		okC, whyC = false, "no store to the selector cache found"
	}
	c.Check(okC, "c19.clean-failure", erKey+"/cache-after-parse", c.P.Pos(er.Pos()), "cache[selector] is stored only on paths where every ParseSelector succeeded", whyC)
	c.Check(okL, "c19.clean-failure", erKey+"/lock-pairing", c.P.Pos(er.Pos()), "every return path has Lock/Unlock balanced", whyL)
}

func init() { register("C09", ruleC09ErrorSites, ruleSelectorCacheDiscipline) }

// ruleC09ErrorSites: the error discipline of C19 restricted to the selector evaluator: a step applied to a value of
// the wrong shape reports its error through every caller up to ExecReader.
func ruleC09ErrorSites(c *Ctx) {
	c.Doc("c09.errors-propagate", "every call site inside selector.go whose callee can return a non-nil error: on every path on which the error is non-nil the enclosing function ends by returning a non-nil error (same idiom table as c19.no-drop) — a wrong-shaped element in the middle of an array yields an error, not NULL")
	n := 0
	for _, s := range c.P.errSites() {
		if !strings.HasSuffix(c.P.Prog.Fset.Position(s.fn.Pos()).Filename, "/selector.go") {
			continue
		}
		n++
		c.Fn(c.P.funcKey(s.fn))
		v := c.P.checkErrSite(s)
		pos := c.P.Pos(s.call.Pos())
		switch v.status {
		case "ok":
			c.Pass("c09.errors-propagate", s.key, pos, v.idiom)
		case "undecided":
			c.Unknown("c09.errors-propagate", s.key, pos, v.detail)
		default:
			c.Fail("c09.errors-propagate", s.key, pos, v.status+": "+v.detail)
		}
	}
	if n < 20 {
		c.Unknown("c09.errors-propagate", "selector.go", "-", fmt.Sprintf("only %d error-returning call sites found in selector.go (at least 20 confirmed by reading)", n))
	}
}

func init() { register("C19", ruleC19RaiseFails) }

// alwaysError: every return of fn yields a non-nil error: a freshly built one (fmt.Errorf, errors.New, a sentinel's
// Extend), a boxed concrete value, the error a successful type assertion found inside a value, or the result of a
// module function for which the same holds. A nil constant, or an error that a path knows to be nil, does not qualify.
func alwaysError(fn *ssa.Function, depth int) (bool, string) {
	ei := errIdx(fn)
	if ei < 0 || len(fn.Blocks) == 0 || depth > 3 {
		return false, "no error result"
	}
	ok, why := true, ""
	var good func(v ssa.Value, d int) bool
	good = func(v ssa.Value, d int) bool {
		if d > 5 {
			return false
		}
		switch x := v.(type) {
		case *ssa.Const:
			return false
		case *ssa.MakeInterface:
			return true
		case *ssa.Extract:
			if ta, isTA := x.Tuple.(*ssa.TypeAssert); isTA && x.Index == 0 {
				// the value of a comma-ok assertion: usable as an error only on the ok path (checked by the error engine)
				return ta.CommaOk
			}
			return false
		case *ssa.Call:
			name := calleeName(x.Common())
			if strings.HasPrefix(name, "fmt.Errorf") || strings.HasPrefix(name, "errors.New") || strings.HasSuffix(name, ".Extend") {
				return true
			}
			if cal := x.Common().StaticCallee(); cal != nil && strings.HasPrefix(funcPkgPath(cal), modPath) {
				sub, _ := alwaysError(cal, depth+1)
				return sub
			}
			return false
		case *ssa.Phi:
			for _, e := range x.Edges {
				if !good(e, d+1) {
					return false
				}
			}
			return true
		case *ssa.UnOp:
			// a sentinel error variable of the module
			if g, isG := x.X.(*ssa.Global); isG && x.Op == token.MUL && g.Pkg != nil && strings.HasPrefix(g.Pkg.Pkg.Path(), modPath) {
				return true
			}
		}
		return false
	}
	allInstrs(fn, func(_ *ssa.BasicBlock, in ssa.Instruction) {
		r, isRet := in.(*ssa.Return)
		if !isRet || ei >= len(r.Results) {
			return
		}
		if !good(r.Results[ei], 0) {
			ok, why = false, NewTB().Of(r.Results[ei]).String()
		}
	})
	return ok, why
}

// ruleC19RaiseFails: RAISE fails whatever its message is.
func ruleC19RaiseFails(c *Ctx) {
	c.Doc("c19.raise-fails", "the functions registered as raise and raise_when end every path on which they fire with a non-nil error: the error is built on the spot (fmt.Errorf, errors.New, a sentinel's Extend) or comes from a module function every return of which is a non-nil error — a helper that maps a NULL message to a nil error turns `RAISE(missing_column)` into a NULL column and lets the query succeed")
	reg := c.registry()
	for _, name := range []string{"raise", "raise_when"} {
		f := reg[name]
		if f == nil {
			c.Unknown("c19.raise-fails", "registered:"+name, "-", "anchor lost")
			continue
		}
		c.Fn(c.P.funcKey(f))
		paths, err := WalkFunc(f, WalkCfg{MaxVisits: 1})
		if err != nil {
			c.Unknown("c19.raise-fails", "registered:"+name, c.P.Pos(f.Pos()), err.Error())
			continue
		}
		var why []string
		fired := 0
		for _, p := range paths {
			if p.Exit != "return" || len(p.Ret) != 2 {
				continue
			}
			// a path that passed the arity guard and the argument conversions (their errors are nil on this path)
			passed := true
			for k, v := range p.Asg {
				if x, isN := isNilTest(p.KeyTerm[k]); isN && isErrorType(x) && !isTrueC(v) {
					passed = false
				}
			}
			if !passed {
				continue
			}
			if name == "raise_when" {
				// only the paths on which the condition holds
				holds := false
				for k, v := range p.Asg {
					if kt := p.KeyTerm[k]; kt != nil && kt.Op == "load" && isTrueC(v) {
						holds = true
					}
				}
				if !holds {
					continue
				}
			}
			fired++
			r := p.Ret[1]
			if r.Nil {
				why = append(why, name+" returns a nil error on a path on which it fires")
				continue
			}
			if r.T == nil {
				continue
			}
			if call, isCall := r.T.V.(*ssa.Call); isCall {
				cn := calleeName(call.Common())
				if strings.HasPrefix(cn, "fmt.Errorf") || strings.HasPrefix(cn, "errors.New") || strings.HasSuffix(cn, ".Extend") {
					continue
				}
				if cal := call.Common().StaticCallee(); cal != nil && strings.HasPrefix(funcPkgPath(cal), modPath) {
					if okE, w := alwaysError(cal, 0); !okE {
						why = append(why, name+" takes its error from "+funcName(cal)+", which can return "+w+": for some message (NULL) nothing is raised and the query succeeds")
					}
					continue
				}
			}
			if r.T.Op == "const" {
				why = append(why, name+" returns the error "+r.T.String())
			}
		}
		if fired == 0 {
			why = append(why, "no path on which "+name+" fires")
		}
		c.Check(len(why) == 0, "c19.raise-fails", "registered:"+name, c.P.Pos(f.Pos()), fmt.Sprintf("%d firing paths end with a non-nil error", fired), strings.Join(uniq(why), "; "))
	}
}
