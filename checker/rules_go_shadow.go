package main

import (
	"fmt"
	"os"
	"go/ast"
	"go/token"
	"go/types"
	"sort"
	"strings"

	"golang.org/x/tools/go/cfg"
	"golang.org/x/tools/go/ssa"
)

// go.shadow-stale — a variable is declared without a value (`var number float64`, `var err error`, a named result) so
// that the branches of the function can assign it, and one branch writes `number, err := ...` instead of `=`: a second
// variable of the same name and type is declared in the inner scope, the outer one keeps its zero value, and whoever
// reads the outer one afterwards (the `return number, nil` at the end, the `if err != nil` after the loop, the caller
// through the named result) sees the zero. The compiler accepts it because the inner variable is used inside its scope.
//
// Decided on the syntax tree with the type checker's scopes and the control-flow graph of the function body (go/cfg):
// a violation is a path  declaration of V (no value)  ->  statement S that declares a variable of the same name and an
// identical type in an inner scope (or creates a function literal that does)  ->  read R of V, with no assignment of V
// anywhere on the path. The idiomatic `if err := f(); err != nil { return err }` is not reported: either the outer err
// was declared with a value, or it is assigned again before it is read. A variable whose address is taken, or that a
// function literal assigns, is left alone (its writes have no place in the graph).
//
// Added after round 9 (ToFloat64's default arm, the lazy CTE in ReaderExecutor, the comparator of Sort, the error of
// the key-selector loop of Reader: four independent agents produced the same slip in four functions).
func init() {
	for _, id := range []string{"C01", "C02", "C03", "C04", "C05", "C06", "C07", "C08", "C09", "C10", "C11", "C12", "C13", "C14", "C15", "C16", "C17", "C18", "C19", "C20"} {
		registerLate(id, ruleGoShadowStale)
	}
}

// reachableFromAnalysed: the top-level module functions reachable (VTA call graph, module edges only) from the functions
// the rules of this property have analysed so far. The Go-language rules of a property run over these: a slip in a
// helper breaks the properties whose code calls it, and no other.
func (c *Ctx) reachableFromAnalysed() map[*ssa.Function]bool {
	roots := map[*ssa.Function]bool{}
	for _, f := range c.P.ModFuncs {
		r := f
		if o := r.Origin(); o != nil {
			r = o
		}
		for r.Parent() != nil {
			r = r.Parent()
		}
		rk := c.P.funcKey(r)
		hit := c.Functions[rk] || c.Functions[r.Name()] || c.Functions[strings.TrimPrefix(rk, "genql.")]
		if recv := r.Signature.Recv(); recv != nil && !hit {
			// the rules spell a method `(*Join).Exec` or `sanitizer.(*Command).Sanitize`; go/ssa spells it `(*sanitizer.Command).Sanitize`
			rt := types.TypeString(recv.Type(), func(*types.Package) string { return "" })
			short := "(" + rt + ")." + r.Name()
			pkg := ""
			if r.Pkg != nil {
				pkg = r.Pkg.Pkg.Name() + "."
			}
			hit = c.Functions[short] || c.Functions[pkg+short]
		}
		if hit {
			roots[f] = true
		}
	}
	cg := c.P.CallGraph()
	seen := map[*ssa.Function]bool{}
	var work []*ssa.Function
	for f := range roots {
		seen[f] = true
		work = append(work, f)
	}
	for len(work) > 0 {
		f := work[len(work)-1]
		work = work[:len(work)-1]
		// closures of a reachable function are reachable
		for _, an := range f.AnonFuncs {
			if !seen[an] {
				seen[an] = true
				work = append(work, an)
			}
		}
		n := cg.Nodes[f]
		if n == nil {
			continue
		}
		for _, e := range n.Out {
			g := e.Callee.Func
			if g == nil || seen[g] || !strings.HasPrefix(funcPkgPath(g), modPath) {
				continue
			}
			seen[g] = true
			work = append(work, g)
		}
	}
	top := map[*ssa.Function]bool{}
	for f := range seen {
		r := f
		if o := r.Origin(); o != nil {
			r = o
		}
		for r.Parent() != nil {
			r = r.Parent()
		}
		top[r] = true
	}
	return top
}

type shadowUnit struct {
	name string        // construct key of the enclosing top-level function, "/func#n" for a literal
	typ  *ast.FuncType // signature (named results)
	body *ast.BlockStmt
}

func ruleGoShadowStale(c *Ctx) {
	c.Doc("go.shadow-stale", "no function reads a variable it declared without a value (var x T, a named result) on a path that passed a `:=` declaring a second variable of the same name and type in an inner scope (directly or inside a function literal) and assigned the outer one nowhere: the value computed in the inner scope never reaches the reader (go/cfg path condition over the type checker's scopes; the functions reachable from the ones this property's rules analyse)")
	reach := c.reachableFromAnalysed()
	wanted := map[token.Pos]string{} // position of the FuncDecl name -> construct key
	for f := range reach {
		if f.Syntax() == nil {
			continue
		}
		if fd, ok := f.Syntax().(*ast.FuncDecl); ok {
			wanted[fd.Name.Pos()] = c.P.funcKey(f)
		}
	}
	units, checked := 0, 0
	var pkgs []string
	for path := range c.P.All {
		if strings.HasPrefix(path, modPath) {
			pkgs = append(pkgs, path)
		}
	}
	sort.Strings(pkgs)
	for _, path := range pkgs {
		pk := c.P.All[path]
		for _, file := range pk.Syntax {
			for _, d := range file.Decls {
				fd, ok := d.(*ast.FuncDecl)
				if !ok || fd.Body == nil {
					continue
				}
				key, ok := wanted[fd.Name.Pos()]
				if !ok {
					continue
				}
				if os.Getenv("GENQL_LIST") == "go.shadow-units" {
					fmt.Println("unit", key)
				}
				us := []shadowUnit{{name: key, typ: fd.Type, body: fd.Body}}
				n := 0
				ast.Inspect(fd.Body, func(x ast.Node) bool {
					if fl, ok := x.(*ast.FuncLit); ok {
						n++
						us = append(us, shadowUnit{name: fmt.Sprintf("%s/func#%d", key, n), typ: fl.Type, body: fl.Body})
					}
					return true
				})
				for _, u := range us {
					units++
					checked += c.shadowUnit(pk.TypesInfo, u)
				}
			}
		}
	}
	if units < 40 && c.Property != "C17" && c.Property != "C16" && c.Property != "C15" {
		c.Unknown("go.shadow-stale", "inventory", "-", fmt.Sprintf("only %d function bodies were examined: the functions of this property were not found", units))
	}
	c.PassTrivial("go.shadow-stale", "module", "-", fmt.Sprintf("%d function bodies examined, %d inner redeclarations of a variable declared without a value decided", units, checked))
}

// shadowUnit decides every shadowing pair of one function body; returns the number of pairs examined.
func (c *Ctx) shadowUnit(info *types.Info, u shadowUnit) int {
	inLit := func(pos token.Pos) *ast.FuncLit { // the outermost function literal of the unit that contains pos
		var found *ast.FuncLit
		ast.Inspect(u.body, func(x ast.Node) bool {
			if found != nil {
				return false
			}
			if fl, ok := x.(*ast.FuncLit); ok {
				if fl.Pos() <= pos && pos < fl.End() {
					found = fl
				}
				return false
			}
			return true
		})
		return found
	}
	// the variables of this unit that are declared without a value
	bare := map[*types.Var]bool{}
	named := map[*types.Var]bool{}
	if u.typ.Results != nil {
		for _, f := range u.typ.Results.List {
			for _, id := range f.Names {
				if v, ok := info.Defs[id].(*types.Var); ok && id.Name != "_" {
					bare[v] = true
					named[v] = true
				}
			}
		}
	}
	declNode := map[*types.Var]ast.Node{}
	ast.Inspect(u.body, func(x ast.Node) bool {
		if _, ok := x.(*ast.FuncLit); ok {
			return false
		}
		ds, ok := x.(*ast.DeclStmt)
		if !ok {
			return true
		}
		gd, ok := ds.Decl.(*ast.GenDecl)
		if !ok || gd.Tok != token.VAR {
			return true
		}
		for _, sp := range gd.Specs {
			vs, ok := sp.(*ast.ValueSpec)
			if !ok || len(vs.Values) != 0 {
				continue
			}
			for _, id := range vs.Names {
				if v, ok := info.Defs[id].(*types.Var); ok && id.Name != "_" {
					bare[v] = true
					declNode[v] = vs // go/cfg adds each ValueSpec of a var declaration as a node of its own
				}
			}
		}
		return true
	})
	// shadowing declarations: a := / var in an inner scope (also inside function literals of the unit)
	type shadow struct {
		outer   *types.Var
		at      token.Pos
		derived bool // the outer variable has a value; the inner one is computed from it (a refinement that stays in the inner scope)
	}
	// defining statements of the unit's `:=` variables (for the one-step "computed from" test)
	defStmt := map[types.Object]*ast.AssignStmt{}
	ast.Inspect(u.body, func(x ast.Node) bool {
		if as, ok := x.(*ast.AssignStmt); ok && as.Tok == token.DEFINE {
			for _, l := range as.Lhs {
				if id, ok := l.(*ast.Ident); ok {
					if o := info.Defs[id]; o != nil {
						defStmt[o] = as
					}
				}
			}
		}
		return true
	})
	mentions := func(as *ast.AssignStmt, v *types.Var) bool {
		found := false
		for _, r := range as.Rhs {
			ast.Inspect(r, func(x ast.Node) bool {
				if id, ok := x.(*ast.Ident); ok && info.Uses[id] == v {
					found = true
				}
				return !found
			})
		}
		return found
	}
	computedFrom := func(inner types.Object, v *types.Var) bool {
		as := defStmt[inner]
		if as == nil {
			return false
		}
		if mentions(as, v) {
			return true
		}
		found := false
		for _, r := range as.Rhs {
			ast.Inspect(r, func(x ast.Node) bool {
				if id, ok := x.(*ast.Ident); ok && !found {
					if w, ok := info.Uses[id].(*types.Var); ok && w != v {
						if ws := defStmt[w]; ws != nil && ws != as && mentions(ws, v) {
							found = true
						}
					}
				}
				return !found
			})
		}
		return found
	}
	pkgScope := func(v *types.Var) bool { return v.Pkg() != nil && v.Parent() == v.Pkg().Scope() }
	var shadows []shadow
	ast.Inspect(u.body, func(x ast.Node) bool {
		id, ok := x.(*ast.Ident)
		if !ok || id.Name == "_" {
			return true
		}
		inner, ok := info.Defs[id].(*types.Var)
		if !ok || inner.IsField() || inner.Parent() == nil {
			return true
		}
		// the variable this declaration hides: the innermost one of that name visible just outside inner's scope
		cands := map[*types.Var]bool{}
		for v := range bare {
			cands[v] = true
		}
		if sc := inner.Parent().Parent(); sc != nil {
			if _, o := sc.LookupParent(inner.Name(), id.Pos()); o != nil {
				if ov, ok := o.(*types.Var); ok && !ov.IsField() && !pkgScope(ov) && ov != inner && !bare[ov] &&
					u.typ.Pos() <= ov.Pos() && ov.Pos() < u.body.End() && (ov.Pos() < u.body.Pos() || inLit(ov.Pos()) == nil) && computedFrom(inner, ov) { // parameters included
					cands[ov] = true
				}
			}
		}
		for v := range cands {
			if v == inner || v.Name() != inner.Name() || !types.Identical(v.Type(), inner.Type()) {
				continue
			}
			// v must be visible where inner is declared: inner's scope is nested in v's scope, after v's declaration
			if v.Parent() == nil || inner.Pos() < v.Pos() {
				continue
			}
			nested := false
			for s := inner.Parent().Parent(); s != nil; s = s.Parent() {
				if s == v.Parent() {
					nested = true
					break
				}
			}
			if nested {
				shadows = append(shadows, shadow{outer: v, at: id.Pos(), derived: !bare[v]})
			}
		}
		return true
	})
	if len(shadows) == 0 {
		return 0
	}
	g := cfg.New(u.body, func(*ast.CallExpr) bool { return true })
	n := 0
	for _, sh := range shadows {
		n++
		v := sh.outer
		construct := u.name + "/" + v.Name()
		pos := c.P.Pos(sh.at)
		// writes and address-taking of v; a write inside a function literal has no place in the graph — except in a
		// literal that is deferred on the spot (`defer func() { ... }()`, the recover handlers of this library): it runs
		// after every return statement of the body has read its operands, so no read of the body can see it
		opaque := ""
		isWriteLHS := map[*ast.Ident]bool{}
		deferred := map[*ast.FuncLit]bool{}
		ast.Inspect(u.body, func(x ast.Node) bool {
			if d, ok := x.(*ast.DeferStmt); ok {
				if fl, ok := d.Call.Fun.(*ast.FuncLit); ok && inLit(d.Pos()) == nil {
					deferred[fl] = true
				}
			}
			return true
		})
		// `return &v, nil` hands out the variable as it is at that point: a read, not an alias that is written through later
		addrReturned := map[*ast.Ident]bool{}
		ast.Inspect(u.body, func(x ast.Node) bool {
			if _, ok := x.(*ast.FuncLit); ok {
				return false
			}
			if rs, ok := x.(*ast.ReturnStmt); ok {
				for _, e := range rs.Results {
					if ue, ok := e.(*ast.UnaryExpr); ok && ue.Op == token.AND {
						if id, ok := ue.X.(*ast.Ident); ok {
							addrReturned[id] = true
						}
					}
				}
			}
			return true
		})
		inOpaqueLit := func(pos token.Pos) bool {
			fl := inLit(pos)
			return fl != nil && !deferred[fl]
		}
		ast.Inspect(u.body, func(x ast.Node) bool {
			switch s := x.(type) {
			case *ast.AssignStmt:
				for _, l := range s.Lhs {
					if id, ok := l.(*ast.Ident); ok && info.Uses[id] == v {
						if fl := inLit(id.Pos()); fl != nil && deferred[fl] {
							continue // runs at exit
						}
						isWriteLHS[id] = s.Tok == token.ASSIGN || s.Tok == token.DEFINE
						if inOpaqueLit(id.Pos()) {
							opaque = "assigned inside a function literal"
						}
					}
				}
			case *ast.IncDecStmt:
				if id, ok := s.X.(*ast.Ident); ok && info.Uses[id] == v && inOpaqueLit(id.Pos()) {
					opaque = "assigned inside a function literal"
				}
			case *ast.RangeStmt:
				for _, l := range []ast.Expr{s.Key, s.Value} {
					if id, ok := l.(*ast.Ident); ok && info.Uses[id] == v {
						opaque = "assigned by a range clause"
					}
				}
			case *ast.UnaryExpr:
				if s.Op == token.AND {
					if id, ok := s.X.(*ast.Ident); ok && info.Uses[id] == v && !addrReturned[id] {
						opaque = "its address is taken"
					}
				}
			}
			return true
		})
		if opaque != "" {
			c.PassTrivial("go.shadow-stale", construct, pos, "not decided here: the outer variable is "+opaque+" (its writes have no place in the control-flow graph); the error and value-flow rules of the function apply")
			continue
		}
		// classify the nodes of the graph
		type nodeInfo struct{ read, write, shadowHere bool }
		classify := func(nd ast.Node) nodeInfo {
			var ni nodeInfo
			if nd.Pos() <= sh.at && sh.at < nd.End() {
				ni.shadowHere = true
			}
			if nd.Pos() <= v.Pos() && v.Pos() < nd.End() && inLit(v.Pos()) == nil {
				ni.write = true // the outer variable's own declaration (a := in a loop body, the key of a range clause) gives it a new value
			}
			ast.Inspect(nd, func(x ast.Node) bool {
				if fl, ok := x.(*ast.FuncLit); ok && deferred[fl] {
					return false // runs at exit, after the reads of the body
				}
				switch s := x.(type) {
				case *ast.Ident:
					if info.Uses[s] == v {
						if w, isL := isWriteLHS[s]; isL {
							if w {
								ni.write = true
							} else {
								ni.read, ni.write = true, true // op-assignment
							}
						} else {
							ni.read = true
						}
					}
				case *ast.IncDecStmt:
					if id, ok := s.X.(*ast.Ident); ok && info.Uses[id] == v {
						ni.read, ni.write = true, true
					}
				case *ast.ReturnStmt:
					if len(s.Results) == 0 && named[v] && inLit(s.Pos()) == nil {
						ni.read = true
					}
				}
				return true
			})
			// `x = f(x)`: the right side is read before the write — both flags set, read first (handled by the walk)
			return ni
		}
		type at struct {
			b *cfg.Block
			i int
		}
		// forward search from a position, not crossing writes of v; visit reports each node reached
		search := func(starts []at, visit func(p at, ni nodeInfo) bool) {
			seen := map[at]bool{}
			work := append([]at{}, starts...)
			for len(work) > 0 {
				p := work[len(work)-1]
				work = work[:len(work)-1]
				if seen[p] {
					continue
				}
				seen[p] = true
				if p.i == 0 && p.b.Kind == cfg.KindRangeLoop {
					// the head of a range loop gives its key and value a new value on every round (go/cfg lists
					// them once, in front of the loop)
					if rs, ok := p.b.Stmt.(*ast.RangeStmt); ok {
						assigns := false
						for _, l := range []ast.Expr{rs.Key, rs.Value} {
							if id, ok := l.(*ast.Ident); ok && (info.Defs[id] == v || info.Uses[id] == v) {
								assigns = true
							}
						}
						if assigns {
							continue
						}
					}
				}
				if p.i >= len(p.b.Nodes) {
					for _, s := range p.b.Succs {
						work = append(work, at{s, 0})
					}
					continue
				}
				ni := classify(p.b.Nodes[p.i])
				if !visit(p, ni) {
					continue
				}
				work = append(work, at{p.b, p.i + 1})
			}
		}
		// 1. from the declaration of v (function entry for a named result) to S without a write
		var start []at
		if dn := declNode[v]; dn != nil {
			for _, b := range g.Blocks {
				for i, nd := range b.Nodes {
					if nd == dn {
						start = append(start, at{b, i + 1})
					}
				}
			}
		} else if len(g.Blocks) > 0 {
			start = append(start, at{g.Blocks[0], 0})
		}
		var sAt []at
		if sh.derived {
			// the outer variable has a value: every position of S counts
			for _, b := range g.Blocks {
				for i, nd := range b.Nodes {
					if nd.Pos() <= sh.at && sh.at < nd.End() {
						sAt = append(sAt, at{b, i + 1})
					}
				}
			}
			start = nil
		}
		search(start, func(p at, ni nodeInfo) bool {
			if ni.shadowHere {
				sAt = append(sAt, at{p.b, p.i + 1})
			}
			return !ni.write || (ni.shadowHere && !ni.write)
		})
		if len(sAt) == 0 {
			c.Pass("go.shadow-stale", construct, pos, "the outer variable has been assigned on every path that reaches the inner declaration")
			continue
		}
		// 2. from S to a read of v without a write
		stale := ""
		search(sAt, func(p at, ni nodeInfo) bool {
			if stale != "" {
				return false
			}
			if ni.read && !(sh.derived && ni.shadowHere) { // `key := f(key, k)` in a loop reads the outer key on purpose
				stale = c.P.Pos(p.b.Nodes[p.i].Pos())
				return false
			}
			return !ni.write
		})
		if stale == "" {
			c.Pass("go.shadow-stale", construct, pos, "after the inner declaration the outer variable is assigned before it is read, or not read at all")
			continue
		}
		if sh.derived {
			c.Fail("go.shadow-stale", construct, pos, fmt.Sprintf("`%s` is declared again here with `:=` in an inner scope (same name, same type %s) from a value computed out of the outer `%s`; the outer one is not assigned on the way and is read again at %s: the value computed in the inner scope stays there and the reader sees the old one", v.Name(), types.TypeString(v.Type(), func(p *types.Package) string { return p.Name() }), v.Name(), stale))
			continue
		}
		c.Fail("go.shadow-stale", construct, pos, fmt.Sprintf("`%s` is declared again here with `:=` in an inner scope (same name, same type %s); the outer `%s` was declared without a value, is assigned nowhere on the way, and is read at %s with the zero value it was declared with: what the inner scope computed never reaches that reader", v.Name(), types.TypeString(v.Type(), func(p *types.Package) string { return p.Name() }), v.Name(), stale))
	}
	return n
}
