package main

import (
	"fmt"
	"go/constant"
	"go/types"
	"sort"
	"strings"

	"golang.org/x/tools/go/ssa"
)

func init() {
	register("C01", ruleC01FilterLoop, ruleC01CmpTable, ruleC01Membership, ruleC01Between, ruleC01Like, ruleC01Connectives, ruleC01Where,
		// the value ordering C01 relies on ("numeric order on numbers, lexicographic on strings"): shared with C15
		ruleC15Range, ruleC15Trichotomy, ruleC15ExactDomain, ruleC15Dispatch, ruleExecScansEveryRow)
}

const sqlp = "github.com/vedadiyan/sqlparser/v2"

// unwrapped(t, param, field): t is the unwrapped value of the evaluation of param.field, i.e.
// ValueOf(.., Expr(.., param.field, ..)#0)#0 — resolved through callee names of the module.
func ext0(t *Term) *Term {
	if t != nil && t.Op == "ext" && t.Name == "0" {
		return t.Args[0]
	}
	return nil
}

func unwrappedField(t *Term, param, field string) bool {
	t = ext0(t)
	if t == nil {
		return false
	}
	args, ok := callArgs(t, "ValueOf")
	if !ok || len(args) < 3 {
		return false
	}
	inner := ext0(args[2])
	if inner == nil {
		return false
	}
	eargs, ok := callArgs(inner, "Expr")
	if !ok || len(eargs) < 3 {
		return false
	}
	f := eargs[2]
	return f.Op == "field" && f.Name == field && len(f.Args) == 1 && f.Args[0].Op == "param" && f.Args[0].Name == param
}

// evaluatedField: t is Expr(.., param.field, ..)#0 (not unwrapped).
func evaluatedField(t *Term, param, field string) bool {
	t = ext0(t)
	if t == nil {
		return false
	}
	eargs, ok := callArgs(t, "Expr")
	if !ok || len(eargs) < 3 {
		return false
	}
	f := eargs[2]
	return f.Op == "field" && f.Name == field && len(f.Args) == 1 && f.Args[0].Op == "param" && f.Args[0].Name == param
}

func isCompareCall(t *Term) ([]*Term, bool) {
	if t.Op == "call" && t.Name == "compare.Compare" && len(t.Args) == 2 {
		return t.Args, true
	}
	return nil, false
}

// opAtom: the operator field of the expression parameter with the enum's constants as domain.
func opAtom(name, param, field string, consts map[int64]string) Atom {
	return Atom{Name: name, Dom: int64Dom(sortedKeys(consts)...), Match: func(t *Term) bool {
		return t.Op == "field" && t.Name == field && len(t.Args) == 1 && t.Args[0].Op == "param" && t.Args[0].Name == param
	}}
}

// ---- c01.filter-loop ----------------------------------------------------------------------

func ruleC01FilterLoop(c *Ctx) {
	c.Doc("c01.filter-loop", "in (*Query).exec's loop over query.from, on the Map arm: the WHERE predicate is called on the loop's own row; the row is appended to the accumulator exactly once on paths where the predicate is true and never where it is false; a predicate error is returned; the accumulator (not query.from) flows on to grouping/projection")
	c.NotDecidedClause("C01: equality of the result with the SQL meaning on concrete tables (only operator/loop/guard shape is decided); path lookup of the column (C09); coherence of compare.Compare itself (C15)")
	exec := c.P.Method(modPath, "Query", "exec")
	key := "(*Query).exec/Map-arm"
	if exec == nil {
		c.Unknown("c01.filter-loop", key, "-", "anchor lost: (*Query).exec not found")
		return
	}
	c.Fn("(*Query).exec")
	scan := c.findExecScan(exec)
	if scan == nil {
		c.Unknown("c01.filter-loop", key, c.P.Pos(exec.Pos()), "anchor lost: no loop over query.from in exec")
		return
	}
	lp, loopFn := scan.lp, scan.fn
	c.Anchor("row filter loop", funcName(loopFn)+" "+c.P.Pos(lp.header.Instrs[0].Pos()))
	// the predicate function: reads Query.whereDefinition
	where := c.whereFunc()
	if where == nil {
		c.Unknown("c01.filter-loop", key, c.P.Pos(exec.Pos()), "anchor lost: no function reading Query.whereDefinition with a (query,row) signature")
		return
	}
	wname := funcName(where)
	atoms := []Atom{{Name: "pred", Dom: boolDom, Match: func(t *Term) bool {
		if t.Op != "ext" || t.Name != "0" {
			return false
		}
		_, ok := callArgs(t.Args[0], wname)
		return ok
	}}}
	tb := &Table{Fn: loopFn, Atoms: atoms, Seen: map[string]string{}}
	cfg := WalkCfg{StopAt: func(b *ssa.BasicBlock) bool { return b == lp.header }, MaxVisits: 1,
		Domain: func(t *Term) []constant.Value {
			if atoms[0].Match(t) {
				tb.Seen[t.String()] = "pred"
				return boolDom
			}
			return nil
		}}
	paths, err := WalkFrom(loopFn, lp.body, lp.header, cfg)
	if err != nil {
		c.Unknown("c01.filter-loop", key, c.P.Pos(exec.Pos()), err.Error())
		return
	}
	var why []string
	nArm, nTrue, nFalse, nErr := 0, 0, 0, 0
	var accTerm string
	for _, pa := range paths {
		// Map arm: a successful comma-ok assertion of the element to Map
		onArm := false
		for _, k := range pa.Order {
			if kt := pa.KeyTerm[k]; kt != nil && kt.Op == "ext" && kt.Name == "1" && isMapAssert(kt.Args[0]) {
				if v, _ := pa.Assumed(k); v {
					onArm = true
				}
			}
		}
		if !onArm {
			continue
		}
		nArm++
		var predCall *Effect
		appends := 0
		var appended []*Term
		for i := range pa.Effects {
			e := &pa.Effects[i]
			if e.Kind != "call" {
				continue
			}
			if e.Callee == wname {
				predCall = e
			}
			if e.Callee == "builtin:append" && len(e.Args) == 2 {
				appends++
				appended = append(appended, e.Args[1])
				accTerm = e.Args[0].String()
			}
		}
		if predCall == nil {
			why = append(why, "a Map-arm path does not call the WHERE predicate "+wname)
			continue
		}
		// row argument = the asserted loop element
		rowOK := false
		for _, a := range predCall.Args {
			if a.Op == "ext" && a.Name == "0" && isMapAssert(a.Args[0]) {
				rowOK = elemOfLoop(a, lp)
			}
		}
		if !rowOK {
			why = append(why, "the predicate is not applied to the loop's own row")
		}
		errKey := ""
		for _, k := range pa.Order {
			if strings.Contains(k, wname+"(") && strings.HasSuffix(k, "#1 == c:nil)") {
				errKey = k
			}
		}
		errNil, errAssumed := pa.Assumed(errKey)
		pv, predAssumed := constant.Value(nil), false
		for k, v := range pa.Asg {
			if tb.Seen[k] == "pred" {
				pv, predAssumed = v, true
			}
		}
		switch {
		case errAssumed && !errNil:
			nErr++
			if pa.Exit != "return" || len(pa.Ret) != 2 || pa.Ret[1].Nil || appends != 0 {
				why = append(why, "a predicate error does not end exec with that error (or a row is appended first)")
			}
		case predAssumed && isTrueC(pv):
			nTrue++
			if pa.Exit != "stop" || appends != 1 {
				why = append(why, fmt.Sprintf("predicate true: %d appends, exit %s (want exactly one append, then next row)", appends, pa.Exit))
			} else if !(appended[0].Op == "varargs" && len(appended[0].Args) == 1 && appended[0].Args[0].Op == "ext" && isMapAssert(appended[0].Args[0].Args[0]) && elemOfLoop(appended[0].Args[0], lp)) {
				why = append(why, "predicate true: the appended value is not the loop's own row: "+appended[0].String())
			}
		case predAssumed && !isTrueC(pv):
			nFalse++
			if pa.Exit != "stop" || appends != 0 {
				why = append(why, fmt.Sprintf("predicate false: %d appends, exit %s (want none, then next row)", appends, pa.Exit))
			}
		default:
			why = append(why, "a Map-arm path neither tests the predicate's error nor its result: "+pa.String())
		}
	}
	if nArm == 0 {
		c.Unknown("c01.filter-loop", key, c.P.Pos(exec.Pos()), "anchor lost: no Map arm in the loop over query.from")
		return
	}
	if nTrue == 0 || nFalse == 0 || nErr == 0 {
		why = append(why, fmt.Sprintf("expected true/false/error paths, found %d/%d/%d", nTrue, nFalse, nErr))
	}
	c.Check(len(why) == 0, "c01.filter-loop", key, c.P.Pos(lp.header.Instrs[0].Pos()),
		fmt.Sprintf("%d arm paths: predicate on own row; true=>one append, false=>none, error=>returned", nArm), strings.Join(uniq(why), "; "))

	// the accumulator, not query.from, is what flows to grouping / projection
	okFlow, flowWhy := false, "no call after the loop receives the filter accumulator"
	tbld := NewTB()
	after := scan.afterBlock()
	allInstrs(exec, func(b *ssa.BasicBlock, in ssa.Instruction) {
		call, ok := in.(*ssa.Call)
		if !ok || call.Common().StaticCallee() == nil || !c.P.InModule(call.Common().StaticCallee()) || call == scan.call {
			return
		}
		if !after.Dominates(b) {
			return
		}
		for _, a := range call.Common().Args {
			t := tbld.Of(a)
			if t.HasField("from") {
				okFlow, flowWhy = false, "query.from (unfiltered) is passed to "+funcName(call.Common().StaticCallee())+" after the filter loop"
				return
			}
		}
	})
	// first module call after the loop must take the accumulator cell
	if scan.call == nil {
		first := firstModuleCallAfter(c.P, exec, lp.exit)
		if first != nil && accTerm != "" {
			for _, a := range first.Common().Args {
				if tbld.Of(a).Op == "phi" || strings.Contains(tbld.Of(a).String(), "append") || strings.Contains(tbld.Of(a).String(), "make:slice") {
					okFlow, flowWhy = true, ""
				}
			}
		}
	} else if okAcc, whyAcc := scan.helperReturnsAcc(); !okAcc {
		okFlow, flowWhy = false, whyAcc
	} else {
		// helper form: the first stage after the scan helper receives the helper's rows
		var first *ssa.Call
		past := false
		for _, in := range scan.call.Block().Instrs {
			if in == ssa.Instruction(scan.call) {
				past = true
				continue
			}
			if call, ok := in.(*ssa.Call); ok && past && first == nil {
				if cal := call.Common().StaticCallee(); cal != nil && c.P.InModule(cal) {
					first = call
				}
			}
		}
		if first == nil {
			for _, s := range scan.call.Block().Succs {
				if f := firstModuleCallAfter(c.P, exec, s); f != nil && first == nil && isKnownStage(f) {
					first = f
				}
			}
			if first == nil {
				// the stage follows the error test of the helper: take the first stage call dominated by the helper call
				allInstrs(exec, func(b *ssa.BasicBlock, in ssa.Instruction) {
					if call, ok := in.(*ssa.Call); ok && first == nil && b != scan.call.Block() && scan.call.Block().Dominates(b) && isKnownStage(call) {
						first = call
					}
				})
			}
		}
		if first != nil {
			for _, a := range first.Common().Args {
				if x, isX := a.(*ssa.Extract); isX && x.Tuple == ssa.Value(scan.call) && x.Index == 0 {
					okFlow, flowWhy = true, ""
				}
			}
			if !okFlow {
				flowWhy = "the first stage after the scan (" + funcName(first.Common().StaticCallee()) + ") does not receive the rows the scan helper returned"
			}
		}
	}
	c.Check(okFlow, "c01.filter-loop", "(*Query).exec/accumulator-flows-on", c.P.Pos(exec.Pos()), "the first stage after the loop receives the accumulator built by the loop", flowWhy)
}

// isKnownStage: a call of one of the pipeline stages of exec.
func isKnownStage(call *ssa.Call) bool {
	cal := call.Common().StaticCallee()
	if cal == nil {
		return false
	}
	switch cal.Name() {
	case "ExecGroupBy", "ExecSelect", "ExecDistinct", "ExecOrderBy":
		return true
	}
	return false
}

// isMapAssert: a comma-ok assertion to map[string]any (the Map alias is transparent).
func isMapAssert(t *Term) bool {
	if t == nil || t.Op != "assertok" {
		return false
	}
	ta, ok := t.V.(*ssa.TypeAssert)
	if !ok {
		return t.Name == "Map" || t.Name == "map[string]any"
	}
	return isStringAnyMap(ta.AssertedType)
}

func isStringAnyMap(t types.Type) bool {
	m, ok := t.Underlying().(*types.Map)
	if !ok {
		return false
	}
	b, ok := m.Key().Underlying().(*types.Basic)
	if !ok || b.Kind() != types.String {
		return false
	}
	i, ok := m.Elem().Underlying().(*types.Interface)
	return ok && i.NumMethods() == 0
}

func uniq(xs []string) []string {
	seen := map[string]bool{}
	var out []string
	for _, x := range xs {
		if !seen[x] {
			seen[x] = true
			out = append(out, x)
		}
	}
	return out
}

// elemOfLoop: the term is an assertion (or the value) of the loop's element load.
func elemOfLoop(t *Term, lp *loopInfo) bool {
	found := false
	t.Walk(func(x *Term) bool {
		if x.Op == "index" && len(x.Args) == 2 && lp.over != nil {
			// (an element picked with a constant index is not the element of the current round)
			if x.Args[0].String() == NewTB().Of(lp.over).String() && x.Args[1].Op != "const" {
				found = true
			}
		}
		// a struct element copied into a cell (`for _, e := range xs` with e addressed field by field): the cell's
		// only stores are loads of an element of the ranged collection
		if al, isAl := x.V.(*ssa.Alloc); x.Op == "alloc" && isAl && lp.over != nil && al.Referrers() != nil {
			n, good := 0, true
			for _, r := range *al.Referrers() {
				st, isSt := r.(*ssa.Store)
				if !isSt || st.Addr != ssa.Value(al) {
					continue
				}
				n++
				ld, isLd := st.Val.(*ssa.UnOp)
				if !isLd {
					good = false
					continue
				}
				ia, isIA := ld.X.(*ssa.IndexAddr)
				if !isIA || ia.X != lp.over {
					good = false
				}
			}
			if n > 0 && good {
				found = true
			}
		}
		return !found
	})
	return found
}

func firstModuleCallAfter(p *Program, fn *ssa.Function, from *ssa.BasicBlock) *ssa.Call {
	// breadth-first from `from`
	seen := map[*ssa.BasicBlock]bool{}
	q := []*ssa.BasicBlock{from}
	for len(q) > 0 {
		b := q[0]
		q = q[1:]
		if seen[b] {
			continue
		}
		seen[b] = true
		for _, in := range b.Instrs {
			if call, ok := in.(*ssa.Call); ok {
				if cal := call.Common().StaticCallee(); cal != nil && p.InModule(cal) {
					return call
				}
			}
		}
		q = append(q, b.Succs...)
	}
	return nil
}

// whereFunc: the function (query *Query, current Map, …) (bool, error) that reads Query.whereDefinition.
func (c *Ctx) whereFunc() *ssa.Function {
	var pick *ssa.Function
	for _, f := range c.P.pkgFuncs(modPath) {
		if f.Parent() != nil || f.Signature.Results().Len() != 2 || f.Signature.Results().At(0).Type().String() != "bool" {
			continue
		}
		reads := false
		allInstrs(f, func(_ *ssa.BasicBlock, in ssa.Instruction) {
			if fa, ok := in.(*ssa.FieldAddr); ok && fieldName(fa.X.Type(), fa.Field) == "whereDefinition" {
				reads = true
			}
		})
		if reads {
			pick = f
		}
	}
	if pick != nil {
		c.Anchor("WHERE predicate", c.P.funcKey(pick)+" "+c.P.Pos(pick.Pos()))
		c.Fn(c.P.funcKey(pick))
	}
	return pick
}

// ruleC01Where: ExecWhere returns the boolean the predicate evaluates to (and true when no WHERE).
func ruleC01Where(c *Ctx) {
	c.Doc("c01.where-result", "the WHERE predicate function returns exactly the boolean its expression evaluates to on the given row (true when there is no WHERE clause), evaluates query.whereDefinition.Expr on its own row parameter, and returns an error when the value is not a boolean")
	f := c.whereFunc()
	if f == nil {
		c.Unknown("c01.where-result", "ExecWhere", "-", "anchor lost")
		return
	}
	key := c.P.funcKey(f)
	row := paramNameOfType(f, "Map")
	if row == "" {
		row = paramNameOfType(f, "map[string]any")
	}
	atoms := []Atom{
		{Name: "hasWhere", Dom: boolDom, Match: func(t *Term) bool {
			// (query.whereDefinition == nil) normalised: we take the field itself compared to nil
			x, ok := isNilTest(t)
			return ok && x.Op == "field" && x.Name == "whereDefinition"
		}},
		{Name: "isBool", Dom: boolDom, Match: func(t *Term) bool {
			return t.Op == "ext" && t.Name == "1" && t.Args[0].Op == "assertok" && t.Args[0].Name == "bool"
		}},
		{Name: "val", Dom: boolDom, Match: func(t *Term) bool {
			return t.Op == "ext" && t.Name == "0" && t.Args[0].Op == "assertok" && t.Args[0].Name == "bool"
		}},
	}
	tb := BuildTable(f, atoms, true)
	if tb.Err != nil {
		c.Unknown("c01.where-result", key, c.P.Pos(f.Pos()), tb.Err.Error())
		return
	}
	// success paths
	r := tb.CheckTable(0, nil, func(m map[string]constant.Value) (constant.Value, bool) {
		if isTrueC(m["hasWhere"]) { // atom is (whereDefinition == nil)
			return cTrue, true
		}
		if !isTrueC(m["isBool"]) {
			return nil, false // must be an error: checked below
		}
		return m["val"], true
	})
	ok := r.OK()
	why := r.Why()
	// not-a-bool must be an error return
	for _, p := range tb.Paths {
		names := tb.namesOnPath(p)
		if v, has := names["isBool"]; has && !isTrueC(v) && p.Exit == "return" && len(p.Ret) == 2 && p.Ret[1].Nil {
			ok, why = false, why+" | a non-boolean predicate value is returned without an error"
		}
	}
	// the expression evaluated is whereDefinition.Expr on the row parameter
	evalOK := false
	for _, p := range tb.Paths {
		for _, e := range p.Effects {
			if e.Kind == "call" && e.Callee == "Expr" && len(e.Args) >= 3 {
				if e.Args[1].Op == "param" && e.Args[1].Name == row && e.Args[2].HasField("whereDefinition") && e.Args[2].Op == "field" && e.Args[2].Name == "Expr" {
					evalOK = true
				}
			}
		}
	}
	if !evalOK {
		ok, why = false, why+" | the predicate does not evaluate query.whereDefinition.Expr on its row parameter"
	}
	c.Check(ok, "c01.where-result", key, c.P.Pos(f.Pos()), fmt.Sprintf("%d table rows: no WHERE=>true, else the predicate's boolean; evaluated on the row parameter", r.Rows), why)
}

// ---- c01.cmp-table ------------------------------------------------------------------------

func refRel(op string, s int) (bool, bool) {
	switch op {
	case "EqualOp":
		return s == 0, true
	case "NotEqualOp":
		return s != 0, true
	case "LessThanOp":
		return s < 0, true
	case "LessEqualOp":
		return s <= 0, true
	case "GreaterThanOp":
		return s > 0, true
	case "GreaterEqualOp":
		return s >= 0, true
	}
	return false, false
}

func (c *Ctx) comparisonFunc() (*ssa.Function, string) {
	f := c.theFunc("comparison dispatch", "*sqlparser.ComparisonExpr", "ComparisonExpr")
	if f == nil {
		return nil, ""
	}
	return f, paramNameOfType(f, "*sqlparser.ComparisonExpr")
}

func ruleC01CmpTable(c *Ctx) {
	c.Doc("c01.cmp-table", "comparison dispatch: for each of = != < <= > >= the arm returns the reference boolean function of the sign of compare.Compare(L,R) where L is the unwrapped evaluation of expr.Left and R of expr.Right (a swapped call with the mirrored relation is accepted); every ComparisonExprOperator constant of sqlparser either has an arm or reaches the unsupported-operation error; the ten operators C01 names have arms")
	f, ep := c.comparisonFunc()
	if f == nil {
		c.Unknown("c01.cmp-table", "ComparisonExpr", "-", "anchor lost: no function takes *sqlparser.ComparisonExpr")
		return
	}
	consts := c.P.enumConsts(sqlp, "ComparisonExprOperator")
	if len(consts) < 10 {
		c.Unknown("c01.cmp-table", "ComparisonExprOperator", "-", fmt.Sprintf("only %d operator constants found in sqlparser", len(consts)))
		return
	}
	key := c.P.funcKey(f)
	atoms := []Atom{
		opAtom("op", ep, "Operator", consts),
		{Name: "c", Dom: signDom, Match: func(t *Term) bool {
			a, ok := isCompareCall(t)
			return ok && unwrappedField(a[0], ep, "Left") && unwrappedField(a[1], ep, "Right")
		}},
		{Name: "cSwapped", Dom: signDom, Match: func(t *Term) bool {
			a, ok := isCompareCall(t)
			return ok && unwrappedField(a[0], ep, "Right") && unwrappedField(a[1], ep, "Left")
		}},
	}
	// only the relational arms are walked here: prune the other operators early
	rel := map[int64]bool{}
	for v, n := range consts {
		if _, ok := refRel(n, 0); ok {
			rel[v] = true
		}
	}
	tb := BuildTable(f, atoms, true, func(cfg *WalkCfg) {
		old := cfg.Prune
		cfg.Prune = func(k string, t *Term, v constant.Value) bool {
			if old(k, t, v) {
				return true
			}
			if atoms[0].Match(t) {
				if iv, ok := constant.Int64Val(v); ok && !rel[iv] {
					return true
				}
			}
			return false
		}
	})
	if tb.Err != nil {
		c.Unknown("c01.cmp-table", key, c.P.Pos(f.Pos()), tb.Err.Error())
		return
	}
	// a Compare call with other operands in a relational arm is a violation on its own
	for _, v := range sortedKeys(consts) {
		name := consts[v]
		if !rel[v] {
			continue
		}
		sel := func(p *Path) bool {
			x, ok := tb.namesOnPath(p)["op"]
			return ok && constant.Compare(x, tokOf("=="), cInt(v))
		}
		r := tb.CheckTable(0, sel, func(m map[string]constant.Value) (constant.Value, bool) {
			if iv, _ := constant.Int64Val(m["op"]); iv != v {
				return nil, false
			}
			s, sw := signOf(m["c"]), signOf(m["cSwapped"])
			if s != -sw {
				return nil, false
			}
			b, _ := refRel(name, s)
			return boolOf(b), true
		})
		// the arm must actually consult a Compare atom (otherwise operands are wrong)
		sawCmp := r.Used["c"] || r.Used["cSwapped"]
		why := r.Why()
		if !sawCmp {
			why = "the arm does not decide on compare.Compare(unwrap(expr.Left), unwrap(expr.Right)); " + why
		}
		c.Check(r.OK() && sawCmp, "c01.cmp-table", key+"/"+name, c.P.Pos(f.Pos()), fmt.Sprintf("%d rows agree with the truth table of %s over sign(Compare(L,R))", r.Rows, name), why)
	}
	// exhaustiveness over the enum
	armed := c.switchArms(f, ep, "Operator")
	named := []string{"EqualOp", "NotEqualOp", "LessThanOp", "LessEqualOp", "GreaterThanOp", "GreaterEqualOp", "InOp", "NotInOp", "LikeOp", "NotLikeOp"}
	for _, n := range named {
		has := false
		for v, cn := range consts {
			if cn == n && armed[v] {
				has = true
			}
		}
		c.Check(has, "c01.cmp-table", key+"/arm/"+n, c.P.Pos(f.Pos()), "operator has a dispatch arm", "operator "+n+" named by C01 has no arm in the comparison dispatch")
	}
	c.Notes = append(c.Notes, fmt.Sprintf("ComparisonExprOperator constants in sqlparser: %d; with an arm: %d", len(consts), len(armed)))
}

// switchArms: the set of constants c for which fn contains a comparison `param.field == c`.
func (c *Ctx) switchArms(fn *ssa.Function, param, field string) map[int64]bool {
	out := map[int64]bool{}
	tbd := NewTB()
	allInstrs(fn, func(_ *ssa.BasicBlock, in ssa.Instruction) {
		b, ok := in.(*ssa.BinOp)
		if !ok || b.Op.String() != "==" {
			return
		}
		x := tbd.Of(b.X)
		if x.Op == "field" && x.Name == field && len(x.Args) == 1 && x.Args[0].Op == "param" && x.Args[0].Name == param {
			if v, ok := constInt(b.Y); ok {
				out[v] = true
			}
		}
	})
	return out
}

// ---- c01.in-siblings ----------------------------------------------------------------------

// membership classification of one set of paths: found (an equality of the left value with a
// list element was assumed) vs exhausted (loop ran out).
type memberTable struct {
	found, exhausted []constant.Value
	oracleOK         bool
	notes            []string
}

func ruleC01Membership(c *Ctx) {
	c.Doc("c01.in-siblings", "IN and NOT IN decide membership with the same equality oracle (compare.Compare(unwrapped left, element) == 0 over the same element normalisation); IN returns true on the found path and false when the list is exhausted, NOT IN the negation on both")
	f, ep := c.comparisonFunc()
	if f == nil {
		c.Unknown("c01.in-siblings", "ComparisonExpr", "-", "anchor lost")
		return
	}
	consts := c.P.enumConsts(sqlp, "ComparisonExprOperator")
	var inV, notInV int64 = -1, -1
	for v, n := range consts {
		if n == "InOp" {
			inV = v
		}
		if n == "NotInOp" {
			notInV = v
		}
	}
	key := c.P.funcKey(f)
	want := map[int64]bool{inV: true, notInV: true}
	// atoms: operator; any Compare(x, y) call whose first operand is the unwrapped left (or a parameter
	// when analysing a helper) is a membership test with sign domain
	var helperLeft string
	isMemberCmp := func(t *Term) bool {
		a, ok := isCompareCall(t)
		if !ok {
			return false
		}
		if helperLeft != "" {
			return a[0].Op == "param" && a[0].Name == helperLeft
		}
		return unwrappedField(a[0], ep, "Left")
	}
	atoms := []Atom{opAtom("op", ep, "Operator", consts), {Name: "eq", Dom: signDom, Match: isMemberCmp}}
	tb := BuildTable(f, atoms, true, func(cfg *WalkCfg) {
		old := cfg.Prune
		cfg.Prune = func(k string, t *Term, v constant.Value) bool {
			if old(k, t, v) {
				return true
			}
			if atoms[0].Match(t) {
				if iv, ok := constant.Int64Val(v); ok && !want[iv] {
					return true
				}
			}
			return false
		}
	})
	if tb.Err != nil {
		c.Unknown("c01.in-siblings", key, c.P.Pos(f.Pos()), tb.Err.Error())
		return
	}
	classify := func(tb *Table, sel func(*Path) bool) (found, exhausted map[string]int, symbolic []*Path) {
		found, exhausted = map[string]int{}, map[string]int{}
		for _, p := range tb.SuccessPaths() {
			if sel != nil && !sel(p) {
				continue
			}
			if len(p.Ret) == 0 {
				continue
			}
			isFound := false
			for k, v := range p.Asg {
				if tb.Seen[k] == "eq" && signOf(v) == 0 {
					isFound = true
				}
			}
			r := p.Ret[0]
			if r.C == nil {
				symbolic = append(symbolic, p)
				continue
			}
			if isFound {
				found[r.C.ExactString()]++
			} else {
				exhausted[r.C.ExactString()]++
			}
		}
		return
	}
	selOp := func(v int64) func(*Path) bool {
		return func(p *Path) bool {
			x, ok := tb.namesOnPath(p)["op"]
			return ok && constant.Compare(x, tokOf("=="), cInt(v))
		}
	}
	type verdict struct {
		ok  bool
		why string
	}
	judge := func(found, exhausted map[string]int, negated bool) verdict {
		wf, we := "true", "false"
		if negated {
			wf, we = "false", "true"
		}
		if len(found) == 0 {
			return verdict{false, "no path decides membership by compare.Compare(left, element) == 0"}
		}
		if len(exhausted) == 0 {
			return verdict{false, "no path returns after the list is exhausted"}
		}
		for k := range found {
			if k != wf {
				return verdict{false, "returns " + k + " when an element equals the left value (want " + wf + ")"}
			}
		}
		for k := range exhausted {
			if k != we {
				return verdict{false, "returns " + k + " when no element equals the left value (want " + we + ")"}
			}
		}
		return verdict{true, ""}
	}
	results := map[int64]verdict{}
	for _, v := range []int64{inV, notInV} {
		fo, ex, sym := classify(tb, selOp(v))
		if len(sym) > 0 && len(fo) == 0 {
			// helper form: the arm returns h(...)#0 or !h(...)#0 — analyse h
			p := sym[0]
			t := p.Ret[0].T
			neg := false
			if t.Op == "un" && t.Name == "!" {
				neg, t = true, t.Args[0]
			}
			t = stripExt(t)
			var helper *ssa.Function
			if t.Op == "call" {
				if call, ok := t.V.(*ssa.Call); ok {
					helper = call.Common().StaticCallee()
				}
			}
			if helper != nil && strings.HasPrefix(funcName(helper), "slices.ContainsFunc") {
				// library form: slices.ContainsFunc(list, func(e) bool { return compare.Compare(left, e) == 0 })
				call := t.V.(*ssa.Call)
				var pred *ssa.Function
				var mc *ssa.MakeClosure
				if len(call.Call.Args) == 2 {
					if m, isMC := call.Call.Args[1].(*ssa.MakeClosure); isMC {
						mc, pred = m, m.Fn.(*ssa.Function)
					}
				}
				if pred == nil || len(pred.Params) != 1 {
					results[v] = verdict{false, "membership is decided by slices.ContainsFunc with a predicate that is not a closure of this function"}
					continue
				}
				leftFV := ""
				for i, bnd := range mc.Bindings {
					if i >= len(pred.FreeVars) {
						continue
					}
					if unwrappedField(NewTB().Of(bnd), ep, "Left") {
						leftFV = pred.FreeVars[i].Name()
					}
					// captured by reference: every store to the cell is the unwrapped left
					if al, isAl := bnd.(*ssa.Alloc); isAl && al.Referrers() != nil {
						n, good := 0, true
						for _, r := range *al.Referrers() {
							if st, isSt := r.(*ssa.Store); isSt && st.Addr == ssa.Value(al) {
								n++
								if !unwrappedField(NewTB().Of(st.Val), ep, "Left") {
									good = false
								}
							}
						}
						if n > 0 && good {
							leftFV = pred.FreeVars[i].Name()
						}
					}
				}
				if leftFV == "" {
					results[v] = verdict{false, "the membership predicate does not capture the unwrapped left value"}
					continue
				}
				elem := pred.Params[0].Name()
				isPredCmp := func(x *Term) bool {
					a, ok := isCompareCall(x)
					if !ok {
						return false
					}
					l := a[0]
					if l.Op == "load" && len(l.Args) == 1 {
						l = l.Args[0]
					}
					return l.Op == "freevar" && l.Name == leftFV && strings.Contains(a[1].String(), "p:"+elem)
				}
				ptb := BuildTable(pred, []Atom{{Name: "eq", Dom: signDom, Match: isPredCmp}}, true)
				ver := verdict{true, ""}
				nEq, nNe := 0, 0
				for _, pp := range ptb.SuccessPaths() {
					if len(pp.Ret) == 1 && pp.Ret[0].C == nil && pp.Ret[0].T != nil {
						// branch-free form: return compare.Compare(left, e) == 0
						if rt := pp.Ret[0].T; rt.Op == "bin" && rt.Name == "==" && len(rt.Args) == 2 && isPredCmp(rt.Args[0]) && rt.Args[1].String() == "c:0" {
							nEq++
							nNe++
							continue
						}
					}
					if len(pp.Ret) != 1 || pp.Ret[0].C == nil {
						ver = verdict{false, "the membership predicate's result is not decided by compare.Compare(left, element)"}
						continue
					}
					isEq, has := false, false
					for k, val := range pp.Asg {
						if ptb.Seen[k] == "eq" {
							has, isEq = true, signOf(val) == 0
						}
					}
					if !has || constant.BoolVal(pp.Ret[0].C) != isEq {
						ver = verdict{false, "the membership predicate is not `compare.Compare(left, element) == 0`"}
					}
					if isEq {
						nEq++
					} else {
						nNe++
					}
				}
				if ver.ok && (nEq == 0 || nNe == 0) {
					ver = verdict{false, "the membership predicate never compares"}
				}
				if ver.ok && neg != (v == notInV) {
					ver = verdict{false, fmt.Sprintf("arm returns %sContainsFunc result", map[bool]string{true: "the negated ", false: "the plain "}[neg])}
				}
				c.Fn(c.P.funcKey(pred))
				results[v] = ver
				continue
			}
			if helper == nil || !c.P.InModule(helper) {
				results[v] = verdict{false, "membership result is " + p.Ret[0].T.String() + ", which is neither a constant nor a helper's result"}
				continue
			}
			// which parameter receives the unwrapped left?
			helperLeft = ""
			for i, a := range t.Args {
				if unwrappedField(a, ep, "Left") && i < len(helper.Params) {
					helperLeft = helper.Params[i].Name()
				}
			}
			if helperLeft == "" {
				results[v] = verdict{false, "helper " + funcName(helper) + " does not receive the unwrapped left value"}
				continue
			}
			c.Fn(c.P.funcKey(helper))
			c.Anchor("membership helper", c.P.funcKey(helper)+" "+c.P.Pos(helper.Pos()))
			htb := BuildTable(helper, []Atom{{Name: "eq", Dom: signDom, Match: isMemberCmp}}, true)
			hf, he, _ := classify(htb, nil)
			helperLeft = ""
			ver := judge(hf, he, false)
			if ver.ok {
				// arm-level negation
				want := v == notInV
				if neg != want {
					ver = verdict{false, fmt.Sprintf("arm returns %shelper result", map[bool]string{true: "the negated ", false: "the plain "}[neg])}
				}
			}
			results[v] = ver
			continue
		}
		results[v] = judge(fo, ex, v == notInV)
	}
	// element normalisation agrees: a row of a subquery (a Map) stands for the value of its only column in BOTH arms
	mapArms := map[int64]bool{}
	allInstrs(f, func(b *ssa.BasicBlock, in ssa.Instruction) {
		ta, ok := in.(*ssa.TypeAssert)
		if !ok || shortType(ta.AssertedType) != "Map" {
			return
		}
		for _, fc := range relFacts(factsAt(b)) {
			if fc.r != relEQ {
				continue
			}
			if k, isK := constIntOf(fc.y); isK && (k == inV || k == notInV) {
				if ft := NewTB().Of(fc.x); ft.Op == "field" && ft.Name == "Operator" {
					mapArms[k] = true
				}
			}
		}
	})
	c.Check(mapArms[inV] == mapArms[notInV], "c01.in-siblings", key+"/row-normalisation", c.P.Pos(f.Pos()), "IN and NOT IN both read the single column of a subquery row", func() string {
		if mapArms[inV] {
			return "IN unwraps a subquery row (a Map) to its only column, NOT IN compares the left value with the row itself: `x NOT IN (SELECT ...)` is true for every row"
		}
		return "NOT IN unwraps a subquery row (a Map) to its only column, IN does not"
	}())
	// an empty list is a list: no failure exit of either arm is taken because the list (a slice-typed value: the asserted
	// right side) is nil or has no element -- `x IN (subquery with no rows)` is false and NOT IN true, not an error
	if ei := errIdx(f); ei >= 0 {
		for _, v := range []int64{inV, notInV} {
			sel, bad := selOp(v), ""
			for _, p := range tb.Paths {
				if p.Exit != "return" || !sel(p) || ei >= len(p.Ret) || p.Ret[ei].Nil {
					continue
				}
				if p.Ret[ei].T != nil && p.Ret[ei].T.Op == "ext" {
					continue
				}
				for k, val := range p.Asg {
					if t := p.KeyTerm[k]; t != nil && val.Kind() == constant.Bool && assumesEmptySlice(t, constant.BoolVal(val)) {
						bad = "a failure exit is taken when " + t.String() + " is " + val.String() + ": an empty list (a subquery without rows) is refused instead of matching nothing"
					}
				}
			}
			c.Check(bad == "", "c01.in-siblings", key+"/"+consts[v]+"/empty-list", c.P.Pos(f.Pos()), "no failure exit depends on the list being nil or empty", bad)
		}
	}
	c.Check(results[inV].ok, "c01.in-siblings", key+"/InOp", c.P.Pos(f.Pos()), "found=>true, exhausted=>false, oracle compare.Compare(left, element)==0", results[inV].why)
	c.Check(results[notInV].ok, "c01.in-siblings", key+"/NotInOp", c.P.Pos(f.Pos()), "found=>false, exhausted=>true, same oracle as IN", results[notInV].why)
}

// ---- c01.between --------------------------------------------------------------------------

func ruleC01Between(c *Ctx) {
	c.Doc("c01.between", "BETWEEN: the result is (Compare(point,from) >= 0 && Compare(point,to) <= 0) == IsBetween, with point/from/to the unwrapped evaluations of expr.Left/From/To (all 18 rows of the table over the two signs and IsBetween)")
	f := c.theFunc("BETWEEN evaluation", "*sqlparser.BetweenExpr", "BetweenExpr")
	if f == nil {
		c.Unknown("c01.between", "BetweenExpr", "-", "anchor lost: no function takes *sqlparser.BetweenExpr")
		return
	}
	ep := paramNameOfType(f, "*sqlparser.BetweenExpr")
	key := c.P.funcKey(f)
	mk := func(name, a, b string) Atom {
		return Atom{Name: name, Dom: signDom, Match: func(t *Term) bool {
			x, ok := isCompareCall(t)
			return ok && unwrappedField(x[0], ep, a) && unwrappedField(x[1], ep, b)
		}}
	}
	atoms := []Atom{
		{Name: "isBetween", Dom: boolDom, Match: func(t *Term) bool {
			return t.Op == "field" && t.Name == "IsBetween" && t.Args[0].Op == "param" && t.Args[0].Name == ep
		}},
		mk("pf", "Left", "From"), mk("fp", "From", "Left"), mk("pt", "Left", "To"), mk("tp", "To", "Left"),
	}
	tb := BuildTable(f, atoms, true)
	if tb.Err != nil {
		c.Unknown("c01.between", key, c.P.Pos(f.Pos()), tb.Err.Error())
		return
	}
	r := tb.CheckTable(0, nil, func(m map[string]constant.Value) (constant.Value, bool) {
		if signOf(m["pf"]) != -signOf(m["fp"]) || signOf(m["pt"]) != -signOf(m["tp"]) {
			return nil, false
		}
		in := signOf(m["pf"]) >= 0 && signOf(m["pt"]) <= 0
		return boolOf(in == isTrueC(m["isBetween"])), true
	})
	used := map[string]bool{}
	for _, n := range tb.Seen {
		used[n] = true
	}
	ok := r.OK() && (used["pf"] || used["fp"]) && (used["pt"] || used["tp"])
	why := r.Why()
	if !(used["pf"] || used["fp"]) || !(used["pt"] || used["tp"]) {
		why = "the bounds are not decided by compare.Compare on the unwrapped point/from/to values; " + why
	}
	c.Check(ok, "c01.between", key, c.P.Pos(f.Pos()), fmt.Sprintf("%d rows: inclusive on both bounds, negated for NOT BETWEEN", r.Rows), why)
}

// ---- c01.like-escape ----------------------------------------------------------------------

func ruleC01Like(c *Ctx) {
	c.Doc("c01.like-escape", "LIKE translation: the pattern passes through regexp.QuoteMeta before `_`->`.`-class and `%`->`.*`-class substitutions (exactly those two; the matchers include the line feed: s flag or an explicit class), the regexp is anchored at both ends, subject and pattern are case-folded by the same function; LIKE returns the match and NOT LIKE its negation, subject from expr.Left and pattern from expr.Right")
	// the function whose argument reaches regexp.Match*/Compile*
	var like *ssa.Function
	var matchCall *ssa.Call
	for _, f := range c.P.pkgFuncs(modPath) {
		allInstrs(f, func(_ *ssa.BasicBlock, in ssa.Instruction) {
			call, ok := in.(*ssa.Call)
			if !ok {
				return
			}
			cal := call.Common().StaticCallee()
			if cal == nil || cal.Pkg == nil || cal.Pkg.Pkg.Path() != "regexp" {
				return
			}
			n := cal.Name()
			if strings.HasPrefix(n, "Match") || strings.HasPrefix(n, "Compile") || strings.HasPrefix(n, "MustCompile") {
				// pattern must be non-constant (the selector regexps are constants)
				if _, isConst := call.Common().Args[0].(*ssa.Const); isConst {
					return
				}
				if g, isG := call.Common().Args[0].(*ssa.Global); isG {
					_ = g
					return
				}
				if like == nil {
					like, matchCall = f, call
				}
			}
		})
	}
	if like == nil {
		c.Unknown("c01.like-escape", "RegexComparison", "-", "anchor lost: no function builds a regexp from a non-constant pattern")
		return
	}
	key := c.P.funcKey(like)
	c.Anchor("LIKE translation", key+" "+c.P.Pos(like.Pos()))
	c.Fn(key)
	tbd := NewTB()
	pat := tbd.Of(matchCall.Common().Args[0])
	var why []string
	// split the top-level concatenation
	var parts []*Term
	var flat func(t *Term)
	flat = func(t *Term) {
		if t.Op == "bin" && t.Name == "+" {
			flat(t.Args[0])
			flat(t.Args[1])
			return
		}
		parts = append(parts, t)
	}
	flat(pat)
	constStr := func(t *Term) (string, bool) {
		if t.Op == "const" {
			if cv, ok := t.V.(*ssa.Const); ok && cv.Value != nil && cv.Value.Kind() == constant.String {
				return constant.StringVal(cv.Value), true
			}
		}
		return "", false
	}
	prefix, suffix := "", ""
	var core *Term
	if len(parts) >= 3 {
		if s, ok := constStr(parts[0]); ok {
			prefix = s
		}
		if s, ok := constStr(parts[len(parts)-1]); ok {
			suffix = s
		}
		if len(parts) == 3 {
			core = parts[1]
		}
	}
	if !strings.HasSuffix(prefix, "^") || !strings.HasPrefix(suffix, "$") || suffix != "$" {
		why = append(why, "the regexp is not anchored as ^…$ around the translated pattern")
	}
	if core == nil {
		why = append(why, "the pattern is not `^` + translated + `$`")
		core = pat
	}
	// substitution chain
	subs := map[string]string{}
	cur := core
	sawQuote := false
	quoteInside := true
	for {
		if a, ok := callArgs(cur, "strings.ReplaceAll"); ok && len(a) == 3 {
			o, ok1 := constStr(a[1])
			n, ok2 := constStr(a[2])
			if !ok1 || !ok2 {
				why = append(why, "a substitution has non-constant operands")
				break
			}
			if sawQuote {
				quoteInside = false
			}
			subs[o] = n
			cur = a[0]
			continue
		}
		// one pass of a constant strings.Replacer over the text: every pair is a substitution of this step
		if a, ok := callArgs(cur, "(*strings.Replacer).Replace"); ok && len(a) == 2 {
			if call, isCall := cur.V.(*ssa.Call); isCall {
				if pairs, _, isR := replacerPairs(call); isR {
					if sawQuote {
						quoteInside = false
					}
					for _, pr := range pairs {
						subs[pr[0]] = pr[1]
					}
					cur = a[1]
					continue
				}
			}
		}
		if a, ok := callArgs(cur, "regexp.QuoteMeta"); ok && len(a) == 1 {
			if len(subs) == 0 {
				// QuoteMeta applied after the substitutions would quote the generated `.`/`.*`
				quoteInside = false
			}
			sawQuote = true
			cur = a[0]
			continue
		}
		if a, ok := callArgs(cur, "strings.ToLower"); ok && len(a) == 1 {
			cur = a[0]
			continue
		}
		if a, ok := callArgs(cur, "strings.ToUpper"); ok && len(a) == 1 {
			cur = a[0]
			continue
		}
		break
	}
	if !sawQuote {
		why = append(why, "the pattern text is not passed through regexp.QuoteMeta: regexp metacharacters in the LIKE pattern are interpreted (`LIKE '(%'` is an error, `LIKE 'a.c'` matches `abc`)")
	} else if !quoteInside {
		why = append(why, "regexp.QuoteMeta is applied after a wildcard substitution")
	}
	oneChar := map[string]bool{".": true, "(?s:.)": true, `[\s\S]`: true}
	anyRun := map[string]bool{".*": true, "(?s:.*)": true, `[\s\S]*`: true}
	if !oneChar[subs["_"]] {
		why = append(why, "`_` is not translated to a single-character matcher")
	}
	if !anyRun[subs["%"]] {
		why = append(why, "`%` is not translated to an any-run matcher")
	}
	// `.` excludes the line feed unless the s flag is set: the wildcards must match every character
	dotAll := false
	if i := strings.Index(prefix, "(?"); i >= 0 {
		if j := strings.Index(prefix[i:], ")"); j > 0 && strings.Contains(prefix[i:i+j], "s") {
			dotAll = true
		}
	}
	if (subs["_"] == "." || subs["%"] == ".*") && !dotAll {
		why = append(why, "the wildcards are translated to `.`/`.*` without the s flag: `%` and `_` do not match a line feed in the value")
	}
	for o := range subs {
		if o != "_" && o != "%" {
			why = append(why, fmt.Sprintf("unexpected substitution of %q (only %% and _ are wildcards)", o))
		}
	}
	if cur.Op != "param" {
		why = append(why, "the translated text does not originate from the pattern parameter: "+cur.String())
	}
	// case folding: same function on both, or (?i)
	if !strings.Contains(prefix, "(?i") {
		foldP := ""
		if hasCallOnSpine(core, "strings.ToLower") {
			foldP = "lower"
		} else if hasCallOnSpine(core, "strings.ToUpper") {
			foldP = "upper"
		}
		foldS := ""
		if len(matchCall.Common().Args) > 1 {
			subj := tbd.Of(matchCall.Common().Args[1])
			if hasCallOnSpine(subj, "strings.ToLower") {
				foldS = "lower"
			} else if hasCallOnSpine(subj, "strings.ToUpper") {
				foldS = "upper"
			}
			if cur.Op == "param" && subj.Contains(func(x *Term) bool { return x.Op == "param" && x.Name == cur.Name }) {
				why = append(why, "the subject is derived from the pattern parameter")
			}
		}
		if foldP == "" || foldP != foldS {
			why = append(why, "subject and pattern are not case-folded by the same function")
		}
	}
	c.Check(len(why) == 0, "c01.like-escape", key, c.P.Pos(matchCall.Pos()), "QuoteMeta inside; _ and % only; anchored; same case fold: "+pat.String(), strings.Join(why, "; "))
	// the text that is matched: a number is matched by its decimal text (TextOf), as everywhere else a number meets a
	// string; the %v text writes 1000000.0 as 1e+06, so `n LIKE '1000000'` misses the row `n = '1000000'` keeps
	var whyText []string
	pctV := func(t *Term) bool {
		return t != nil && t.Contains(func(x *Term) bool {
			a, ok := callArgs(x, "fmt.Sprintf")
			return ok && len(a) >= 1 && a[0].Name == `"%v"`
		})
	}
	if len(matchCall.Common().Args) >= 2 && pctV(tbd.Of(matchCall.Common().Args[1])) {
		whyText = append(whyText, "the subject is matched by its %v text at "+c.P.Pos(matchCall.Pos()))
	}
	for _, g := range c.P.pkgFuncs(modPath) {
		gtb := NewTB()
		allInstrs(g, func(_ *ssa.BasicBlock, in ssa.Instruction) {
			call, ok := in.(*ssa.Call)
			if !ok || call.Common().StaticCallee() != like {
				return
			}
			for _, a := range call.Common().Args {
				if pctV(gtb.Of(a)) {
					whyText = append(whyText, "an operand of LIKE is rendered with %v at "+c.P.Pos(call.Pos()))
				}
			}
		})
	}
	c.Check(len(whyText) == 0, "c01.like-escape", key+"/decimal-text", c.P.Pos(like.Pos()), "numbers are matched by their decimal text", strings.Join(uniq(whyText), "; ")+": a float64 of 1e6 and above (or below 1e-4) is matched as its exponent form (`1000000 LIKE '1000000'` is false, `LIKE '1e+06'` true)")
	// every return of the LIKE function is the regexp's verdict (no shortcut that bypasses the translation)
	{
		paths, err := WalkFunc(like, WalkCfg{MaxVisits: 1})
		okR, whyR := err == nil, ""
		if err != nil {
			whyR = err.Error()
		}
		nR := 0
		for _, p := range paths {
			if p.Exit != "return" || len(p.Ret) == 0 {
				continue
			}
			nR++
			t := p.Ret[0].T
			fromMatch := t != nil && t.Contains(func(x *Term) bool { return x.V == ssa.Value(matchCall) })
			isErrRet := len(p.Ret) == 2 && !p.Ret[1].Nil && !(p.Ret[1].T != nil && p.Ret[1].T.Contains(func(x *Term) bool { return x.V == ssa.Value(matchCall) }))
			if !fromMatch && !isErrRet {
				okR, whyR = false, "a path returns "+avString(p.Ret[0])+" without consulting the translated regexp (under "+p.String()+")"
			}
			if fromMatch && !(t.Op == "ext" && t.Name == "0") {
				okR, whyR = false, "a path returns "+t.String()+" instead of the match verdict"
			}
		}
		if nR == 0 {
			okR, whyR = false, "no return path"
		}
		c.Check(okR, "c01.like-escape", key+"/all-returns", c.P.Pos(like.Pos()), fmt.Sprintf("%d return paths all yield the regexp verdict", nR), whyR)
	}

	// the two arms in the comparison dispatch
	f, ep := c.comparisonFunc()
	if f == nil {
		return
	}
	consts := c.P.enumConsts(sqlp, "ComparisonExprOperator")
	var likeV, notLikeV int64 = -1, -1
	for v, n := range consts {
		if n == "LikeOp" {
			likeV = v
		}
		if n == "NotLikeOp" {
			notLikeV = v
		}
	}
	lname := funcName(like)
	want := map[int64]bool{likeV: true, notLikeV: true}
	atoms := []Atom{opAtom("op", ep, "Operator", consts),
		{Name: "m", Dom: boolDom, Match: func(t *Term) bool {
			if t.Op != "ext" || t.Name != "0" {
				return false
			}
			a, ok := callArgs(t.Args[0], lname)
			if !ok || len(a) != 2 {
				return false
			}
			// subject from Left, pattern from Right
			return a[0].Contains(func(x *Term) bool { return unwrappedField(x, ep, "Left") }) && !a[0].Contains(func(x *Term) bool { return unwrappedField(x, ep, "Right") }) &&
				a[1].Contains(func(x *Term) bool { return unwrappedField(x, ep, "Right") }) && !a[1].Contains(func(x *Term) bool { return unwrappedField(x, ep, "Left") })
		}}}
	tb := BuildTable(f, atoms, true, func(cfg *WalkCfg) {
		old := cfg.Prune
		cfg.Prune = func(k string, t *Term, v constant.Value) bool {
			if old(k, t, v) {
				return true
			}
			if atoms[0].Match(t) {
				if iv, ok := constant.Int64Val(v); ok && !want[iv] {
					return true
				}
			}
			return false
		}
	})
	for _, v := range []int64{likeV, notLikeV} {
		name := consts[v]
		sel := func(p *Path) bool {
			x, ok := tb.namesOnPath(p)["op"]
			return ok && constant.Compare(x, tokOf("=="), cInt(v))
		}
		r := tb.CheckTable(0, sel, func(m map[string]constant.Value) (constant.Value, bool) {
			if iv, _ := constant.Int64Val(m["op"]); iv != v {
				return nil, false
			}
			return boolOf(isTrueC(m["m"]) == (v == likeV)), true
		})
		c.Check(r.OK(), "c01.like-escape", c.P.funcKey(f)+"/"+name, c.P.Pos(f.Pos()), "arm returns "+map[bool]string{true: "the match", false: "the negated match"}[v == likeV]+" of (text of left, text of right)", r.Why())
	}
}

// ---- c01.connectives ----------------------------------------------------------------------

func ruleC01Connectives(c *Ctx) {
	c.Doc("c01.connectives", "AND returns l&&r, OR l||r, NOT !v over the unwrapped boolean evaluations of expr.Left/Right/Expr; IS NULL <=> value is nil, IS NOT NULL its negation, IS TRUE / IS NOT FALSE <=> v, IS FALSE / IS NOT TRUE <=> !v (all IsExprOperator constants of sqlparser)")
	boolOperand := func(ep, field string) func(*Term) bool {
		// *AsType[bool](unwrap(field))#0, or a bool assertion of it
		return func(t *Term) bool {
			if t.Op == "load" {
				inner := stripExt(t.Args[0])
				if a, ok := callArgs(inner, "AsType"); ok && len(a) == 1 && unwrappedField(a[0], ep, field) {
					return true
				}
			}
			if t.Op == "ext" && t.Name == "0" && t.Args[0].Op == "assertok" && t.Args[0].Name == "bool" && unwrappedField(t.Args[0].Args[0], ep, field) {
				return true
			}
			if t.Op == "assert" && t.Name == "bool" && unwrappedField(t.Args[0], ep, field) {
				return true
			}
			return false
		}
	}
	type conn struct {
		role, typ, name string
		fields          []string
		ref             func(l, r bool) bool
	}
	for _, cn := range []conn{
		{"AND evaluation", "*sqlparser.AndExpr", "AndExpr", []string{"Left", "Right"}, func(l, r bool) bool { return l && r }},
		{"OR evaluation", "*sqlparser.OrExpr", "OrExpr", []string{"Left", "Right"}, func(l, r bool) bool { return l || r }},
		{"NOT evaluation", "*sqlparser.NotExpr", "NotExpr", []string{"Expr"}, func(l, r bool) bool { return !l }},
	} {
		f := c.theFunc(cn.role, cn.typ, cn.name)
		if f == nil {
			c.Unknown("c01.connectives", cn.name, "-", "anchor lost: no function takes "+cn.typ)
			continue
		}
		ep := paramNameOfType(f, cn.typ)
		atoms := []Atom{{Name: "l", Dom: boolDom, Match: boolOperand(ep, cn.fields[0])}}
		if len(cn.fields) > 1 {
			atoms = append(atoms, Atom{Name: "r", Dom: boolDom, Match: boolOperand(ep, cn.fields[1])})
		}
		tb := BuildTable(f, atoms, true)
		if tb.Err != nil {
			c.Unknown("c01.connectives", c.P.funcKey(f), c.P.Pos(f.Pos()), tb.Err.Error())
			continue
		}
		ref := cn.ref
		r := tb.CheckTable(0, nil, func(m map[string]constant.Value) (constant.Value, bool) {
			return boolOf(ref(isTrueC(m["l"]), isTrueC(m["r"]))), true
		})
		used := map[string]bool{}
		for _, n := range tb.Seen {
			used[n] = true
		}
		ok := r.OK() && used["l"] && (len(cn.fields) == 1 || used["r"])
		why := r.Why()
		if !used["l"] || (len(cn.fields) > 1 && !used["r"]) {
			why = "the result does not depend on the unwrapped boolean value of each operand; " + why
		}
		c.Check(ok, "c01.connectives", c.P.funcKey(f), c.P.Pos(f.Pos()), fmt.Sprintf("%d rows of the truth table", r.Rows), why)
	}
	// IS
	f := c.theFunc("IS evaluation", "*sqlparser.IsExpr", "IsExpr")
	if f == nil {
		c.Unknown("c01.connectives", "IsExpr", "-", "anchor lost: no function takes *sqlparser.IsExpr")
		return
	}
	ep := paramNameOfType(f, "*sqlparser.IsExpr")
	consts := c.P.enumConsts(sqlp, "IsExprOperator")
	atoms := []Atom{
		opAtom("op", ep, "Right", consts),
		{Name: "isNil", Dom: boolDom, Match: func(t *Term) bool {
			x, ok := isNilTest(t)
			return ok && unwrappedField(x, ep, "Left")
		}},
		{Name: "v", Dom: boolDom, Match: boolOperand(ep, "Left")},
		{Name: "isBool", Dom: boolDom, Match: func(t *Term) bool {
			return t.Op == "ext" && t.Name == "1" && t.Args[0].Op == "assertok" && t.Args[0].Name == "bool" && unwrappedField(t.Args[0].Args[0], ep, "Left")
		}},
	}
	tb := BuildTable(f, atoms, true)
	if tb.Err != nil {
		c.Unknown("c01.connectives", c.P.funcKey(f), c.P.Pos(f.Pos()), tb.Err.Error())
		return
	}
	keys := sortedKeys(consts)
	sort.Slice(keys, func(i, j int) bool { return keys[i] < keys[j] })
	for _, v := range keys {
		name := consts[v]
		sel := func(p *Path) bool {
			x, ok := tb.namesOnPath(p)["op"]
			return ok && constant.Compare(x, tokOf("=="), cInt(v))
		}
		r := tb.CheckTable(0, sel, func(m map[string]constant.Value) (constant.Value, bool) {
			if iv, _ := constant.Int64Val(m["op"]); iv != v {
				return nil, false
			}
			isNil := isTrueC(m["isNil"])
			switch name {
			case "IsNullOp":
				return boolOf(isNil), true
			case "IsNotNullOp":
				return boolOf(!isNil), true
			}
			// truth-valued forms are defined by C01 on non-NULL boolean values only
			if isNil || !isTrueC(m["isBool"]) {
				return nil, false
			}
			switch name {
			case "IsTrueOp", "IsNotFalseOp":
				return m["v"], true
			case "IsFalseOp", "IsNotTrueOp":
				return boolOf(!isTrueC(m["v"])), true
			}
			return nil, false
		})
		c.Check(r.OK(), "c01.connectives", c.P.funcKey(f)+"/"+name, c.P.Pos(f.Pos()), fmt.Sprintf("%d rows agree with %s", r.Rows, name), r.Why())
	}
	if len(consts) < 6 {
		c.Unknown("c01.connectives", "IsExprOperator", "-", fmt.Sprintf("only %d IS operators found in sqlparser", len(consts)))
	}
}

// assumesEmptySlice: the condition t, assumed to be val, says that a slice-typed value is nil or has no element.
func assumesEmptySlice(t *Term, val bool) bool {
	isSlice := func(x *Term) bool {
		if x == nil || x.Typ == nil {
			return false
		}
		_, ok := x.Typ.Underlying().(*types.Slice)
		return ok
	}
	if x, ok := isNilTest(t); ok {
		return val && isSlice(x)
	}
	if t.Op == "bin" && len(t.Args) == 2 {
		if t.Name == "!=" {
			if a, b := t.Args[0], t.Args[1]; (b.Op == "const" && b.Name == "nil" && isSlice(a)) || (a.Op == "const" && a.Name == "nil" && isSlice(b)) {
				return !val
			}
		}
		l, r, op := t.Args[0], t.Args[1], t.Name
		lenOf := func(x *Term) bool {
			return x.Op == "builtin" && x.Name == "len" && len(x.Args) == 1 && isSlice(x.Args[0])
		}
		if lenOf(r) && l.Op == "const" {
			l, r = r, l
			op = map[string]string{"<": ">", ">": "<", "<=": ">=", ">=": "<=", "==": "==", "!=": "!="}[op]
		}
		if !lenOf(l) || r.Op != "const" {
			return false
		}
		switch op + " " + r.Name {
		case "== 0", "< 1", "<= 0":
			return val
		case "!= 0", "> 0", ">= 1":
			return !val
		}
	}
	return false
}
