package main

import (
	"fmt"
	"go/token"
	"go/types"
	"os"
	"sort"
	"strings"

	"golang.org/x/tools/go/callgraph"
	"golang.org/x/tools/go/callgraph/cha"
	"golang.org/x/tools/go/callgraph/vta"
	"golang.org/x/tools/go/packages"
	"golang.org/x/tools/go/ssa"
	"golang.org/x/tools/go/ssa/ssautil"
)

const (
	modPath      = "github.com/vedadiyan/genql"
	comparePath  = "github.com/vedadiyan/genql/compare"
	sanitizePath = "github.com/vedadiyan/genql/sanitizer"
	sqlparserPfx = "github.com/vedadiyan/sqlparser/v2"
)

// Program is the resolved form of /repo's current working tree.
type Program struct {
	Dir      string
	Fset     *token.FileSet
	Pkgs     []*packages.Package // module packages only
	All      map[string]*packages.Package
	Prog     *ssa.Program
	SSAPkgs  map[string]*ssa.Package
	ModFuncs []*ssa.Function // every function (incl. anonymous, generic instances) whose package is in the module
	cg       *callgraph.Graph
	allFuncs map[*ssa.Function]bool
}

func loadEnv(extra ...string) []string {
	env := []string{}
	for _, e := range os.Environ() {
		k := strings.SplitN(e, "=", 2)[0]
		switch k {
		case "GOFLAGS", "GOPROXY", "GOSUMDB", "GOTOOLCHAIN", "GOWORK", "GOARCH", "GOOS", "CGO_ENABLED":
			continue
		}
		env = append(env, e)
	}
	env = append(env, "GOFLAGS=-mod=readonly", "GOPROXY=off", "GOSUMDB=off", "GOTOOLCHAIN=local", "GOWORK=off")
	env = append(env, extra...)
	return env
}

// Load type-checks and builds SSA for the module in dir. Any load or type error is fatal
// (exit 2): a tree that does not compile has no verdict.
func Load(dir string, needSSA bool, extraEnv ...string) (*Program, error) {
	fset := token.NewFileSet()
	mode := packages.LoadAllSyntax
	cfg := &packages.Config{Mode: mode, Dir: dir, Fset: fset, Tests: false, Env: loadEnv(extraEnv...)}
	pkgs, err := packages.Load(cfg, "./...")
	if err != nil {
		return nil, fmt.Errorf("packages.Load: %w", err)
	}
	if len(pkgs) == 0 {
		return nil, fmt.Errorf("no packages loaded from %s", dir)
	}
	p := &Program{Dir: dir, Fset: fset, All: map[string]*packages.Package{}, SSAPkgs: map[string]*ssa.Package{}}
	var errs []string
	packages.Visit(pkgs, nil, func(pk *packages.Package) {
		p.All[pk.PkgPath] = pk
		if strings.HasPrefix(pk.PkgPath, modPath) {
			for _, e := range pk.Errors {
				errs = append(errs, e.Error())
			}
		}
	})
	if len(errs) > 0 {
		return nil, fmt.Errorf("type errors in module: %s", strings.Join(errs, "; "))
	}
	for _, pk := range pkgs {
		if strings.HasPrefix(pk.PkgPath, modPath) {
			p.Pkgs = append(p.Pkgs, pk)
		}
	}
	sort.Slice(p.Pkgs, func(i, j int) bool { return p.Pkgs[i].PkgPath < p.Pkgs[j].PkgPath })
	if p.All[modPath] == nil {
		return nil, fmt.Errorf("package %s not found under %s", modPath, dir)
	}
	if !needSSA {
		return p, nil
	}
	prog, spkgs := ssautil.AllPackages(pkgs, ssa.InstantiateGenerics)
	prog.Build()
	p.Prog = prog
	for i, sp := range spkgs {
		if sp != nil {
			p.SSAPkgs[pkgs[i].PkgPath] = sp
		}
	}
	// dependencies
	for _, sp := range prog.AllPackages() {
		if _, ok := p.SSAPkgs[sp.Pkg.Path()]; !ok {
			p.SSAPkgs[sp.Pkg.Path()] = sp
		}
	}
	p.allFuncs = ssautil.AllFunctions(prog)
	for f := range p.allFuncs {
		if p.InModule(f) {
			p.ModFuncs = append(p.ModFuncs, f)
		}
	}
	sort.Slice(p.ModFuncs, func(i, j int) bool {
		a, b := p.ModFuncs[i], p.ModFuncs[j]
		if a.String() != b.String() {
			return a.String() < b.String()
		}
		return a.Pos() < b.Pos()
	})
	curProgram = p
	roTableCache = map[*ssa.Global]*roTable{}
	return p, nil
}

// InModule reports whether the function's code belongs to one of the module packages
// (generic instances and closures are attributed to their origin).
func (p *Program) InModule(f *ssa.Function) bool {
	pk := funcPkgPath(f)
	return pk == modPath || strings.HasPrefix(pk, modPath+"/")
}

func funcPkgPath(f *ssa.Function) string {
	for f != nil {
		if f.Pkg != nil {
			return f.Pkg.Pkg.Path()
		}
		if o := f.Origin(); o != nil && o != f {
			f = o
			continue
		}
		if f.Parent() != nil {
			f = f.Parent()
			continue
		}
		if obj := f.Object(); obj != nil && obj.Pkg() != nil {
			return obj.Pkg().Path()
		}
		break
	}
	return ""
}

// CallGraph returns the VTA call graph (built lazily).
func (p *Program) CallGraph() *callgraph.Graph {
	if p.cg == nil {
		p.cg = vta.CallGraph(p.allFuncs, cha.CallGraph(p.Prog))
	}
	return p.cg
}

// Callees resolves a call instruction to its possible callees: static callee when there is
// one, otherwise the VTA edges.
func (p *Program) Callees(site ssa.CallInstruction) []*ssa.Function {
	if f := site.Common().StaticCallee(); f != nil {
		return []*ssa.Function{f}
	}
	cg := p.CallGraph()
	n := cg.Nodes[site.Parent()]
	if n == nil {
		return nil
	}
	var out []*ssa.Function
	seen := map[*ssa.Function]bool{}
	for _, e := range n.Out {
		if e.Site == site && !seen[e.Callee.Func] {
			seen[e.Callee.Func] = true
			out = append(out, e.Callee.Func)
		}
	}
	sort.Slice(out, func(i, j int) bool { return out[i].String() < out[j].String() })
	return out
}

func (p *Program) Pos(pos token.Pos) string {
	if !pos.IsValid() {
		return "-"
	}
	pp := p.Fset.Position(pos)
	fn := pp.Filename
	if strings.HasPrefix(fn, p.Dir+"/") {
		fn = fn[len(p.Dir)+1:]
	}
	return fmt.Sprintf("%s:%d", fn, pp.Line)
}

// Func returns the package-level function or method "pkgpath.Name" / "pkgpath.(*T).Name".
func (p *Program) Func(pkg, name string) *ssa.Function {
	sp := p.SSAPkgs[pkg]
	if sp == nil {
		return nil
	}
	if f := sp.Func(name); f != nil {
		return f
	}
	return nil
}

func (p *Program) Method(pkg, typ, name string) *ssa.Function {
	sp := p.SSAPkgs[pkg]
	if sp == nil {
		return nil
	}
	t := sp.Type(typ)
	if t == nil {
		return nil
	}
	for _, T := range []types.Type{t.Type(), types.NewPointer(t.Type())} {
		ms := p.Prog.MethodSets.MethodSet(T)
		for i := 0; i < ms.Len(); i++ {
			if ms.At(i).Obj().Name() == name {
				return p.Prog.MethodValue(ms.At(i))
			}
		}
	}
	return nil
}

// funcKey is the line-independent construct key of a function: pkg-relative name; anonymous
// functions are "Parent$n" as numbered by go/ssa (stable under edits elsewhere in the file).
func (p *Program) funcKey(f *ssa.Function) string {
	s := f.String()
	s = strings.ReplaceAll(s, modPath+"/", "")
	s = strings.ReplaceAll(s, modPath+".", "")
	s = strings.ReplaceAll(s, modPath, "genql")
	return s
}
