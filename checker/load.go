package main

import (
	"fmt"
	"go/token"
	"go/types"
	"os"
	"sort"
	"strings"

	"golang.org/x/tools/go/callgraph"
	"golang.org/x/tools/go/callgraph/cha"
	"golang.org/x/tools/go/callgraph/vta"
	"golang.org/x/tools/go/packages"
	"golang.org/x/tools/go/ssa"
	"golang.org/x/tools/go/ssa/ssautil"
)

const (
	modPath      = "github.com/vedadiyan/genql"
	comparePath  = "github.com/vedadiyan/genql/compare"
	sanitizePath = "github.com/vedadiyan/genql/sanitizer"
	sqlparserPfx = "github.com/vedadiyan/sqlparser/v2"
)

// Program is the resolved form of /repo's current working tree.
type Program struct {
	Dir      string
	Fset     *token.FileSet
	Pkgs     []*packages.Package // module packages only
	All      map[string]*packages.Package
	Prog     *ssa.Program
	SSAPkgs  map[string]*ssa.Package
	ModFuncs []*ssa.Function // every function (incl. anonymous, generic instances) whose package is in the module
	cg       *callgraph.Graph
	allFuncs map[*ssa.Function]bool
}

func loadEnv(extra ...string) []string {
	env := []string{}
	for _, e := range os.Environ() {
		k := strings.SplitN(e, "=", 2)[0]
		switch k {
		case "GOFLAGS", "GOPROXY", "GOSUMDB", "GOTOOLCHAIN", "GOWORK", "GOARCH", "GOOS", "CGO_ENABLED":
			continue
		}
		env = append(env, e)
	}
	env = append(env, "GOFLAGS=-mod=readonly", "GOPROXY=off", "GOSUMDB=off", "GOTOOLCHAIN=local", "GOWORK=off")
	env = append(env, extra...)
	return env
}

// Load type-checks and builds SSA for the module in dir. Any load or type error is fatal
// (exit 2): a tree that does not compile has no verdict.
func Load(dir string, needSSA bool, extraEnv ...string) (*Program, error) {
	fset := token.NewFileSet()
	mode := packages.LoadAllSyntax
	cfg := &packages.Config{Mode: mode, Dir: dir, Fset: fset, Tests: false, Env: loadEnv(extraEnv...)}
	pkgs, err := packages.Load(cfg, "./...")
	if err != nil {
		return nil, fmt.Errorf("packages.Load: %w", err)
	}
	if len(pkgs) == 0 {
		return nil, fmt.Errorf("no packages loaded from %s", dir)
	}
	p := &Program{Dir: dir, Fset: fset, All: map[string]*packages.Package{}, SSAPkgs: map[string]*ssa.Package{}}
	var errs []string
	packages.Visit(pkgs, nil, func(pk *packages.Package) {
		p.All[pk.PkgPath] = pk
		if strings.HasPrefix(pk.PkgPath, modPath) {
			for _, e := range pk.Errors {
				errs = append(errs, e.Error())
			}
		}
	})
	if len(errs) > 0 {
		return nil, fmt.Errorf("type errors in module: %s", strings.Join(errs, "; "))
	}
	for _, pk := range pkgs {
		if strings.HasPrefix(pk.PkgPath, modPath) {
			p.Pkgs = append(p.Pkgs, pk)
		}
	}
	sort.Slice(p.Pkgs, func(i, j int) bool { return p.Pkgs[i].PkgPath < p.Pkgs[j].PkgPath })
	if p.All[modPath] == nil {
		return nil, fmt.Errorf("package %s not found under %s", modPath, dir)
	}
	if !needSSA {
		return p, nil
	}
	prog, spkgs := ssautil.AllPackages(pkgs, ssa.InstantiateGenerics)
	prog.Build()
	p.Prog = prog
	for i, sp := range spkgs {
		if sp != nil {
			p.SSAPkgs[pkgs[i].PkgPath] = sp
		}
	}
	// dependencies
	for _, sp := range prog.AllPackages() {
		if _, ok := p.SSAPkgs[sp.Pkg.Path()]; !ok {
			p.SSAPkgs[sp.Pkg.Path()] = sp
		}
	}
	p.allFuncs = ssautil.AllFunctions(prog)
	for f := range p.allFuncs {
		if p.InModule(f) {
			p.ModFuncs = append(p.ModFuncs, f)
		}
	}
	sort.Slice(p.ModFuncs, func(i, j int) bool {
		a, b := p.ModFuncs[i], p.ModFuncs[j]
		if a.String() != b.String() {
			return a.String() < b.String()
		}
		return a.Pos() < b.Pos()
	})
	curProgram = p
	roTableCache = map[*ssa.Global]*roTable{}
	p.resolveRenames()
	p.resolveFieldRenames()
	p.resolveGlobalRenames()
	return p, nil
}

// funcAlias: unexported functions the rule tables know under another name than they carry in the analysed tree.
// A rename of an unexported function changes nothing a caller can observe; the rules keep addressing the function by
// the name they were written against. Filled by resolveRenames, consulted by funcName / Func / Method.
var funcAlias = map[*ssa.Function]string{}
var aliasTarget = map[string]*ssa.Function{}

// sigKey: where a function lives and what it takes and returns (package, receiver type, signature).
func sigKey(f *ssa.Function) string {
	recv := ""
	if r := f.Signature.Recv(); r != nil {
		recv = r.Type().String()
	}
	tuple := func(t *types.Tuple) string {
		var parts []string
		for i := 0; i < t.Len(); i++ {
			parts = append(parts, t.At(i).Type().String())
		}
		return strings.Join(parts, ",")
	}
	variadic := ""
	if f.Signature.Variadic() {
		variadic = "..."
	}
	return funcPkgPath(f) + "|" + recv + "|(" + tuple(f.Signature.Params()) + variadic + ")(" + tuple(f.Signature.Results()) + ")" + fmt.Sprint(f.Signature.TypeParams().Len())
}

// globalAlias: package-level variables of the module the rules know under another name than the analysed tree uses.
var globalAlias = map[*ssa.Global]string{}

// resolveGlobalRenames: a known package-level variable (knownGlobals: "pkgpath.name" -> type) that is missing, and
// exactly one variable of that package the tables do not know with the same type.
func (p *Program) resolveGlobalRenames() {
	globalAlias = map[*ssa.Global]string{}
	for _, pk := range p.Pkgs {
		sp := p.SSAPkgs[pk.PkgPath]
		if sp == nil {
			continue
		}
		prefix := pk.PkgPath + "."
		present := map[string]*ssa.Global{}
		for name, m := range sp.Members {
			if g, ok := m.(*ssa.Global); ok {
				present[name] = g
			}
		}
		var missing []string
		for k := range knownGlobals {
			if strings.HasPrefix(k, prefix) && !strings.Contains(strings.TrimPrefix(k, prefix), "/") && present[strings.TrimPrefix(k, prefix)] == nil {
				missing = append(missing, k)
			}
		}
		sort.Strings(missing)
		used := map[*ssa.Global]bool{}
		for _, k := range missing {
			var cands []*ssa.Global
			for name, g := range present {
				if _, known := knownGlobals[prefix+name]; known || used[g] || strings.HasPrefix(name, "init$") {
					continue
				}
				if g.Type().String() == knownGlobals[k] {
					cands = append(cands, g)
				}
			}
			if len(cands) == 1 {
				globalAlias[cands[0]] = strings.TrimPrefix(k, prefix)
				used[cands[0]] = true
			}
		}
	}
}

// fieldAlias: unexported struct fields the rules know under another name than they carry in the analysed tree.
var fieldAlias = map[*types.Var]string{}

// resolveFieldRenames: for every field of a module struct the pinned tree has (knownFields: "Type.field" -> type) that
// the analysed tree lacks, the one field of that struct the rule tables do not know that has the same type takes its
// place. Several candidates, or none: no alias.
func (p *Program) resolveFieldRenames() {
	fieldAlias = map[*types.Var]string{}
	for _, pk := range p.Pkgs {
		scope := pk.Types.Scope()
		for _, tn := range scope.Names() {
			obj, ok := scope.Lookup(tn).(*types.TypeName)
			if !ok {
				continue
			}
			st, ok := obj.Type().Underlying().(*types.Struct)
			if !ok {
				continue
			}
			present := map[string]bool{}
			for i := 0; i < st.NumFields(); i++ {
				present[st.Field(i).Name()] = true
			}
			prefix := tn + "."
			var missing []string
			for k := range knownFields {
				if strings.HasPrefix(k, prefix) && !present[strings.TrimPrefix(k, prefix)] {
					missing = append(missing, k)
				}
			}
			sort.Strings(missing)
			used := map[*types.Var]bool{}
			for _, k := range missing {
				var cands []*types.Var
				for i := 0; i < st.NumFields(); i++ {
					f := st.Field(i)
					if _, known := knownFields[prefix+f.Name()]; known || used[f] {
						continue
					}
					if f.Type().String() == knownFields[k] {
						cands = append(cands, f)
					}
				}
				if len(cands) == 1 {
					fieldAlias[cands[0]] = strings.TrimPrefix(k, prefix)
					used[cands[0]] = true
				}
			}
		}
	}
}

// resolveRenames: for every unexported function of the pinned tree (knownSigs) that the analysed tree no longer has
// under that name, the one top-level function the rule tables do not know that lives in the same package, has the same
// receiver and the same signature takes its place. Several candidates, or none: no alias (the anchor is reported lost).
func (p *Program) resolveRenames() {
	funcAlias = map[*ssa.Function]string{}
	aliasTarget = map[string]*ssa.Function{}
	present := map[string]bool{}
	var unknown []*ssa.Function
	for _, f := range p.ModFuncs {
		if f.Parent() != nil || f.Origin() != nil || f.Synthetic != "" {
			continue
		}
		k := funcNameRaw(f)
		present[k] = true
		if !knownFuncs[k] {
			unknown = append(unknown, f)
		}
	}
	var names []string
	for name := range knownSigs {
		names = append(names, name)
	}
	sort.Strings(names)
	used := map[*ssa.Function]bool{}
	for _, name := range names {
		if present[name] {
			continue
		}
		var cands []*ssa.Function
		for _, f := range unknown {
			if !used[f] && sigKey(f) == knownSigs[name] {
				cands = append(cands, f)
			}
		}
		if len(cands) == 1 {
			funcAlias[cands[0]] = name
			aliasTarget[name] = cands[0]
			used[cands[0]] = true
		}
	}
}

// InModule reports whether the function's code belongs to one of the module packages
// (generic instances and closures are attributed to their origin).
func (p *Program) InModule(f *ssa.Function) bool {
	pk := funcPkgPath(f)
	return pk == modPath || strings.HasPrefix(pk, modPath+"/")
}

func funcPkgPath(f *ssa.Function) string {
	for f != nil {
		if f.Pkg != nil {
			return f.Pkg.Pkg.Path()
		}
		if o := f.Origin(); o != nil && o != f {
			f = o
			continue
		}
		if f.Parent() != nil {
			f = f.Parent()
			continue
		}
		if obj := f.Object(); obj != nil && obj.Pkg() != nil {
			return obj.Pkg().Path()
		}
		break
	}
	return ""
}

// CallGraph returns the VTA call graph (built lazily).
func (p *Program) CallGraph() *callgraph.Graph {
	if p.cg == nil {
		p.cg = vta.CallGraph(p.allFuncs, cha.CallGraph(p.Prog))
	}
	return p.cg
}

// Callees resolves a call instruction to its possible callees: static callee when there is
// one, otherwise the VTA edges.
func (p *Program) Callees(site ssa.CallInstruction) []*ssa.Function {
	if f := site.Common().StaticCallee(); f != nil {
		return []*ssa.Function{f}
	}
	cg := p.CallGraph()
	n := cg.Nodes[site.Parent()]
	if n == nil {
		return nil
	}
	var out []*ssa.Function
	seen := map[*ssa.Function]bool{}
	for _, e := range n.Out {
		if e.Site == site && !seen[e.Callee.Func] {
			seen[e.Callee.Func] = true
			out = append(out, e.Callee.Func)
		}
	}
	sort.Slice(out, func(i, j int) bool { return out[i].String() < out[j].String() })
	return out
}

func (p *Program) Pos(pos token.Pos) string {
	if !pos.IsValid() {
		return "-"
	}
	pp := p.Fset.Position(pos)
	fn := pp.Filename
	if strings.HasPrefix(fn, p.Dir+"/") {
		fn = fn[len(p.Dir)+1:]
	}
	return fmt.Sprintf("%s:%d", fn, pp.Line)
}

// Func returns the package-level function or method "pkgpath.Name" / "pkgpath.(*T).Name".
func (p *Program) Func(pkg, name string) *ssa.Function {
	sp := p.SSAPkgs[pkg]
	if sp == nil {
		return nil
	}
	if f := sp.Func(name); f != nil {
		return f
	}
	// renamed in the analysed tree (resolveRenames)
	for _, key := range []string{name, sp.Pkg.Name() + "." + name, pkg[strings.LastIndex(pkg, "/")+1:] + "." + name} {
		if f := aliasTarget[key]; f != nil && funcPkgPath(f) == pkg {
			return f
		}
	}
	return nil
}

func (p *Program) Method(pkg, typ, name string) *ssa.Function {
	sp := p.SSAPkgs[pkg]
	if sp == nil {
		return nil
	}
	t := sp.Type(typ)
	if t == nil {
		return nil
	}
	for _, T := range []types.Type{t.Type(), types.NewPointer(t.Type())} {
		ms := p.Prog.MethodSets.MethodSet(T)
		for i := 0; i < ms.Len(); i++ {
			if ms.At(i).Obj().Name() == name {
				return p.Prog.MethodValue(ms.At(i))
			}
		}
	}
	for key, f := range aliasTarget {
		if strings.HasSuffix(key, typ+")."+name) && funcPkgPath(f) == pkg {
			return f
		}
	}
	return nil
}

// funcKey is the line-independent construct key of a function: pkg-relative name; anonymous
// functions are "Parent$n" as numbered by go/ssa (stable under edits elsewhere in the file).
func (p *Program) funcKey(f *ssa.Function) string {
	if len(funcAlias) > 0 {
		if n := funcName(f); n != funcNameRaw(f) {
			return n // renamed in the analysed tree: keyed by the name the rules (and the findings file) know
		}
	}
	s := f.String()
	s = strings.ReplaceAll(s, modPath+"/", "")
	s = strings.ReplaceAll(s, modPath+".", "")
	s = strings.ReplaceAll(s, modPath, "genql")
	return s
}
