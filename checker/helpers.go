package main

import (
	"fmt"
	"go/ast"
	"go/constant"
	"go/token"
	"go/types"
	"regexp/syntax"
	"sort"
	"strings"

	"golang.org/x/tools/go/ssa"
)

func thoroughExtras(c *Ctx, extra map[string]interface{}) {
	extra["thorough"] = "thorough tier = quick rules + rule self-validation on scratch-copy variants (see /verif/selftest.sh, run by thorough_cmd)"
}

// genqlFuncs returns the source-level (non-synthetic) functions of the root package,
// including methods and anonymous functions.
func (p *Program) genqlFuncs() []*ssa.Function {
	var out []*ssa.Function
	for _, f := range p.ModFuncs {
		if funcPkgPath(f) == modPath && f.Synthetic == "" || (funcPkgPath(f) == modPath && strings.Contains(f.Synthetic, "instance")) {
			out = append(out, f)
		}
	}
	return out
}

func (p *Program) pkgFuncs(pkg string) []*ssa.Function {
	var out []*ssa.Function
	for _, f := range p.ModFuncs {
		if funcPkgPath(f) == pkg && len(f.Blocks) > 0 {
			out = append(out, f)
		}
	}
	return out
}

// funcsWithParam: functions of the root package having a parameter whose short type string is typ.
func (p *Program) funcsWithParam(typ string) []*ssa.Function {
	var out []*ssa.Function
	for _, f := range p.pkgFuncs(modPath) {
		if f.Parent() != nil {
			continue
		}
		for _, pa := range f.Params {
			if shortType(pa.Type()) == typ {
				out = append(out, f)
				break
			}
		}
	}
	return out
}

// theFunc resolves a role to exactly one function: first by parameter type, then by name.
func (c *Ctx) theFunc(role, paramType, name string) *ssa.Function {
	var cands []*ssa.Function
	if paramType != "" {
		cands = c.P.funcsWithParam(paramType)
	}
	var pick *ssa.Function
	if len(cands) == 1 {
		pick = cands[0]
	} else {
		for _, f := range cands {
			if f.Name() == name {
				pick = f
			}
		}
		if pick == nil && name != "" {
			pick = c.P.Func(modPath, name)
		}
	}
	if pick != nil {
		c.Anchor(role, c.P.funcKey(pick)+" "+c.P.Pos(pick.Pos()))
		c.Fn(c.P.funcKey(pick))
	}
	return pick
}

func paramOfType(f *ssa.Function, typ string) *ssa.Parameter {
	for _, pa := range f.Params {
		if shortType(pa.Type()) == typ {
			return pa
		}
	}
	return nil
}

// enumConsts lists the constants of a named type declared in its package, by value.
func (p *Program) enumConsts(pkgPath, typeName string) map[int64]string {
	out := map[int64]string{}
	pk := p.All[pkgPath]
	if pk == nil {
		return out
	}
	sc := pk.Types.Scope()
	for _, n := range sc.Names() {
		if k, ok := sc.Lookup(n).(*types.Const); ok {
			if nt, ok := k.Type().(*types.Named); ok && nt.Obj().Name() == typeName {
				if v, ok := constant.Int64Val(k.Val()); ok {
					if old, dup := out[v]; !dup || n < old {
						out[v] = n
					}
				}
			}
		}
	}
	return out
}

func sortedKeys(m map[int64]string) []int64 {
	ks := make([]int64, 0, len(m))
	for k := range m {
		ks = append(ks, k)
	}
	sort.Slice(ks, func(i, j int) bool { return ks[i] < ks[j] })
	return ks
}

func allInstrs(f *ssa.Function, visit func(b *ssa.BasicBlock, in ssa.Instruction)) {
	for _, b := range f.Blocks {
		for _, in := range b.Instrs {
			visit(b, in)
		}
	}
}

// withClosures returns f and all anonymous functions nested in it.
func withClosures(f *ssa.Function) []*ssa.Function {
	out := []*ssa.Function{f}
	for _, a := range f.AnonFuncs {
		out = append(out, withClosures(a)...)
	}
	return out
}

// isNamedType reports whether t (after pointer deref) is the named type pkg.name.
func isNamedType(t types.Type, pkgPath, name string) bool {
	if p, ok := t.(*types.Pointer); ok {
		t = p.Elem()
	}
	// aliases are transparent
	t = types.Unalias(t)
	n, ok := t.(*types.Named)
	if !ok {
		return false
	}
	return n.Obj().Name() == name && n.Obj().Pkg() != nil && n.Obj().Pkg().Path() == pkgPath
}

// fileOf finds the syntax of a function declaration by object.
func (p *Program) funcDecl(pkgPath, name string) (*ast.FuncDecl, *types.Info) {
	pk := p.All[pkgPath]
	if pk == nil {
		return nil, nil
	}
	for _, f := range pk.Syntax {
		for _, d := range f.Decls {
			if fd, ok := d.(*ast.FuncDecl); ok && fd.Name.Name == name && fd.Recv == nil {
				return fd, pk.TypesInfo
			}
		}
	}
	return nil, nil
}

func tokPos(p *Program, pos token.Pos) string { return p.Pos(pos) }

// deferredRecover reports whether fn defers (directly) a closure that calls recover().
func deferredRecover(fn *ssa.Function) (*ssa.Function, bool) {
	for _, b := range fn.Blocks {
		for _, in := range b.Instrs {
			d, ok := in.(*ssa.Defer)
			if !ok {
				continue
			}
			var target *ssa.Function
			switch v := d.Call.Value.(type) {
			case *ssa.MakeClosure:
				target = v.Fn.(*ssa.Function)
			case *ssa.Function:
				target = v
			}
			if target != nil && callsRecover(target) {
				return target, true
			}
		}
	}
	return nil, false
}

func callsRecover(fn *ssa.Function) bool {
	found := false
	allInstrs(fn, func(_ *ssa.BasicBlock, in ssa.Instruction) {
		if c, ok := in.(*ssa.Call); ok {
			if b, ok := c.Call.Value.(*ssa.Builtin); ok && b.Name() == "recover" {
				found = true
			}
		}
	})
	return found
}

func constInt(v ssa.Value) (int64, bool) {
	c, ok := v.(*ssa.Const)
	if !ok || c.Value == nil {
		return 0, false
	}
	return constant.Int64Val(constant.ToInt(c.Value))
}

func constString(v ssa.Value) (string, bool) {
	c, ok := v.(*ssa.Const)
	if !ok || c.Value == nil || c.Value.Kind() != constant.String {
		return "", false
	}
	return constant.StringVal(c.Value), true
}

func constantInt(i int64) constant.Value { return constant.MakeInt64(i) }

// checkPatternsNonNullable: the package-level regexp patterns of the selector language cannot
// match the empty string (the code indexes match[0]); the pattern is analysed as data with
// regexp/syntax, nothing is matched.
func (c *Ctx) checkPatternsNonNullable() {
	pk := c.P.All[modPath]
	if pk == nil {
		return
	}
	n := 0
	sc := pk.Types.Scope()
	for _, name := range sc.Names() {
		k, ok := sc.Lookup(name).(*types.Const)
		if !ok || !strings.HasSuffix(name, "PATTERN") || k.Val().Kind() != constant.String {
			continue
		}
		n++
		pat := constant.StringVal(k.Val())
		re, err := syntax.Parse(pat, syntax.Perl)
		if err != nil {
			c.Fail("c09.total", "pattern/"+name, "-", "the selector pattern does not parse: "+err.Error())
			continue
		}
		c.Check(!nullable(re), "c09.total", "pattern/"+name, "-", "every match of the pattern is non-empty (match[0] is safe)", "the pattern "+name+" can match the empty string: match[0] on such a match panics")
	}
	if n < 3 {
		c.Unknown("c09.total", "patterns", "-", fmt.Sprintf("only %d selector patterns found", n))
	}
}

func nullable(re *syntax.Regexp) bool {
	switch re.Op {
	case syntax.OpEmptyMatch, syntax.OpStar, syntax.OpQuest, syntax.OpBeginLine, syntax.OpEndLine, syntax.OpBeginText, syntax.OpEndText, syntax.OpWordBoundary, syntax.OpNoWordBoundary:
		return true
	case syntax.OpLiteral:
		return len(re.Rune) == 0
	case syntax.OpCharClass, syntax.OpAnyChar, syntax.OpAnyCharNotNL:
		return false
	case syntax.OpPlus, syntax.OpCapture:
		return nullable(re.Sub[0])
	case syntax.OpRepeat:
		return re.Min == 0 || nullable(re.Sub[0])
	case syntax.OpConcat:
		for _, s := range re.Sub {
			if !nullable(s) {
				return false
			}
		}
		return true
	case syntax.OpAlternate:
		for _, s := range re.Sub {
			if nullable(s) {
				return true
			}
		}
		return false
	}
	return true
}

// namedStruct returns the struct type of a named type of the package.
func (p *Program) namedStruct(pkg, name string) *types.Struct {
	sp := p.SSAPkgs[pkg]
	if sp == nil {
		return nil
	}
	obj := sp.Pkg.Scope().Lookup(name)
	if obj == nil {
		return nil
	}
	st, _ := obj.Type().Underlying().(*types.Struct)
	return st
}

// isUnknownHelper: a module function the rule tables do not know (see known_funcs.go): rules look through it.
func isUnknownHelper(f *ssa.Function) bool {
	return f != nil && len(f.Blocks) > 0 && f.Parent() == nil && strings.HasPrefix(funcPkgPath(f), modPath) && !knownFuncs[knownKey(f)]
}

// deepInstrs visits the instructions of f and, transitively (depth 3), of the unknown helpers it calls statically.
// The term builder handed to the visitor resolves a helper's parameters to the caller's argument terms, so that
// a pattern written against f's own values still matches after part of f was extracted into a helper.
func deepInstrs(f *ssa.Function, visit func(g *ssa.Function, tb *TB, b *ssa.BasicBlock, in ssa.Instruction)) {
	deepInstrsTB(f, NewTB(), visit)
}

// closureTB: a term builder for the body of the function literal (or bound method value) created at mc, with the
// captured variables resolved to the creating function's terms (built by ctb).
func closureTB(mc *ssa.MakeClosure, ctb *TB) *TB {
	fn := mc.Fn.(*ssa.Function)
	tb := NewTB()
	tb.fvbind = map[*ssa.FreeVar]*Term{}
	for i, fv := range fn.FreeVars {
		if i < len(mc.Bindings) {
			tb.fvbind[fv] = ctb.Of(mc.Bindings[i])
		}
	}
	return tb
}

// deepInstrsTB is deepInstrs with the term builder for f's own values supplied by the caller.
func deepInstrsTB(f *ssa.Function, root *TB, visit func(g *ssa.Function, tb *TB, b *ssa.BasicBlock, in ssa.Instruction)) {
	var walk func(g *ssa.Function, tb *TB, depth int, stack []*ssa.Function)
	walk = func(g *ssa.Function, tb *TB, depth int, stack []*ssa.Function) {
		allInstrs(g, func(b *ssa.BasicBlock, in ssa.Instruction) {
			visit(g, tb, b, in)
			ci, ok := in.(ssa.CallInstruction)
			if !ok || depth >= 3 {
				return
			}
			h := ci.Common().StaticCallee()
			if !isUnknownHelper(h) {
				return
			}
			for _, s := range stack {
				if s == h {
					return
				}
			}
			htb := NewTB()
			htb.bind = map[*ssa.Parameter]*Term{}
			for i, p := range h.Params {
				if i < len(ci.Common().Args) {
					htb.bind[p] = tb.Of(ci.Common().Args[i])
				}
			}
			walk(h, htb, depth+1, append(stack, g))
		})
	}
	walk(f, root, 0, nil)
}

// mapCopy is one key-by-key copy of a map into another: a range loop whose body stores the entry's own value under
// the entry's own key, or a call of the standard library's maps.Copy.
type mapCopy struct {
	Dst, Src ssa.Value
	Block    *ssa.BasicBlock // the loop's header block (the block of the call for maps.Copy)
	Idx      int             // position of the call inside its block (maps.Copy)
	Cond     bool            // the store is guarded by a condition tested inside the loop: not every entry is copied
	Pos      token.Pos
}

func mapCopies(f *ssa.Function) []mapCopy {
	var out []mapCopy
	for _, b := range f.Blocks {
		for i, in := range b.Instrs {
			switch x := in.(type) {
			case *ssa.MapUpdate:
				kx, isK := x.Key.(*ssa.Extract)
				vx, isV := x.Value.(*ssa.Extract)
				if !isK || !isV || kx.Tuple != vx.Tuple || kx.Index != 1 || vx.Index != 2 {
					continue
				}
				nx, ok := kx.Tuple.(*ssa.Next)
				if !ok {
					continue
				}
				rg, ok := nx.Iter.(*ssa.Range)
				if !ok {
					continue
				}
				mc := mapCopy{Dst: x.Map, Src: rg.X, Block: nx.Block(), Pos: x.Pos()}
				for _, fc := range factsAt(b) {
					if ex, isEx := fc.cond.(*ssa.Extract); isEx && ex.Tuple == ssa.Value(nx) && ex.Index == 0 {
						continue
					}
					if ci, isI := fc.cond.(ssa.Instruction); isI && ci.Block() != nil && nx.Block().Dominates(ci.Block()) {
						mc.Cond = true
					}
				}
				out = append(out, mc)
			case *ssa.Call:
				cal := x.Common().StaticCallee()
				if cal == nil || len(x.Common().Args) != 2 {
					continue
				}
				if o := cal.Origin(); o != nil {
					cal = o
				}
				if cal.Pkg != nil && cal.Pkg.Pkg.Path() == "maps" && cal.Name() == "Copy" {
					out = append(out, mapCopy{Dst: x.Common().Args[0], Src: x.Common().Args[1], Block: b, Idx: i, Pos: x.Pos()})
				}
			}
		}
	}
	return out
}

// before: copy a is completed before copy b starts, on every path that runs both.
func (a mapCopy) before(b mapCopy) bool {
	if a.Block == b.Block {
		return a.Idx < b.Idx
	}
	return a.Block.Dominates(b.Block) && !b.Block.Dominates(a.Block)
}

// deepRangeLoops: the slice range loops of f and of the helpers the rule tables do not know that f calls (depth 3),
// each with the term of the ranged collection as seen from f (helper parameters resolved to f's argument terms).
type deepLoop struct {
	fn   *ssa.Function
	lp   *loopInfo
	over *Term
}

func deepRangeLoops(f *ssa.Function) []deepLoop {
	var out []deepLoop
	seen := map[*ssa.Function]bool{}
	deepInstrs(f, func(g *ssa.Function, tb *TB, _ *ssa.BasicBlock, _ ssa.Instruction) {
		if seen[g] {
			return
		}
		seen[g] = true
		for _, l := range rangeLoops(g) {
			out = append(out, deepLoop{fn: g, lp: l, over: tb.Of(l.over)})
		}
	})
	return out
}

// coversWord: the character class contains every word character [0-9A-Za-z_].
func coversWord(re *syntax.Regexp) bool {
	if re.Op != syntax.OpCharClass {
		return false
	}
	has := func(r rune) bool {
		for i := 0; i+1 < len(re.Rune); i += 2 {
			if re.Rune[i] <= r && r <= re.Rune[i+1] {
				return true
			}
		}
		return false
	}
	for _, r := range []rune{'0', '5', '9', 'A', 'M', 'Z', '_', 'a', 'm', 'z'} {
		if !has(r) {
			return false
		}
	}
	// the sample above is exact for classes made of whole ranges; confirm the three ranges fully
	for r := '0'; r <= 'z'; r++ {
		isW := r >= '0' && r <= '9' || r >= 'A' && r <= 'Z' || r == '_' || r >= 'a' && r <= 'z'
		if isW && !has(r) {
			return false
		}
	}
	return true
}

// acceptsAllWords: some alternative of the pattern matches every non-empty string of word characters as a whole
// (one or more characters of a class that contains all of [0-9A-Za-z_]). Decided on the parsed pattern; nothing is matched.
func acceptsAllWords(re *syntax.Regexp) bool {
	switch re.Op {
	case syntax.OpCapture:
		return acceptsAllWords(re.Sub[0])
	case syntax.OpAlternate:
		for _, s := range re.Sub {
			if acceptsAllWords(s) {
				return true
			}
		}
		return false
	case syntax.OpPlus:
		return coversWord(re.Sub[0])
	case syntax.OpRepeat:
		return re.Min <= 1 && re.Max == -1 && coversWord(re.Sub[0])
	case syntax.OpConcat:
		// w w*  (and w w* w* ...)
		if len(re.Sub) >= 2 && coversWord(re.Sub[0]) {
			for _, s := range re.Sub[1:] {
				if !(s.Op == syntax.OpStar && coversWord(s.Sub[0])) {
					return false
				}
			}
			return true
		}
	}
	return false
}

func init() {
	register("C09", ruleC09WordToken)
	register("C02", ruleC09WordToken)
	register("C01", ruleC09WordToken)
}

// ruleC09WordToken: a key is a token whatever its first character.
func ruleC09WordToken(c *Ctx) {
	c.Doc("c09.word-token", "the selector patterns (_FULLPATTERN, _ARRAYPATTERN, _PIPEPATTERN; analysed as data with regexp/syntax) each have an alternative that takes ANY non-empty run of word characters [0-9A-Za-z_] as one token: FindAllString silently skips what no alternative matches, so a key alternative narrowed to identifiers makes `1st` read the key `st` and `2024` read the whole row")
	pk := c.P.All[modPath]
	if pk == nil {
		return
	}
	n := 0
	sc := pk.Types.Scope()
	for _, name := range sc.Names() {
		k, ok := sc.Lookup(name).(*types.Const)
		if !ok || !strings.HasSuffix(name, "PATTERN") || k.Val().Kind() != constant.String {
			continue
		}
		n++
		re, err := syntax.Parse(constant.StringVal(k.Val()), syntax.Perl)
		if err != nil {
			c.Fail("c09.word-token", "pattern/"+name, "-", "the selector pattern does not parse: "+err.Error())
			continue
		}
		if !mentionsLetters(re) {
			continue // a pattern that has nothing to do with keys (digits, punctuation only)
		}
		c.Check(acceptsAllWords(re), "c09.word-token", "pattern/"+name, c.P.Pos(sc.Lookup(name).Pos()), "an alternative matches every run of word characters", "no alternative of "+name+" matches every run of word characters: a key such as `2024` or `1st` is skipped or cut by the tokenizer and the column reads another key (or the whole row)")
	}
	if n < 3 {
		c.Unknown("c09.word-token", "patterns", "-", fmt.Sprintf("only %d selector patterns found", n))
	}
}

// isFreshSliceTerm: the term is a slice made on the spot (make([]T, n) with a variable or a constant size, or a literal).
func isFreshSliceTerm(t *Term) bool {
	if t == nil {
		return false
	}
	if t.Op == "make" && strings.HasPrefix(t.Name, "slice") {
		return true
	}
	return t.Op == "slice" && len(t.Args) > 0 && t.Args[0].Op == "alloc" && (strings.HasPrefix(t.Args[0].Name, "makeslice") || strings.HasPrefix(t.Args[0].Name, "slicelit"))
}

// mentionsLetters: some character class of the pattern contains the lower-case letters (the pattern tokenises names).
func mentionsLetters(re *syntax.Regexp) bool {
	if re.Op == syntax.OpCharClass {
		for i := 0; i+1 < len(re.Rune); i += 2 {
			if re.Rune[i] <= 'a' && 'z' <= re.Rune[i+1] {
				return true
			}
		}
		return false
	}
	for _, s := range re.Sub {
		if mentionsLetters(s) {
			return true
		}
	}
	return false
}

// funcValuesCreatedIn: the functions whose values f creates: its function literals (transitively) and, for a method
// value `x.m`, the method m itself (go/ssa wraps it in a synthetic bound-method closure).
func funcValuesCreatedIn(f *ssa.Function) []*ssa.Function {
	seen := map[*ssa.Function]bool{}
	var out []*ssa.Function
	for _, g := range withClosures(f) {
		if g != f && !seen[g] {
			seen[g] = true
			out = append(out, g)
		}
	}
	for _, g := range withClosures(f) {
		allInstrs(g, func(_ *ssa.BasicBlock, in ssa.Instruction) {
			mc, ok := in.(*ssa.MakeClosure)
			if !ok {
				return
			}
			w, ok := mc.Fn.(*ssa.Function)
			if !ok || w.Synthetic == "" || len(w.Blocks) == 0 {
				return
			}
			allInstrs(w, func(_ *ssa.BasicBlock, win ssa.Instruction) {
				if call, isCall := win.(ssa.CallInstruction); isCall {
					if m := call.Common().StaticCallee(); m != nil && len(m.Blocks) > 0 && !seen[m] {
						seen[m] = true
						out = append(out, m)
					}
				}
			})
		})
	}
	return out
}
