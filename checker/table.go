package main

import (
	"fmt"
	"go/constant"
	"sort"
	"strings"

	"golang.org/x/tools/go/ssa"
)

// Engine E-table: decision tables over finite abstract domains.
//
// A rule declares a set of atoms (sub-terms of branch conditions / return values, recognised
// structurally) each with a finite domain. The walker forks on every atom it meets, so every
// path carries an assignment of the atoms it depends on. The table check then enumerates the
// full product of the domains and requires that on EVERY success path consistent with a total
// assignment the returned value equals the rule's reference value. No concrete genql value is
// ever computed: atoms stand for whole classes of inputs (the sign of a comparison, the
// truth of an operand, the operator constant).

type Atom struct {
	Name  string
	Match func(t *Term) bool
	Dom   []constant.Value
}

var (
	cTrue    = constant.MakeBool(true)
	cFalse   = constant.MakeBool(false)
	boolDom  = []constant.Value{cTrue, cFalse}
	signDom  = []constant.Value{constant.MakeInt64(-1), constant.MakeInt64(0), constant.MakeInt64(1)}
	cInt     = func(i int64) constant.Value { return constant.MakeInt64(i) }
	boolOf   = func(b bool) constant.Value { return constant.MakeBool(b) }
	isTrueC  = func(v constant.Value) bool { return v != nil && v.Kind() == constant.Bool && constant.BoolVal(v) }
	signOf   = func(v constant.Value) int { i, _ := constant.Int64Val(v); return int(i) }
	int64Dom = func(xs ...int64) []constant.Value {
		out := make([]constant.Value, len(xs))
		for i, x := range xs {
			out[i] = constant.MakeInt64(x)
		}
		return out
	}
)

// Table is the result of walking a function with atoms.
type Table struct {
	Fn    *ssa.Function
	Paths []*Path
	Atoms []Atom
	// names of atom for a term string, as seen while walking
	Seen map[string]string
	Err  error
}

// isErrNonNilKey: key of the form (X#k == nil) where X is a call — used to recognise error tests.
func isNilTest(t *Term) (*Term, bool) {
	if t.Op == "bin" && t.Name == "==" && len(t.Args) == 2 {
		if t.Args[1].Op == "const" && t.Args[1].Name == "nil" {
			return t.Args[0], true
		}
		if t.Args[0].Op == "const" && t.Args[0].Name == "nil" {
			return t.Args[1], true
		}
	}
	return nil, false
}

func isErrorType(t *Term) bool {
	return t != nil && t.Typ != nil && t.Typ.String() == "error"
}

// BuildTable walks fn with the given atoms. If successOnly is set, branches that assume a
// call's error result to be non-nil are pruned (their handling is engine E-err's business).
func BuildTable(fn *ssa.Function, atoms []Atom, successOnly bool, extra ...func(*WalkCfg)) *Table {
	tb := &Table{Fn: fn, Atoms: atoms, Seen: map[string]string{}}
	cfg := WalkCfg{
		Domain: func(t *Term) []constant.Value {
			for _, a := range atoms {
				if a.Match(t) {
					tb.Seen[t.String()] = a.Name
					return a.Dom
				}
			}
			return nil
		},
		MaxVisits: 2,
		MaxPaths:  20000,
	}
	if successOnly {
		cfg.Prune = func(key string, t *Term, val constant.Value) bool {
			if x, ok := isNilTest(t); ok && isErrorType(x) && val.Kind() == constant.Bool && !constant.BoolVal(val) {
				return true
			}
			return false
		}
	}
	for _, e := range extra {
		e(&cfg)
	}
	tb.Paths, tb.Err = WalkFunc(fn, cfg)
	return tb
}

// errIdx returns the index of the error result of fn, or -1.
func errIdx(fn *ssa.Function) int {
	res := fn.Signature.Results()
	for i := res.Len() - 1; i >= 0; i-- {
		if res.At(i).Type().String() == "error" {
			return i
		}
	}
	return -1
}

// SuccessPaths: paths that return with a nil error result (or any return when fn has none).
func (tb *Table) SuccessPaths() []*Path {
	ei := errIdx(tb.Fn)
	var out []*Path
	for _, p := range tb.Paths {
		if p.Exit != "return" {
			continue
		}
		if ei >= 0 && ei < len(p.Ret) && !p.Ret[ei].Nil {
			// error operand is not the nil constant: an error return, or `return f()` forwarding
			if p.Ret[ei].T != nil && p.Ret[ei].T.Op == "ext" {
				out = append(out, p) // forwarding return: treat as success-shaped, value symbolic
			}
			continue
		}
		out = append(out, p)
	}
	return out
}

// namesOnPath maps atom name -> assigned value for one path (via the Seen table).
func (tb *Table) namesOnPath(p *Path) map[string]constant.Value {
	out := map[string]constant.Value{}
	for k, v := range p.Asg {
		if n, ok := tb.Seen[k]; ok {
			out[n] = v
		}
	}
	return out
}

// product enumerates total assignments over the atoms.
func product(atoms []Atom, f func(map[string]constant.Value)) {
	cur := map[string]constant.Value{}
	var rec func(i int)
	rec = func(i int) {
		if i == len(atoms) {
			cp := make(map[string]constant.Value, len(cur))
			for k, v := range cur {
				cp[k] = v
			}
			f(cp)
			return
		}
		for _, d := range atoms[i].Dom {
			cur[atoms[i].Name] = d
			rec(i + 1)
		}
	}
	rec(0)
}

type TableResult struct {
	Rows       int
	Checked    int
	Mismatches []string
	Missing    []string
	Symbolic   []string
	Used       map[string]bool // atoms the selected paths' conditions or results depend on
}

func (r *TableResult) OK() bool {
	return len(r.Mismatches) == 0 && len(r.Missing) == 0 && len(r.Symbolic) == 0 && r.Checked > 0
}
func (r *TableResult) Why() string {
	var parts []string
	if len(r.Mismatches) > 0 {
		parts = append(parts, "wrong result: "+strings.Join(firstN(r.Mismatches, 4), "; "))
	}
	if len(r.Missing) > 0 {
		parts = append(parts, "no success path for: "+strings.Join(firstN(r.Missing, 4), "; "))
	}
	if len(r.Symbolic) > 0 {
		parts = append(parts, "result not decided by the atoms: "+strings.Join(firstN(r.Symbolic, 3), "; "))
	}
	if r.Checked == 0 {
		parts = append(parts, "no table row could be checked")
	}
	return strings.Join(parts, " | ")
}

func firstN(xs []string, n int) []string {
	if len(xs) > n {
		return append(append([]string{}, xs[:n]...), fmt.Sprintf("… (%d more)", len(xs)-n))
	}
	return xs
}

func asgString(m map[string]constant.Value) string {
	ks := make([]string, 0, len(m))
	for k := range m {
		ks = append(ks, k)
	}
	sort.Strings(ks)
	var sb strings.Builder
	for i, k := range ks {
		if i > 0 {
			sb.WriteString(",")
		}
		sb.WriteString(k + "=" + m[k].ExactString())
	}
	return sb.String()
}

// CheckTable compares, for every total assignment for which ref is defined, the value returned
// at result index ri on every consistent success path with ref's value.
//   - sel restricts the paths considered (nil = all success paths)
//   - a path is consistent with an assignment when every atom it assumed has the same value
//   - the returned AV is evaluated under the total assignment (constants fold; a symbolic
//     remainder that is itself an atom is substituted)
func (tb *Table) CheckTable(ri int, sel func(*Path) bool, ref func(map[string]constant.Value) (constant.Value, bool)) *TableResult {
	res := &TableResult{Used: map[string]bool{}}
	paths := tb.SuccessPaths()
	product(tb.Atoms, func(total map[string]constant.Value) {
		want, defined := ref(total)
		if !defined {
			return
		}
		res.Rows++
		// the assignment over term strings
		asg := Asg{}
		for s, n := range tb.Seen {
			asg[s] = total[n]
		}
		n := 0
		for _, p := range paths {
			if sel != nil && !sel(p) {
				continue
			}
			ok := true
			for k, v := range p.Asg {
				if name, isAtom := tb.Seen[k]; isAtom {
					if !constant.Compare(total[name], tokOf("=="), v) {
						ok = false
						break
					}
				}
			}
			if !ok || ri >= len(p.Ret) {
				continue
			}
			for k := range p.Asg {
				if name, isAtom := tb.Seen[k]; isAtom {
					res.Used[name] = true
				}
			}
			n++
			got := p.Ret[ri]
			var gv constant.Value
			if got.C != nil {
				gv = got.C
			} else if got.T != nil {
				full := Asg{}
				for k, v := range p.Asg {
					full[k] = v
				}
				for k, v := range asg {
					full[k] = v
				}
				// atoms that occur in the returned term without having been branched on
				got.T.Walk(func(x *Term) bool {
					if _, done := full[x.String()]; done {
						if n, ok := tb.Seen[x.String()]; ok {
							res.Used[n] = true
						}
						return false
					}
					for _, a := range tb.Atoms {
						if a.Match(x) {
							tb.Seen[x.String()] = a.Name
							full[x.String()] = total[a.Name]
							res.Used[a.Name] = true
							return false
						}
					}
					nk, _ := normCond(x)
					if nk != x {
						for _, a := range tb.Atoms {
							if a.Match(nk) {
								tb.Seen[nk.String()] = a.Name
								full[nk.String()] = total[a.Name]
								res.Used[a.Name] = true
							}
						}
					}
					return true
				})
				if v, ok := EvalTermN(got.T, full); ok {
					gv = v
				}
			}
			if gv == nil {
				res.Symbolic = append(res.Symbolic, asgString(total)+" -> "+avString(got))
				continue
			}
			res.Checked++
			if gv.Kind() != want.Kind() || !constant.Compare(gv, tokOf("=="), want) {
				res.Mismatches = append(res.Mismatches, fmt.Sprintf("[%s] returns %s, reference %s", asgString(total), gv.ExactString(), want.ExactString()))
			}
		}
		if n == 0 {
			res.Missing = append(res.Missing, asgString(total))
		}
	})
	return res
}

// ---- term matchers -----------------------------------------------------------------------

// callArgs returns the argument terms if t is a call whose callee name equals or ends with name.
func callArgs(t *Term, name string) ([]*Term, bool) {
	if t == nil || t.Op != "call" {
		return nil, false
	}
	if t.Name == name || strings.HasSuffix(t.Name, "."+name) || strings.HasSuffix(t.Name, "/"+name) {
		return t.Args, true
	}
	// generic instances: Name[...]
	if i := strings.Index(t.Name, "["); i > 0 {
		base := t.Name[:i]
		if base == name || strings.HasSuffix(base, "."+name) {
			return t.Args, true
		}
	}
	return nil, false
}

// fieldsRead: the set of field names read from the parameter named param (any depth).
func fieldsRead(t *Term, param string) map[string]bool {
	out := map[string]bool{}
	t.Walk(func(x *Term) bool {
		if x.Op == "field" && len(x.Args) == 1 && x.Args[0].Op == "param" && x.Args[0].Name == param {
			out[x.Name] = true
		}
		return true
	})
	return out
}

// readsOnlyField: t depends on param.field and on no other field of param.
func readsOnlyField(t *Term, param, field string) bool {
	fr := fieldsRead(t, param)
	return len(fr) == 1 && fr[field]
}

func stripExt(t *Term) *Term {
	for t != nil && t.Op == "ext" {
		t = t.Args[0]
	}
	return t
}

// throughCalls: peels ext/call layers named in names (outermost first is not required) and
// reports whether every name occurs on the spine of first-or-designated arguments.
func hasCallOnSpine(t *Term, name string) bool {
	return t.Contains(func(x *Term) bool { _, ok := callArgs(x, name); return ok })
}

// paramName returns the name of fn's parameter with the given short type, or "".
func paramNameOfType(fn *ssa.Function, typ string) string {
	if p := paramOfType(fn, typ); p != nil {
		return p.Name()
	}
	return ""
}
