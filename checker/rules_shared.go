package main

import (
	"fmt"
	"go/constant"
	"strings"

	"golang.org/x/tools/go/ssa"
)

func init() {
	register("C01", ruleDispatchComplete, ruleExecPipeline)
	register("C02", ruleDispatchComplete, ruleExecPipeline)
	register("C03", ruleExecPipeline)
	register("C05", ruleExecPipeline, ruleSortAlwaysSorts)
	register("C06", ruleExecPipeline)
}

// ruleDispatchComplete: no result is produced by an operator evaluator without consulting the operator.
func ruleDispatchComplete(c *Ctx) {
	c.Doc("dispatch.complete", "operator evaluators (comparison, arithmetic, unary, IS): every success path consults the expression's operator — there is no shortcut that returns a verdict/value before the dispatch (the only earlier success exits are the NULL results of the arithmetic evaluator, guarded by its NULL tests)")
	type ev struct{ role, typ, name, field, enum string }
	for _, e := range []ev{
		{"comparison dispatch", "*sqlparser.ComparisonExpr", "ComparisonExpr", "Operator", "ComparisonExprOperator"},
		{"arithmetic dispatch", "*sqlparser.BinaryExpr", "BinaryExpr", "Operator", "BinaryExprOperator"},
		{"unary dispatch", "*sqlparser.UnaryExpr", "UnaryExpr", "Operator", "UnaryExprOperator"},
		{"IS evaluation", "*sqlparser.IsExpr", "IsExpr", "Right", "IsExprOperator"},
	} {
		f := c.theFunc(e.role, e.typ, e.name)
		if f == nil {
			c.Unknown("dispatch.complete", e.name, "-", "anchor lost")
			continue
		}
		ep := paramNameOfType(f, e.typ)
		consts := c.P.enumConsts(sqlp, e.enum)
		atoms := []Atom{opAtom("op", ep, e.field, consts)}
		tb := BuildTable(f, atoms, true)
		if tb.Err != nil {
			c.Unknown("dispatch.complete", c.P.funcKey(f), c.P.Pos(f.Pos()), tb.Err.Error())
			continue
		}
		ok, why, n := true, "", 0
		for _, p := range tb.SuccessPaths() {
			if p.Exit != "return" {
				continue
			}
			n++
			if _, has := tb.namesOnPath(p)["op"]; has {
				continue
			}
			// allowed: a NULL result guarded by a NULL test of an operand
			if p.Ret[0].Nil {
				guarded := false
				for k, v := range p.Asg {
					if kt := p.KeyTerm[k]; kt != nil {
						if x, isN := isNilTest(kt); isN && isTrueC(v) && !isErrorType(x) {
							guarded = true
						}
					}
				}
				if guarded {
					continue
				}
			}
			ok, why = false, "a success path returns "+avString(p.Ret[0])+" without consulting the operator (under "+p.String()+")"
		}
		c.Check(ok && n > 0, "dispatch.complete", c.P.funcKey(f), c.P.Pos(f.Pos()), fmt.Sprintf("%d success paths, all through the operator dispatch", n), why)
	}
}

// ruleExecPipeline: after the row scan, every success path of exec runs the stages once each, in order, each on the previous stage's output.
func ruleExecPipeline(c *Ctx) {
	c.Doc("exec.pipeline", "(*Query).exec, after the row scan: every success path runs grouping, projection, duplicate elimination and ordering exactly once each, in that order, each stage receiving the rows the previous stage returned (the first one the scan's accumulator), and the window is cut from the last stage's output; no stage is bypassed on any path")
	exec := c.P.Method(modPath, "Query", "exec")
	if exec == nil {
		c.Unknown("exec.pipeline", "(*Query).exec", "-", "anchor lost")
		return
	}
	c.Fn("(*Query).exec")
	lp := findRangeLoopOverField(exec, "from")
	if lp == nil {
		c.Unknown("exec.pipeline", "(*Query).exec", c.P.Pos(exec.Pos()), "anchor lost: no loop over query.from")
		return
	}
	stages := []string{"ExecGroupBy", "ExecSelect", "ExecDistinct", "ExecOrderBy"}
	paths, err := WalkFrom(exec, lp.exit, lp.header, WalkCfg{MaxVisits: 1, MaxPaths: 4000})
	if err != nil {
		c.Unknown("exec.pipeline", "(*Query).exec", c.P.Pos(exec.Pos()), err.Error())
		return
	}
	ok, why, n := true, "", 0
	for _, p := range paths {
		if p.Exit != "return" || len(p.Ret) != 2 || !p.Ret[1].Nil {
			continue
		}
		n++
		var seq []string
		var prev ssa.Value
		for _, e := range p.Effects {
			if e.Kind != "call" {
				continue
			}
			for _, s := range stages {
				if e.Callee == s {
					seq = append(seq, s)
					call := e.Instr.(*ssa.Call)
					if prev != nil {
						arg := e.Args[1]
						x := ext0(arg)
						if x == nil || x.V != prev {
							ok, why = false, s+" does not receive the rows returned by the previous stage: "+arg.String()
						}
					}
					prev = call
				}
			}
		}
		if strings.Join(seq, ",") != strings.Join(stages, ",") {
			ok, why = false, "a success path runs the stages ["+strings.Join(seq, ",")+"] instead of each of "+strings.Join(stages, ",")+" once, in order"
		}
		// the returned rows derive from the last stage
		if prev != nil && !p.Ret[0].Nil && !(p.Ret[0].T != nil && p.Ret[0].T.Op == "const" && p.Ret[0].T.Name == "nil") {
			if !p.Ret[0].T.Contains(func(x *Term) bool { return x.V == prev }) {
				ok, why = false, "the result is "+avString(p.Ret[0])+", not cut from the ordering stage's output"
			}
		}
	}
	if n == 0 {
		ok, why = false, "no success path after the scan"
	}
	c.Check(ok, "exec.pipeline", "(*Query).exec/stages", c.P.Pos(exec.Pos()), fmt.Sprintf("%d success paths: group, select, distinct, order once each, chained", n), why)
	_ = constant.MakeBool
}

// ruleSortAlwaysSorts: Sort sorts whenever there is at least one key.
func ruleSortAlwaysSorts(c *Ctx) {
	c.Doc("c05.sort-always", "Sort: every success path with a non-empty key list calls sort.Slice on the rows with the comparator over the whole key list (no fast path that skips sorting or sorts by a prefix of the keys)")
	f := c.P.Func(modPath, "Sort")
	if f == nil {
		c.Unknown("c05.sort-always", "Sort", "-", "anchor lost")
		return
	}
	paths, err := WalkFunc(f, WalkCfg{MaxVisits: 1})
	if err != nil {
		c.Unknown("c05.sort-always", "Sort", c.P.Pos(f.Pos()), err.Error())
		return
	}
	ob := f.Params[1].Name()
	ok, why, n := true, "", 0
	for _, p := range paths {
		if p.Exit != "return" {
			continue
		}
		empty := false
		for k, v := range p.Asg {
			kt := p.KeyTerm[k]
			if kt != nil && kt.Op == "bin" && kt.Name == "==" && kt.Args[1].Name == "0" && strings.Contains(kt.Args[0].String(), "builtin:len(p:"+ob+")") && isTrueC(v) {
				empty = true
			}
		}
		if empty {
			continue
		}
		n++
		sorts := 0
		for _, e := range p.Effects {
			if e.Kind == "call" && (strings.HasPrefix(e.Callee, "sort.Slice") || strings.HasPrefix(e.Callee, "sort.SliceStable")) {
				sorts++
			}
			if e.Kind == "call" && strings.HasPrefix(e.Callee, "sort.") && !strings.HasPrefix(e.Callee, "sort.Slice") {
				ok, why = false, "Sort consults "+e.Callee+" before sorting (a fast path on part of the keys)"
			}
		}
		if sorts != 1 {
			ok, why = false, fmt.Sprintf("a path with keys present sorts %d times", sorts)
		}
	}
	if n == 0 {
		ok, why = false, "no path with keys present"
	}
	c.Check(ok, "c05.sort-always", "Sort", c.P.Pos(f.Pos()), fmt.Sprintf("%d paths with keys present each call sort.Slice once", n), why)
}
