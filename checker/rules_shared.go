package main

import (
	"fmt"
	"go/constant"
	"go/token"
	"go/types"
	"strings"

	"golang.org/x/tools/go/ssa"
)

func init() {
	register("C01", ruleDispatchComplete, ruleExecPipeline)
	register("C02", ruleDispatchComplete, ruleExecPipeline)
	register("C03", ruleExecPipeline)
	register("C05", ruleExecPipeline, ruleSortAlwaysSorts)
	register("C06", ruleExecPipeline)
}

// ruleDispatchComplete: no result is produced by an operator evaluator without consulting the operator.
func ruleDispatchComplete(c *Ctx) {
	c.Doc("dispatch.complete", "operator evaluators (comparison, arithmetic, unary, IS): every success path consults the expression's operator — there is no shortcut that returns a verdict/value before the dispatch (the only earlier success exits are the NULL results of the arithmetic evaluator, guarded by its NULL tests)")
	type ev struct{ role, typ, name, field, enum string }
	for _, e := range []ev{
		{"comparison dispatch", "*sqlparser.ComparisonExpr", "ComparisonExpr", "Operator", "ComparisonExprOperator"},
		{"arithmetic dispatch", "*sqlparser.BinaryExpr", "BinaryExpr", "Operator", "BinaryExprOperator"},
		{"unary dispatch", "*sqlparser.UnaryExpr", "UnaryExpr", "Operator", "UnaryExprOperator"},
		{"IS evaluation", "*sqlparser.IsExpr", "IsExpr", "Right", "IsExprOperator"},
	} {
		f := c.theFunc(e.role, e.typ, e.name)
		if f == nil {
			c.Unknown("dispatch.complete", e.name, "-", "anchor lost")
			continue
		}
		ep := paramNameOfType(f, e.typ)
		consts := c.P.enumConsts(sqlp, e.enum)
		atoms := []Atom{opAtom("op", ep, e.field, consts)}
		tb := BuildTable(f, atoms, true)
		if tb.Err != nil {
			c.Unknown("dispatch.complete", c.P.funcKey(f), c.P.Pos(f.Pos()), tb.Err.Error())
			continue
		}
		ok, why, n := true, "", 0
		for _, p := range tb.SuccessPaths() {
			if p.Exit != "return" {
				continue
			}
			n++
			if _, has := tb.namesOnPath(p)["op"]; has {
				continue
			}
			// allowed: a NULL result guarded by a NULL test of an operand
			if p.Ret[0].Nil {
				guarded := false
				for k, v := range p.Asg {
					if kt := p.KeyTerm[k]; kt != nil {
						if x, isN := isNilTest(kt); isN && isTrueC(v) && !isErrorType(x) {
							guarded = true
						}
					}
				}
				if guarded {
					continue
				}
			}
			ok, why = false, "a success path returns "+avString(p.Ret[0])+" without consulting the operator (under "+p.String()+")"
		}
		c.Check(ok && n > 0, "dispatch.complete", c.P.funcKey(f), c.P.Pos(f.Pos()), fmt.Sprintf("%d success paths, all through the operator dispatch", n), why)
	}
}

// execScan is the row scan of (*Query).exec: the loop over query.from. It lives in exec itself or, after an
// "extract method" refactoring, in a helper the rule tables do not know that exec calls (the scan phase); then
// `call` is exec's call of that helper and the scan's accumulator reaches exec as a result of that call.
type execScan struct {
	exec *ssa.Function
	fn   *ssa.Function // the function that holds the loop
	lp   *loopInfo
	call *ssa.Call // exec's call of the helper (nil when the loop is in exec)
}

func (c *Ctx) findExecScan(exec *ssa.Function) *execScan {
	if lp := findRangeLoopOverField(exec, "from"); lp != nil {
		return &execScan{exec: exec, fn: exec, lp: lp}
	}
	var found *execScan
	var look func(f *ssa.Function, top *ssa.Call, depth int)
	look = func(f *ssa.Function, top *ssa.Call, depth int) {
		allInstrs(f, func(cb *ssa.BasicBlock, in ssa.Instruction) {
			call, ok := in.(*ssa.Call)
			if !ok || found != nil || depth > 2 {
				return
			}
			h := call.Common().StaticCallee()
			if !isUnknownHelper(h) {
				return
			}
			// a helper that is only called for the FROM-less (dual) source is that arm's own small pipeline, not the scan
			for _, fc := range factsAt(cb) {
				if ft := NewTB().Of(fc.cond); ft.Op == "field" && ft.Name == "dual" && fc.truth {
					return
				}
			}
			t := top
			if t == nil {
				t = call
			}
			if lp := findRangeLoopOverField(h, "from"); lp != nil {
				// the helper must scan the very query exec runs
				recv := false
				for i, a := range call.Common().Args {
					if pa, isP := a.(*ssa.Parameter); isP && shortType(pa.Type()) == "*Query" && i < len(h.Params) {
						if lt := NewTB().Of(lp.over); lt.Op == "field" && lt.Args[0].Op == "param" && lt.Args[0].Name == h.Params[i].Name() {
							recv = true
						}
					}
				}
				if recv && f == exec {
					found = &execScan{exec: exec, fn: h, lp: lp, call: t}
				}
				return
			}
			look(h, t, depth+1)
		})
	}
	look(exec, nil, 0)
	return found
}

// after: the paths of exec from the end of the scan (helper form: from the block that calls the scan helper; the
// walker inlines the helper, so the scan's own calls appear first on these paths).
func (s *execScan) after(cfg WalkCfg) ([]*Path, error) {
	if s.call == nil {
		return WalkFrom(s.exec, s.lp.exit, s.lp.header, cfg)
	}
	return WalkFrom(s.exec, s.call.Block(), nil, cfg)
}

// afterBlock: the block of exec from which everything runs after the scan.
func (s *execScan) afterBlock() *ssa.BasicBlock {
	if s.call == nil {
		return s.lp.exit
	}
	return s.call.Block()
}

// helperReturnsAcc: helper form: on every success return of the scan helper the first result is the loop's
// accumulator (the value the appends of the loop grow).
func (s *execScan) helperReturnsAcc() (bool, string) {
	if s.call == nil {
		return true, ""
	}
	ei := errIdx(s.fn)
	paths, err := WalkFrom(s.fn, s.lp.exit, s.lp.header, WalkCfg{MaxVisits: 1, NoEffects: true})
	if err != nil {
		return false, err.Error()
	}
	n := 0
	for _, p := range paths {
		if p.Exit != "return" || len(p.Ret) == 0 || (ei >= 0 && !p.Ret[ei].Nil) {
			continue
		}
		n++
		t := p.Ret[0].T
		ph, isPhi := t.V.(*ssa.Phi)
		if !isPhi || ph.Block() != s.lp.header {
			return false, "the scan helper " + funcName(s.fn) + " returns " + avString(p.Ret[0]) + ", not the rows its loop collected"
		}
	}
	if n == 0 {
		return false, "the scan helper " + funcName(s.fn) + " has no success return after its loop"
	}
	return true, ""
}

// ruleExecPipeline: after the row scan, every success path of exec runs the stages once each, in order, each on the previous stage's output.
func ruleExecPipeline(c *Ctx) {
	c.Doc("exec.pipeline", "(*Query).exec, after the row scan: every success path runs grouping, projection, duplicate elimination and ordering exactly once each, in that order, each stage receiving the rows the previous stage returned (the first one the scan's accumulator), and the window is cut from the last stage's output; no stage is bypassed on any path")
	exec := c.P.Method(modPath, "Query", "exec")
	if exec == nil {
		c.Unknown("exec.pipeline", "(*Query).exec", "-", "anchor lost")
		return
	}
	c.Fn("(*Query).exec")
	scan := c.findExecScan(exec)
	if scan == nil {
		c.Unknown("exec.pipeline", "(*Query).exec", c.P.Pos(exec.Pos()), "anchor lost: no loop over query.from")
		return
	}
	stages := []string{"ExecGroupBy", "ExecSelect", "ExecDistinct", "ExecOrderBy"}
	paths, err := scan.after(WalkCfg{MaxVisits: 1, MaxPaths: 6000})
	if err != nil {
		c.Unknown("exec.pipeline", "(*Query).exec", c.P.Pos(exec.Pos()), err.Error())
		return
	}
	ok, why, n := true, "", 0
	for _, p := range paths {
		if p.Exit != "return" || len(p.Ret) != 2 || !p.Ret[1].Nil {
			continue
		}
		n++
		var seq []string
		var prev ssa.Value
		for _, e := range p.Effects {
			if e.Kind != "call" {
				continue
			}
			for _, s := range stages {
				if e.Callee == s {
					seq = append(seq, s)
					call := e.Instr.(*ssa.Call)
					if prev != nil {
						arg := e.Args[1]
						x := ext0(arg)
						if x == nil || x.V != prev {
							ok, why = false, s+" does not receive the rows returned by the previous stage: "+arg.String()
						}
					}
					prev = call
				}
			}
		}
		if strings.Join(seq, ",") != strings.Join(stages, ",") {
			ok, why = false, "a success path runs the stages ["+strings.Join(seq, ",")+"] instead of each of "+strings.Join(stages, ",")+" once, in order"
		}
		// the returned rows derive from the last stage
		emptyFresh := p.Ret[0].T != nil && isFreshSliceTerm(p.Ret[0].T) && p.Ret[0].T.Op == "slice" && len(p.Ret[0].T.Args) == 4 && p.Ret[0].T.Args[2].String() == "c:0"
		if prev != nil && !p.Ret[0].Nil && !emptyFresh && !(p.Ret[0].T != nil && p.Ret[0].T.Op == "const" && p.Ret[0].T.Name == "nil") {
			if !p.Ret[0].T.Contains(func(x *Term) bool { return x.V == prev }) {
				ok, why = false, "the result is "+avString(p.Ret[0])+", not cut from the ordering stage's output"
			}
		}
	}
	if n == 0 {
		ok, why = false, "no success path after the scan"
	}
	c.Check(ok, "exec.pipeline", "(*Query).exec/stages", c.P.Pos(exec.Pos()), fmt.Sprintf("%d success paths: group, select, distinct, order once each, chained", n), why)
	_ = constant.MakeBool
}

// ruleSortAlwaysSorts: Sort sorts whenever there is at least one key.
func ruleSortAlwaysSorts(c *Ctx) {
	c.Doc("c05.sort-always", "Sort: every success path with a non-empty key list calls sort.Slice on the rows with the comparator over the whole key list (no fast path that skips sorting or sorts by a prefix of the keys)")
	f := c.P.Func(modPath, "Sort")
	if f == nil {
		c.Unknown("c05.sort-always", "Sort", "-", "anchor lost")
		return
	}
	paths, err := WalkFunc(f, WalkCfg{MaxVisits: 1})
	if err != nil {
		c.Unknown("c05.sort-always", "Sort", c.P.Pos(f.Pos()), err.Error())
		return
	}
	ob := f.Params[1].Name()
	ok, why, n := true, "", 0
	for _, p := range paths {
		if p.Exit != "return" {
			continue
		}
		empty := false
		for k, v := range p.Asg {
			kt := p.KeyTerm[k]
			if kt != nil && kt.Op == "bin" && kt.Name == "==" && kt.Args[1].Name == "0" && strings.Contains(kt.Args[0].String(), "builtin:len(p:"+ob+")") && isTrueC(v) {
				empty = true
			}
		}
		if empty {
			continue
		}
		n++
		sorts := 0
		for _, e := range p.Effects {
			if e.Kind == "call" && (strings.HasPrefix(e.Callee, "sort.Slice") || strings.HasPrefix(e.Callee, "sort.SliceStable")) {
				sorts++
			}
			if e.Kind == "call" && strings.HasPrefix(e.Callee, "sort.") && !strings.HasPrefix(e.Callee, "sort.Slice") {
				ok, why = false, "Sort consults "+e.Callee+" before sorting (a fast path on part of the keys)"
			}
		}
		if sorts != 1 {
			ok, why = false, fmt.Sprintf("a path with keys present sorts %d times", sorts)
		}
	}
	if n == 0 {
		ok, why = false, "no path with keys present"
	}
	c.Check(ok, "c05.sort-always", "Sort", c.P.Pos(f.Pos()), fmt.Sprintf("%d paths with keys present each call sort.Slice once", n), why)
}

func init() {
	register("C01", ruleExprDispatch, ruleLiteralTable)
	register("C02", ruleExprDispatch, ruleLiteralTable, ruleStarCopiesAll)
	register("C03", ruleAggrArgReader, ruleC09CacheKey)
	register("C01", ruleC09CacheKey)
	register("C02", ruleC09CacheKey, ruleC12UnwrapTable)
}

// ruleExprDispatch: the expression dispatcher routes every AST node kind to the evaluator of that kind.
func ruleExprDispatch(c *Ctx) {
	c.Doc("expr.dispatch", "expression dispatcher (Expr): for every AST node type of its type switch the arm forwards (query, current row, the asserted node, options) to the evaluator whose parameter has exactly that node type and returns its results; NULL literals yield (nil, nil), boolean literals their value; a column reference yields the ColumnName `qualifier.name` (or `name`), quoted when the hard-coded option is set; an unknown node is an error")
	f := c.P.Func(modPath, "Expr")
	if f == nil {
		c.Unknown("expr.dispatch", "Expr", "-", "anchor lost")
		return
	}
	c.Fn("Expr")
	paths, err := WalkFunc(f, WalkCfg{MaxVisits: 2, MaxPaths: 8000})
	if err != nil {
		c.Unknown("expr.dispatch", "Expr", c.P.Pos(f.Pos()), err.Error())
		return
	}
	eP, qP, rowP := "", "", ""
	for _, pa := range f.Params {
		switch shortType(pa.Type()) {
		case "sqlparser.Expr":
			eP = pa.Name()
		case "*Query":
			qP = pa.Name()
		case "Map":
			rowP = pa.Name()
		}
	}
	arms := map[string]string{}
	for _, p := range paths {
		if p.Exit != "return" || len(p.Ret) != 2 {
			continue
		}
		kind := ""
		for _, k := range p.Order {
			kt := p.KeyTerm[k]
			if kt != nil && kt.Op == "ext" && kt.Name == "1" && kt.Args[0].Op == "assertok" && kt.Args[0].Args[0].Op == "param" && kt.Args[0].Args[0].Name == eP {
				if v, _ := p.Assumed(k); v && kind == "" {
					kind = kt.Args[0].Name
				}
			}
		}
		if kind == "" {
			if p.Ret[1].Nil {
				arms["default"] = "an unknown node kind does not yield an error"
			} else if arms["default"] == "" {
				arms["default"] = "ok"
			}
			continue
		}
		verdict := "ok"
		r := ext0(p.Ret[0].T)
		switch kind {
		case "*sqlparser.NullVal":
			if !p.Ret[0].Nil || !p.Ret[1].Nil {
				verdict = "a NULL literal yields " + avString(p.Ret[0])
			}
		case "sqlparser.BoolVal":
			if !strings.Contains(termStr(p.Ret[0].T), "assertok[sqlparser.BoolVal](p:"+eP+")") {
				verdict = "a boolean literal yields " + avString(p.Ret[0])
			}
		case "*sqlparser.ColName":
			// error path of BuildColumnName or the ColumnName value
			if !p.Ret[1].Nil {
				break
			}
			s := termStr(p.Ret[0].T)
			if !strings.Contains(s, "BuildColumnName(") {
				verdict = "a column reference yields " + s + ", not a ColumnName built from the node's own name"
			}
		default:
			if r == nil || r.Op != "call" {
				verdict = "the arm returns " + avString(p.Ret[0]) + " instead of its evaluator's results"
				break
			}
			call, isCall := r.V.(*ssa.Call)
			if !isCall || call.Common().StaticCallee() == nil {
				verdict = "the arm calls an unresolved evaluator"
				break
			}
			cal := call.Common().StaticCallee()
			// the evaluator's node parameter type is the asserted type (value or pointer form)
			okType := false
			for _, pa := range cal.Params {
				pt := shortType(pa.Type())
				if pt == kind || pt == "*"+kind || "*"+pt == kind {
					okType = true
				}
			}
			if !okType {
				verdict = "a " + kind + " node is evaluated by " + funcName(cal) + ", which does not take that node type"
			}
			a := r.Args
			nodeOK := len(a) >= 3 && strings.Contains(a[2].String(), "p:"+eP)
			if len(a) >= 3 && !nodeOK && len(call.Call.Args) >= 3 {
				// a value-typed node spilled to a cell: the cell's only store is the asserted node
				if al, isAl := call.Call.Args[2].(*ssa.Alloc); isAl && al.Referrers() != nil {
					n, good := 0, true
					for _, r := range *al.Referrers() {
						if st, isSt := r.(*ssa.Store); isSt && st.Addr == ssa.Value(al) {
							n++
							if !strings.Contains(NewTB().Of(st.Val).String(), "p:"+eP) {
								good = false
							}
						}
					}
					nodeOK = n == 1 && good
				}
			}
			if len(a) < 3 || !(a[0].Op == "param" && a[0].Name == qP) || !(a[1].Op == "param" && a[1].Name == rowP) || !nodeOK {
				verdict = "the evaluator does not receive (query, current row, the node): " + r.String()
			}
			// both results forwarded
			if x := p.Ret[1].T; x == nil || x.Op != "ext" || x.Args[0].V != r.V {
				verdict = "the evaluator's error is not forwarded"
			}
		}
		if prev, has := arms[kind]; !has || prev == "ok" {
			arms[kind] = verdict
		}
	}
	want := []string{"*sqlparser.AndExpr", "*sqlparser.OrExpr", "*sqlparser.NotExpr", "*sqlparser.ComparisonExpr", "*sqlparser.BetweenExpr", "*sqlparser.IsExpr", "*sqlparser.BinaryExpr", "*sqlparser.UnaryExpr", "*sqlparser.Literal", "*sqlparser.NullVal", "sqlparser.BoolVal", "*sqlparser.ColName", "*sqlparser.CaseExpr", "*sqlparser.Subquery", "*sqlparser.ExistsExpr", "*sqlparser.FuncExpr", "sqlparser.AggrFunc", "sqlparser.ValTuple"}
	for _, k := range want {
		v, has := arms[k]
		c.Check(has && v == "ok", "expr.dispatch", "Expr/"+k, c.P.Pos(f.Pos()), "routed to its own evaluator", func() string {
			if !has {
				return "the dispatcher has no arm for " + k
			}
			return v
		}())
	}
	c.Check(arms["default"] == "ok", "expr.dispatch", "Expr/default", c.P.Pos(f.Pos()), "unknown nodes are errors", arms["default"])
}

// ruleLiteralTable: literals.
func ruleLiteralTable(c *Ctx) {
	c.Doc("literal.table", "literal evaluation: integer, decimal and float literals yield strconv.ParseFloat of the literal's own text (64 bit), string literals yield the literal's own text wrapped as NeutalString; other literal kinds are errors")
	f := c.theFunc("literal evaluation", "*sqlparser.Literal", "LiteralExpr")
	if f == nil {
		c.Unknown("literal.table", "LiteralExpr", "-", "anchor lost")
		return
	}
	consts := c.P.enumConsts(sqlp, "ValType")
	lp := paramNameOfType(f, "*sqlparser.Literal")
	// the literal's kind and text: read through BuildLiteral (whose own obligation follows) or straight from the node
	isType := func(t *Term) bool {
		if t.Op == "ext" && t.Name == "0" && t.Args[0].Op == "call" && t.Args[0].Name == "BuildLiteral" {
			return true
		}
		return t.Op == "field" && t.Name == "Type" && t.Args[0].Op == "param" && t.Args[0].Name == lp
	}
	isText := func(t *Term) bool {
		if t == nil {
			return false
		}
		if t.Op == "ext" && t.Name == "1" && t.Args[0].Op == "call" && t.Args[0].Name == "BuildLiteral" && len(t.Args[0].Args) == 1 && t.Args[0].Args[0].Op == "param" && t.Args[0].Args[0].Name == lp {
			return true
		}
		return t.Op == "field" && t.Name == "Val" && t.Args[0].Op == "param" && t.Args[0].Name == lp
	}
	atoms := []Atom{{Name: "typ", Dom: int64Dom(sortedKeys(consts)...), Match: isType}}
	tb := BuildTable(f, atoms, true)
	if tb.Err != nil {
		c.Unknown("literal.table", c.P.funcKey(f), c.P.Pos(f.Pos()), tb.Err.Error())
		return
	}
	res := map[string]string{}
	for _, p := range tb.Paths {
		if p.Exit != "return" || len(p.Ret) != 2 {
			continue
		}
		tv, has := tb.namesOnPath(p)["typ"]
		if !has {
			continue
		}
		iv, _ := constant.Int64Val(tv)
		name := consts[iv]
		s := termStr(p.Ret[0].T)
		verdict := "ok"
		switch name {
		case "IntVal", "FloatVal", "DecimalVal":
			okNum := false
			if x := ext0(p.Ret[0].T); x != nil {
				if a, isCall := callArgs(x, "strconv.ParseFloat"); isCall && len(a) == 2 && isText(a[0]) && a[1].String() == "c:64" {
					okNum = true
				}
			}
			if p.Ret[1].Nil && !okNum {
				verdict = "a numeric literal yields " + s
			}
		case "StrVal":
			if !p.Ret[1].Nil || !isText(p.Ret[0].T) {
				verdict = "a string literal yields " + s + " (error=" + avString(p.Ret[1]) + ")"
			}
		default:
			if p.Ret[1].Nil {
				verdict = "a " + name + " literal is accepted: " + s
			}
		}
		if prev, ok := res[name]; !ok || prev == "ok" {
			res[name] = verdict
		}
	}
	for _, n := range []string{"IntVal", "FloatVal", "DecimalVal", "StrVal"} {
		v, has := res[n]
		c.Check(has && v == "ok", "literal.table", c.P.funcKey(f)+"/"+n, c.P.Pos(f.Pos()), "reference value of the literal's own text", func() string {
			if !has {
				return "no arm for " + n
			}
			return v
		}())
	}
	// BuildLiteral, when used: hands back the node's own kind and text
	usesBL := false
	allInstrs(f, func(_ *ssa.BasicBlock, in ssa.Instruction) {
		if call, ok := in.(*ssa.Call); ok && call.Common().StaticCallee() != nil && call.Common().StaticCallee().Name() == "BuildLiteral" {
			usesBL = true
		}
	})
	if bl := c.P.Func(modPath, "BuildLiteral"); usesBL && bl != nil {
		okBL, why := false, "no success path"
		paths, err := WalkFunc(bl, WalkCfg{MaxVisits: 1})
		if err == nil {
			for _, p := range paths {
				if p.Exit != "return" || len(p.Ret) != 3 || !p.Ret[2].Nil {
					continue
				}
				node := func(t *Term, field string) bool {
					return t != nil && t.Op == "field" && t.Name == field && strings.HasPrefix(t.Args[0].String(), "assertok[*sqlparser.Literal](p:") && strings.HasSuffix(t.Args[0].String(), "#0")
				}
				if node(p.Ret[0].T, "Type") && node(p.Ret[1].T, "Val") {
					okBL, why = true, ""
				} else {
					okBL, why = false, "BuildLiteral returns ("+avString(p.Ret[0])+", "+avString(p.Ret[1])+"), not the literal's own Type and Val"
					break
				}
			}
		}
		c.Check(okBL, "literal.table", "BuildLiteral", c.P.Pos(bl.Pos()), "returns the literal node's own Type and Val", why)
	}
	// string literal boxed as NeutalString (static type of the returned value)
	okBox := false
	allInstrs(f, func(_ *ssa.BasicBlock, in ssa.Instruction) {
		if mi, ok := in.(*ssa.MakeInterface); ok && shortType(mi.X.Type()) == "NeutalString" {
			okBox = true
		}
	})
	c.Check(okBox, "literal.table", c.P.funcKey(f)+"/StrVal-wrapper", c.P.Pos(f.Pos()), "string literals are NeutalString (so a literal is never mistaken for a column name)", "string literals are not wrapped as NeutalString")
}

// ruleStarCopiesAll: `*` copies every key of the current row except the marker.
func ruleStarCopiesAll(c *Ctx) {
	c.Doc("c02.star-all-keys", "star projection: the copy loop ranges over the current row parameter and stores value under key into the output map for every entry; the only condition on the key is the `<-` exclusion")
	f := c.theFunc("projection", "*sqlparser.SelectExprs", "SelectExpr")
	if f == nil {
		c.Unknown("c02.star-all-keys", "SelectExpr", "-", "anchor lost")
		return
	}
	row := paramNameOfType(f, "Map")
	n, bad := 0, ""
	allInstrs(f, func(b *ssa.BasicBlock, in ssa.Instruction) {
		mu, ok := in.(*ssa.MapUpdate)
		if !ok {
			return
		}
		ex, ok := mu.Key.(*ssa.Extract)
		if !ok || ex.Index != 1 {
			return
		}
		nx, ok := ex.Tuple.(*ssa.Next)
		if !ok {
			return
		}
		if p, isP := nx.Iter.(*ssa.Range).X.(*ssa.Parameter); !isP || p.Name() != row {
			return
		}
		n++
		// value is the same iteration's value
		if vx, isEx := mu.Value.(*ssa.Extract); !isEx || vx.Tuple != ssa.Value(nx) || vx.Index != 2 {
			bad = "the star copy stores " + NewTB().Of(mu.Value).String() + " instead of the entry's own value"
		}
		for _, fc := range relFacts(factsAt(b)) {
			if fc.x == ssa.Value(ex) {
				if s, isS := constString(fc.y); !(isS && s == "<-" && fc.r == relNE) {
					bad = "the star copy skips entries by a condition on the key other than the `<-` exclusion"
				}
			}
			if vx, isEx := mu.Value.(*ssa.Extract); isEx && fc.x == ssa.Value(vx) {
				bad = "the star copy skips entries by a condition on the value"
			}
		}
	})
	c.Check(n == 1 && bad == "", "c02.star-all-keys", c.P.funcKey(f), c.P.Pos(f.Pos()), "every entry of the row is copied (marker excluded)", func() string {
		if bad != "" {
			return bad
		}
		return fmt.Sprintf("%d star copy loops found", n)
	}())
}

// ruleAggrArgReader: aggregate arguments are read from the group's member rows.
func ruleAggrArgReader(c *Ctx) {
	c.Doc("c03.arg-reader", "aggregate argument reader: a column argument is read, by its own name, from the member rows under the row's \"*\" entry when present (the whole slice, so one value per member in member order), otherwise from the row; other arguments are the unwrapped evaluation of the argument; arguments are appended in order")
	f := c.P.Func(modPath, "AggrFuncArgReader")
	if f == nil {
		c.Unknown("c03.arg-reader", "AggrFuncArgReader", "-", "anchor lost")
		return
	}
	c.Fn("AggrFuncArgReader")
	row := paramNameOfType(f, "Map")
	loops := rangeLoops(f)
	if len(loops) != 1 {
		c.Unknown("c03.arg-reader", "AggrFuncArgReader", c.P.Pos(f.Pos()), fmt.Sprintf("%d loops (one over the arguments expected)", len(loops)))
		return
	}
	lp := loops[0]
	paths, err := WalkFrom(f, lp.body, lp.header, WalkCfg{StopAt: func(b *ssa.BasicBlock) bool { return b == lp.header }, MaxVisits: 1})
	if err != nil {
		c.Unknown("c03.arg-reader", "AggrFuncArgReader", c.P.Pos(f.Pos()), err.Error())
		return
	}
	var why []string
	nCol, nOther := 0, 0
	for _, p := range paths {
		if p.Exit != "stop" {
			continue
		}
		isCol, hasStar, starIsSlice := false, false, false
		for k, v := range p.Asg {
			kt := p.KeyTerm[k]
			if kt == nil || kt.Op != "ext" || kt.Name != "1" {
				continue
			}
			switch {
			case kt.Args[0].Op == "assertok" && kt.Args[0].Name == "ColumnName":
				isCol = isTrueC(v)
			case kt.Args[0].Op == "lookupok" && kt.Args[0].Args[1].Name == `"*"`:
				hasStar = isTrueC(v)
			case kt.Args[0].Op == "assertok" && kt.Args[0].Name == "[]any":
				starIsSlice = isTrueC(v)
			}
		}
		apps := 0
		var arg *Term
		for _, e := range p.Effects {
			if isAppendOf(e) {
				apps++
				arg = e.Args[1]
			}
		}
		if apps != 1 {
			why = append(why, fmt.Sprintf("an argument is appended %d times", apps))
			continue
		}
		v := arg
		if v.Op == "varargs" && len(v.Args) == 1 {
			v = v.Args[0]
		}
		if isCol {
			nCol++
			x := ext0(v)
			a, ok := callArgs(x, "ExecReader")
			if x == nil || !ok {
				why = append(why, "a column argument is not read with the selector reader: "+v.String())
				continue
			}
			if !strings.Contains(a[1].String(), "assertok[ColumnName]") {
				why = append(why, "the column is read by "+a[1].String()+", not by its own name")
			}
			src := a[0].String()
			if hasStar && starIsSlice {
				if !strings.Contains(src, `lookupok:p:`+row+`[c:"*"]`) {
					why = append(why, "with member rows present the column is read from "+src+", not from the members")
				}
			} else if !strings.Contains(src, "p:"+row) {
				why = append(why, "without member rows the column is read from "+src+", not from the row")
			}
		} else {
			nOther++
			x := ext0(v)
			if _, ok := callArgs(x, "ValueOf"); x == nil || !ok {
				why = append(why, "a non-column argument is appended without unwrapping: "+v.String())
			}
		}
	}
	if nCol == 0 || nOther == 0 {
		why = append(why, fmt.Sprintf("paths: column=%d other=%d", nCol, nOther))
	}
	c.Check(len(why) == 0, "c03.arg-reader", "AggrFuncArgReader", c.P.Pos(f.Pos()), fmt.Sprintf("column args from the members (%d paths), others unwrapped (%d paths), one append each", nCol, nOther), strings.Join(uniq(why), "; "))
}

func init() {
	register("C01", ruleDefWriters)
	register("C05", ruleDefWriters, ruleC06UnionFields, ruleC06UnionWiring)
	register("C06", ruleDefWriters)
}

// defWriters: the functions that may store each clause-definition field of Query (frozen from
// the tree as read; one reason per writer).
var defWriters = map[string]map[string]string{
	"whereDefinition":   {"BuildSelect": "from the statement's WHERE", "CopyQuery": "copied for re-evaluation"},
	"havingDefinition":  {"BuildSelect": "from the statement's HAVING", "CopyQuery": "copied for re-evaluation"},
	"selectDefinition":  {"BuildSelect": "from the statement's select list", "BuildUnion": "star over the concatenated branches", "CopyQuery": "copied for re-evaluation"},
	"distinct":          {"BuildSelect": "from the statement's DISTINCT", "BuildUnion": "UNION vs UNION ALL"},
	"limitDefinition":   {"BuildLimit": "from the statement's LIMIT", "New": "unset (-1)", "Prepare": "unset (-1)", "CopyQuery": "copied for re-evaluation"},
	"offsetDefinition":  {"BuildLimit": "from the statement's OFFSET", "New": "unset (-1)", "Prepare": "unset (-1)", "CopyQuery": "copied for re-evaluation"},
	"orderByDefinition": {"BuildOrder": "from the statement's ORDER BY", "New": "empty", "Prepare": "empty", "CopyQuery": "copied for re-evaluation"},
	"groupDefinition":   {"New": "empty", "Prepare": "empty", "CopyQuery": "copied for re-evaluation"},
}

func ruleDefWriters(c *Ctx) {
	c.Doc("def.writers", "who may write: the clause-definition fields of Query (where/having/select/group/orderBy definitions, distinct, limit and offset) are stored only by the builder of that clause from the statement's own clause, by the constructors (unset values) and by CopyQuery; no evaluator, branch helper or other builder assigns them (a clause of one statement never leaks into another query)")
	seen := map[string]int{}
	for _, f := range c.P.ModFuncs {
		if len(f.TypeArgs()) > 0 {
			continue
		}
		root := f
		for root.Parent() != nil {
			root = root.Parent()
		}
		allInstrs(f, func(b *ssa.BasicBlock, in ssa.Instruction) {
			st, ok := in.(*ssa.Store)
			if !ok {
				return
			}
			fa, ok := st.Addr.(*ssa.FieldAddr)
			if !ok {
				return
			}
			pt, ok := fa.X.Type().Underlying().(*types.Pointer)
			if !ok || shortType(pt.Elem()) != "Query" {
				return
			}
			name := fieldName(pt.Elem(), fa.Field)
			allowed, tracked := defWriters[name]
			if !tracked {
				return
			}
			w := root.Name()
			_, ok = allowed[w]
			if _, ctor := allowed["New"]; ctor && !ok {
				// a constructor by what it does: the field belongs to a Query this very function has just allocated
				// (`newQuery(options)` split out of New and Prepare)
				if al, fresh := fa.X.(*ssa.Alloc); fresh && al.Parent() == f {
					ok = true
					allowed = map[string]string{w: "constructor: the query is allocated by this function"}
				}
			}
			seen[name]++
			c.Check(ok, "def.writers", "Query."+name+" <- "+c.P.funcKey(f), c.P.Pos(st.Pos()), "writer listed: "+allowed[w], "Query."+name+" is assigned in "+c.P.funcKey(f)+", which is not the builder of that clause, a constructor or CopyQuery")
		})
	}
	for name := range defWriters {
		if seen[name] == 0 {
			c.Unknown("def.writers", "Query."+name, "-", "anchor lost: no store to the field found")
		}
	}
}

func init() {
	register("C01", ruleExecKeptFresh)
	register("C02", ruleExecKeptFresh)
	register("C03", ruleExecKeptFresh)
}

// ruleExecKeptFresh: the kept rows are collected in storage of their own.
func ruleExecKeptFresh(c *Ctx) {
	c.Doc("exec.kept-fresh", "(*Query).exec collects the rows that pass WHERE into storage allocated by this call: every append inside the scan of query.from grows a slice whose origin (through loop phis and earlier appends) is a fresh make/empty literal — never query.from or another field of the query, so the source rows are not overwritten while (or after) they are scanned and a second evaluation of the same query sees the same source")
	exec := c.P.Method(modPath, "Query", "exec")
	if exec == nil {
		c.Unknown("exec.kept-fresh", "(*Query).exec", "-", "anchor lost")
		return
	}
	scan := c.findExecScan(exec)
	if scan == nil {
		c.Unknown("exec.kept-fresh", "(*Query).exec", c.P.Pos(exec.Pos()), "anchor lost: no loop over query.from")
		return
	}
	lp := scan.lp
	n := 0
	for _, b := range scan.fn.Blocks {
		if !inNaturalLoop(lp.header, b) {
			continue
		}
		for _, in := range b.Instrs {
			call, ok := in.(*ssa.Call)
			if !ok {
				continue
			}
			if bi, isB := call.Call.Value.(*ssa.Builtin); !isB || bi.Name() != "append" {
				continue
			}
			n++
			bad := ""
			seen := map[ssa.Value]bool{}
			var root func(v ssa.Value)
			root = func(v ssa.Value) {
				if seen[v] || bad != "" {
					return
				}
				seen[v] = true
				switch x := v.(type) {
				case *ssa.Phi:
					for _, e := range x.Edges {
						root(e)
					}
				case *ssa.Call:
					if bi, isB := x.Call.Value.(*ssa.Builtin); isB && bi.Name() == "append" {
						root(x.Call.Args[0])
						return
					}
					bad = NewTB().Of(v).String()
				case *ssa.MakeSlice:
				case *ssa.Const:
					if !x.IsNil() {
						bad = x.String()
					}
				case *ssa.Slice:
					if _, isAl := x.X.(*ssa.Alloc); isAl {
						return
					}
					bad = NewTB().Of(v).String()
				default:
					bad = NewTB().Of(v).String()
				}
			}
			root(call.Call.Args[0])
			c.Check(bad == "", "exec.kept-fresh", fmt.Sprintf("(*Query).exec/append#%d", n), c.P.Pos(call.Pos()), "grows storage made by this call", "the kept rows are appended onto "+bad+", which is not storage made by this call")
		}
	}
	if n == 0 {
		c.Unknown("exec.kept-fresh", "(*Query).exec", c.P.Pos(exec.Pos()), "no append inside the scan loop")
	}
}

// ORDER BY compares projected values with compare.Compare and recognises NULL as the untyped nil:
// the value ordering (C15 family) and the unwrapper's NULL handling are necessary for C05 as well.
func init() {
	register("C05", ruleC15Range, ruleC15Trichotomy, ruleC15ExactDomain, ruleC15Dispatch, ruleC12UnwrapTable)
}

// a sanitised numeric argument is read back by the engine's literal evaluator: its table is part of C16's round trip
func init() { register("C16", ruleLiteralTable) }

func init() {
	register("C14", ruleResolveBeforeCompare)
	register("C05", ruleResolveBeforeCompare)
	register("C06", ruleResolveBeforeCompare)
}

// ruleResolveBeforeCompare: DISTINCT and ORDER BY never look at unresolved ASYNC placeholders.
func ruleResolveBeforeCompare(c *Ctx) {
	c.Doc("c14.resolve-before-compare", "(*Query).exec: on every success path on which duplicate elimination or ordering is active (query.distinct set, or a non-empty ORDER BY list), the query's wait group is awaited and its post-processors are run between the projection and the duplicate-elimination stage — those stages compare column values, and an ASYNC column holds a pointer placeholder until its post-processor ran")
	exec := c.P.Method(modPath, "Query", "exec")
	if exec == nil {
		c.Unknown("c14.resolve-before-compare", "(*Query).exec", "-", "anchor lost")
		return
	}
	scan := c.findExecScan(exec)
	if scan == nil {
		c.Unknown("c14.resolve-before-compare", "(*Query).exec", c.P.Pos(exec.Pos()), "anchor lost: no loop over query.from")
		return
	}
	// (two visits per block: a path runs one post-processor and still reaches the return)
	paths, err := scan.after(WalkCfg{MaxVisits: 2, MaxPaths: 20000})
	if err != nil {
		c.Unknown("c14.resolve-before-compare", "(*Query).exec", c.P.Pos(exec.Pos()), err.Error())
		return
	}
	var why []string
	nActive, nIdle := 0, 0
	postTwice := false
	for _, p := range paths {
		if p.Exit != "return" || len(p.Ret) != 2 || !p.Ret[1].Nil {
			continue
		}
		iSel, iDis := -1, -1
		for i, e := range p.Effects {
			if e.Kind == "call" && e.Callee == "ExecSelect" {
				iSel = i
			}
			if e.Kind == "call" && e.Callee == "ExecDistinct" && iDis < 0 {
				iDis = i
			}
		}
		if iSel < 0 || iDis < 0 || iDis < iSel {
			continue // exec.pipeline reports it
		}
		waited := false
		for _, e := range p.Effects[iSel:iDis] {
			if e.Kind == "call" && strings.HasSuffix(e.Callee, "sync.WaitGroup).Wait") && len(e.Args) == 1 && strings.Contains(e.Args[0].String(), ".wg") {
				waited = true
			}
		}
		if waited {
			nActive++
			// the post-processors run here run once: the list is emptied before exec hands over to the caller, whose own
			// run would otherwise evaluate an AWAITed call a second time
			ran, drained := false, false
			for _, e := range p.Effects[iSel:] {
				if e.Kind == "call" && e.Callee == "dyn" && len(e.Args) > 0 && strings.Contains(e.Args[0].String(), "postProcessors") {
					ran = true
				}
				if e.Kind == "store" && ran && len(e.Args) == 2 && e.Args[0].Op == "field" && e.Args[0].Name == "postProcessors" {
					v := e.Args[1]
					if v.Op == "const" && v.Name == "nil" || isFreshSliceTerm(v) || v.Op == "slice" && len(v.Args) == 4 && v.Args[2].String() == "c:0" {
						drained = true
					}
				}
			}
			if ran && !drained {
				postTwice = true
			}
			continue
		}
		// not awaited: the path must have established that neither stage is active
		distinctOff, orderEmpty := false, false
		for k, v := range p.Asg {
			if kt := p.KeyTerm[k]; kt != nil && kt.Op == "field" && kt.Name == "distinct" && !isTrueC(v) {
				distinctOff = true
			}
		}
		if p.final != nil {
			for k, r := range p.final.rng {
				if strings.Contains(k, "orderByDefinition") && r[1] == 0 {
					orderEmpty = true
				}
			}
		}
		if distinctOff && orderEmpty {
			nIdle++
			continue
		}
		why = append(why, fmt.Sprintf("a success path reaches duplicate elimination / ordering without awaiting the outstanding calls although the stages may be active (distinct known off: %v, ORDER BY known empty: %v): ASYNC columns are compared as pointer placeholders", distinctOff, orderEmpty))
	}
	if nActive == 0 {
		why = append(why, "no success path awaits the outstanding calls before duplicate elimination / ordering")
	}
	c.Check(len(why) == 0, "c14.resolve-before-compare", "(*Query).exec", c.P.Pos(exec.Pos()), fmt.Sprintf("%d paths await and resolve first, %d paths have both stages idle", nActive, nIdle), strings.Join(uniq(why), "; "))
	c.Check(!postTwice, "c14.resolve-before-compare", "(*Query).exec/run-once", c.P.Pos(exec.Pos()), "the post-processors run ahead of DISTINCT / ORDER BY are removed from the list before exec returns", "the post-processors that exec runs ahead of DISTINCT / ORDER BY stay on the list: the caller runs them again, and the one AWAIT registers evaluates its ASYNC call a second time (2N invocations for N rows)")
}

func init() {
	for _, p := range []string{"C01", "C02", "C03", "C06", "C07"} {
		register(p, ruleStageKeptFresh)
	}
}

// freshAppendRoot: the slice an append grows goes back, through loop phis and earlier appends, to storage made on the
// spot (make, an empty literal, nil); returns what else it may be.
func freshAppendRoot(v ssa.Value) string {
	bad := ""
	seen := map[ssa.Value]bool{}
	var root func(v ssa.Value)
	root = func(v ssa.Value) {
		if seen[v] || bad != "" {
			return
		}
		seen[v] = true
		switch x := v.(type) {
		case *ssa.Phi:
			for _, e := range x.Edges {
				root(e)
			}
		case *ssa.Call:
			if bi, isB := x.Call.Value.(*ssa.Builtin); isB && bi.Name() == "append" {
				root(x.Call.Args[0])
				return
			}
			bad = NewTB().Of(v).String()
		case *ssa.MakeSlice:
		case *ssa.Const:
			if !x.IsNil() {
				bad = x.String()
			}
		case *ssa.Slice:
			if _, isAl := x.X.(*ssa.Alloc); isAl {
				return
			}
			bad = NewTB().Of(v).String()
		case *ssa.Lookup:
			// the member list kept under a key of a map made by this call: nil at first, then what was appended
			if _, isMM := x.X.(*ssa.MakeMap); isMM {
				return
			}
			bad = NewTB().Of(v).String()
		case *ssa.Extract:
			if lk, isLk := x.Tuple.(*ssa.Lookup); isLk && x.Index == 0 {
				if _, isMM := lk.X.(*ssa.MakeMap); isMM {
					return
				}
			}
			bad = NewTB().Of(v).String()
		case *ssa.UnOp:
			// the member list kept in a field of a record made by this call (a group = {key, rows} held in a local
			// list): what the field holds is whatever this function stores into that field of such records
			if fa, isFA := x.X.(*ssa.FieldAddr); isFA && x.Op == token.MUL && recordMadeHere(fa.X, 0) {
				fn := x.Parent()
				allInstrs(fn, func(_ *ssa.BasicBlock, in ssa.Instruction) {
					st, ok := in.(*ssa.Store)
					if !ok {
						return
					}
					if fa2, ok := st.Addr.(*ssa.FieldAddr); ok && fa2.Field == fa.Field && types.Identical(fa2.X.Type(), fa.X.Type()) {
						root(st.Val)
					}
				})
				return
			}
			bad = NewTB().Of(v).String()
		default:
			bad = NewTB().Of(v).String()
		}
	}
	root(v)
	return bad
}

// recordMadeHere: the pointer denotes a record allocated by the function itself — a composite literal, or an element
// of a local list that only ever receives such records.
func recordMadeHere(p ssa.Value, depth int) bool {
	if depth > 6 {
		return false
	}
	switch x := p.(type) {
	case *ssa.Alloc:
		return true
	case *ssa.Const:
		return x.IsNil()
	case *ssa.Phi:
		for _, e := range x.Edges {
			if e != ssa.Value(x) && !recordMadeHere(e, depth+1) {
				return false
			}
		}
		return true
	case *ssa.UnOp:
		if x.Op != token.MUL {
			return false
		}
		if ia, ok := x.X.(*ssa.IndexAddr); ok {
			return listOfRecordsMadeHere(ia.X, map[ssa.Value]bool{}, depth+1)
		}
	}
	return false
}

func listOfRecordsMadeHere(s ssa.Value, seen map[ssa.Value]bool, depth int) bool {
	if seen[s] {
		return true
	}
	seen[s] = true
	if depth > 8 {
		return false
	}
	switch x := s.(type) {
	case *ssa.MakeSlice:
		return true
	case *ssa.Const:
		return x.IsNil()
	case *ssa.Phi:
		for _, e := range x.Edges {
			if !listOfRecordsMadeHere(e, seen, depth+1) {
				return false
			}
		}
		return true
	case *ssa.Slice:
		if al, ok := x.X.(*ssa.Alloc); ok {
			// the backing array of a literal or of an append's argument list: every element stored into it
			okAll := true
			if al.Referrers() != nil {
				for _, r := range *al.Referrers() {
					ia, ok := r.(*ssa.IndexAddr)
					if !ok || ia.Referrers() == nil {
						continue
					}
					for _, u := range *ia.Referrers() {
						if st, ok := u.(*ssa.Store); ok && st.Addr == ssa.Value(ia) && !recordMadeHere(st.Val, depth+1) {
							okAll = false
						}
					}
				}
			}
			return okAll
		}
		return listOfRecordsMadeHere(x.X, seen, depth+1)
	case *ssa.Call:
		if bi, ok := x.Call.Value.(*ssa.Builtin); ok && bi.Name() == "append" && len(x.Call.Args) == 2 {
			return listOfRecordsMadeHere(x.Call.Args[0], seen, depth+1) && listOfRecordsMadeHere(x.Call.Args[1], seen, depth+1)
		}
	}
	return false
}

// ruleStageKeptFresh: the stages of the pipeline collect their output in storage of their own.
func ruleStageKeptFresh(c *Ctx) {
	c.Doc("stage.kept-fresh", "the pipeline stages that build a new row list (ExecSelect, ExecDistinct, ExecGroupBy) append onto storage made by that very call — never onto a reslice of their input: the input of a stage is the previous stage's list or, for a query without FROM rows of its own (`dual`, a source handed through unfiltered), the query's own source, the rows a CTE memoised or the caller's array; writing the output over it makes the second reader of the same table (a CTE read twice, a Query executed twice) see the first reader's projection")
	n := 0
	for _, name := range []string{"ExecSelect", "ExecDistinct", "ExecGroupBy"} {
		f := c.P.Func(modPath, name)
		if f == nil {
			c.Unknown("stage.kept-fresh", name, "-", "anchor lost")
			continue
		}
		c.Fn(name)
		k := 0
		deepInstrs(f, func(g *ssa.Function, _ *TB, _ *ssa.BasicBlock, in ssa.Instruction) {
			call, ok := in.(*ssa.Call)
			if !ok {
				return
			}
			if bi, isB := call.Call.Value.(*ssa.Builtin); !isB || bi.Name() != "append" {
				return
			}
			if _, isSl := call.Type().Underlying().(*types.Slice); !isSl || shortType(call.Type()) != "[]any" {
				return
			}
			n++
			k++
			bad := freshAppendRoot(call.Call.Args[0])
			c.Check(bad == "", "stage.kept-fresh", fmt.Sprintf("%s/append#%d", name, k), c.P.Pos(call.Pos()), "grows storage made by this call", "the stage's output is appended onto "+bad+", which is not storage made by this call: the stage overwrites its own input")
		})
	}
	if n == 0 {
		c.Unknown("stage.kept-fresh", "stages", "-", "no append in the stage functions")
	}
}

// Cross registrations found necessary by mutation round 4 (a necessary condition of one property that lived only in
// another property's rule set). register() ignores a rule that is already registered for the property.
func init() {
	// a Query field the per-dimension copy does not carry changes how WHERE / projection / scoping behave inside inner arrays
	register("C01", ruleC08CopyFields)
	register("C02", ruleC08CopyFields)
	register("C07", ruleC08CopyFields)
	// a column reference is read by the selector reader: its step dispatch and its cache are part of every clause that reads columns
	register("C01", ruleC09StepDispatch)
	register("C02", ruleC09StepDispatch)
	for _, p := range []string{"C04", "C05", "C06", "C07"} {
		register(p, ruleC09CacheKey)
	}
	// the unwrapper is how a selector reaches the data (`a.b` descends, a literal key does not shadow it)
	register("C09", ruleC12UnwrapTable)
	// nested statements see the data they were prepared over (Wrapped applies once, at the entry)
	register("C02", ruleC17PrepareData)
	register("C07", ruleC17PrepareData)
	// who may call exec(): a union branch that runs exec() itself hands unresolved ASYNC slots to DISTINCT
	register("C06", ruleC12ExecCallers)
	register("C14", ruleC12ExecCallers)
	// the scan and the stage chain of exec are what makes a CTE read twice equal its materialised rows, and what runs every row's SETVAR
	register("C07", ruleExecPipeline, ruleExecKeptFresh)
	register("C20", ruleExecPipeline)
	register("C14", ruleExecPipeline)
	// marker-returning immediate functions must be refused under ASYNC/SPIN whatever the spelling of their name
	register("C12", ruleC14Immediate)
	// built-in functions keep no package-level state: that is also why ASYNC.f(x) equals f(x) and concurrent queries do not interfere
	register("C14", ruleC18Pure)
	register("C13", ruleC18Pure)
}

// Cross registrations found necessary by mutation round 5 (combinations of features: the necessary condition lived
// only in the rule set of the other feature's property).
func init() {
	// a wrapper value (*float64, NeutalString, ColumnName) that reaches a comparison is compared by its address text:
	// IN / NOT IN lists and every operand of Compare are plain values
	register("C01", ruleC12SinksUnwrapped)
	register("C15", ruleC12SinksUnwrapped)
	// the option rewriters hand the parser the query the caller wrote: a quote state lost in them changes which rows
	// WHERE keeps and what a select item computes, and which selector steps `[...]` stand for
	for _, p := range []string{"C01", "C02", "C09"} {
		register(p, ruleC17QuoteStates, ruleC17TerminationByte, ruleC17OptionOrder, ruleC17EscapeSkip, ruleC17ByteCopy)
	}
	// the sides of a join are built by the FROM builder and its alias wrapper (fresh rows, one wrapper per row)
	register("C04", ruleC07FromArms, ruleC07Alias)
	// the text of a key is the decimal text of the number, whatever its magnitude
	register("C04", ruleC18TextOf)
	register("C15", ruleC18TextOf)
	// a CTE body is evaluated once: its ASYNC/ONCE calls run once, its SETVARs run once
	register("C14", ruleC07CteMemo)
	register("C20", ruleC07CteMemo)
	// HAVING, MIN/MAX and the comparison operators order values through compare.Compare: every numeric kind is a number
	register("C03", ruleC15Dispatch)
	register("C01", ruleC15Dispatch)
	// results do not depend on what the process evaluated before, nor on unresolved placeholders
	register("C12", ruleC18Pure, ruleResolveBeforeCompare, ruleC08CopyFields)
	// a sanitized argument arrives as a literal node: the dispatcher hands it to the literal evaluator and returns that
	// value (no memo keyed by the bare text, which forgets the literal's kind); under PostgresEscapingDialect the quoted
	// argument passes through the quote rewriter byte for byte
	register("C16", ruleExprDispatch, ruleC17QuoteStates, ruleC17TerminationByte, ruleC17EscapeSkip, ruleC17ByteCopy)
	// "an error for an index outside the array", "rejects a wrong argument count with an error": the error a built-in
	// returns has to leave the call strategies of FunExpr as an error, with or without an error handler installed
	register("C18", ruleC19NoDrop)
	// the goroutines of the call strategies are counted and signalled in pairs: SPINASYNC without Done never finishes
	register("C14", ruleC10GoClosures)
	// "stays usable afterwards": a CTE whose evaluation failed is evaluated again by the next execution
	register("C19", ruleC07CteMemo)
	// round 6: a panic in the sanitizer escapes the API (it has no recover of its own): its index discipline and the bound
	// of the placeholder number are crash conditions too
	register("C10", ruleC16IndexTwoSided, ruleC16LexerTokenizer)
	// the select list of a nested query is the statement's own: SETVARs in an EXISTS subquery run (def.writers)
	register("C20", ruleDefWriters)
}

func init() {
	register("C19", ruleDualWhere)
	register("C01", ruleDualWhere)
	register("C02", ruleDualWhere)
	register("C20", ruleDualWhere)
}

// ruleDualWhere: the FROM-less arm of exec does not skip the WHERE clause.
func ruleDualWhere(c *Ctx) {
	c.Doc("exec.dual-where", "(*Query).exec, FROM-less arm (`FROM dual`): the row passes through the WHERE evaluator before it is projected — the arm used to return straight after ExecSelect, so `SELECT 1 AS x FROM dual WHERE RAISE('boom')` (or a type error, or plain `WHERE false`) returned the row and no error: a step that fails must surface as an error, not be skipped")
	exec := c.P.Method(modPath, "Query", "exec")
	where := c.P.Func(modPath, "ExecWhere")
	if exec == nil || where == nil {
		c.Unknown("exec.dual-where", "(*Query).exec", "-", "anchor lost")
		return
	}
	c.Fn("(*Query).exec")
	underDual := func(b *ssa.BasicBlock) bool {
		for _, fc := range factsAt(b) {
			if ft := NewTB().Of(fc.cond); ft.Op == "field" && ft.Name == "dual" && fc.truth {
				return true
			}
		}
		return false
	}
	arm, filtered := false, false
	var pos string
	deepInstrs(exec, func(g *ssa.Function, _ *TB, b *ssa.BasicBlock, in ssa.Instruction) {
		call, ok := in.(*ssa.Call)
		if !ok {
			return
		}
		inArm := g == exec && underDual(b)
		if g != exec {
			// a helper of the arm: called from a block under the dual fact
			allInstrs(exec, func(cb *ssa.BasicBlock, cin ssa.Instruction) {
				if cc, isC := cin.(*ssa.Call); isC && cc.Common().StaticCallee() == g && underDual(cb) {
					inArm = true
				}
			})
		}
		if !inArm {
			return
		}
		arm = true
		if pos == "" {
			pos = c.P.Pos(call.Pos())
		}
		if call.Common().StaticCallee() == where {
			filtered = true
		}
	})
	if !arm {
		c.PassTrivial("exec.dual-where", "(*Query).exec/dual-arm", c.P.Pos(exec.Pos()), "exec has no separate FROM-less arm: dual rows go through the ordinary scan")
		return
	}
	c.Check(filtered, "exec.dual-where", "(*Query).exec/dual-arm", pos, "the FROM-less arm calls the WHERE evaluator", "the FROM-less arm of exec projects its row without evaluating WHERE: a failing (or false) predicate of a `FROM dual` query is skipped, the row is returned and no error is reported")
	if !filtered {
		return
	}
	// ... and its verdict decides: on no path of the arm is a row kept (appended to what is projected) after WHERE said no
	var entry, from *ssa.BasicBlock
	for _, b := range exec.Blocks {
		if len(b.Instrs) == 0 {
			continue
		}
		if iff, ok := b.Instrs[len(b.Instrs)-1].(*ssa.If); ok {
			if ft := NewTB().Of(iff.Cond); ft.Op == "field" && ft.Name == "dual" {
				entry, from = b.Succs[0], b
			}
		}
	}
	if entry == nil {
		c.Unknown("exec.dual-where", "(*Query).exec/dual-arm/verdict", c.P.Pos(exec.Pos()), "anchor lost: no branch on the dual flag")
		return
	}
	paths, err := WalkFrom(exec, entry, from, WalkCfg{MaxVisits: 2, MaxPaths: 4000})
	if err != nil {
		c.Unknown("exec.dual-where", "(*Query).exec/dual-arm/verdict", c.P.Pos(exec.Pos()), err.Error())
		return
	}
	bad := ""
	for _, p := range paths {
		if p.Exit != "return" {
			continue
		}
		refused := false
		for _, e := range p.Effects {
			if e.Kind == "call" && e.Callee == "ExecWhere" {
				refused = false
				if v, isV := e.Instr.(ssa.Value); isV {
					for _, k := range p.Order {
						kt := p.KeyTerm[k]
						if kt != nil && kt.Op == "ext" && kt.Name == "0" && len(kt.Args) == 1 && kt.Args[0].V == v {
							if val, _ := p.Assumed(k); !val {
								refused = true
							}
						}
					}
				}
			}
			if refused && e.Kind == "call" && e.Callee == "builtin:append" {
				bad = "a row is kept although the WHERE evaluator answered false (" + p.String() + ")"
			}
		}
	}
	c.Check(bad == "", "exec.dual-where", "(*Query).exec/dual-arm/verdict", c.P.Pos(entry.Instrs[0].Pos()), "a row the WHERE evaluator refuses is not projected", bad)
	// ... and what is projected is the list of kept rows, not the source the loop read (round 11: two independent agents wrote
	// `ExecSelect(query, query.from)` for `ExecSelect(query, from)` — the refused row of dual is projected, its SETVAR runs)
	nProj, badProj := 0, ""
	deepInstrs(exec, func(g *ssa.Function, tb *TB, b *ssa.BasicBlock, in ssa.Instruction) {
		call, ok := in.(*ssa.Call)
		if !ok || g != exec || !underDual(b) {
			return
		}
		if sc := call.Common().StaticCallee(); sc == nil || fnShort(sc) != "ExecSelect" || len(call.Common().Args) != 2 {
			return
		}
		nProj++
		at := tb.Of(call.Common().Args[1])
		src := false
		at.Walk(func(x *Term) bool {
			if x.Op == "phi" || x == at {
				if x.Op == "field" && x.Name == "from" {
					src = true
				}
				return true
			}
			return false
		})
		if src {
			badProj = "the FROM-less arm projects query.from, the rows the WHERE loop read, at " + c.P.Pos(call.Pos()) + ": the row WHERE refused is projected all the same (its select list runs, SETVAR included) and returned"
		}
	})
	if nProj > 0 {
		c.Check(badProj == "", "exec.dual-where", "(*Query).exec/dual-arm/projected", c.P.Pos(entry.Instrs[0].Pos()), "the projection receives the kept rows, not the source list", badProj)
	}
}

func init() {
	register("C19", ruleHavingNeedsGroup)
	register("C03", ruleHavingNeedsGroup)
}

// ruleHavingNeedsGroup: a HAVING clause is never silently skipped.
func ruleHavingNeedsGroup(c *Ctx) {
	c.Doc("build.having-needs-group", "HAVING is evaluated by the grouping stage, once per group; that stage does nothing without GROUP BY. The SELECT builder therefore refuses a HAVING clause when there are no grouping columns (an error path under `Having != nil` and an empty group definition) — otherwise `SELECT SUM(v) AS s FROM t HAVING RAISE('boom')` (or a HAVING that is false) returns its row and no error: the clause is skipped")
	f := c.theFunc("SELECT builder", "*sqlparser.Select", "BuildSelect")
	if f == nil {
		c.Unknown("build.having-needs-group", "BuildSelect", "-", "anchor lost")
		return
	}
	// if the grouping stage itself evaluates HAVING without grouping columns, nothing is skipped
	if g := c.groupByFunc(); g != nil {
		evaluatesAlways := true
		allInstrs(g, func(b *ssa.BasicBlock, in ssa.Instruction) {
			if r, ok := in.(*ssa.Return); ok && len(r.Results) == 2 {
				if _, isParam := r.Results[0].(*ssa.Parameter); isParam {
					evaluatesAlways = false // hands its input back on some path (no grouping columns)
				}
			}
		})
		if evaluatesAlways {
			c.PassTrivial("build.having-needs-group", c.P.funcKey(f), c.P.Pos(f.Pos()), "the grouping stage never hands its input back unexamined")
			return
		}
	}
	paths, err := WalkFunc(f, WalkCfg{MaxVisits: 1, MaxPaths: 6000})
	if err != nil {
		c.Unknown("build.having-needs-group", c.P.funcKey(f), c.P.Pos(f.Pos()), err.Error())
		return
	}
	refused := false
	for _, p := range paths {
		if p.Exit != "return" || len(p.Ret) != 1 || p.Ret[0].Nil {
			continue
		}
		having, group := false, false
		for _, k := range p.Order {
			kt := p.KeyTerm[k]
			if kt == nil {
				continue
			}
			s := kt.String()
			if strings.Contains(s, ".Having") {
				having = true
			}
			if strings.Contains(s, "groupDefinition") || strings.Contains(s, ".GroupBy") {
				group = true
			}
		}
		if having && group {
			refused = true
		}
	}
	c.Check(refused, "build.having-needs-group", c.P.funcKey(f), c.P.Pos(f.Pos()), "HAVING without grouping columns is an error", "the SELECT builder accepts HAVING without GROUP BY, and the grouping stage (the only place HAVING is evaluated) returns its input untouched when there are no grouping columns: the clause is skipped — a failing or false HAVING changes nothing and reports nothing")
}

// Round 7 cross registrations. A union branch that fails must fail the union (C06: "A UNION ALL B returns the rows of A
// followed by the rows of B" has no reading under which a failing B contributes nothing); the comparison of two numbers is a
// trichotomy for CASE WHEN and the arithmetic comparisons of a select list as well (C02: `v % d = 0` with a NaN operand);
// a goroutine of a PARALLEL join that blocks on a full channel is a deadlock (C13); the argument list of a nested call
// must not be the enclosing call's (C20: SETVAR('b', GETVAR('a'))), and a NULL stored by SETVAR is the untyped NULL (C20).
func init() {
	register("C06", ruleC06BranchErrors)
	register("C02", ruleC15Trichotomy)
	register("C13", ruleC10BoundedSend)
	register("C20", ruleC18ArgReader, ruleC12UnwrapTable)
}

// ruleC06BranchErrors: the error discipline of C19 restricted to the union builder and the function that runs a branch.
func ruleC06BranchErrors(c *Ctx) {
	c.Doc("c06.branch-errors", "every call site inside the union builder and the branch executor (the functions of package genql whose name mentions Union, closures included) whose callee can return a non-nil error: on every path on which the error is non-nil the enclosing function ends by returning a non-nil error (same idiom table as c19.no-drop) — a branch that fails is never taken for a branch without rows")
	n := 0
	for _, s := range c.P.errSites() {
		root := s.fn
		for root.Parent() != nil {
			root = root.Parent()
		}
		if funcPkgPath(root) != modPath || !strings.Contains(fnShort(root), "Union") {
			continue
		}
		n++
		c.Fn(c.P.funcKey(s.fn))
		v := c.P.checkErrSite(s)
		pos := c.P.Pos(s.call.Pos())
		switch v.status {
		case "ok":
			c.Pass("c06.branch-errors", s.key, pos, v.idiom)
		case "undecided":
			c.Unknown("c06.branch-errors", s.key, pos, v.detail)
		default:
			c.Fail("c06.branch-errors", s.key, pos, v.status+": "+v.detail)
		}
	}
	if n < 4 {
		c.Unknown("c06.branch-errors", "union functions", "-", fmt.Sprintf("only %d error-returning call sites found in the union builder and the branch executor (at least 4 confirmed by reading)", n))
	}
}

// Round 8 cross registrations: `SELECT *` over the FROM-less row of a query with a WITH hands out whatever PlainDocument
// lets through (C07: a CTE is a table, never a column of dual); a table aliased to its own name is still aliased (C02:
// `items.price` on `FROM items AS items` reads the price).
func init() {
	register("C07", ruleC12PlainDocumentOnly)
	register("C02", ruleC07FromArms)
}

func ruleC12PlainDocumentOnly(c *Ctx) { c.plainDocument() }
