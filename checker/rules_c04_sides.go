package main

import (
	"fmt"
	"os"
	"sort"
	"strings"

	"golang.org/x/tools/go/ssa"
)

// Round 11 (own probes while the independent agents worked): the matcher bodies were covered for WHEN a row is emitted
// (c04.emit-guard, c04.hash-matcher) and for the freshness of the emitted map (c04.fresh-row), not for WHAT flows into it.
// Seven of eight same-typed slips in the two matchers passed every check: the rows of the right catalog looked up under
// the left key, the right bucket copied under the left identifier, the NULL pad written under the left identifier, the
// left key map copied twice.

func init() { register("C04", ruleC04EmitSides) }

type sideSet struct{ L, R bool }

func (s sideSet) String() string {
	switch {
	case s.L && s.R:
		return "both sides"
	case s.L:
		return "left"
	case s.R:
		return "right"
	}
	return "neither side"
}

// matcherSides classifies terms of one matcher by the join side they come from.
type matcherSides struct {
	catL, catR string // names of the two catalog parameters (first and second parameter of type *HashedTable)
	keyMapL    string // name of the parameter that carries the left key map (nested matcher), or ""
}

// of: the side(s) a value comes from. The key of a lookup or an index is not part of the value's origin.
func (m *matcherSides) of(t *Term) sideSet {
	var s sideSet
	var walk func(t *Term)
	walk = func(t *Term) {
		if t == nil {
			return
		}
		switch t.Op {
		case "field":
			switch t.Name {
			case "Rows", "Keys":
				if len(t.Args) == 1 && t.Args[0].Op == "param" {
					if t.Args[0].Name == m.catL {
						s.L = true
					}
					if t.Args[0].Name == m.catR {
						s.R = true
					}
					return
				}
			case "leftIdent", "left":
				s.L = true
				return
			case "rightIdent", "right":
				s.R = true
				return
			}
		case "param":
			if m.keyMapL != "" && t.Name == m.keyMapL {
				s.L = true
			}
			return
		case "lookup", "lookupok", "index":
			if len(t.Args) > 0 {
				walk(t.Args[0])
			}
			return
		}
		for _, a := range t.Args {
			walk(a)
		}
	}
	walk(t)
	return s
}

// kind of a copied source: a row of a bucket, or the key map of a bucket (the key of a lookup is not part of the origin).
func (m *matcherSides) kind(t *Term) string {
	rows, keys := false, false
	var walk func(t *Term)
	walk = func(t *Term) {
		if t == nil {
			return
		}
		switch t.Op {
		case "field":
			if t.Name == "Rows" {
				rows = true
			}
			if t.Name == "Keys" {
				keys = true
			}
		case "param":
			if m.keyMapL != "" && t.Name == m.keyMapL {
				keys = true
			}
		case "lookup", "lookupok", "index":
			if len(t.Args) > 0 {
				walk(t.Args[0])
			}
			return
		}
		for _, a := range t.Args {
			walk(a)
		}
	}
	walk(t)
	switch {
	case rows && !keys:
		return "row"
	case keys && !rows:
		return "keymap"
	}
	return ""
}

func ruleC04EmitSides(c *Ctx) {
	c.Doc("c04.emit-sides", "both matchers, what flows into a row (every instruction of the matcher and of the helpers it calls, parameters resolved): (1) a catalog's bucket maps (Rows, Keys) are read under a key of the same side — the matcher's own key parameter for the driving (left) catalog, the key of the scan over the right catalog for the right one (the hash matcher's one key serves both); (2) the bucket handed to Copy and the identifier it is stored under belong to the same side; (3) every map that receives rows, buckets or key maps receives something of the left side and something of the right side, where the NULL pad — stored under the right identifier, never the left — stands for the right side; and when the right side contributes more than the pad, each kind of content (row, bucket, key map) that one side contributes the other contributes as well")
	for _, name := range []string{"JoinMatchFunc", "HashJoinMatchFunc"} {
		f := c.joinMethod(name)
		if f == nil {
			c.Unknown("c04.emit-sides", name, "-", "anchor lost")
			continue
		}
		key := c.P.funcKey(f)
		pos := c.P.Pos(f.Pos())
		ms := &matcherSides{}
		for _, p := range f.Params {
			switch shortType(p.Type()) {
			case "*HashedTable":
				if ms.catL == "" {
					ms.catL = p.Name()
				} else if ms.catR == "" {
					ms.catR = p.Name()
				}
			case "*map[string]any", "*Map":
				if ms.keyMapL == "" {
					ms.keyMapL = p.Name()
				}
			}
		}
		if ms.catL == "" || ms.catR == "" {
			c.Unknown("c04.emit-sides", key, pos, "anchor lost: the matcher does not take the two catalogs")
			continue
		}
		// does the matcher scan the right catalog (nested loop) or address it by the one key (hash)?
		scansRight := false
		type write struct {
			kind string
			side sideSet
			pos  string
		}
		writes := map[ssa.Value][]write{}
		var order []ssa.Value
		addWrite := func(tb *TB, dst ssa.Value, w write) {
			dt := tb.Of(dst)
			var tgts []ssa.Value
			dt.Walk(func(x *Term) bool {
				if x.Op == "make" && strings.HasPrefix(x.Name, "map@") && x.V != nil {
					tgts = append(tgts, x.V)
				}
				return x.Op == "phi" || x == dt
			})
			for _, tg := range tgts {
				if _, seen := writes[tg]; !seen {
					order = append(order, tg)
				}
				writes[tg] = append(writes[tg], w)
			}
		}
		var why []string
		nLookups, nCopyCalls := 0, 0
		type lk struct {
			m, k *Term
			pos  string
		}
		var lookups []lk
		deepInstrs(f, func(g *ssa.Function, tb *TB, b *ssa.BasicBlock, in ssa.Instruction) {
			switch x := in.(type) {
			case *ssa.Range:
				if s := ms.of(tb.Of(x.X)); s.R && !s.L {
					scansRight = true
				}
			case *ssa.Lookup:
				lookups = append(lookups, lk{tb.Of(x.X), tb.Of(x.Index), c.P.Pos(x.Pos())})
			case *ssa.MapUpdate:
				if cst, isC := x.Value.(*ssa.Const); isC && cst.Value == nil {
					kt := tb.Of(x.Key)
					s := ms.of(kt)
					if s.L || s.R {
						if s.L {
							why = append(why, "the NULL pad at "+c.P.Pos(x.Pos())+" is stored under the left identifier: the left side of an unmatched row is erased and the right side is absent instead of NULL")
						}
						addWrite(tb, x.Map, write{"pad", s, c.P.Pos(x.Pos())})
					}
				}
			case *ssa.Call:
				cal := x.Common().StaticCallee()
				if cal == nil {
					return
				}
				o := cal
				if og := cal.Origin(); og != nil {
					o = og
				}
				if o.Pkg != nil && o.Pkg.Pkg.Path() == "maps" && o.Name() == "Copy" && len(x.Common().Args) == 2 {
					st := tb.Of(x.Common().Args[1])
					s, k := ms.of(st), ms.kind(st)
					if os.Getenv("GENQL_DEBUG_SIDES") != "" {
						fmt.Fprintf(os.Stderr, "maps.Copy at %s src=%s side=%s kind=%s\n", c.P.Pos(x.Pos()), st, s, k)
					}
					if (s.L || s.R) && k != "" {
						addWrite(tb, x.Common().Args[0], write{k, s, c.P.Pos(x.Pos())})
					}
					return
				}
				if strings.HasPrefix(funcPkgPath(cal), modPath) && fnShort(cal) == "Copy" && len(x.Common().Args) == 3 {
					nCopyCalls++
					ts, is := ms.of(tb.Of(x.Common().Args[1])), ms.of(tb.Of(x.Common().Args[2]))
					switch {
					case !(ts.L || ts.R) || !(is.L || is.R):
						// a bucket or an identifier this rule cannot place: no verdict on the pairing
					case ts != is:
						why = append(why, fmt.Sprintf("Copy at %s stores a bucket of the %s under the identifier of the %s", c.P.Pos(x.Pos()), ts, is))
					}
					if ts.L || ts.R {
						addWrite(tb, x.Common().Args[0], write{"bucket", ts, c.P.Pos(x.Pos())})
					}
				}
			}
		})
		for _, l := range lookups {
			if !(l.m.Op == "field" && (l.m.Name == "Rows" || l.m.Name == "Keys") && len(l.m.Args) == 1 && l.m.Args[0].Op == "param") {
				continue
			}
			cat := l.m.Args[0].Name
			if cat != ms.catL && cat != ms.catR {
				continue
			}
			// the key: a plain string parameter (the matcher's own key) or the key of a scan over a catalog
			var keySide sideSet
			switch {
			case l.k.Op == "param":
				keySide = sideSet{L: true, R: !scansRight}
			default:
				ks := ms.of(l.k)
				if !l.k.Contains(func(x *Term) bool { return x.Op == "next" }) || !(ks.L || ks.R) {
					continue
				}
				keySide = ks
			}
			nLookups++
			if cat == ms.catL && !keySide.L || cat == ms.catR && !keySide.R {
				side := "left"
				if cat == ms.catR {
					side = "right"
				}
				why = append(why, fmt.Sprintf("at %s a bucket of the %s catalog is read under a key of the other side (%s)", l.pos, side, l.k))
			}
		}
		nMaps := 0
		for _, mv := range order {
			ws := writes[mv]
			var s sideSet
			nonPadR := false
			kinds := map[string]*sideSet{}
			for _, w := range ws {
				if w.kind == "pad" {
					if w.side.R {
						s.R = true
					}
					continue
				}
				s.L = s.L || w.side.L
				s.R = s.R || w.side.R
				if w.side.R {
					nonPadR = true
				}
				ks := kinds[w.kind]
				if ks == nil {
					ks = &sideSet{}
					kinds[w.kind] = ks
				}
				ks.L = ks.L || w.side.L
				ks.R = ks.R || w.side.R
			}
			nMaps++
			at := c.P.Pos(mv.Pos())
			if !s.L {
				why = append(why, "the map made at "+at+" receives nothing of the left side")
			}
			if !s.R {
				why = append(why, "the map made at "+at+" receives nothing of the right side (no row, bucket, key map or NULL pad)")
			}
			if nonPadR {
				var ks []string
				for k := range kinds {
					ks = append(ks, k)
				}
				sort.Strings(ks)
				for _, k := range ks {
					if v := kinds[k]; v.L != v.R {
						have, miss := "left", "right"
						if v.R {
							have, miss = "right", "left"
						}
						why = append(why, fmt.Sprintf("the map made at %s receives the %s of the %s side and not of the %s side", at, k, have, miss))
					}
				}
			}
		}
		if nLookups < 2 || nMaps < 2 {
			c.Unknown("c04.emit-sides", key, pos, fmt.Sprintf("inventory: %d bucket reads and %d filled maps recognised (at least 2 of each on the tree as read)", nLookups, nMaps))
			continue
		}
		c.Check(len(why) == 0, "c04.emit-sides", key, pos, fmt.Sprintf("%d bucket reads under a key of their own side, %d Copy calls with bucket and identifier of one side, %d maps filled from both sides (pad under the right identifier)", nLookups, nCopyCalls, nMaps), strings.Join(uniq(why), "; "))
	}
}
