package main

import (
	"fmt"
	"go/constant"
	"go/types"
	"strings"

	"golang.org/x/tools/go/ssa"
)

func init() {
	register("C04", ruleC04EmitGuard, ruleC04HashMatcher, ruleC04KeyAlignment, ruleC04KeyEncoding, ruleC04FreshRows, ruleC04Strategy, ruleC04Analyze, ruleC04SideSwap,
		// PARALLEL variants: lock/wait discipline (shared with C13/C10)
		ruleC13CapturedVars, ruleC10GoClosures)
}

func (c *Ctx) joinMethod(name string) *ssa.Function {
	f := c.P.Method(modPath, "Join", name)
	if f != nil {
		c.Fn(c.P.funcKey(f))
	}
	return f
}

// nestedMatcher: the method of Join that evaluates the ON expression per pair of keys.
func (c *Ctx) nestedMatcher() *ssa.Function {
	var pick *ssa.Function
	for _, f := range c.P.pkgFuncs(modPath) {
		if f.Parent() != nil || f.Signature.Recv() == nil || !isNamedType(f.Signature.Recv().Type(), modPath, "Join") {
			continue
		}
		evals := false
		allInstrs(f, func(_ *ssa.BasicBlock, in ssa.Instruction) {
			if call, ok := in.(*ssa.Call); ok && call.Common().StaticCallee() != nil && call.Common().StaticCallee().Name() == "Expr" {
				for _, a := range call.Common().Args {
					if t := NewTB().Of(a); t.Op == "field" && t.Name == "joinExpr" {
						evals = true
					}
				}
			}
		})
		if evals {
			pick = f
		}
	}
	if pick != nil {
		c.Anchor("nested-loop matcher", c.P.funcKey(pick)+" "+c.P.Pos(pick.Pos()))
		c.Fn(c.P.funcKey(pick))
	}
	return pick
}

func isAppendOf(e Effect) bool { return e.Kind == "call" && e.Callee == "builtin:append" }

func ruleC04EmitGuard(c *Ctx) {
	c.Doc("c04.emit-guard", "nested-loop matcher: within one step of the scan over the right keys, rows are emitted only when the ON expression evaluated on (left key, right key) is true; after the scan, the NULL-padded rows of the left key are emitted exactly when no partner was found and the join is not INNER (decision table over on / matched / inner); ON errors and non-boolean ON values end the match with an error and ok=false")
	c.NotDecidedClause("C04: multiset equality with a reference join on concrete tables; injectivity of the textual %v+\"-\" bucket key; schedule independence beyond the lock/wait discipline")
	f := c.nestedMatcher()
	if f == nil {
		c.Unknown("c04.emit-guard", "JoinMatchFunc", "-", "anchor lost: no Join method evaluates joinExpr")
		return
	}
	key := c.P.funcKey(f)
	// the scan loop: a map range whose body evaluates the ON expression
	var scan *ssa.Next
	for _, nx := range mapRangeNexts(f) {
		inBody := false
		allInstrs(f, func(b *ssa.BasicBlock, in ssa.Instruction) {
			if call, ok := in.(*ssa.Call); ok && call.Common().StaticCallee() != nil && call.Common().StaticCallee().Name() == "Expr" && inLoopOf(nx, b) {
				inBody = true
			}
		})
		if inBody {
			scan = nx
		}
	}
	if scan == nil {
		c.Unknown("c04.emit-guard", key, c.P.Pos(f.Pos()), "anchor lost: no scan over the right keys evaluating ON")
		return
	}
	h := scan.Block()
	body := h.Succs[0]
	onAtom := Atom{Name: "on", Dom: boolDom, Match: func(t *Term) bool {
		return t.Op == "ext" && t.Name == "0" && t.Args[0].Op == "assertok" && t.Args[0].Name == "bool" && strings.Contains(t.Args[0].Args[0].String(), "joinExpr")
	}}
	innerAtom := Atom{Name: "inner", Dom: boolDom, Match: func(t *Term) bool {
		return t.Op == "call" && strings.HasSuffix(t.Name, "IsInner")
	}}
	seen := map[string]string{}
	dom := func(t *Term) []constant.Value {
		for _, a := range []Atom{onAtom, innerAtom} {
			if a.Match(t) {
				seen[t.String()] = a.Name
				return a.Dom
			}
		}
		return nil
	}
	paths, err := WalkFrom(f, body, h, WalkCfg{StopAt: func(b *ssa.BasicBlock) bool { return b == h }, MaxVisits: 2, MaxPaths: 8000, Domain: dom})
	if err != nil {
		c.Unknown("c04.emit-guard", key, c.P.Pos(f.Pos()), err.Error())
		return
	}
	var why []string
	nT, nF := 0, 0
	for _, p := range paths {
		if p.Exit == "cut" {
			continue
		}
		var on constant.Value
		for k, v := range p.Asg {
			if seen[k] == "on" {
				on = v
			}
		}
		appends := 0
		for _, e := range p.Effects {
			if isAppendOf(e) {
				appends++
			}
		}
		if on == nil {
			// error / non-boolean path: must return ok=false with an error
			if p.Exit == "return" && len(p.Ret) == 3 {
				if p.Ret[2].Nil || p.Ret[0].C == nil || isTrueC(p.Ret[0].C) {
					why = append(why, "a failing ON evaluation returns ok="+avString(p.Ret[0])+" err="+avString(p.Ret[2])+" (want false and the error)")
				}
			}
			continue
		}
		if isTrueC(on) {
			nT++
		} else {
			nF++
			if appends != 0 {
				why = append(why, "rows are emitted for a pair of keys although ON is false (outer joins would return the cross product)")
			}
		}
	}
	if nT == 0 || nF == 0 {
		why = append(why, fmt.Sprintf("scan-step paths: on=true %d, on=false %d", nT, nF))
	}
	// after the scan: the NULL pad
	post, err := WalkFrom(f, h.Succs[1], h, WalkCfg{MaxVisits: 2, MaxPaths: 4000, Domain: dom})
	if err != nil {
		why = append(why, err.Error())
	}
	matchedOf := func(p *Path) (bool, bool) {
		// the matched flag is the loop-carried boolean: a key whose term is a phi of bool type
		for k, v := range p.Asg {
			kt := p.KeyTerm[k]
			if kt != nil && kt.Typ != nil && kt.Typ.String() == "bool" && (kt.Op == "phi" || kt.Op == "un" && kt.Args[0].Op == "phi") {
				val := isTrueC(v)
				if kt.Op == "un" {
					val = !val
				}
				return val, true
			}
		}
		return false, false
	}
	sawPad, sawNoPadMatched, sawNoPadInner := false, false, false
	for _, p := range post {
		if p.Exit != "return" || len(p.Ret) != 3 || !p.Ret[2].Nil {
			continue
		}
		pads := 0
		for _, e := range p.Effects {
			if e.Kind == "mapupdate" && (e.Args[2].Op == "const" && e.Args[2].Name == "nil") {
				pads++
			}
		}
		m, hasM := matchedOf(p)
		var inner constant.Value
		for k, v := range p.Asg {
			if seen[k] == "inner" {
				inner = v
			}
		}
		switch {
		case hasM && m:
			sawNoPadMatched = true
			if pads != 0 {
				why = append(why, "a left key that found a partner is still NULL-padded")
			}
		case hasM && !m && inner != nil && isTrueC(inner):
			sawNoPadInner = true
			if pads != 0 {
				why = append(why, "an INNER join NULL-pads unmatched rows")
			}
		case hasM && !m && inner != nil && !isTrueC(inner):
			if pads > 0 {
				sawPad = true
				if p.Ret[0].C == nil || !isTrueC(p.Ret[0].C) {
					why = append(why, "the NULL-padded rows are produced but ok=false drops them")
				}
			}
		}
	}
	if !sawPad {
		why = append(why, "after the scan, an unmatched left key of an outer join is not NULL-padded")
	}
	if !sawNoPadMatched || !sawNoPadInner {
		why = append(why, fmt.Sprintf("after-scan paths: matched=%v inner-unmatched=%v", sawNoPadMatched, sawNoPadInner))
	}
	c.Check(len(why) == 0, "c04.emit-guard", key, c.P.Pos(f.Pos()), fmt.Sprintf("on=false emits nothing (%d paths), on=true emits (%d); pad iff unmatched && !inner", nF, nT), strings.Join(uniq(why), "; "))
}

// ruleC04HashMatcher: hash matcher emits pairs for a bucket present on both sides, pads otherwise when not inner.
func ruleC04HashMatcher(c *Ctx) {
	c.Doc("c04.hash-matcher", "hash matcher: a left bucket is processed iff the right side has the same bucket or the join is not INNER; for each left row, pairs are emitted with every right row of the bucket, and the NULL pad exactly when the bucket has no right rows; otherwise (false, nil, nil)")
	f := c.joinMethod("HashJoinMatchFunc")
	if f == nil {
		c.Unknown("c04.hash-matcher", "HashJoinMatchFunc", "-", "anchor lost")
		return
	}
	key := c.P.funcKey(f)
	atoms := []Atom{
		{Name: "present", Dom: boolDom, Match: func(t *Term) bool {
			return t.Op == "ext" && t.Name == "1" && t.Args[0].Op == "lookupok" && strings.Contains(t.Args[0].Args[0].String(), ".Rows")
		}},
		{Name: "inner", Dom: boolDom, Match: func(t *Term) bool { return t.Op == "call" && strings.HasSuffix(t.Name, "IsInner") }},
	}
	tb := BuildTable(f, atoms, false)
	if tb.Err != nil {
		c.Unknown("c04.hash-matcher", key, c.P.Pos(f.Pos()), tb.Err.Error())
		return
	}
	var why []string
	n := 0
	for _, p := range tb.Paths {
		if p.Exit != "return" || len(p.Ret) != 3 {
			continue
		}
		nm := tb.namesOnPath(p)
		pres, hasP := nm["present"]
		inner, hasI := nm["inner"]
		if !hasP {
			continue
		}
		n++
		process := isTrueC(pres) || (hasI && !isTrueC(inner))
		if !isTrueC(pres) && !hasI {
			why = append(why, "an absent right bucket is handled without consulting the join type")
			continue
		}
		okRet := p.Ret[0].C != nil && isTrueC(p.Ret[0].C) == process
		if p.Ret[2].Nil && !okRet {
			why = append(why, fmt.Sprintf("present=%v inner=%v returns ok=%s", isTrueC(pres), hasI && isTrueC(inner), avString(p.Ret[0])))
		}
	}
	if n == 0 {
		why = append(why, "no path tests the presence of the right bucket")
	}
	// the pad is guarded by len(right) == 0 and pairs by len(right) > 0: a mapupdate with nil value must be on a path where the pair loop did not run
	for _, p := range tb.Paths {
		pads, pairs := 0, 0
		for _, e := range p.Effects {
			if e.Kind == "mapupdate" && e.Args[2].Op == "const" && e.Args[2].Name == "nil" {
				pads++
			}
			if e.Kind == "call" && strings.HasSuffix(e.Callee, "maps.Copy[map[string]any map[string]any]") || e.Kind == "call" && strings.Contains(e.Callee, "maps.Copy") {
				pairs++
			}
		}
		_ = pairs
		if pads > 0 {
			// the right bucket must be known empty on this path
			emptyKnown := false
			for k, v := range p.Asg {
				kt := p.KeyTerm[k]
				if kt != nil && kt.Op == "bin" && strings.Contains(kt.String(), "builtin:len(") {
					// len(right) > 0 false, or len(right) == 0 true
					if (kt.Name == ">" || kt.Name == "<") && !isTrueC(v) || kt.Name == "==" && isTrueC(v) {
						emptyKnown = true
					}
				}
			}
			if !emptyKnown {
				why = append(why, "a left row is NULL-padded on a path where the right bucket is not known to be empty")
			}
		}
	}
	c.Check(len(why) == 0, "c04.hash-matcher", key, c.P.Pos(f.Pos()), fmt.Sprintf("%d presence paths: ok = present || !inner; pad only for an empty right bucket", n), strings.Join(uniq(why), "; "))
}

func ruleC04KeyAlignment(c *Ctx) {
	c.Doc("c04.key-alignment", "hash-key construction: the column list returned by the join-column extractor reaches the key-building loop without being reordered (no sort, reverse or map-order iteration on it): the two sides' lists are paired positionally, so any side-local reordering mis-pairs columns whose names sort differently; the key text and the key map are built from the same column, read from the row itself")
	f := c.P.Func(modPath, "ToCatalog")
	if f == nil {
		for _, g := range c.P.pkgFuncs(modPath) {
			if g.Parent() == nil && g.Signature.Results().Len() == 2 && strings.Contains(g.Signature.Results().At(0).Type().String(), "HashedTable") {
				f = g
			}
		}
	}
	if f == nil {
		c.Unknown("c04.key-alignment", "ToCatalog", "-", "anchor lost")
		return
	}
	key := c.P.funcKey(f)
	c.Fn(key)
	c.Anchor("hash-key construction", key+" "+c.P.Pos(f.Pos()))
	o := c.own()
	ok, why := true, ""
	for _, w := range o.Writes {
		if w.Fn != f && w.Fn.Parent() != f {
			continue
		}
		if w.Kind == "sort" || strings.HasPrefix(w.Kind, "Sort") || w.Kind == "Reverse" {
			t := NewTB().Of(w.Target)
			if strings.Contains(t.String(), "extractJoinColumns") || t.Op == "ext" {
				ok, why = false, "the join columns are reordered by "+w.Kind+" at "+c.P.Pos(w.Instr.Pos())+" before the key is built: columns of the two sides are no longer paired positionally"
			}
		}
	}
	// the key loop ranges over the extractor's result (a slice, in order)
	colsLoop := false
	for _, l := range rangeLoops(f) {
		t := NewTB().Of(l.over)
		if strings.Contains(t.String(), "extractJoinColumns") {
			colsLoop = true
			// inside: ExecReader(row, column) feeds the buffer
		}
	}
	if !colsLoop {
		ok, why = false, why+" the key is not built by ranging, in order, over the extracted column list"
	}
	c.Check(ok, "c04.key-alignment", key, c.P.Pos(f.Pos()), "columns keep the order of the ON conjuncts on both sides", strings.TrimSpace(why))
	// extractor: per comparison exactly one column of the requested side, in ON order (left conjunct before right)
	ex := c.P.Func(modPath, "extractJoinColumns")
	if ex == nil {
		c.Unknown("c04.key-alignment", "extractJoinColumns", "-", "anchor lost")
		return
	}
	c.Fn("extractJoinColumns")
	paths, err := WalkFunc(ex, WalkCfg{MaxVisits: 1, MaxPaths: 4000})
	if err != nil {
		c.Unknown("c04.key-alignment", "extractJoinColumns", c.P.Pos(ex.Pos()), err.Error())
		return
	}
	ok2, why2 := true, ""
	nAnd := 0
	for _, p := range paths {
		if p.Exit != "return" {
			continue
		}
		// AND arm: append(append(cols, leftCols...), rightCols...)
		var recs []*Term
		for _, e := range p.Effects {
			if e.Kind == "call" && e.Callee == "extractJoinColumns" && len(e.Args) == 3 {
				recs = append(recs, e.Args[2])
			}
		}
		if len(recs) == 2 {
			isAnd := strings.Contains(recs[0].String(), "AndExpr")
			if isAnd {
				nAnd++
			}
			if !(recs[0].Op == "field" && recs[0].Name == "Left" && recs[1].Op == "field" && recs[1].Name == "Right") {
				ok2, why2 = false, "a connective does not visit its Left conjunct before its Right one: "+recs[0].String()+", "+recs[1].String()
			}
			// order of appends: left columns first
			var apps []*Term
			for _, e := range p.Effects {
				if isAppendOf(e) && len(e.Args) == 2 && e.Args[1].Op == "ext" {
					apps = append(apps, e.Args[1])
				}
			}
			if len(apps) == 2 && !(strings.Contains(apps[0].String(), ".Left") && strings.Contains(apps[1].String(), ".Right")) {
				ok2, why2 = false, "the columns of the Right conjunct are appended before those of the Left one"
			}
		}
	}
	if nAnd == 0 {
		ok2, why2 = false, "no AND arm found in the join-column extractor"
	}
	// the list is returned as accumulated: no filtering / de-duplication (positions pair the two sides)
	allInstrs(ex, func(_ *ssa.BasicBlock, in ssa.Instruction) {
		if r, isR := in.(*ssa.Return); isR && len(r.Results) == 2 {
			if call, isCall := r.Results[0].(*ssa.Call); isCall {
				if cal := call.Common().StaticCallee(); cal != nil && c.P.InModule(cal) {
					ok2, why2 = false, "the column list is post-processed by "+funcName(cal)+" before it is returned: removing or moving entries breaks the positional pairing of the two sides"
				}
			}
		}
	})
	c.Check(ok2, "c04.key-alignment", "extractJoinColumns/order", c.P.Pos(ex.Pos()), "conjuncts are visited Left then Right and appended in that order", why2)
}

func ruleC04Strategy(c *Ctx) {
	c.Doc("c04.hash-only-when-equi", "strategy selection ((*Join).Exec): the hash matcher (which ignores the ON operators) runs only when the equi-join analysis accepts the ON expression — a requested HASH_JOIN on any other condition must take the nested loop; STRAIGHT_JOIN and the default take the nested loop")
	f := c.joinMethod("Exec")
	if f == nil {
		c.Unknown("c04.hash-only-when-equi", "(*Join).Exec", "-", "anchor lost")
		return
	}
	atoms := []Atom{
		{Name: "straight", Dom: boolDom, Match: func(t *Term) bool { return t.Op == "call" && strings.HasSuffix(t.Name, "IsStraightJoin") }},
		{Name: "hashHint", Dom: boolDom, Match: func(t *Term) bool { return t.Op == "call" && strings.HasSuffix(t.Name, "IsHashJoin") }},
		{Name: "equi", Dom: boolDom, Match: func(t *Term) bool { return t.Op == "call" && t.Name == "hashJoinAnalyze" }},
	}
	tb := BuildTable(f, atoms, false)
	ok, why, n := true, "", 0
	for _, p := range tb.Paths {
		if p.Exit != "return" {
			continue
		}
		r := ext0(p.Ret[0].T)
		if r == nil || r.Op != "call" {
			continue
		}
		n++
		nm := tb.namesOnPath(p)
		if strings.HasSuffix(r.Name, ".HashJoin") {
			if e, has := nm["equi"]; !has || !isTrueC(e) {
				ok, why = false, "the hash matcher is selected on a path where the equi-join analysis did not accept ON (requested HASH_JOIN on a non-equality condition)"
			}
		}
	}
	if n == 0 {
		ok, why = false, "no strategy path found"
	}
	c.Check(ok, "c04.hash-only-when-equi", c.P.funcKey(f), c.P.Pos(f.Pos()), fmt.Sprintf("%d strategy paths: HashJoin only under hashJoinAnalyze", n), why)
}

func ruleC04Analyze(c *Ctx) {
	c.Doc("c04.equi-analysis", "hashJoinAnalyze returns true only for a conjunction (AND) of ComparisonExpr leaves whose operator is EqualOp: OR, any other operator and any other node yield false")
	f := c.P.Func(modPath, "hashJoinAnalyze")
	if f == nil {
		c.Unknown("c04.equi-analysis", "hashJoinAnalyze", "-", "anchor lost")
		return
	}
	c.Fn("hashJoinAnalyze")
	eq := int64(-1)
	for v, n := range c.P.enumConsts(sqlp, "ComparisonExprOperator") {
		if n == "EqualOp" {
			eq = v
		}
	}
	if wl := recogniseWorklist(f); wl != nil {
		// iterative form (explicit stack): a round goes on only for an equality leaf or an AND whose operands are both queued
		why := append([]string(nil), wl.why...)
		sawEq, sawAnd := false, false
		for _, r := range wl.rounds {
			switch {
			case strings.HasSuffix(r.kind, "ComparisonExpr"):
				opEq := false
				for k, v := range r.p.Asg {
					kt := r.p.KeyTerm[k]
					if kt != nil && kt.Op == "bin" && kt.Name == "==" && strings.Contains(kt.String(), ".Operator") && kt.Args[1].Name == fmt.Sprint(eq) && isTrueC(v) {
						opEq = true
					}
				}
				if !opEq {
					why = append(why, "a comparison leaf is accepted without its operator being EqualOp")
				} else {
					sawEq = true
				}
				if !r.popped {
					why = append(why, "after a comparison the list of pending nodes is "+termStr(r.next))
				}
			case strings.HasSuffix(r.kind, "AndExpr"):
				sawAnd = true
				if !r.pushesBoth {
					why = append(why, "AND is accepted without queueing both of its operands (the list becomes "+termStr(r.next)+")")
				}
			default:
				why = append(why, "a "+r.kind+" node is accepted as hash-joinable")
			}
		}
		if !sawEq || !sawAnd {
			why = append(why, fmt.Sprintf("arms found: equality leaf=%v AND=%v", sawEq, sawAnd))
		}
		c.Check(len(why) == 0, "c04.equi-analysis", "hashJoinAnalyze", c.P.Pos(f.Pos()), "worklist form: true only for AND-trees of equalities", strings.Join(uniq(why), "; "))
		return
	}
	paths, err := WalkFunc(f, WalkCfg{MaxVisits: 1})
	if err != nil {
		c.Unknown("c04.equi-analysis", "hashJoinAnalyze", c.P.Pos(f.Pos()), err.Error())
		return
	}
	var why []string
	sawCmpEq, sawAnd := false, false
	for _, p := range paths {
		if p.Exit != "return" {
			continue
		}
		kind := ""
		for _, k := range p.Order {
			kt := p.KeyTerm[k]
			if kt != nil && kt.Op == "ext" && kt.Name == "1" && kt.Args[0].Op == "assertok" {
				if v, _ := p.Assumed(k); v {
					kind = kt.Args[0].Name
				}
			}
		}
		ret := p.Ret[0]
		switch {
		case strings.HasSuffix(kind, "ComparisonExpr"):
			// operator test
			opEq, tested := false, false
			for k, v := range p.Asg {
				kt := p.KeyTerm[k]
				if kt != nil && kt.Op == "bin" && kt.Name == "==" && strings.Contains(kt.String(), ".Operator") && kt.Args[1].Name == fmt.Sprint(eq) {
					tested, opEq = true, isTrueC(v)
				}
			}
			if !tested {
				why = append(why, "a comparison leaf is accepted without testing its operator against EqualOp")
			} else if opEq {
				sawCmpEq = true
				if ret.C == nil || !isTrueC(ret.C) {
					why = append(why, "an equality leaf is rejected")
				}
			} else if ret.C == nil || isTrueC(ret.C) {
				why = append(why, "a non-equality comparison is accepted as hash-joinable")
			}
		case strings.HasSuffix(kind, "AndExpr"):
			sawAnd = true
			// l && r of the recursive calls on Left and Right
			s := avString(ret)
			if ret.C != nil && isTrueC(ret.C) {
				why = append(why, "AND is accepted without analysing its operands")
			} else if ret.C == nil && !(strings.Contains(s, "hashJoinAnalyze(") && (strings.Contains(s, ".Right") || strings.Contains(s, ".Left"))) {
				why = append(why, "AND returns "+s)
			}
		default:
			if ret.C == nil || isTrueC(ret.C) {
				why = append(why, "a "+kind+" node is accepted as hash-joinable")
			}
		}
	}
	if !sawCmpEq || !sawAnd {
		why = append(why, fmt.Sprintf("arms found: equality leaf=%v AND=%v", sawCmpEq, sawAnd))
	}
	c.Check(len(why) == 0, "c04.equi-analysis", "hashJoinAnalyze", c.P.Pos(f.Pos()), "true only for AND-trees of equalities", strings.Join(uniq(why), "; "))
}

func ruleC04SideSwap(c *Ctx) {
	c.Doc("c04.matcher-siblings", "the side swap for non-left joins (rows and identifiers of the two sides exchanged together) is applied, under the same condition, in both the nested-loop entry Join() and the hash entry HashJoin(); both build the two catalogs with (rows, own ident, other ident) in the same orientation")
	type facts struct {
		swapRows, swapIdents bool
		cond                 string
		catalogs             []string
	}
	get := func(name string) (*facts, *ssa.Function) {
		f := c.joinMethod(name)
		if f == nil {
			return nil, nil
		}
		fc := &facts{}
		paths, _ := WalkFunc(f, WalkCfg{MaxVisits: 1})
		for _, p := range paths {
			left, li := false, false
			for _, e := range p.Effects {
				if e.Kind == "store" && e.Args[0].Op == "field" {
					if e.Args[0].Name == "left" && e.Args[1].Op == "field" && e.Args[1].Name == "right" {
						left = true
					}
					if e.Args[0].Name == "leftIdent" && e.Args[1].Op == "field" && e.Args[1].Name == "rightIdent" {
						li = true
					}
				}
				if e.Kind == "call" && e.Callee == "ToCatalog" && len(e.Args) == 4 {
					sig := []string{}
					for _, a := range e.Args[:3] {
						if a.Op == "field" {
							sig = append(sig, a.Name)
						} else {
							sig = append(sig, "?")
						}
					}
					s := strings.Join(sig, ",")
					dup := false
					for _, x := range fc.catalogs {
						if x == s {
							dup = true
						}
					}
					if !dup {
						fc.catalogs = append(fc.catalogs, s)
					}
				}
			}
			if left && li {
				fc.swapRows, fc.swapIdents = true, true
				for _, k := range p.Order {
					if strings.Contains(k, "IsLeftJoin") {
						v, _ := p.Assumed(k)
						fc.cond = fmt.Sprintf("IsLeftJoin=%v", v)
					}
				}
			} else if left != li {
				fc.swapRows, fc.swapIdents = left, li
			}
		}
		return fc, f
	}
	a, fa := get("Join")
	b, fb := get("HashJoin")
	if a == nil || b == nil {
		c.Unknown("c04.matcher-siblings", "Join/HashJoin", "-", "anchor lost")
		return
	}
	for _, x := range []struct {
		name string
		fc   *facts
		fn   *ssa.Function
	}{{"(*Join).Join", a, fa}, {"(*Join).HashJoin", b, fb}} {
		ok, why := true, ""
		if !(x.fc.swapRows && x.fc.swapIdents) {
			ok, why = false, fmt.Sprintf("side swap incomplete: rows swapped=%v, identifiers swapped=%v", x.fc.swapRows, x.fc.swapIdents)
		} else if x.fc.cond != "IsLeftJoin=false" {
			ok, why = false, "the sides are swapped under "+x.fc.cond+" (want: exactly when the join is not a left join)"
		}
		want := []string{"left,leftIdent,rightIdent", "right,rightIdent,leftIdent"}
		if ok && !(len(x.fc.catalogs) == 2 && x.fc.catalogs[0] == want[0] && x.fc.catalogs[1] == want[1]) {
			ok, why = false, "catalogs are built with "+strings.Join(x.fc.catalogs, " | ")+" (want "+strings.Join(want, " | ")+")"
		}
		c.Check(ok, "c04.matcher-siblings", x.name, c.P.Pos(x.fn.Pos()), "rows and identifiers swapped together iff not a left join; catalogs (left,leftIdent,rightIdent) and (right,rightIdent,leftIdent)", why)
	}
	// the third entry: STRAIGHT_JOIN keeps the sides as written (no swap) and builds the same two catalogs
	// (found by an own probe in round 11: the right catalog built with the identifiers exchanged keys the right rows by
	// the left side's columns, and `a STRAIGHT_JOIN b ON a.x = b.y` answers the cross product)
	if s, fs := get("StraightJoin"); s == nil {
		c.Unknown("c04.matcher-siblings", "(*Join).StraightJoin", "-", "anchor lost")
	} else {
		ok, why := true, ""
		want := []string{"left,leftIdent,rightIdent", "right,rightIdent,leftIdent"}
		if s.swapRows || s.swapIdents {
			ok, why = false, fmt.Sprintf("a straight join keeps the sides as written: rows swapped=%v, identifiers swapped=%v", s.swapRows, s.swapIdents)
		} else if !(len(s.catalogs) == 2 && s.catalogs[0] == want[0] && s.catalogs[1] == want[1]) {
			ok, why = false, "catalogs are built with "+strings.Join(s.catalogs, " | ")+" (want "+strings.Join(want, " | ")+")"
		}
		c.Check(ok, "c04.matcher-siblings", "(*Join).StraightJoin", c.P.Pos(fs.Pos()), "no side swap; catalogs (left,leftIdent,rightIdent) and (right,rightIdent,leftIdent)", why)
	}
}

// ruleC04KeyEncoding: per key column one value text and one separator.
func ruleC04KeyEncoding(c *Ctx) {
	c.Doc("c04.key-encoding", "bucket-key text: in the key-building loop every column contributes, in the same iteration, a self-delimiting component: the length of the %v text of the value read from the row for that column (terminated by a non-digit) followed by that text (with a plain separator (\"2024-01\",\"15\") and (\"2024\",\"01-15\") share a bucket), and the key map stores that same value under the column's name; the bucket id is a digest of exactly the buffer built for that row (buffer reset per row)")
	f := c.P.Func(modPath, "ToCatalog")
	if f == nil {
		c.Unknown("c04.key-encoding", "ToCatalog", "-", "anchor lost")
		return
	}
	key := c.P.funcKey(f)
	var lp *loopInfo
	for _, l := range rangeLoops(f) {
		if strings.Contains(NewTB().Of(l.over).String(), "extractJoinColumns") {
			lp = l
		}
	}
	if lp == nil {
		c.Unknown("c04.key-encoding", key, c.P.Pos(f.Pos()), "anchor lost: no loop over the extracted columns")
		return
	}
	paths, err := WalkFrom(f, lp.body, lp.header, WalkCfg{StopAt: func(b *ssa.BasicBlock) bool { return b == lp.header }, MaxVisits: 1})
	if err != nil {
		c.Unknown("c04.key-encoding", key, c.P.Pos(f.Pos()), err.Error())
		return
	}
	var why []string
	n := 0
	for _, p := range paths {
		if p.Exit != "stop" {
			continue
		}
		n++
		var reader *Term
		sawPctV := false
		vals, seps, stores, lens := 0, 0, 0, 0
		order := []string{}
		for _, e := range p.Effects {
			switch {
			case e.Kind == "call" && e.Callee == "ExecReader":
				if len(e.Args) == 2 && elemOfLoop(e.Args[1], lp) {
					if call, ok := e.Instr.(*ssa.Call); ok {
						reader = &Term{Op: "call", V: call}
					}
				}
			case e.Kind == "call" && e.Callee == "strconv.AppendInt" && isScratchDigits(e):
				// digits formatted into a local scratch array: they reach the key only through the Write that copies them
			case e.Kind == "call" && (isTextBufferWrite(e.Callee) && (!strings.HasSuffix(e.Callee, ").Write") || scratchDigitsArg(e) != nil) || isByteAccumulatorWrite(e)):
				a := e.Args[len(e.Args)-1]
				if d := scratchDigitsArg(e); d != nil {
					// buffer.Write(strconv.AppendInt(scratch[:0], n, 10)): the digits of n, as WriteString(strconv.Itoa(n))
					a = &Term{Op: "call", Name: "strconv.Itoa", Args: []*Term{d}}
				}
				if a.Op == "varargs" && len(a.Args) == 1 {
					a = a.Args[0] // append(key, b)
				}
				if e.Callee == "strconv.AppendInt" && len(e.Args) == 3 {
					// the digits of a number appended to the key bytes: treated as strconv.Itoa of that number
					a = &Term{Op: "call", Name: "strconv.Itoa", Args: []*Term{e.Args[1]}}
				}
				// the text of a key value: the decimal text the comparison family uses for a number against a string
				// (TextOf: floats without an exponent). The %v text is NOT that text: it prints float64(1500000) as
				// 1.5e+06 and int 1500000 as 1500000, so the hash path misses a pair the nested loop finds
				isPctV := func(t *Term) bool {
					sa, ok := callArgs(t, "fmt.Sprintf")
					return ok && len(sa) == 2 && sa[0].Name == `"%v"` && reader != nil && sa[1].Contains(func(x *Term) bool { return x.V == reader.V })
				}
				isText := func(t *Term) bool {
					if isPctV(t) {
						sawPctV = true
						return true
					}
					ta, ok := callArgs(t, "TextOf")
					return ok && len(ta) == 1 && reader != nil && ta[0].Contains(func(x *Term) bool { return x.V == reader.V })
				}
				isLenOfText := func(t *Term) bool {
					return t.Contains(func(x *Term) bool {
						return x.Op == "call" && x.Name == "builtin:len" && len(x.Args) == 1 && isText(x.Args[0])
					})
				}
				if isText(a) {
					vals++
					order = append(order, "v")
				} else if sa, ok := callArgs(a, "fmt.Sprintf"); ok && len(sa) == 2 && strings.HasPrefix(sa[0].Name, `"%d`) && len(sa[0].Name) > 4 && isLenOfText(sa[1]) {
					// the length of the text, terminated by a non-digit: the component is self-delimiting
					lens++
					order = append(order, "l")
				} else if ia, ok := callArgs(a, "strconv.Itoa"); ok && len(ia) == 1 && isLenOfText(ia[0]) {
					// the bare digits of the length: self-delimiting only with a non-digit constant written right after
					lens++
					order = append(order, "L")
				} else if nonDigitConst(a) {
					seps++
					order = append(order, "s")
				} else if a.Op == "const" {
					seps++
					order = append(order, "d") // a constant that starts with a digit: no terminator for a length
				} else {
					why = append(why, "an unexpected write into the key buffer: "+a.String())
				}
			case e.Kind == "call" && (strings.Contains(e.Callee, "Fprint") || isTextBufferWrite(e.Callee)):
				why = append(why, "the key buffer is written by "+e.Callee+" (not one value text plus one separator per column)")
			case e.Kind == "mapupdate":
				stores++
				if reader == nil || !e.Args[2].Contains(func(x *Term) bool { return x.V == reader.V }) {
					why = append(why, "the key map does not store the value read for this column")
				}
			}
		}
		if reader == nil {
			why = append(why, "the column's value is not read from the row")
		}
		switch o := strings.Join(order, ""); {
		case vals == 1 && lens == 1 && (o == "lv" || o == "lsv" || o == "Lsv"):
			// length-prefixed component: injective
		case vals == 1 && lens == 0 && (o == "vs" || o == "sv"):
			why = append(why, "a key component is its %v text next to a constant separator: a value that contains the separator shifts the boundary ((\"2024-01\",\"15\") and (\"2024\",\"01-15\") share a bucket) — the component must be self-delimiting (length prefix)")
		default:
			why = append(why, fmt.Sprintf("per column: %d value texts, %d length prefixes and %d separators written (order %q; length prefix then value expected)", vals, lens, seps, o))
		}
		if stores != 1 {
			why = append(why, fmt.Sprintf("per column: %d key-map stores", stores))
		}
		if sawPctV {
			why = append(why, "a key value contributes its %v text: float64(1500000) is written 1.5e+06 and int 1500000 is written 1500000, so an equi-join on the hash path does not pair two keys that `=` (and the nested loop) call equal — the text must be the decimal text (TextOf)")
		}
	}
	if n == 0 {
		why = append(why, "no complete column iteration")
	}
	c.Check(len(why) == 0, "c04.key-encoding", key, c.P.Pos(f.Pos()), "value text then separator per column; key map holds the same value", strings.Join(uniq(why), "; "))
}

// isByteAccumulatorWrite: the key is grown as a []byte: append(key, b), append(key, text...), strconv.AppendInt(key, n, 10).
func isByteAccumulatorWrite(e Effect) bool {
	call, ok := e.Instr.(*ssa.Call)
	if !ok || len(call.Call.Args) < 2 {
		return false
	}
	if shortType(call.Call.Args[0].Type()) != "[]byte" && shortType(call.Call.Args[0].Type()) != "[]uint8" {
		return false
	}
	switch e.Callee {
	case "builtin:append":
		return len(e.Args) == 2
	case "strconv.AppendInt":
		return len(e.Args) == 3 && e.Args[2].String() == "c:10"
	}
	return false
}

// isTextBufferWrite: a write method of a text buffer (bytes.Buffer or strings.Builder).
func isTextBufferWrite(callee string) bool {
	if !(strings.Contains(callee, "bytes.Buffer).") || strings.Contains(callee, "strings.Builder).")) {
		return false
	}
	for _, m := range []string{").WriteString", ").WriteByte", ").WriteRune", ").Write"} {
		if strings.HasSuffix(callee, m) {
			return true
		}
	}
	return false
}

// nonDigitConst: a constant text (or character) that does not start with a decimal digit.
func nonDigitConst(t *Term) bool {
	if t == nil || t.Op != "const" {
		return false
	}
	k, ok := t.V.(*ssa.Const)
	if !ok || k.Value == nil {
		return false
	}
	switch k.Value.Kind() {
	case constant.String:
		s := constant.StringVal(k.Value)
		return len(s) > 0 && !(s[0] >= '0' && s[0] <= '9')
	case constant.Int:
		v, exact := constant.Int64Val(k.Value)
		return exact && !(v >= '0' && v <= '9')
	}
	return false
}

// ruleC04FreshRows: every emitted row is a map allocated for that emission.
func ruleC04FreshRows(c *Ctx) {
	c.Doc("c04.fresh-row", "in both matchers every map appended to the result was made inside every loop that encloses the append (one fresh map per emitted row): a map allocated outside the loop and re-filled would be appended several times as the same object, so one row would appear repeatedly and the others vanish")
	for _, name := range []string{"JoinMatchFunc", "HashJoinMatchFunc"} {
		f := c.joinMethod(name)
		if f == nil {
			c.Unknown("c04.fresh-row", name, "-", "anchor lost")
			continue
		}
		key := c.P.funcKey(f)
		// loop headers: range-over-slice and range-over-map
		var headers []*ssa.BasicBlock
		for _, l := range rangeLoops(f) {
			headers = append(headers, l.header)
		}
		for _, nx := range mapRangeNexts(f) {
			headers = append(headers, nx.Block())
		}
		ok, why, n := true, "", 0
		allInstrs(f, func(b *ssa.BasicBlock, in ssa.Instruction) {
			call, isCall := in.(*ssa.Call)
			if !isCall {
				return
			}
			bi, isB := call.Common().Value.(*ssa.Builtin)
			if !isB || bi.Name() != "append" || len(call.Common().Args) != 2 {
				return
			}
			// the appended element(s): varargs alloc stores
			va, isSl := call.Common().Args[1].(*ssa.Slice)
			if !isSl {
				return
			}
			arr, isA := va.X.(*ssa.Alloc)
			if !isA {
				return
			}
			for _, st := range storesToArray(arr) {
				v := st.Val
				if mi, isMI := v.(*ssa.MakeInterface); isMI {
					v = mi.X
				}
				mm, isMM := v.(*ssa.MakeMap)
				if !isMM {
					if ph, isPhi := v.(*ssa.Phi); isPhi {
						_ = ph
						ok, why = false, "the appended row is a loop-carried map, not a map made for this emission"
					}
					continue
				}
				n++
				for _, h := range headers {
					if inNaturalLoop(h, b) && !inNaturalLoop(h, mm.Block()) {
						ok, why = false, "the row appended at "+c.P.Pos(call.Pos())+" is a map made at "+c.P.Pos(mm.Pos())+", outside the loop that repeats the append: all rows of the group are the same object"
					}
				}
			}
		})
		if n == 0 {
			ok, why = false, "no emission of a freshly made map found"
		}
		c.Check(ok, "c04.fresh-row", key, c.P.Pos(f.Pos()), fmt.Sprintf("%d emissions, each of a map made inside the enclosing loops", n), why)
	}
}

// storesToArray: stores into elements of a (varargs) array allocation.
func storesToArray(a *ssa.Alloc) []*ssa.Store {
	var out []*ssa.Store
	if refs := a.Referrers(); refs != nil {
		for _, r := range *refs {
			if ia, ok := r.(*ssa.IndexAddr); ok {
				if rr := ia.Referrers(); rr != nil {
					for _, s := range *rr {
						if st, ok := s.(*ssa.Store); ok && st.Addr == ssa.Value(ia) {
							out = append(out, st)
						}
					}
				}
			}
		}
	}
	return out
}

func init() { register("C04", ruleC04EntryMatcher) }

// ruleC04EntryMatcher: every successful result of a join entry is a matcher's result.
func ruleC04EntryMatcher(c *Ctx) {
	c.Doc("c04.entry-matcher", "join entries ((*Join).Exec, Join, HashJoin, StraightJoin): every return either reports an error (nil rows) or forwards, unchanged, both results of the next stage — Exec: one of the three entries; the entries: the serial or parallel matcher of their kind applied to (catalog of the left rows, catalog of the right rows) — no path answers with rows of its own (an empty-input or other shortcut would drop the NULL-padded rows of an outer join)")
	want := map[string][]string{
		"Exec":         {"StraightJoin", "HashJoin", "Join"},
		"Join":         {"JoinFunc", "ParallelJoinFunc"},
		"StraightJoin": {"JoinFunc", "ParallelJoinFunc"},
		"HashJoin":     {"HashJoinFunc", "ParallelHashJoinFunc"},
	}
	for _, name := range []string{"Exec", "Join", "StraightJoin", "HashJoin"} {
		f := c.P.Method(modPath, "Join", name)
		key := "(*Join)." + name
		if f == nil {
			c.Unknown("c04.entry-matcher", key, "-", "anchor lost")
			continue
		}
		c.Fn(key)
		paths, err := WalkFunc(f, WalkCfg{MaxVisits: 1, MaxPaths: 4000})
		if err != nil {
			c.Unknown("c04.entry-matcher", key, c.P.Pos(f.Pos()), err.Error())
			continue
		}
		var why []string
		fw := map[string]bool{}
		for _, p := range paths {
			if p.Exit != "return" || len(p.Ret) != 2 {
				if p.Exit != "panic" {
					why = append(why, "path ends with "+p.Exit)
				}
				continue
			}
			r := ext0(p.Ret[0].T)
			if r != nil && r.Op == "call" {
				call, isCall := r.V.(*ssa.Call)
				callee := ""
				if isCall && call.Common().StaticCallee() != nil {
					callee = call.Common().StaticCallee().Name()
				}
				okCallee := false
				for _, w := range want[name] {
					if w == callee {
						okCallee = true
					}
				}
				if !okCallee {
					why = append(why, "a path returns the result of "+r.Name+", not of "+strings.Join(want[name], "/"))
					continue
				}
				if x := p.Ret[1].T; x == nil || x.Op != "ext" || x.Name != "1" || x.Args[0].V != r.V {
					why = append(why, "the error of "+callee+" is not forwarded with its rows")
				}
				if name != "Exec" {
					// the two catalogs are built from the two sides (which field holds which side after the entry's
					// swap is c04.matcher-siblings' business): distinct fields among left/right, first and second
					ta := r.Args
					sideOf := func(t *Term) string {
						// the field as written at the ToCatalog call (the path walker forgets stores across calls, so
						// the term of the loaded value is not reliable after the swap)
						x := ext0(t)
						if _, ok := callArgs(x, "ToCatalog"); x == nil || !ok {
							return ""
						}
						cc, isCall := x.V.(*ssa.Call)
						if !isCall || len(cc.Call.Args) < 1 {
							return ""
						}
						ld, isLd := cc.Call.Args[0].(*ssa.UnOp)
						if !isLd {
							return ""
						}
						fa, isFa := ld.X.(*ssa.FieldAddr)
						if !isFa {
							return ""
						}
						return fieldName(fa.X.Type(), fa.Field)
					}
					s1, s2 := "", ""
					if len(ta) == 3 {
						s1, s2 = sideOf(ta[1]), sideOf(ta[2])
					}
					if !(s1 == "left" && s2 == "right") {
						why = append(why, "the matcher is not applied to (catalog of j.left, catalog of j.right): "+r.String())
					}
				}
				fw[callee] = true
				continue
			}
			if p.Ret[0].Nil && !p.Ret[1].Nil {
				continue
			}
			why = append(why, "a path answers with rows of its own instead of a matcher's result: "+avString(p.Ret[0])+" (error "+avString(p.Ret[1])+")")
		}
		for _, w := range want[name] {
			if !fw[w] {
				why = append(why, "no path forwards "+w)
			}
		}
		c.Check(len(why) == 0, "c04.entry-matcher", key, c.P.Pos(f.Pos()), "every success return forwards "+strings.Join(want[name], "/"), strings.Join(uniq(why), "; "))
	}
}

// the ON predicate of the nested-loop matcher is an ordinary comparison: its operator table and the
// value ordering are shared with C01 / C15
func init() {
	register("C04", ruleC01CmpTable, ruleC01Connectives, ruleC15Range, ruleC15Trichotomy, ruleC15ExactDomain, ruleC15Dispatch)
}

func init() { register("C04", ruleC04SideIdent); register("C07", ruleC04SideIdent) }

// ruleC04SideIdent: every kind of join side carries its name.
func ruleC04SideIdent(c *Ctx) {
	c.Doc("c04.side-ident", "FROM builder (BuildFromAliasedTable): on every success path that installs aliased rows (query.from = ProcessAlias(rows, alias)) the side's identifier query.ident is stored as well — the join builder hands left.ident / right.ident to the matchers, which resolve the ON columns and name the NULL padding by them; a side without identifier (a derived table, say) joins to nothing")
	f := c.P.Func(modPath, "BuildFromAliasedTable")
	if f == nil {
		c.Unknown("c04.side-ident", "BuildFromAliasedTable", "-", "anchor lost")
		return
	}
	c.Fn("BuildFromAliasedTable")
	paths, err := WalkFunc(f, WalkCfg{MaxVisits: 1, MaxPaths: 6000})
	if err != nil {
		c.Unknown("c04.side-ident", "BuildFromAliasedTable", c.P.Pos(f.Pos()), err.Error())
		return
	}
	var why []string
	n := 0
	for _, p := range paths {
		if p.Exit != "return" || len(p.Ret) != 1 || !p.Ret[0].Nil {
			continue
		}
		aliased, ident := false, false
		pos := ""
		for _, e := range p.Effects {
			if e.Kind != "store" || len(e.Args) != 2 || e.Args[0].Op != "field" {
				continue
			}
			if e.Args[0].Name == "from" && strings.Contains(e.Args[1].String(), "ProcessAlias(") {
				aliased = true
				pos = c.P.Pos(e.Instr.Pos())
			}
			if e.Args[0].Name == "ident" {
				ident = true
			}
		}
		if aliased {
			n++
			if !ident {
				why = append(why, "the source installed at "+pos+" gets no identifier (query.ident is not stored on that path): as a join side it matches nothing and its NULL padding is keyed by the empty name")
			}
		}
	}
	if n < 3 {
		why = append(why, fmt.Sprintf("only %d success paths install aliased rows (plain table, CTE and derived table expected)", n))
	}
	c.Check(len(why) == 0, "c04.side-ident", "BuildFromAliasedTable", c.P.Pos(f.Pos()), fmt.Sprintf("%d paths install aliased rows, each with its identifier", n), strings.Join(uniq(why), "; "))
}

// two keys that Compare calls equal must land in the same bucket: the text a key contributes is part of the value
// ordering's coherence (C15: equality of join keys agrees with the comparison operators)
func init() { register("C15", ruleC04KeyEncoding) }

func init() { register("C04", ruleC04BuildJoin); register("C20", ruleC04BuildJoin) }

// ruleC04BuildJoin: a join is always built from its left operand first and always goes through the join executor.
func ruleC04BuildJoin(c *Ctx) {
	c.Doc("c04.build-join", "BuildJoin: on every path the left table expression of the statement is built before the right one (a derived table on the left runs — and writes its variables — first, for every join type), each from its own field of the join node; every success path hands both sides, in that order, with their identifiers and the join type to the join executor and stores the executor's rows as the query's source — no shortcut answers for an empty side (a RIGHT or FULL join over an empty left table still returns the right rows)")
	f := c.theFunc("join builder", "*sqlparser.JoinTableExpr", "BuildJoin")
	if f == nil {
		c.Unknown("c04.build-join", "BuildJoin", "-", "anchor lost")
		return
	}
	jp := paramNameOfType(f, "*sqlparser.JoinTableExpr")
	paths, err := WalkFunc(f, WalkCfg{MaxVisits: 1, MaxPaths: 8000})
	if err != nil {
		c.Unknown("c04.build-join", c.P.funcKey(f), c.P.Pos(f.Pos()), err.Error())
		return
	}
	var why []string
	n := 0
	side := func(t *Term) string {
		if t != nil && t.Op == "field" && len(t.Args) == 1 && t.Args[0].Op == "param" && t.Args[0].Name == jp {
			return t.Name
		}
		return "?" + termStr(t)
	}
	for _, p := range paths {
		if p.Exit != "return" || len(p.Ret) != 1 {
			continue
		}
		var builds []string
		var exec *Effect
		for i := range p.Effects {
			e := &p.Effects[i]
			if e.Kind != "call" {
				continue
			}
			if e.Callee == "BuildFrom" && len(e.Args) == 2 {
				builds = append(builds, side(e.Args[1]))
			}
			if e.Callee == "ExecJoin" || strings.HasSuffix(e.Callee, "(*Join).Exec") {
				exec = e
			}
		}
		if len(builds) >= 1 && builds[0] != "LeftExpr" {
			why = append(why, "the first table expression built is "+builds[0]+", not the join's left operand")
		}
		if len(builds) >= 2 && builds[1] != "RightExpr" {
			why = append(why, "the second table expression built is "+builds[1]+", not the join's right operand")
		}
		if !p.Ret[0].Nil {
			continue
		}
		n++
		if len(builds) != 2 {
			why = append(why, fmt.Sprintf("a success path builds %d table expressions", len(builds)))
		}
		if exec == nil {
			why = append(why, "a success path answers without running the join executor (a shortcut for an empty side loses the rows an outer join owes the other side)")
			continue
		}
		// the query's source is the executor's result
		stored := false
		for _, e := range p.Effects {
			if e.Kind == "store" && len(e.Args) == 2 && e.Args[0].Op == "field" && e.Args[0].Name == "from" && e.Args[0].Args[0].Op == "param" {
				stored = e.Args[1].Contains(func(x *Term) bool { return x.V == exec.Instr.(ssa.Value) })
			}
		}
		if !stored {
			why = append(why, "the join executor's rows are not what the query goes on with")
		}
		if exec.Callee == "ExecJoin" && len(exec.Args) >= 5 {
			l, r := exec.Args[1].String(), exec.Args[2].String()
			if !(strings.Contains(l, "CopyQuery") && strings.HasSuffix(l, ".from") && strings.Contains(r, "CopyQuery") && strings.HasSuffix(r, ".from")) {
				why = append(why, "the executor does not receive the two built sides: "+l+" , "+r)
			}
		}
	}
	if n == 0 {
		why = append(why, "no success path")
	}
	c.Check(len(why) == 0, "c04.build-join", c.P.funcKey(f), c.P.Pos(f.Pos()), fmt.Sprintf("%d success paths: left built first, right second, executor's rows stored", n), strings.Join(uniq(why), "; "))
}

// isScratchDigits: strconv.AppendInt(scratch[:0], n, 10) where scratch is an array local to the function: nothing is
// accumulated, the digits are formatted into reusable space.
func isScratchDigits(e Effect) bool {
	call, ok := e.Instr.(*ssa.Call)
	if !ok || len(call.Call.Args) != 3 {
		return false
	}
	if b, isC := constIntOf(call.Call.Args[2]); !isC || b != 10 {
		return false
	}
	sl, ok := call.Call.Args[0].(*ssa.Slice)
	if !ok || sl.High == nil {
		return false
	}
	if h, isC := constIntOf(sl.High); !isC || h != 0 {
		return false
	}
	al, ok := sl.X.(*ssa.Alloc)
	if !ok {
		return false
	}
	_, isArr := al.Type().Underlying().(*types.Pointer).Elem().Underlying().(*types.Array)
	return isArr
}

// scratchDigitsArg: e is a Write of a text buffer whose argument is the result of such a scratch formatting; the term of
// the number that was formatted (nil otherwise).
func scratchDigitsArg(e Effect) *Term {
	call, ok := e.Instr.(*ssa.Call)
	if !ok || !strings.HasSuffix(e.Callee, ").Write") || len(call.Call.Args) != 2 {
		return nil
	}
	inner, ok := call.Call.Args[1].(*ssa.Call)
	if !ok || calleeName(inner.Common()) != "strconv.AppendInt" {
		return nil
	}
	if !isScratchDigits(Effect{Instr: inner}) {
		return nil
	}
	return NewTB().Of(inner.Call.Args[1])
}
