package main

import (
	"fmt"
	"go/constant"
	"strings"

	"golang.org/x/tools/go/ssa"
)

func init() {
	register("C04", ruleC04EmitGuard, ruleC04HashMatcher, ruleC04KeyAlignment, ruleC04Strategy, ruleC04Analyze, ruleC04SideSwap,
		// PARALLEL variants: lock/wait discipline (shared with C13/C10)
		ruleC13CapturedVars, ruleC10GoClosures)
}

func (c *Ctx) joinMethod(name string) *ssa.Function {
	f := c.P.Method(modPath, "Join", name)
	if f != nil {
		c.Fn(c.P.funcKey(f))
	}
	return f
}

// nestedMatcher: the method of Join that evaluates the ON expression per pair of keys.
func (c *Ctx) nestedMatcher() *ssa.Function {
	var pick *ssa.Function
	for _, f := range c.P.pkgFuncs(modPath) {
		if f.Parent() != nil || f.Signature.Recv() == nil || !isNamedType(f.Signature.Recv().Type(), modPath, "Join") {
			continue
		}
		evals := false
		allInstrs(f, func(_ *ssa.BasicBlock, in ssa.Instruction) {
			if call, ok := in.(*ssa.Call); ok && call.Common().StaticCallee() != nil && call.Common().StaticCallee().Name() == "Expr" {
				for _, a := range call.Common().Args {
					if t := NewTB().Of(a); t.Op == "field" && t.Name == "joinExpr" {
						evals = true
					}
				}
			}
		})
		if evals {
			pick = f
		}
	}
	if pick != nil {
		c.Anchor("nested-loop matcher", c.P.funcKey(pick)+" "+c.P.Pos(pick.Pos()))
		c.Fn(c.P.funcKey(pick))
	}
	return pick
}

func isAppendOf(e Effect) bool { return e.Kind == "call" && e.Callee == "builtin:append" }

func ruleC04EmitGuard(c *Ctx) {
	c.Doc("c04.emit-guard", "nested-loop matcher: within one step of the scan over the right keys, rows are emitted only when the ON expression evaluated on (left key, right key) is true; after the scan, the NULL-padded rows of the left key are emitted exactly when no partner was found and the join is not INNER (decision table over on / matched / inner); ON errors and non-boolean ON values end the match with an error and ok=false")
	c.NotDecidedClause("C04: multiset equality with a reference join on concrete tables; injectivity of the textual %v+\"-\" bucket key; schedule independence beyond the lock/wait discipline")
	f := c.nestedMatcher()
	if f == nil {
		c.Unknown("c04.emit-guard", "JoinMatchFunc", "-", "anchor lost: no Join method evaluates joinExpr")
		return
	}
	key := c.P.funcKey(f)
	// the scan loop: a map range whose body evaluates the ON expression
	var scan *ssa.Next
	for _, nx := range mapRangeNexts(f) {
		inBody := false
		allInstrs(f, func(b *ssa.BasicBlock, in ssa.Instruction) {
			if call, ok := in.(*ssa.Call); ok && call.Common().StaticCallee() != nil && call.Common().StaticCallee().Name() == "Expr" && inLoopOf(nx, b) {
				inBody = true
			}
		})
		if inBody {
			scan = nx
		}
	}
	if scan == nil {
		c.Unknown("c04.emit-guard", key, c.P.Pos(f.Pos()), "anchor lost: no scan over the right keys evaluating ON")
		return
	}
	h := scan.Block()
	body := h.Succs[0]
	onAtom := Atom{Name: "on", Dom: boolDom, Match: func(t *Term) bool {
		return t.Op == "ext" && t.Name == "0" && t.Args[0].Op == "assertok" && t.Args[0].Name == "bool" && strings.Contains(t.Args[0].Args[0].String(), "joinExpr")
	}}
	innerAtom := Atom{Name: "inner", Dom: boolDom, Match: func(t *Term) bool {
		return t.Op == "call" && strings.HasSuffix(t.Name, "IsInner")
	}}
	seen := map[string]string{}
	dom := func(t *Term) []constant.Value {
		for _, a := range []Atom{onAtom, innerAtom} {
			if a.Match(t) {
				seen[t.String()] = a.Name
				return a.Dom
			}
		}
		return nil
	}
	paths, err := WalkFrom(f, body, h, WalkCfg{StopAt: func(b *ssa.BasicBlock) bool { return b == h }, MaxVisits: 2, MaxPaths: 8000, Domain: dom})
	if err != nil {
		c.Unknown("c04.emit-guard", key, c.P.Pos(f.Pos()), err.Error())
		return
	}
	var why []string
	nT, nF := 0, 0
	for _, p := range paths {
		if p.Exit == "cut" {
			continue
		}
		var on constant.Value
		for k, v := range p.Asg {
			if seen[k] == "on" {
				on = v
			}
		}
		appends := 0
		for _, e := range p.Effects {
			if isAppendOf(e) {
				appends++
			}
		}
		if on == nil {
			// error / non-boolean path: must return ok=false with an error
			if p.Exit == "return" && len(p.Ret) == 3 {
				if p.Ret[2].Nil || p.Ret[0].C == nil || isTrueC(p.Ret[0].C) {
					why = append(why, "a failing ON evaluation returns ok="+avString(p.Ret[0])+" err="+avString(p.Ret[2])+" (want false and the error)")
				}
			}
			continue
		}
		if isTrueC(on) {
			nT++
		} else {
			nF++
			if appends != 0 {
				why = append(why, "rows are emitted for a pair of keys although ON is false (outer joins would return the cross product)")
			}
		}
	}
	if nT == 0 || nF == 0 {
		why = append(why, fmt.Sprintf("scan-step paths: on=true %d, on=false %d", nT, nF))
	}
	// after the scan: the NULL pad
	post, err := WalkFrom(f, h.Succs[1], h, WalkCfg{MaxVisits: 2, MaxPaths: 4000, Domain: dom})
	if err != nil {
		why = append(why, err.Error())
	}
	matchedOf := func(p *Path) (bool, bool) {
		// the matched flag is the loop-carried boolean: a key whose term is a phi of bool type
		for k, v := range p.Asg {
			kt := p.KeyTerm[k]
			if kt != nil && kt.Typ != nil && kt.Typ.String() == "bool" && (kt.Op == "phi" || kt.Op == "un" && kt.Args[0].Op == "phi") {
				val := isTrueC(v)
				if kt.Op == "un" {
					val = !val
				}
				return val, true
			}
		}
		return false, false
	}
	sawPad, sawNoPadMatched, sawNoPadInner := false, false, false
	for _, p := range post {
		if p.Exit != "return" || len(p.Ret) != 3 || !p.Ret[2].Nil {
			continue
		}
		pads := 0
		for _, e := range p.Effects {
			if e.Kind == "mapupdate" && (e.Args[2].Op == "const" && e.Args[2].Name == "nil") {
				pads++
			}
		}
		m, hasM := matchedOf(p)
		var inner constant.Value
		for k, v := range p.Asg {
			if seen[k] == "inner" {
				inner = v
			}
		}
		switch {
		case hasM && m:
			sawNoPadMatched = true
			if pads != 0 {
				why = append(why, "a left key that found a partner is still NULL-padded")
			}
		case hasM && !m && inner != nil && isTrueC(inner):
			sawNoPadInner = true
			if pads != 0 {
				why = append(why, "an INNER join NULL-pads unmatched rows")
			}
		case hasM && !m && inner != nil && !isTrueC(inner):
			if pads > 0 {
				sawPad = true
				if p.Ret[0].C == nil || !isTrueC(p.Ret[0].C) {
					why = append(why, "the NULL-padded rows are produced but ok=false drops them")
				}
			}
		}
	}
	if !sawPad {
		why = append(why, "after the scan, an unmatched left key of an outer join is not NULL-padded")
	}
	if !sawNoPadMatched || !sawNoPadInner {
		why = append(why, fmt.Sprintf("after-scan paths: matched=%v inner-unmatched=%v", sawNoPadMatched, sawNoPadInner))
	}
	c.Check(len(why) == 0, "c04.emit-guard", key, c.P.Pos(f.Pos()), fmt.Sprintf("on=false emits nothing (%d paths), on=true emits (%d); pad iff unmatched && !inner", nF, nT), strings.Join(uniq(why), "; "))
}

// ruleC04HashMatcher: hash matcher emits pairs for a bucket present on both sides, pads otherwise when not inner.
func ruleC04HashMatcher(c *Ctx) {
	c.Doc("c04.hash-matcher", "hash matcher: a left bucket is processed iff the right side has the same bucket or the join is not INNER; for each left row, pairs are emitted with every right row of the bucket, and the NULL pad exactly when the bucket has no right rows; otherwise (false, nil, nil)")
	f := c.joinMethod("HashJoinMatchFunc")
	if f == nil {
		c.Unknown("c04.hash-matcher", "HashJoinMatchFunc", "-", "anchor lost")
		return
	}
	key := c.P.funcKey(f)
	atoms := []Atom{
		{Name: "present", Dom: boolDom, Match: func(t *Term) bool {
			return t.Op == "ext" && t.Name == "1" && t.Args[0].Op == "lookupok" && strings.Contains(t.Args[0].Args[0].String(), ".Rows")
		}},
		{Name: "inner", Dom: boolDom, Match: func(t *Term) bool { return t.Op == "call" && strings.HasSuffix(t.Name, "IsInner") }},
	}
	tb := BuildTable(f, atoms, false)
	if tb.Err != nil {
		c.Unknown("c04.hash-matcher", key, c.P.Pos(f.Pos()), tb.Err.Error())
		return
	}
	var why []string
	n := 0
	for _, p := range tb.Paths {
		if p.Exit != "return" || len(p.Ret) != 3 {
			continue
		}
		nm := tb.namesOnPath(p)
		pres, hasP := nm["present"]
		inner, hasI := nm["inner"]
		if !hasP {
			continue
		}
		n++
		process := isTrueC(pres) || (hasI && !isTrueC(inner))
		if !isTrueC(pres) && !hasI {
			why = append(why, "an absent right bucket is handled without consulting the join type")
			continue
		}
		okRet := p.Ret[0].C != nil && isTrueC(p.Ret[0].C) == process
		if p.Ret[2].Nil && !okRet {
			why = append(why, fmt.Sprintf("present=%v inner=%v returns ok=%s", isTrueC(pres), hasI && isTrueC(inner), avString(p.Ret[0])))
		}
	}
	if n == 0 {
		why = append(why, "no path tests the presence of the right bucket")
	}
	// the pad is guarded by len(right) == 0 and pairs by len(right) > 0: a mapupdate with nil value must be on a path where the pair loop did not run
	for _, p := range tb.Paths {
		pads, pairs := 0, 0
		for _, e := range p.Effects {
			if e.Kind == "mapupdate" && e.Args[2].Op == "const" && e.Args[2].Name == "nil" {
				pads++
			}
			if e.Kind == "call" && strings.HasSuffix(e.Callee, "maps.Copy[map[string]any map[string]any]") || e.Kind == "call" && strings.Contains(e.Callee, "maps.Copy") {
				pairs++
			}
		}
		_ = pairs
		if pads > 0 {
			// the right bucket must be known empty on this path
			emptyKnown := false
			for k, v := range p.Asg {
				kt := p.KeyTerm[k]
				if kt != nil && kt.Op == "bin" && strings.Contains(kt.String(), "builtin:len(") {
					// len(right) > 0 false, or len(right) == 0 true
					if (kt.Name == ">" || kt.Name == "<") && !isTrueC(v) || kt.Name == "==" && isTrueC(v) {
						emptyKnown = true
					}
				}
			}
			if !emptyKnown {
				why = append(why, "a left row is NULL-padded on a path where the right bucket is not known to be empty")
			}
		}
	}
	c.Check(len(why) == 0, "c04.hash-matcher", key, c.P.Pos(f.Pos()), fmt.Sprintf("%d presence paths: ok = present || !inner; pad only for an empty right bucket", n), strings.Join(uniq(why), "; "))
}

func ruleC04KeyAlignment(c *Ctx) {
	c.Doc("c04.key-alignment", "hash-key construction: the column list returned by the join-column extractor reaches the key-building loop without being reordered (no sort, reverse or map-order iteration on it): the two sides' lists are paired positionally, so any side-local reordering mis-pairs columns whose names sort differently; the key text and the key map are built from the same column, read from the row itself")
	f := c.P.Func(modPath, "ToCatalog")
	if f == nil {
		for _, g := range c.P.pkgFuncs(modPath) {
			if g.Parent() == nil && g.Signature.Results().Len() == 2 && strings.Contains(g.Signature.Results().At(0).Type().String(), "HashedTable") {
				f = g
			}
		}
	}
	if f == nil {
		c.Unknown("c04.key-alignment", "ToCatalog", "-", "anchor lost")
		return
	}
	key := c.P.funcKey(f)
	c.Fn(key)
	c.Anchor("hash-key construction", key+" "+c.P.Pos(f.Pos()))
	o := c.own()
	ok, why := true, ""
	for _, w := range o.Writes {
		if w.Fn != f && w.Fn.Parent() != f {
			continue
		}
		if w.Kind == "sort" || strings.HasPrefix(w.Kind, "Sort") || w.Kind == "Reverse" {
			t := NewTB().Of(w.Target)
			if strings.Contains(t.String(), "extractJoinColumns") || t.Op == "ext" {
				ok, why = false, "the join columns are reordered by "+w.Kind+" at "+c.P.Pos(w.Instr.Pos())+" before the key is built: columns of the two sides are no longer paired positionally"
			}
		}
	}
	// the key loop ranges over the extractor's result (a slice, in order)
	colsLoop := false
	for _, l := range rangeLoops(f) {
		t := NewTB().Of(l.over)
		if strings.Contains(t.String(), "extractJoinColumns") {
			colsLoop = true
			// inside: ExecReader(row, column) feeds the buffer
		}
	}
	if !colsLoop {
		ok, why = false, why+" the key is not built by ranging, in order, over the extracted column list"
	}
	c.Check(ok, "c04.key-alignment", key, c.P.Pos(f.Pos()), "columns keep the order of the ON conjuncts on both sides", strings.TrimSpace(why))
	// extractor: per comparison exactly one column of the requested side, in ON order (left conjunct before right)
	ex := c.P.Func(modPath, "extractJoinColumns")
	if ex == nil {
		c.Unknown("c04.key-alignment", "extractJoinColumns", "-", "anchor lost")
		return
	}
	c.Fn("extractJoinColumns")
	paths, err := WalkFunc(ex, WalkCfg{MaxVisits: 1, MaxPaths: 4000})
	if err != nil {
		c.Unknown("c04.key-alignment", "extractJoinColumns", c.P.Pos(ex.Pos()), err.Error())
		return
	}
	ok2, why2 := true, ""
	nAnd := 0
	for _, p := range paths {
		if p.Exit != "return" {
			continue
		}
		// AND arm: append(append(cols, leftCols...), rightCols...)
		var recs []*Term
		for _, e := range p.Effects {
			if e.Kind == "call" && e.Callee == "extractJoinColumns" && len(e.Args) == 3 {
				recs = append(recs, e.Args[2])
			}
		}
		if len(recs) == 2 {
			isAnd := strings.Contains(recs[0].String(), "AndExpr")
			if isAnd {
				nAnd++
			}
			if !(recs[0].Op == "field" && recs[0].Name == "Left" && recs[1].Op == "field" && recs[1].Name == "Right") {
				ok2, why2 = false, "a connective does not visit its Left conjunct before its Right one: "+recs[0].String()+", "+recs[1].String()
			}
			// order of appends: left columns first
			var apps []*Term
			for _, e := range p.Effects {
				if isAppendOf(e) && len(e.Args) == 2 && e.Args[1].Op == "ext" {
					apps = append(apps, e.Args[1])
				}
			}
			if len(apps) == 2 && !(strings.Contains(apps[0].String(), ".Left") && strings.Contains(apps[1].String(), ".Right")) {
				ok2, why2 = false, "the columns of the Right conjunct are appended before those of the Left one"
			}
		}
	}
	if nAnd == 0 {
		ok2, why2 = false, "no AND arm found in the join-column extractor"
	}
	c.Check(ok2, "c04.key-alignment", "extractJoinColumns/order", c.P.Pos(ex.Pos()), "conjuncts are visited Left then Right and appended in that order", why2)
}

func ruleC04Strategy(c *Ctx) {
	c.Doc("c04.hash-only-when-equi", "strategy selection ((*Join).Exec): the hash matcher (which ignores the ON operators) runs only when the equi-join analysis accepts the ON expression — a requested HASH_JOIN on any other condition must take the nested loop; STRAIGHT_JOIN and the default take the nested loop")
	f := c.joinMethod("Exec")
	if f == nil {
		c.Unknown("c04.hash-only-when-equi", "(*Join).Exec", "-", "anchor lost")
		return
	}
	atoms := []Atom{
		{Name: "straight", Dom: boolDom, Match: func(t *Term) bool { return t.Op == "call" && strings.HasSuffix(t.Name, "IsStraightJoin") }},
		{Name: "hashHint", Dom: boolDom, Match: func(t *Term) bool { return t.Op == "call" && strings.HasSuffix(t.Name, "IsHashJoin") }},
		{Name: "equi", Dom: boolDom, Match: func(t *Term) bool { return t.Op == "call" && t.Name == "hashJoinAnalyze" }},
	}
	tb := BuildTable(f, atoms, false)
	ok, why, n := true, "", 0
	for _, p := range tb.Paths {
		if p.Exit != "return" {
			continue
		}
		r := ext0(p.Ret[0].T)
		if r == nil || r.Op != "call" {
			continue
		}
		n++
		nm := tb.namesOnPath(p)
		if strings.HasSuffix(r.Name, ".HashJoin") {
			if e, has := nm["equi"]; !has || !isTrueC(e) {
				ok, why = false, "the hash matcher is selected on a path where the equi-join analysis did not accept ON (requested HASH_JOIN on a non-equality condition)"
			}
		}
	}
	if n == 0 {
		ok, why = false, "no strategy path found"
	}
	c.Check(ok, "c04.hash-only-when-equi", c.P.funcKey(f), c.P.Pos(f.Pos()), fmt.Sprintf("%d strategy paths: HashJoin only under hashJoinAnalyze", n), why)
}

func ruleC04Analyze(c *Ctx) {
	c.Doc("c04.equi-analysis", "hashJoinAnalyze returns true only for a conjunction (AND) of ComparisonExpr leaves whose operator is EqualOp: OR, any other operator and any other node yield false")
	f := c.P.Func(modPath, "hashJoinAnalyze")
	if f == nil {
		c.Unknown("c04.equi-analysis", "hashJoinAnalyze", "-", "anchor lost")
		return
	}
	c.Fn("hashJoinAnalyze")
	eq := int64(-1)
	for v, n := range c.P.enumConsts(sqlp, "ComparisonExprOperator") {
		if n == "EqualOp" {
			eq = v
		}
	}
	paths, err := WalkFunc(f, WalkCfg{MaxVisits: 1})
	if err != nil {
		c.Unknown("c04.equi-analysis", "hashJoinAnalyze", c.P.Pos(f.Pos()), err.Error())
		return
	}
	var why []string
	sawCmpEq, sawAnd := false, false
	for _, p := range paths {
		if p.Exit != "return" {
			continue
		}
		kind := ""
		for _, k := range p.Order {
			kt := p.KeyTerm[k]
			if kt != nil && kt.Op == "ext" && kt.Name == "1" && kt.Args[0].Op == "assertok" {
				if v, _ := p.Assumed(k); v {
					kind = kt.Args[0].Name
				}
			}
		}
		ret := p.Ret[0]
		switch {
		case strings.HasSuffix(kind, "ComparisonExpr"):
			// operator test
			opEq, tested := false, false
			for k, v := range p.Asg {
				kt := p.KeyTerm[k]
				if kt != nil && kt.Op == "bin" && kt.Name == "==" && strings.Contains(kt.String(), ".Operator") && kt.Args[1].Name == fmt.Sprint(eq) {
					tested, opEq = true, isTrueC(v)
				}
			}
			if !tested {
				why = append(why, "a comparison leaf is accepted without testing its operator against EqualOp")
			} else if opEq {
				sawCmpEq = true
				if ret.C == nil || !isTrueC(ret.C) {
					why = append(why, "an equality leaf is rejected")
				}
			} else if ret.C == nil || isTrueC(ret.C) {
				why = append(why, "a non-equality comparison is accepted as hash-joinable")
			}
		case strings.HasSuffix(kind, "AndExpr"):
			sawAnd = true
			// l && r of the recursive calls on Left and Right
			s := avString(ret)
			if ret.C != nil && isTrueC(ret.C) {
				why = append(why, "AND is accepted without analysing its operands")
			} else if ret.C == nil && !(strings.Contains(s, "hashJoinAnalyze(") && (strings.Contains(s, ".Right") || strings.Contains(s, ".Left"))) {
				why = append(why, "AND returns "+s)
			}
		default:
			if ret.C == nil || isTrueC(ret.C) {
				why = append(why, "a "+kind+" node is accepted as hash-joinable")
			}
		}
	}
	if !sawCmpEq || !sawAnd {
		why = append(why, fmt.Sprintf("arms found: equality leaf=%v AND=%v", sawCmpEq, sawAnd))
	}
	c.Check(len(why) == 0, "c04.equi-analysis", "hashJoinAnalyze", c.P.Pos(f.Pos()), "true only for AND-trees of equalities", strings.Join(uniq(why), "; "))
}

func ruleC04SideSwap(c *Ctx) {
	c.Doc("c04.matcher-siblings", "the side swap for non-left joins (rows and identifiers of the two sides exchanged together) is applied, under the same condition, in both the nested-loop entry Join() and the hash entry HashJoin(); both build the two catalogs with (rows, own ident, other ident) in the same orientation")
	type facts struct {
		swapRows, swapIdents bool
		cond                 string
		catalogs             []string
	}
	get := func(name string) (*facts, *ssa.Function) {
		f := c.joinMethod(name)
		if f == nil {
			return nil, nil
		}
		fc := &facts{}
		paths, _ := WalkFunc(f, WalkCfg{MaxVisits: 1})
		for _, p := range paths {
			left, li := false, false
			for _, e := range p.Effects {
				if e.Kind == "store" && e.Args[0].Op == "field" {
					if e.Args[0].Name == "left" && e.Args[1].Op == "field" && e.Args[1].Name == "right" {
						left = true
					}
					if e.Args[0].Name == "leftIdent" && e.Args[1].Op == "field" && e.Args[1].Name == "rightIdent" {
						li = true
					}
				}
				if e.Kind == "call" && e.Callee == "ToCatalog" && len(e.Args) == 4 {
					sig := []string{}
					for _, a := range e.Args[:3] {
						if a.Op == "field" {
							sig = append(sig, a.Name)
						} else {
							sig = append(sig, "?")
						}
					}
					s := strings.Join(sig, ",")
					dup := false
					for _, x := range fc.catalogs {
						if x == s {
							dup = true
						}
					}
					if !dup {
						fc.catalogs = append(fc.catalogs, s)
					}
				}
			}
			if left && li {
				fc.swapRows, fc.swapIdents = true, true
				for _, k := range p.Order {
					if strings.Contains(k, "IsLeftJoin") {
						v, _ := p.Assumed(k)
						fc.cond = fmt.Sprintf("IsLeftJoin=%v", v)
					}
				}
			} else if left != li {
				fc.swapRows, fc.swapIdents = left, li
			}
		}
		return fc, f
	}
	a, fa := get("Join")
	b, fb := get("HashJoin")
	if a == nil || b == nil {
		c.Unknown("c04.matcher-siblings", "Join/HashJoin", "-", "anchor lost")
		return
	}
	for _, x := range []struct {
		name string
		fc   *facts
		fn   *ssa.Function
	}{{"(*Join).Join", a, fa}, {"(*Join).HashJoin", b, fb}} {
		ok, why := true, ""
		if !(x.fc.swapRows && x.fc.swapIdents) {
			ok, why = false, fmt.Sprintf("side swap incomplete: rows swapped=%v, identifiers swapped=%v", x.fc.swapRows, x.fc.swapIdents)
		} else if x.fc.cond != "IsLeftJoin=false" {
			ok, why = false, "the sides are swapped under "+x.fc.cond+" (want: exactly when the join is not a left join)"
		}
		want := []string{"left,leftIdent,rightIdent", "right,rightIdent,leftIdent"}
		if ok && !(len(x.fc.catalogs) == 2 && x.fc.catalogs[0] == want[0] && x.fc.catalogs[1] == want[1]) {
			ok, why = false, "catalogs are built with "+strings.Join(x.fc.catalogs, " | ")+" (want "+strings.Join(want, " | ")+")"
		}
		c.Check(ok, "c04.matcher-siblings", x.name, c.P.Pos(x.fn.Pos()), "rows and identifiers swapped together iff not a left join; catalogs (left,leftIdent,rightIdent) and (right,rightIdent,leftIdent)", why)
	}
}
