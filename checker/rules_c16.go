package main

import (
	"fmt"
	"go/constant"
	"go/token"
	"go/types"
	"sort"
	"strconv"
	"strings"

	"golang.org/x/tools/go/ssa"
)

func init() {
	register("C16", ruleC16EscapeSet, ruleC16LexerStates, ruleC16StateAgreement, ruleC16IndexTwoSided, ruleC16Accounting, ruleC16Pure)
}

// runeConstsComparedWith: integer constants that fn compares (==) with values satisfying pred.
func runeConstsCompared(fn *ssa.Function, pred func(v ssa.Value) bool) map[int64]bool {
	return runeConstsComparedB(fn, pred, nil, 0)
}

// runeConstsComparedB also looks through helpers the rule tables do not know (a state function that became a one-line
// wrapper around a shared, parameterised state): a helper's parameter that receives a constant at the call site counts
// as that constant.
func runeConstsComparedB(fn *ssa.Function, pred func(v ssa.Value) bool, bind map[ssa.Value]int64, depth int) map[int64]bool {
	out := map[int64]bool{}
	konst := func(v ssa.Value) (int64, bool) {
		if k, ok := constIntOf(v); ok {
			return k, true
		}
		if cst, ok := v.(*ssa.Const); ok && cst.Value != nil && cst.Value.Kind() == constant.Bool {
			if constant.BoolVal(cst.Value) {
				return 1, true
			}
			return 0, true
		}
		if k, ok := bind[v]; ok {
			return k, true
		}
		return 0, false
	}
	// a flag parameter that is a constant at this call site (`quotedState(l, '`', false)`) switches comparisons off:
	// the block is dead under the flag, or the comparison is at once and-ed with the flag
	flagOff := func(b *ssa.BinOp) bool {
		for _, fc := range factsAt(b.Block()) {
			if _, isParam := fc.cond.(*ssa.Parameter); isParam {
				if k, ok := konst(fc.cond); ok && (k != 0) != fc.truth {
					return true
				}
			}
		}
		if b.Op != token.EQL || b.Referrers() == nil {
			return false
		}
		for _, r := range *b.Referrers() {
			iff, ok := r.(*ssa.If)
			if !ok || iff.Block() != b.Block() {
				continue
			}
			t := iff.Block().Succs[0]
			if len(t.Instrs) == 1 {
				if g, ok := t.Instrs[0].(*ssa.If); ok {
					if _, isParam := g.Cond.(*ssa.Parameter); isParam {
						if k, ok := konst(g.Cond); ok && k == 0 {
							return true
						}
					}
				}
				// the value form of `cmp && flag`: the right-hand block only jumps to the join, whose phi takes the flag from it
				if _, ok := t.Instrs[0].(*ssa.Jump); ok && len(t.Succs) == 1 {
					d := t.Succs[0]
					for _, din := range d.Instrs {
						ph, ok := din.(*ssa.Phi)
						if !ok {
							break
						}
						for i, pred := range d.Preds {
							if pred == t {
								if _, isParam := ph.Edges[i].(*ssa.Parameter); isParam {
									if k, ok := konst(ph.Edges[i]); ok && k == 0 {
										return true
									}
								}
							}
						}
					}
				}
			}
		}
		return false
	}
	allInstrs(fn, func(_ *ssa.BasicBlock, in ssa.Instruction) {
		if call, isCall := in.(ssa.CallInstruction); isCall && depth < 3 {
			if h := call.Common().StaticCallee(); isUnknownHelper(h) && h != fn {
				hb := map[ssa.Value]int64{}
				for i, p := range h.Params {
					if i < len(call.Common().Args) {
						if k, ok := konst(call.Common().Args[i]); ok {
							hb[p] = k
						}
					}
				}
				for k := range runeConstsComparedB(h, pred, hb, depth+1) {
					out[k] = true
				}
			}
		}
		b, ok := in.(*ssa.BinOp)
		if !ok || (b.Op != token.EQL && b.Op != token.NEQ) {
			return
		}
		// comparisons made once a backslash was recognised concern the escaped character, not a
		// character that is special on its own
		afterBackslash := false
		for _, fc := range relFacts(factsAt(b.Block())) {
			if k, isC := konst(fc.y); isC && k == '\\' && fc.r == relEQ {
				afterBackslash = true
			}
		}
		if afterBackslash || flagOff(b) {
			return
		}
		for _, pr := range [][2]ssa.Value{{b.X, b.Y}, {b.Y, b.X}} {
			if k, isC := konst(pr[1]); isC && pred(pr[0]) {
				out[k] = true
			}
		}
	})
	return out
}

func (c *Ctx) tokenizerMethod(name string) *ssa.Function {
	pk := c.P.SSAPkgs[sqlp]
	if pk == nil {
		return nil
	}
	t := pk.Type("Tokenizer")
	if t == nil {
		return nil
	}
	ms := c.P.Prog.MethodSets.MethodSet(types.NewPointer(t.Type()))
	for i := 0; i < ms.Len(); i++ {
		if ms.At(i).Obj().Name() == name {
			return c.P.Prog.MethodValue(ms.At(i))
		}
	}
	return nil
}

func ruleC16EscapeSet(c *Ctx) {
	c.Doc("c16.escape-set", "writer/reader table agreement: R = the characters that are special inside a quoted literal for the parser that consumes the output (the rune constants the sqlparser tokenizer's scanString/scanStringSlow compare the current character with, plus the delimiter); W = the characters QuoteString neutralises (constant first operands of its strings.ReplaceAll/Replacer calls, each replaced by a two-character escape starting with the character or a backslash). Obligation R ⊆ W, and the literal is wrapped in the delimiter on both sides")
	c.NotDecidedClause("C16: that the substituted text parses to the same statement shape and echoes the argument exactly (a value-level claim about the tokenizer); float/int round-trip through strconv (trusted library)")
	qs := c.P.Func(sanitizePath, "QuoteString")
	if qs == nil {
		c.Unknown("c16.escape-set", "sanitizer.QuoteString", "-", "anchor lost")
		return
	}
	c.Fn("sanitizer.QuoteString")
	// the consumer: genql.Parse -> sqlparser.Parse ; its tokenizer's string scanners
	parse := c.P.Func(modPath, "Parse")
	consumerOK := false
	if parse != nil {
		allInstrs(parse, func(_ *ssa.BasicBlock, in ssa.Instruction) {
			if call, ok := in.(*ssa.Call); ok && call.Common().StaticCallee() != nil && call.Common().StaticCallee().Pkg != nil && call.Common().StaticCallee().Pkg.Pkg.Path() == sqlp {
				consumerOK = true
			}
		})
	}
	if !consumerOK {
		c.Unknown("c16.escape-set", "consumer", "-", "anchor lost: genql.Parse no longer calls the sqlparser package")
		return
	}
	R := map[int64]bool{}
	for _, name := range []string{"scanString", "scanStringSlow"} {
		f := c.tokenizerMethod(name)
		if f == nil {
			c.Unknown("c16.escape-set", "sqlparser.Tokenizer."+name, "-", "anchor lost: tokenizer method not found")
			return
		}
		c.Anchor("consumer string scanner", "(*sqlparser.Tokenizer)."+name)
		for k := range runeConstsCompared(f, func(v ssa.Value) bool {
			t := NewTB().Of(v).String()
			return strings.Contains(t, ".cur(") || strings.Contains(t, "buf[") || strings.Contains(t, "conv[uint16]")
		}) {
			if k > 0 && k < 256 {
				R[k] = true
			}
		}
	}
	R['\''] = true // the delimiter QuoteString uses
	// W
	W := map[int64]string{}
	var wrapOK bool
	tbd := NewTB()
	allInstrs(qs, func(_ *ssa.BasicBlock, in ssa.Instruction) {
		call, ok := in.(*ssa.Call)
		if !ok || call.Common().StaticCallee() == nil {
			return
		}
		if call.Common().StaticCallee().String() == "strings.ReplaceAll" {
			o, ok1 := constString(call.Common().Args[1])
			n, ok2 := constString(call.Common().Args[2])
			if ok1 && ok2 && len(o) == 1 {
				W[int64(o[0])] = n
			}
		}
		// one pass of a constant strings.Replacer: every pair neutralises its character
		if pairs, _, isR := replacerPairs(call); isR {
			for _, pr := range pairs {
				if len(pr[0]) == 1 {
					W[int64(pr[0][0])] = pr[1]
				}
			}
		}
	})
	allInstrs(qs, func(_ *ssa.BasicBlock, in ssa.Instruction) {
		if r, ok := in.(*ssa.Return); ok {
			t := tbd.Of(r.Results[0]).String()
			wrapOK = strings.HasPrefix(t, `((c:"'" + `) && strings.HasSuffix(t, ` + c:"'")`)
		}
	})
	// order of the replacements (innermost = applied first): the text a replacement produces must not contain
	// a character that a LATER replacement rewrites (it would be escaped a second time and change the value)
	{
		type repl struct{ o, n string }
		var chain []repl // outermost first
		var cur ssa.Value
		allInstrs(qs, func(_ *ssa.BasicBlock, in ssa.Instruction) {
			if r, ok := in.(*ssa.Return); ok {
				cur = r.Results[0]
			}
		})
		var walk func(v ssa.Value, d int)
		walk = func(v ssa.Value, d int) {
			if d > 12 || v == nil {
				return
			}
			switch x := v.(type) {
			case *ssa.BinOp:
				walk(x.X, d+1)
				walk(x.Y, d+1)
			case *ssa.Call:
				if x.Common().StaticCallee() != nil && x.Common().StaticCallee().String() == "strings.ReplaceAll" {
					o, _ := constString(x.Common().Args[1])
					n, _ := constString(x.Common().Args[2])
					chain = append(chain, repl{o, n})
					walk(x.Common().Args[0], d+1)
				}
				if pairs, inner, isR := replacerPairs(x); isR {
					// substituted in one pass: what a pair produces is not looked at again, so the pairs do not interact;
					// they are listed with an output that no other pair can rewrite
					for _, pr := range pairs {
						chain = append(chain, repl{pr[0], ""})
					}
					walk(inner, d+1)
				}
			}
		}
		walk(cur, 0)
		okOrder, whyOrder := true, ""
		for i := range chain { // chain[i] is applied AFTER chain[j] for j > i
			for j := i + 1; j < len(chain); j++ {
				if chain[i].o != "" && strings.Contains(chain[j].n, chain[i].o) && chain[j].o != chain[i].o {
					okOrder, whyOrder = false, fmt.Sprintf("the replacement %q -> %q is applied before %q -> %q, which rewrites the text it produced: the value is escaped twice and no longer echoes", chain[j].o, chain[j].n, chain[i].o, chain[i].n)
				}
			}
		}
		// every replacement's output must decode back to its input for the consumer: c -> cc (doubling) or c -> \c / a documented backslash escape
		for _, r := range chain {
			if len(r.o) != 1 {
				okOrder, whyOrder = false, fmt.Sprintf("replacement of the multi-character text %q", r.o)
			}
		}
		c.Check(okOrder && len(chain) >= 2, "c16.escape-set", "sanitizer.QuoteString/order", c.P.Pos(qs.Pos()), fmt.Sprintf("%d replacements; none produces a character that a later one rewrites", len(chain)), whyOrder)
	}
	var rs []int64
	for k := range R {
		rs = append(rs, k)
	}
	sort.Slice(rs, func(i, j int) bool { return rs[i] < rs[j] })
	for _, k := range rs {
		rep, has := W[k]
		okRep := has && len(rep) == 2 && rep[1] == byte(k) && (rep[0] == byte(k) || rep[0] == '\\')
		why := ""
		if !has {
			why = fmt.Sprintf("the parser treats %q as special inside a string literal but QuoteString does not neutralise it: an argument containing it can end the literal or swallow its closing quote", rune(k))
		} else if !okRep {
			why = fmt.Sprintf("%q is replaced by %q, which is not an escape of it for the parser", rune(k), rep)
		}
		c.Check(okRep, "c16.escape-set", fmt.Sprintf("sanitizer.QuoteString/%q", rune(k)), c.P.Pos(qs.Pos()), fmt.Sprintf("%q -> %q", rune(k), rep), why)
	}
	c.Check(wrapOK, "c16.escape-set", "sanitizer.QuoteString/wrap", c.P.Pos(qs.Pos()), "the escaped text is wrapped in single quotes", "the result is not '…' around the escaped text")
	c.Notes = append(c.Notes, fmt.Sprintf("c16.escape-set: R=%v (from the tokenizer), W=%v", rs, W))
}

func ruleC16LexerStates(c *Ctx) {
	c.Doc("c16.lexer-states", "the placeholder lexer's raw state leaves placeholder recognition for every construct inside which the consuming tokenizer does not see a placeholder: single- and double-quoted strings, backtick identifiers, -- and # line comments, /* */ comments (each opening character has an arm that returns a dedicated state, and the tokenizer's Scan has an arm for the same character); the two string states consume a backslash together with the following rune, as the tokenizer's string scanner does")
	raw := c.P.Func(sanitizePath, "rawState")
	if raw == nil {
		c.Unknown("c16.lexer-states", "sanitizer.rawState", "-", "anchor lost")
		return
	}
	c.Fn("sanitizer.rawState")
	// arms of rawState: constants compared with the decoded rune, and whether the arm can return a state function
	isRune := func(v ssa.Value) bool { return strings.Contains(NewTB().Of(v).String(), "DecodeRuneInString") }
	arms := runeConstsCompared(raw, isRune)
	// which arms return a non-raw state: walk paths
	paths, err := WalkFunc(raw, WalkCfg{MaxVisits: 1, MaxPaths: 6000, NoEffects: true})
	if err != nil {
		c.Unknown("c16.lexer-states", "sanitizer.rawState", c.P.Pos(raw.Pos()), err.Error())
		return
	}
	leaves := map[int64]string{}
	for _, p := range paths {
		if p.Exit != "return" || p.Ret[0].T == nil || p.Ret[0].T.Op != "fn" {
			continue
		}
		// the first rune equality assumed true on this path
		for _, k := range p.Order {
			kt := p.KeyTerm[k]
			if kt == nil || kt.Op != "bin" || kt.Name != "==" || !isTrueC(p.Asg[k]) {
				continue
			}
			if kt.Args[1].Op == "const" && strings.Contains(kt.Args[0].String(), "DecodeRuneInString") {
				if cv, ok := kt.Args[1].V.(*ssa.Const); ok && cv.Value != nil && cv.Value.Kind() == constant.Int {
					iv, _ := constant.Int64Val(cv.Value)
					if _, seen := leaves[iv]; !seen {
						leaves[iv] = p.Ret[0].T.Name
					}
				}
				break
			}
		}
	}
	scan := c.tokenizerMethod("Scan")
	consumer := map[int64]bool{}
	if scan != nil {
		consumer = runeConstsCompared(scan, func(v ssa.Value) bool { return true })
	}
	for _, ch := range []rune{'\'', '"', '`', '#', '-', '/'} {
		st, has := leaves[int64(ch)]
		why := ""
		ok := has && arms[int64(ch)]
		if !ok {
			why = fmt.Sprintf("the lexer has no state for %q: a $n inside that construct is substituted although the parser does not see a placeholder there (or the two disagree on where the construct ends)", ch)
		}
		if scan != nil && !consumer[int64(ch)] {
			ok, why = false, fmt.Sprintf("the consumer's tokenizer has no arm for %q: the reference table no longer matches the parser", ch)
		}
		c.Check(ok, "c16.lexer-states", fmt.Sprintf("sanitizer.rawState/%q", ch), c.P.Pos(raw.Pos()), "dedicated state: "+st, why)
	}
	// string states honour backslash
	for _, name := range []string{"singleQuoteState", "doubleQuoteState"} {
		f := c.P.Func(sanitizePath, name)
		if f == nil {
			c.Unknown("c16.lexer-states", "sanitizer."+name, "-", "anchor lost")
			continue
		}
		c.Fn("sanitizer." + name)
		has := runeConstsCompared(f, isRune)['\\']
		// and the arm advances the position past the next rune: a second DecodeRuneInString under the backslash arm
		adv := false
		ps, _ := WalkFunc(f, WalkCfg{MaxVisits: 2, MaxPaths: 4000})
		for _, p := range ps {
			bs := false
			for k, v := range p.Asg {
				kt := p.KeyTerm[k]
				if kt != nil && kt.Op == "bin" && kt.Name == "==" && kt.Args[1].Name == "92" && isTrueC(v) {
					bs = true
				}
			}
			if !bs {
				continue
			}
			n := 0
			for _, e := range p.Effects {
				if e.Kind == "call" && strings.HasSuffix(e.Callee, "DecodeRuneInString") {
					n++
				}
			}
			if n >= 2 {
				adv = true
			}
		}
		c.Check(has && adv, "c16.lexer-states", "sanitizer."+name+"/backslash", c.P.Pos(f.Pos()), "a backslash consumes the following rune", "the string state does not treat a backslash as an escape: after 'it\\'s' the lexer and the parser disagree on whether a literal is open")
	}
}

func ruleC16IndexTwoSided(c *Ctx) {
	c.Doc("c16.index-two-sided", "(*Command).Sanitize: the argument index is proven within 0 <= i < len(args) by dominating guards whose failing side returns an error, both for reading args[i] and for marking argUse[i]: $0 and overflowing placeholder numbers are errors, not panics")
	f := c.P.Method(sanitizePath, "Command", "Sanitize")
	if f == nil {
		c.Unknown("c16.index-two-sided", "(*Command).Sanitize", "-", "anchor lost")
		return
	}
	c.Fn("sanitizer.(*Command).Sanitize")
	n := 0
	allInstrs(f, func(_ *ssa.BasicBlock, in ssa.Instruction) {
		ia, ok := in.(*ssa.IndexAddr)
		if !ok {
			return
		}
		if _, isC := constIntOf(ia.Index); isC {
			return
		}
		// skip loop counters of range loops (index is phi+1 pattern)
		if b, isB := ia.Index.(*ssa.BinOp); isB && b.Op == token.ADD {
			if _, isPhi := b.X.(*ssa.Phi); isPhi {
				return
			}
		}
		n++
		fs := factsAt(ia.Block())
		t := NewTB().Of(ia.X).String()
		key := fmt.Sprintf("sanitizer.(*Command).Sanitize/index#%d", n)
		var why []string
		// upper bound: against len(args) for both args and argUse (argUse is make([]bool, len(args)))
		upper := proveLTLen(ia.Index, ia.X, fs, 0)
		if !upper {
			// argUse has the length of args: accept a proof against args
			for _, pa := range f.Params {
				if proveLTLen(ia.Index, pa, fs, 0) {
					upper = true
				}
			}
		}
		if !upper {
			why = append(why, "upper bound not proven for "+t)
		}
		if !proveGE0(ia.Index, fs, 0) {
			why = append(why, "lower bound not proven for the index "+NewTB().Of(ia.Index).String()+" of "+t+": $0 indexes element -1")
		}
		c.Check(len(why) == 0, "c16.index-two-sided", key, c.P.Pos(ia.Pos()), "0 <= i < len proven by guards", strings.Join(why, "; "))
	})
	if n < 2 {
		c.Unknown("c16.index-two-sided", "sanitizer.(*Command).Sanitize/inventory", c.P.Pos(f.Pos()), fmt.Sprintf("only %d variable index sites found (args[i] and argUse[i] expected)", n))
	}
}

func ruleC16Accounting(c *Ctx) {
	c.Doc("c16.accounting", "Sanitize: every placeholder part marks its argument as used on the success path and an argument never used is an error; each arm of the argument type switch produces the text from a quoting/formatting function applied to that very argument (the string arm through QuoteString, []byte through QuoteBytes; no arm writes the raw argument), and an unsupported argument type is an error")
	f := c.P.Method(sanitizePath, "Command", "Sanitize")
	if f == nil {
		c.Unknown("c16.accounting", "(*Command).Sanitize", "-", "anchor lost")
		return
	}
	key := "sanitizer.(*Command).Sanitize"
	// per-arm producers: the value written for an int part, by asserted argument type
	producers := map[string]string{}
	checks := map[string]bool{"math.IsNaN": true, "math.IsInf": true, "fmt.Errorf": true} // value tests, not producers
	tbd := NewTB()
	// the argument list: the variadic parameter of Sanitize, whatever it is called
	variadic := ""
	if f.Signature.Variadic() && len(f.Params) > 0 {
		variadic = f.Params[len(f.Params)-1].Name()
	}
	deepInstrs(f, func(_ *ssa.Function, tb *TB, _ *ssa.BasicBlock, in ssa.Instruction) {
		call, ok := in.(*ssa.Call)
		if !ok || call.Common().StaticCallee() == nil {
			return
		}
		for _, a := range call.Common().Args {
			t := tb.Of(a)
			if t.Op == "ext" && t.Name == "0" && t.Args[0].Op == "assertok" && variadic != "" && strings.Contains(t.String(), "p:"+variadic+"[") {
				if checks[funcName(call.Common().StaticCallee())] {
					continue
				}
				producers[t.Args[0].Name] = funcName(call.Common().StaticCallee())
			}
		}
	})
	want := map[string]string{"string": "QuoteString", "[]byte": "QuoteBytes", "int64": "strconv.FormatInt", "float64": "strconv.FormatFloat", "bool": "strconv.FormatBool"}
	// strconv.AppendX(dst, v, ...) is strconv.FormatX(v, ...) written behind dst (num.strconv-exact holds both to base 10 / 64 bits)
	sameRendering := map[string]string{"strconv.AppendInt": "strconv.FormatInt", "strconv.AppendFloat": "strconv.FormatFloat", "strconv.AppendBool": "strconv.FormatBool"}
	for typ, fn := range want {
		got := producers[typ]
		if alt, ok := sameRendering[got]; ok {
			got = alt
		}
		c.Check(strings.HasSuffix(got, fn), "c16.accounting", key+"/arm/"+typ, c.P.Pos(f.Pos()), typ+" arguments are rendered by "+got, fmt.Sprintf("a %s argument is rendered by %q (want %s): its content reaches the statement unquoted or mis-formatted", typ, got, fn))
	}
	// what is written is what was rendered: the text handed to the buffer is the part itself, a constant, or the result of
	// a rendering call — never a concatenation around it (round 9: `str = " " + str + " "`, the padding pgx applies, turns
	// `1--$1` into `1-- 5`: for this parser `--` followed by a blank opens a comment and the rest of the statement is gone)
	writes, glued := 0, ""
	deepInstrs(f, func(_ *ssa.Function, tb *TB, _ *ssa.BasicBlock, in ssa.Instruction) {
		call, ok := in.(*ssa.Call)
		if !ok || call.Common().StaticCallee() == nil {
			return
		}
		cn := funcName(call.Common().StaticCallee())
		if !strings.HasSuffix(cn, "Buffer).WriteString") && !strings.HasSuffix(cn, "Builder).WriteString") && !strings.HasSuffix(cn, "Buffer).Write") && !strings.HasSuffix(cn, "Builder).Write") {
			return
		}
		args := call.Common().Args
		if len(args) < 2 {
			return
		}
		writes++
		t := tb.Of(args[1])
		if t.Contains(func(x *Term) bool { return x.Op == "bin" && x.Name == "+" && x.Typ != nil && isStringType(x.Typ) }) || t.Contains(func(x *Term) bool {
			return x.Op == "call" && (strings.HasSuffix(x.Name, "fmt.Sprintf") || strings.HasSuffix(x.Name, "strings.Join") || strings.HasSuffix(x.Name, "fmt.Sprint"))
		}) {
			glued = "the text written for a part at " + c.P.Pos(call.Pos()) + " is a concatenation around the rendered argument (" + cut(t.String(), 120) + "): characters the caller did not write stand next to the value — a blank after `--` opens a comment for this parser, so `1--$1` loses the rest of the statement"
		}
	})
	c.Check(writes > 0 && glued == "", "c16.accounting", key+"/written-as-rendered", c.P.Pos(f.Pos()), "every text written to the output is a part of the template, a constant or the result of a rendering call, with nothing glued to it", func() string {
		if writes == 0 {
			return "no write of a part to the output buffer was found"
		}
		return glued
	}())
	// used marking and the unused loop
	marks, markWhy := false, "no placeholder marks its argument as used"
	var argIndex ssa.Value
	allInstrs(f, func(_ *ssa.BasicBlock, in ssa.Instruction) {
		if ia, isIA := in.(*ssa.IndexAddr); isIA {
			// the argument list: the variadic parameter, whatever it is called
			if p, isP := ia.X.(*ssa.Parameter); isP && f.Signature.Variadic() && len(f.Params) > 0 && p == f.Params[len(f.Params)-1] {
				argIndex = ia.Index
			}
		}
	})
	allInstrs(f, func(_ *ssa.BasicBlock, in ssa.Instruction) {
		st, ok := in.(*ssa.Store)
		if !ok {
			return
		}
		if ia, isIA := st.Addr.(*ssa.IndexAddr); isIA && strings.Contains(tbd.Of(ia.X).String(), "make:slice") {
			if cv, isC := st.Val.(*ssa.Const); isC && cv.Value != nil && cv.Value.Kind() == constant.Bool && constant.BoolVal(cv.Value) {
				if argIndex != nil && ia.Index == argIndex {
					marks = true
				} else {
					markWhy = "the used-mark is set at index " + tbd.Of(ia.Index).String() + ", not at the index of the argument that was substituted"
				}
			}
		}
	})
	c.Check(marks, "c16.accounting", key+"/marks-used", c.P.Pos(f.Pos()), "argUse[i] = true for the very index i whose argument was substituted", markWhy)
	// an unused argument and an unsupported type are errors: paths
	paths, err := WalkFunc(f, WalkCfg{MaxVisits: 2, MaxPaths: 20000, NoEffects: true})
	if err != nil {
		c.Unknown("c16.accounting", key+"/unused", c.P.Pos(f.Pos()), err.Error())
		return
	}
	okUnused, sawUnused := true, false
	for _, p := range paths {
		if p.Exit != "return" {
			continue
		}
		for k, v := range p.Asg {
			kt := p.KeyTerm[k]
			// the `used` element tested false
			if kt != nil && kt.Op == "index" && strings.Contains(kt.String(), "make:slice") && !isTrueC(v) {
				sawUnused = true
				if p.Ret[1].Nil {
					okUnused = false
				}
			}
			// library form of the same scan: the position of the first `false` in the used-marks (slices.Index(used, false))
			if kt != nil && kt.Op == "bin" && len(kt.Args) == 2 {
				idx := kt.Args[0]
				if idx.Op == "call" && strings.HasPrefix(idx.Name, "slices.Index") && len(idx.Args) == 2 && strings.Contains(idx.Args[0].String(), "make:slice") && idx.Args[1].String() == "c:false" {
					found := false
					switch {
					case kt.Name == ">=" && kt.Args[1].String() == "c:0", kt.Name == ">" && kt.Args[1].String() == "c:-1":
						found = isTrueC(v)
					case kt.Name == "<" && kt.Args[1].String() == "c:0", kt.Name == "==" && kt.Args[1].String() == "c:-1", kt.Name == "<=" && kt.Args[1].String() == "c:-1":
						found = !isTrueC(v)
					}
					if found {
						sawUnused = true
						if p.Ret[1].Nil {
							okUnused = false
						}
					}
				}
			}
		}
	}
	c.Check(okUnused && sawUnused, "c16.accounting", key+"/unused-is-error", c.P.Pos(f.Pos()), "an argument that no placeholder used ends Sanitize with an error", "an unused argument is not reported")
}

// ruleC16StateAgreement: each quoting state of the placeholder lexer treats exactly the characters
// as special that the consuming tokenizer's scanner for the same construct treats as special.
func ruleC16StateAgreement(c *Ctx) {
	c.Doc("c16.state-agreement", "per quoted construct, the set of special characters of the lexer's state equals that of the tokenizer's scanner for that construct (constants extracted from both): '…' and \"…\" <-> scanString/scanStringSlow {delimiter, backslash}; `…` <-> scanLiteralIdentifier/-Slow {backtick}: a character that only one side treats as an escape makes the two disagree on where the construct ends")
	isRune := func(v ssa.Value) bool {
		ex, ok := v.(*ssa.Extract)
		return ok && ex.Index == 0 && strings.Contains(NewTB().Of(ex.Tuple).String(), "DecodeRuneInString")
	}
	consumerSet := func(names []string, delim rune) map[int64]bool {
		out := map[int64]bool{int64(delim): true}
		for _, n := range names {
			f := c.tokenizerMethod(n)
			if f == nil {
				return nil
			}
			for k := range runeConstsCompared(f, func(v ssa.Value) bool {
				t := NewTB().Of(v).String()
				return strings.Contains(t, ".cur(") || strings.Contains(t, "buf[") || strings.Contains(t, "conv[uint16]")
			}) {
				if k > 0 && k < 256 {
					out[k] = true
				}
			}
		}
		return out
	}
	for _, st := range []struct {
		state   string
		delim   rune
		scanner []string
	}{
		{"singleQuoteState", '\'', []string{"scanString", "scanStringSlow"}},
		{"doubleQuoteState", '"', []string{"scanString", "scanStringSlow"}},
		{"backtickState", '`', []string{"scanLiteralIdentifier", "scanLiteralIdentifierSlow"}},
	} {
		f := c.P.Func(sanitizePath, st.state)
		if f == nil {
			c.Unknown("c16.state-agreement", "sanitizer."+st.state, "-", "anchor lost: no such lexer state")
			continue
		}
		c.Fn("sanitizer." + st.state)
		want := consumerSet(st.scanner, st.delim)
		if want == nil {
			c.Unknown("c16.state-agreement", "sanitizer."+st.state, "-", "anchor lost: tokenizer scanner not found")
			continue
		}
		// the generic scanString is parameterised by its delimiter: the other quote characters are not special
		got := map[int64]bool{}
		for k := range runeConstsCompared(f, isRune) {
			if k != 65533 { // utf8.RuneError: end of input
				got[k] = true
			}
		}
		var missing, extra []string
		for k := range want {
			if !got[k] {
				missing = append(missing, fmt.Sprintf("%q", rune(k)))
			}
		}
		for k := range got {
			if !want[k] {
				extra = append(extra, fmt.Sprintf("%q", rune(k)))
			}
		}
		sort.Strings(missing)
		sort.Strings(extra)
		why := ""
		if len(missing) > 0 {
			why = "the tokenizer treats " + strings.Join(missing, ",") + " as special inside this construct, the lexer does not"
		}
		if len(extra) > 0 {
			why += " the lexer treats " + strings.Join(extra, ",") + " as special inside this construct, the tokenizer does not"
		}
		c.Check(len(missing) == 0 && len(extra) == 0, "c16.state-agreement", "sanitizer."+st.state, c.P.Pos(f.Pos()), fmt.Sprintf("same special characters on both sides (%d)", len(want)), strings.TrimSpace(why))
	}
}

// ruleC16Pure: sanitizing is a function of (template, arguments) only.
func ruleC16Pure(c *Ctx) {
	c.Doc("c16.pure", "no function reachable from SanitizeSQL reads or writes a package-level variable of the module (no pooled buffers, caches or counters): the text produced for a call cannot depend on earlier calls, in particular not on a call that failed half-way")
	f := c.P.Func(sanitizePath, "SanitizeSQL")
	if f == nil {
		c.Unknown("c16.pure", "sanitizer.SanitizeSQL", "-", "anchor lost")
		return
	}
	bad := ""
	n := 0
	for g := range c.P.reachableFrom(f) {
		if !c.P.InModule(g) {
			continue
		}
		n++
		allInstrs(g, func(_ *ssa.BasicBlock, in ssa.Instruction) {
			for _, op := range in.Operands(nil) {
				if gl, ok := (*op).(*ssa.Global); ok && gl.Pkg != nil && strings.HasPrefix(gl.Pkg.Pkg.Path(), modPath) {
					if constObjectOf(gl) != nil {
						continue // a replacer / pattern built once by the package initialiser: a constant of the program
					}
					bad = fmt.Sprintf("%s uses the package-level variable %s at %s", c.P.funcKey(g), gl.Name(), c.P.Pos(in.Pos()))
				}
			}
		})
	}
	c.Check(bad == "", "c16.pure", "sanitizer.SanitizeSQL", c.P.Pos(f.Pos()), fmt.Sprintf("%d reachable module functions use no package-level state", n), bad)
}

func init() { register("C16", ruleC16LexerTokenizer) }

// cmpConsts: the integer constants a function compares a value with (==, !=), as a sorted, de-duplicated list.
func cmpConsts(f *ssa.Function, skip map[int64]bool) []int64 {
	set := map[int64]bool{}
	allInstrs(f, func(_ *ssa.BasicBlock, in ssa.Instruction) {
		bo, ok := in.(*ssa.BinOp)
		if !ok || (bo.Op != token.EQL && bo.Op != token.NEQ) {
			return
		}
		for _, v := range []ssa.Value{bo.X, bo.Y} {
			if k, isK := constIntOf(v); isK && !skip[k] {
				set[k] = true
			}
		}
	})
	var out []int64
	for k := range set {
		out = append(out, k)
	}
	sort.Slice(out, func(i, j int) bool { return out[i] < out[j] })
	return out
}

// ruleC16LexerTokenizer: where the placeholder lexer and the consuming tokenizer must agree on comments and on the end of input.
func ruleC16LexerTokenizer(c *Ctx) {
	c.Doc("c16.lexer-tokenizer", "the placeholder lexer sees a comment exactly where the consuming tokenizer sees one, otherwise a `$n` is substituted inside a comment or left alone outside one (clause injection / altered statement): (a) a one-line comment ends on the same characters as the tokenizer's scanCommentType1 (the line feed only; no backslash escapes); (b) `//` starts a one-line comment as it does for the tokenizer; (c) `--` starts one only in front of white space or the end; (d) block comments do not nest (the tokenizer ends at the first `*/`); (e) every state recognises the end of input by a zero-width decode, so that an invalid UTF-8 byte does not truncate the statement; (f) a placeholder number cannot wrap around; (g) a float argument is rendered only when finite; (h) an integer argument only when a float64 (the engine's only number type) holds it exactly")
	pkg := c.P.SSAPkgs[sanitizePath]
	if pkg == nil {
		c.Unknown("c16.lexer-tokenizer", "sanitizer", "-", "anchor lost")
		return
	}
	fn := func(name string) *ssa.Function { return c.P.Func(sanitizePath, name) }
	raw, line, block, ph := fn("rawState"), fn("oneLineCommentState"), fn("multilineCommentState"), fn("placeholderState")
	if raw == nil || line == nil || block == nil || ph == nil {
		c.Unknown("c16.lexer-tokenizer", "sanitizer", "-", "anchor lost: lexer states")
		return
	}
	// (a) terminators of a one-line comment: lexer vs tokenizer
	var tokLine *ssa.Function
	for f := range c.P.allFuncs {
		if f.Name() == "scanCommentType1" && f.Pkg != nil && f.Pkg.Pkg.Path() == sqlp {
			tokLine = f
		}
	}
	if tokLine == nil {
		c.Unknown("c16.lexer-tokenizer", "one-line-comment-end", "-", "anchor lost: tokenizer scanCommentType1")
	} else {
		// the tokenizer compares with eofChar (0x100) as well: the end of input, handled by (e) on the lexer side
		tk := cmpConsts(tokLine, map[int64]bool{0x100: true})
		lx := cmpConsts(line, map[int64]bool{0xFFFD: true, 0: true, 3: true})
		if len(lx) == 0 {
			// search form: the state looks for its terminator with strings.Index — the bytes of the (constant) needle
			for _, nd := range searchNeedles(line) {
				for i := 0; i < len(nd); i++ {
					lx = append(lx, int64(nd[i]))
				}
			}
			sort.Slice(lx, func(i, j int) bool { return lx[i] < lx[j] })
		}
		c.Check(fmt.Sprint(tk) == fmt.Sprint(lx), "c16.lexer-tokenizer", "one-line-comment-end", c.P.Pos(line.Pos()), fmt.Sprintf("both end a one-line comment on %v", tk), fmt.Sprintf("the lexer treats the characters %v as special inside a one-line comment, the tokenizer %v: with `# ...\\r AND name = $1` the lexer substitutes a placeholder the parser still sees as comment text, and a backslash in a comment hides the line end", lx, tk))
	}
	// (b) and (c): arms of rawState
	slashSet, dashGuard := map[int64]bool{}, false
	allInstrs(raw, func(b *ssa.BasicBlock, in ssa.Instruction) {
		bo, ok := in.(*ssa.BinOp)
		if !ok || bo.Op != token.EQL {
			return
		}
		k, isK := constIntOf(bo.Y)
		if !isK {
			return
		}
		// which arm: the facts say r == '/' or r == '-'
		for _, fc := range relFacts(factsAt(b)) {
			if fc.r != relEQ {
				continue
			}
			arm, isArm := constIntOf(fc.y)
			if !isArm || fc.x == bo.X {
				continue
			}
			if arm == '/' {
				slashSet[k] = true
			}
			if arm == '-' && (k == ' ' || k == '\n' || k == '\t' || k == '\r') {
				dashGuard = true
			}
		}
	})
	c.Check(slashSet['*'] && slashSet['/'], "c16.lexer-tokenizer", "slash-slash-comment", c.P.Pos(raw.Pos()), "`/*` and `//` both start a comment", "after `/` the lexer only looks for `*`: the tokenizer also takes `//` for a one-line comment, so a `$n` behind `//` is substituted into comment text (and an argument with a line feed escapes from it)")
	c.Check(dashGuard, "c16.lexer-tokenizer", "dash-dash-needs-space", c.P.Pos(raw.Pos()), "`--` is a comment only before white space or the end", "the lexer takes every `--` for a comment; the tokenizer only in front of white space: in `1--$1` the placeholder is an operand and stays unsubstituted")
	// (b') each opener leads to the state of its own kind (round 11: the `//` arm returned the block-comment state, copied
	// from the `/*` arm above it — the comment then runs to the next `*/` and a placeholder on a later line is not substituted)
	{
		classified := 0
		var wrong []string
		for _, b := range raw.Blocks {
			if len(b.Instrs) == 0 {
				continue
			}
			ret, ok := b.Instrs[len(b.Instrs)-1].(*ssa.Return)
			if !ok || len(ret.Results) != 1 {
				continue
			}
			v := ret.Results[0]
			for {
				if ct, isCT := v.(*ssa.ChangeType); isCT {
					v = ct.X
					continue
				}
				if mi, isMI := v.(*ssa.MakeInterface); isMI {
					v = mi.X
					continue
				}
				break
			}
			got, isFn := v.(*ssa.Function)
			if !isFn {
				continue
			}
			cnt := map[int64]int{}
			seen := map[string]bool{}
			for _, fc := range relFacts(factsAt(b)) {
				if fc.r != relEQ {
					continue
				}
				k, isK := constIntOf(fc.y)
				if !isK {
					continue
				}
				id := fmt.Sprintf("%p/%d", fc.x, k)
				if !seen[id] {
					seen[id] = true
					cnt[k]++
				}
			}
			var want *ssa.Function
			what := ""
			switch {
			case cnt['/'] >= 1 && cnt['*'] >= 1:
				want, what = block, "`/*`"
			case cnt['/'] >= 2:
				want, what = line, "`//`"
			case cnt['#'] >= 1:
				want, what = line, "`#`"
			case cnt['-'] >= 2:
				want, what = line, "`--`"
			default:
				continue
			}
			classified++
			if got != want {
				wrong = append(wrong, fmt.Sprintf("after %s the lexer enters %s (want %s) at %s", what, got.Name(), want.Name(), c.P.Pos(ret.Pos())))
			}
		}
		if classified < 4 {
			c.Unknown("c16.lexer-tokenizer", "opener-state", c.P.Pos(raw.Pos()), fmt.Sprintf("inventory: %d comment openers with a state of their own recognised in the raw state (4 on the tree as read)", classified))
		} else {
			c.Check(len(wrong) == 0, "c16.lexer-tokenizer", "opener-state", c.P.Pos(raw.Pos()), "`/*` enters the block-comment state; `//`, `#`, `--` enter the one-line state", strings.Join(wrong, "; "))
		}
	}
	// (d) no nesting counter
	nests := false
	for _, f := range c.P.pkgFuncs(sanitizePath) {
		allInstrs(f, func(_ *ssa.BasicBlock, in ssa.Instruction) {
			if fa, ok := in.(*ssa.FieldAddr); ok && fieldName(fa.X.Type(), fa.Field) == "nested" {
				nests = true
			}
		})
	}
	c.Check(!nests, "c16.lexer-tokenizer", "block-comments-do-not-nest", c.P.Pos(block.Pos()), "a block comment ends at the first `*/`", "the lexer counts nested `/*`: the tokenizer ends a block comment at the first `*/`, so text after it is SQL for the parser but comment for the lexer and its placeholders are skipped")
	// (e) end of input
	for _, f := range c.P.pkgFuncs(sanitizePath) {
		if !strings.HasSuffix(f.Name(), "State") || f.Parent() != nil || f == ph {
			continue
		}
		ok, n := true, 0
		// (a state that is a one-line wrapper around a shared, parameterised state is judged by that helper's body)
		deepInstrs(f, func(_ *ssa.Function, _ *TB, _ *ssa.BasicBlock, in ssa.Instruction) {
			bo, isBo := in.(*ssa.BinOp)
			if !isBo || (bo.Op != token.EQL && bo.Op != token.NEQ) {
				return
			}
			k, isK := constIntOf(bo.Y)
			if !isK {
				return
			}
			ex, isEx := bo.X.(*ssa.Extract)
			if !isEx || ex.Index != 1 {
				return
			}
			if call, isCall := ex.Tuple.(*ssa.Call); !isCall || !strings.HasSuffix(calleeName(call.Common()), "DecodeRuneInString") {
				return
			}
			n++
			if !(bo.Op == token.EQL && k == 0) {
				ok = false
			}
		})
		if n == 0 && len(searchNeedles(f)) > 0 {
			// search form: no rune is decoded at all; a byte search for a constant terminator cannot take an invalid
			// UTF-8 byte for the end of the input
			n = 1
		}
		c.Check(ok && n > 0, "c16.lexer-tokenizer", "end-of-input/"+f.Name(), c.P.Pos(f.Pos()), "the end of input is a zero-width decode", "the state ends the statement whenever a decode error has a width other than 3: an invalid UTF-8 byte (width 1) silently truncates the statement, e.g. drops a trailing WHERE clause")
	}
	// (f) bounded placeholder number
	bounded := false
	allInstrs(ph, func(b *ssa.BasicBlock, in ssa.Instruction) {
		bo, ok := in.(*ssa.BinOp)
		if !ok || bo.Op != token.MUL {
			return
		}
		for _, fc := range relFacts(factsAt(b)) {
			if fc.x == bo.X && (fc.r == relLT || fc.r == relLE) {
				if _, isK := constIntOf(fc.y); isK {
					bounded = true
				}
			}
		}
	})
	c.Check(bounded, "c16.lexer-tokenizer", "placeholder-number-bounded", c.P.Pos(ph.Pos()), "the accumulation is guarded by an upper bound", "the placeholder number is accumulated without a bound: `$18446744073709551617` wraps around to 1 and takes the first argument instead of being reported as missing")
	// (g) finite floats
	san := c.P.Method(sanitizePath, "Command", "Sanitize")
	finite := false
	if san != nil {
		deepInstrs(san, func(_ *ssa.Function, _ *TB, b *ssa.BasicBlock, in ssa.Instruction) {
			call, ok := in.(*ssa.Call)
			if !ok || (calleeName(call.Common()) != "strconv.FormatFloat" && calleeName(call.Common()) != "strconv.AppendFloat") {
				return // AppendFloat is the same rendering written into a caller's buffer
			}
			nan, inf := false, false
			for _, fc := range factsAt(b) {
				cond, truth := fc.cond, fc.truth
				if gc, isCall := cond.(*ssa.Call); isCall && !truth {
					switch calleeName(gc.Common()) {
					case "math.IsNaN":
						nan = true
					case "math.IsInf":
						inf = true
					}
				}
			}
			finite = nan && inf
		})
	}
	// (h) an integer argument is rendered only when the engine's number type holds it exactly
	exact, sawInt := false, false
	if san != nil {
		deepInstrs(san, func(_ *ssa.Function, _ *TB, b *ssa.BasicBlock, in ssa.Instruction) {
			call, ok := in.(*ssa.Call)
			if !ok || (calleeName(call.Common()) != "strconv.FormatInt" && calleeName(call.Common()) != "strconv.AppendInt") {
				return
			}
			sawInt = true
			for _, fc := range factsAt(b) {
				bo, isBo := fc.cond.(*ssa.BinOp)
				if !isBo || !(bo.Op == token.NEQ && !fc.truth || bo.Op == token.EQL && fc.truth) {
					continue
				}
				for _, pr := range [][2]ssa.Value{{bo.X, bo.Y}, {bo.Y, bo.X}} {
					// int64(float64(v)) compared with v
					outer, ok1 := pr[0].(*ssa.Convert)
					if !ok1 {
						continue
					}
					inner, ok2 := outer.X.(*ssa.Convert)
					if !ok2 {
						continue
					}
					if bt, isB := inner.Type().Underlying().(*types.Basic); isB && bt.Kind() == types.Float64 && inner.X == pr[1] {
						exact = true
					}
				}
			}
		})
	}
	c.Check(exact || !sawInt, "c16.lexer-tokenizer", "int-exact", "sanitizer/sanitizer.go", "FormatInt is reached only for integers a float64 holds exactly", "an int64 argument is rendered without checking that it survives the engine's number type: every numeric literal is evaluated as a float64, so 9007199254740993 echoes as 9007199254740992 — the literal does not evaluate to the argument supplied")
	c.Check(finite, "c16.lexer-tokenizer", "float-finite", "sanitizer/sanitizer.go", "FormatFloat is reached only for finite values", "a float64 argument is rendered without excluding NaN and the infinities: their text (NaN, +Inf) is read by the parser as a column reference, so the argument selects document data")
}

func init() { register("C16", ruleC16CommandImmutable) }

// ruleC16CommandImmutable: rendering leaves the prepared command as it was.
func ruleC16CommandImmutable(c *Ctx) {
	c.Doc("c16.command-immutable", "a prepared sanitizer Command is only read by its methods: every use of a field of the receiver in a method of Command is a load — no store, no address taken (a scratch buffer kept in the Command carries the text of a rejected call into the next accepted one; two goroutines sharing a prepared Command would interleave)")
	n := 0
	for _, f := range c.P.pkgFuncs(sanitizePath) {
		if f.Signature.Recv() == nil || len(f.Params) == 0 || len(f.Blocks) == 0 || !strings.HasSuffix(shortType(f.Params[0].Type()), "Command") {
			continue
		}
		n++
		bad := ""
		allInstrs(f, func(_ *ssa.BasicBlock, in ssa.Instruction) {
			switch x := in.(type) {
			case *ssa.FieldAddr:
				if x.X != ssa.Value(f.Params[0]) || x.Referrers() == nil {
					return
				}
				for _, r := range *x.Referrers() {
					switch u := r.(type) {
					case *ssa.UnOp:
						if u.Op != token.MUL {
							bad = "the address of the field " + fieldName(x.X.Type(), x.Field) + " of the command is used at " + c.P.Pos(u.Pos())
						}
					case *ssa.DebugRef:
					case *ssa.Store:
						if u.Addr == ssa.Value(x) {
							bad = "the field " + fieldName(x.X.Type(), x.Field) + " of the command is written at " + c.P.Pos(u.Pos())
						} else {
							bad = "the address of the field " + fieldName(x.X.Type(), x.Field) + " of the command is kept at " + c.P.Pos(u.Pos())
						}
					default:
						bad = "the field " + fieldName(x.X.Type(), x.Field) + " of the command is handed on by address at " + c.P.Pos(r.Pos()) + " (a buffer kept in the command survives a rejected call and leaks its text into the next one)"
					}
				}
			case *ssa.Store:
				if x.Addr == ssa.Value(f.Params[0]) {
					bad = "the command is overwritten at " + c.P.Pos(x.Pos())
				}
			}
		})
		c.Check(bad == "", "c16.command-immutable", c.P.funcKey(f), c.P.Pos(f.Pos()), "the receiver's fields are only loaded", bad)
	}
	if n == 0 {
		c.Unknown("c16.command-immutable", "Command", "-", "anchor lost: no method of the sanitizer's Command")
	}
}

// searchNeedles: the constant needles f (or a helper it hands them to) searches its input for with the strings package
// (Index, IndexByte, IndexRune, Cut, Contains) — empty when f decodes runes itself.
func searchNeedles(f *ssa.Function) []string {
	var out []string
	decodes := false
	deepInstrs(f, func(_ *ssa.Function, tb *TB, _ *ssa.BasicBlock, in ssa.Instruction) {
		call, ok := in.(*ssa.Call)
		if !ok {
			return
		}
		name := calleeName(call.Common())
		if strings.HasSuffix(name, "DecodeRuneInString") {
			decodes = true
		}
		switch name {
		case "strings.Index", "strings.IndexByte", "strings.IndexRune", "strings.Cut", "strings.Contains":
		default:
			return
		}
		if len(call.Call.Args) < 2 {
			return
		}
		t := tb.Of(call.Call.Args[1])
		if t.Op != "const" {
			return
		}
		if u, err := strconv.Unquote(t.Name); err == nil {
			out = append(out, u)
		} else if k, err := strconv.ParseInt(t.Name, 10, 32); err == nil {
			out = append(out, string(rune(k)))
		}
	})
	if decodes {
		return nil
	}
	return out
}
