package main

import (
	"fmt"
	"go/constant"
	"go/token"
	"go/types"
	"sort"
	"strings"

	"golang.org/x/tools/go/ssa"
)

func init() {
	register("C18", ruleC18Registry, ruleC18Guard, ruleC18Arity, ruleC18Codec, ruleC18Hash, ruleC18IndexContracts, ruleC18Selection)
}

// registry: every name -> function registered by init functions.
type registration struct {
	fn        *ssa.Function
	immediate bool
}

// registrations resolves what the init functions register under each name, from the registration calls themselves:
// Register…("name", Fn) with a constant name, or a loop over a table literal of {name, function, flag} records whose
// fields are handed to the registration calls (the flag selecting RegisterImmediateFunction).
func (c *Ctx) registrations() map[string]registration { return c.registrationsOf(false) }

// topLevelRegistrations: the same for RegisterTopLevelFunction (the selector reader's `name=>` functions).
func (c *Ctx) topLevelRegistrations() map[string]registration { return c.registrationsOf(true) }

func (c *Ctx) registrationsOf(topLevel bool) map[string]registration {
	out := map[string]registration{}
	fnOf := func(v ssa.Value) *ssa.Function {
		for {
			if ct, ok := v.(*ssa.ChangeType); ok {
				v = ct.X
				continue
			}
			break
		}
		switch x := v.(type) {
		case *ssa.Function:
			return x
		case *ssa.MakeClosure:
			return x.Fn.(*ssa.Function)
		}
		return nil
	}
	// the field of a table record a value was read from (-1: not a record field)
	fieldOf := func(v ssa.Value) int {
		for {
			if ct, ok := v.(*ssa.ChangeType); ok {
				v = ct.X
				continue
			}
			break
		}
		switch x := v.(type) {
		case *ssa.Field:
			return x.Field
		case *ssa.UnOp:
			if fa, ok := x.X.(*ssa.FieldAddr); ok && x.Op == token.MUL {
				return fa.Field
			}
		}
		return -1
	}
	// table literals of the init functions (a package-level table is filled by the package initialiser, the loop over it
	// runs in a declared init function): element index -> field index -> stored value
	tables := map[*ssa.Alloc]map[int64]map[int]ssa.Value{}
	var inits []*ssa.Function
	for _, f := range c.P.ModFuncs {
		if strings.HasPrefix(f.Name(), "init") && f.Parent() == nil {
			inits = append(inits, f)
		}
	}
	for _, pk := range c.P.Prog.AllPackages() {
		if pk.Pkg != nil && strings.HasPrefix(pk.Pkg.Path(), modPath) {
			if pi := pk.Func("init"); pi != nil {
				dup := false
				for _, f := range inits {
					dup = dup || f == pi
				}
				if !dup {
					inits = append(inits, pi)
				}
			}
		}
	}
	for _, f := range inits {
		allInstrs(f, func(_ *ssa.BasicBlock, in ssa.Instruction) {
			st, ok := in.(*ssa.Store)
			if !ok {
				return
			}
			fa, ok := st.Addr.(*ssa.FieldAddr)
			if !ok {
				return
			}
			ia, ok := fa.X.(*ssa.IndexAddr)
			if !ok {
				return
			}
			arr, ok := ia.X.(*ssa.Alloc)
			k, isK := constIntOf(ia.Index)
			if !ok || !isK {
				return
			}
			if tables[arr] == nil {
				tables[arr] = map[int64]map[int]ssa.Value{}
			}
			if tables[arr][k] == nil {
				tables[arr][k] = map[int]ssa.Value{}
			}
			tables[arr][k][fa.Field] = st.Val
		})
	}
	for _, f := range inits {
		allInstrs(f, func(b *ssa.BasicBlock, in ssa.Instruction) {
			call, ok := in.(*ssa.Call)
			if !ok || call.Common().StaticCallee() == nil || len(call.Common().Args) != 2 || !strings.HasPrefix(call.Common().StaticCallee().Name(), "Register") || strings.Contains(call.Common().StaticCallee().Name(), "TopLevel") != topLevel {
				return
			}
			imm := strings.Contains(call.Common().StaticCallee().Name(), "Immediate")
			if s, isC := constString(call.Common().Args[0]); isC {
				if fn := fnOf(call.Common().Args[1]); fn != nil {
					out[s] = registration{fn, imm}
				}
				return
			}
			nameF, fnF := fieldOf(call.Common().Args[0]), fieldOf(call.Common().Args[1])
			if nameF < 0 || fnF < 0 {
				return
			}
			// the condition on a flag field under which this call runs
			flagF, flagWant, hasFlag := -1, false, false
			for _, fc := range factsAt(b) {
				cond, truth := fc.cond, fc.truth
				for {
					u, isU := cond.(*ssa.UnOp)
					if !isU || u.Op != token.NOT {
						break
					}
					cond, truth = u.X, !truth
				}
				if k := fieldOf(cond); k >= 0 {
					flagF, flagWant, hasFlag = k, truth, true
				}
			}
			for _, elems := range tables {
				for _, rec := range elems {
					nm, isC := constString(rec[nameF])
					fn := fnOf(rec[fnF])
					if !isC || fn == nil {
						continue
					}
					if hasFlag {
						fv, isB := rec[flagF].(*ssa.Const)
						val := false
						if isB && fv.Value != nil && fv.Value.Kind() == constant.Bool {
							val = constant.BoolVal(fv.Value)
						} else if rec[flagF] != nil {
							continue
						}
						if val != flagWant {
							continue
						}
					}
					out[nm] = registration{fn, imm}
				}
			}
		})
	}
	return out
}

func (c *Ctx) registry() map[string]*ssa.Function {
	out := map[string]*ssa.Function{}
	for n, r := range c.registrations() {
		out[n] = r.fn
	}
	return out
}

func ruleC18Registry(c *Ctx) {
	c.Doc("c18.registry", "the names the property mentions are registered (by the init functions) and each under a distinct function value: the contracts below follow the registered value, so renaming Go functions is harmless and registering the wrong function under a name is caught by that name's contract")
	c.NotDecidedClause("C18: round-trip values through gob/base-N encodings (library behaviour), Unicode case maps, numeric parse round-trips, hash digests")
	reg := c.registry()
	names := []string{"encode", "decode", "hash", "first", "last", "elementat", "unwind", "array", "concat", "if", "to_lower", "to_upper", "changetype", "daterange", "constant", "sum", "avg", "min", "max", "count"}
	for _, n := range names {
		c.Check(reg[n] != nil, "c18.registry", "registered:"+n, "-", "registered", n+" is not registered by any init function")
	}
	c.Notes = append(c.Notes, fmt.Sprintf("c18.registry: %d functions registered by init", len(reg)))
	// distinct values for the inverse pairs
	if reg["encode"] != nil && reg["encode"] == reg["decode"] {
		c.Fail("c18.registry", "registered:encode/decode", "-", "encode and decode are the same function")
	}
	if reg["to_lower"] != nil && reg["to_lower"] == reg["to_upper"] {
		c.Fail("c18.registry", "registered:to_lower/to_upper", "-", "to_lower and to_upper are the same function")
	}
	if reg["first"] != nil && reg["first"] == reg["last"] {
		c.Fail("c18.registry", "registered:first/last", "-", "first and last are the same function")
	}
}

func ruleC18Guard(c *Ctx) {
	c.Doc("c18.guard-table", "the arity guard Guard(n, args) returns an error exactly when len(args) != n (table over len<n, len==n, len>n)")
	f := c.P.Func(modPath, "Guard")
	if f == nil {
		c.Unknown("c18.guard-table", "Guard", "-", "anchor lost")
		return
	}
	c.Fn("Guard")
	n, a := f.Params[0].Name(), f.Params[1].Name()
	atoms := []Atom{
		{Name: "len", Dom: int64Dom(0, 1, 2), Match: func(t *Term) bool {
			return t.Op == "call" && t.Name == "builtin:len" && t.Args[0].Op == "param" && t.Args[0].Name == a
		}},
		{Name: "n", Dom: int64Dom(1), Match: func(t *Term) bool { return t.Op == "param" && t.Name == n }},
	}
	tb := BuildTable(f, atoms, false)
	ok, why := true, ""
	rows := 0
	seenLen := map[int]bool{}
	for _, p := range tb.Paths {
		if p.Exit != "return" {
			continue
		}
		nm := tb.namesOnPath(p)
		lv, hasL := nm["len"]
		if !hasL {
			ok, why = false, "a path returns without consulting len(args)"
			continue
		}
		rows++
		l := signOf(lv)
		seenLen[l] = true
		wantErr := l != 1
		if p.Ret[0].Nil == wantErr {
			ok, why = false, fmt.Sprintf("len(args)=%d with n=1 returns error=%v", l, !p.Ret[0].Nil)
		}
	}
	for _, l := range []int{0, 1, 2} {
		if !seenLen[l] {
			ok, why = false, fmt.Sprintf("no path for len(args)=%d", l)
		}
	}
	c.Check(ok, "c18.guard-table", "Guard", c.P.Pos(f.Pos()), fmt.Sprintf("%d rows: error iff len(args) != n", rows), why)
}

// guardedIndex: index k into slice value s at instruction `at` is protected.
func guardedIndex(fn *ssa.Function, s ssa.Value, k int64, at ssa.Instruction) bool {
	// (a) Guard(n, s) with n > k whose error test's nil branch dominates `at`
	ok := false
	allInstrs(fn, func(_ *ssa.BasicBlock, in ssa.Instruction) {
		call, isCall := in.(*ssa.Call)
		if !isCall || call.Common().StaticCallee() == nil || call.Common().StaticCallee().Name() != "Guard" || len(call.Common().Args) != 2 {
			return
		}
		n, isC := constIntOf(call.Common().Args[0])
		if !isC || n <= k || !sameValue(call.Common().Args[1], s) {
			return
		}
		// error tested: a dominating fact (call == nil) true / (call != nil) false
		for _, fc := range relFacts(factsAt(at.Block())) {
			if guardErrDerived(fc.x, call) && isNilConst(fc.y) && fc.r == relEQ {
				ok = true
			}
		}
	})
	if ok {
		return true
	}
	// (b) explicit length facts
	kc := ssa.NewConst(constant.MakeInt64(k), s.Type())
	_ = kc
	fs := factsAt(at.Block())
	for _, fc := range relFacts(fs) {
		if isLenOf(fc.x, s) {
			if n, isC := constIntOf(fc.y); isC {
				switch fc.r {
				case relGT:
					if n >= k {
						return true
					}
				case relGE, relEQ:
					if n > k {
						return true
					}
				case relNE:
					if n == 0 && k == 0 {
						return true
					}
				}
			}
		}
	}
	return false
}

// guardErrDerived: v is the Guard call's error, possibly through a phi that merges it with
// another error source tested by the same branch (`e := f(); if e == nil { e = Guard(…) }; if e != nil`).
func guardErrDerived(v ssa.Value, call *ssa.Call) bool {
	if v == ssa.Value(call) {
		return true
	}
	if ph, ok := v.(*ssa.Phi); ok {
		for _, e := range ph.Edges {
			if e == ssa.Value(call) {
				return true
			}
		}
	}
	return false
}

func ruleC18Arity(c *Ctx) {
	c.Doc("c18.arity", "in every registered function (and the AWAIT pseudo-function's post-processor) each constant index args[k] is dominated by the nil branch of Guard(n, args) with n > k, or by an explicit length test that proves k < len(args): a wrong argument count is an error, never an index panic")
	reg := c.registry()
	var names []string
	for n := range reg {
		names = append(names, n)
	}
	sort.Strings(names)
	total := 0
	check := func(label string, f *ssa.Function) {
		c.Fn(c.P.funcKey(f))
		for _, g := range withClosures(f) {
			allInstrs(g, func(_ *ssa.BasicBlock, in ssa.Instruction) {
				var x, idx ssa.Value
				switch in := in.(type) {
				case *ssa.IndexAddr:
					x, idx = in.X, in.Index
				case *ssa.Index:
					x, idx = in.X, in.Index
				default:
					return
				}
				k, isC := constIntOf(idx)
				if !isC {
					return
				}
				// the indexed value: the args parameter, or a slice produced by the argument reader
				t := NewTB().Of(x)
				isArgs := false
				if p, isP := x.(*ssa.Parameter); isP && shortType(p.Type()) == "[]any" {
					isArgs = true
				}
				if strings.Contains(t.String(), "ArgReader(") {
					isArgs = true
				}
				if !isArgs {
					return
				}
				total++
				key := fmt.Sprintf("%s/args[%d]", label, k)
				c.Check(guardedIndex(g, x, k, in), "c18.arity", key, c.P.Pos(in.Pos()), "guarded by Guard(n>k) or a length test", fmt.Sprintf("args[%d] is read without a dominating arity guard: a call with fewer arguments panics", k))
			})
		}
	}
	for _, n := range names {
		check("registered:"+n, reg[n])
	}
	if fe := c.P.Func(modPath, "FunExpr"); fe != nil {
		for _, a := range fe.AnonFuncs {
			check("FunExpr/closure", a)
		}
	}
	if total < 30 {
		c.Unknown("c18.arity", "inventory", "-", fmt.Sprintf("only %d constant argument reads found (>= 30 expected)", total))
	}
	// fixed-arity functions call Guard first
	for _, n := range []string{"first", "last", "elementat", "unwind", "if", "to_lower", "to_upper", "changetype", "daterange", "constant", "encode", "decode", "hash", "sum", "avg", "min", "max"} {
		f := reg[n]
		if f == nil {
			continue
		}
		want := map[string]int64{"elementat": 2, "if": 3, "changetype": 2, "daterange": 2, "encode": 2, "decode": 2, "hash": 2}[n]
		if want == 0 {
			want = 1
		}
		c.Check(guardFirst(f, want), "c18.arity", "registered:"+n+"/guard-first", c.P.Pos(f.Pos()), fmt.Sprintf("first call is Guard(%d, args)", want), fmt.Sprintf("%s does not start with Guard(%d, args)", n, want))
	}
}

// armCalls: for a function that switches on a lower-cased string argument, the calls made on
// the paths where the switch value equals each constant label.
func (c *Ctx) labelArms(f *ssa.Function) (map[string][]Effect, map[string]*Path) {
	var labels []string
	// (the dispatch may sit in a helper of f: `decoder, err := textDecoderOf(base)`)
	deepInstrs(f, func(_ *ssa.Function, tb *TB, _ *ssa.BasicBlock, in ssa.Instruction) {
		if b, ok := in.(*ssa.BinOp); ok && b.Op.String() == "==" {
			if s, isC := constString(b.Y); isC && strings.Contains(tb.Of(b.X).String(), "strings.ToLower") {
				labels = append(labels, s)
			}
		}
	})
	// table form of the same dispatch: the keys of a read-only table that is read under the lower-cased label
	allInstrs(f, func(_ *ssa.BasicBlock, in ssa.Instruction) {
		lk, ok := in.(*ssa.Lookup)
		if !ok {
			return
		}
		tb := NewTB()
		if tab := roTableOfTerm(tb.Of(lk.X)); tab != nil && strings.Contains(tb.Of(lk.Index).String(), "strings.ToLower") {
			for _, k := range tab.Keys {
				if k.Kind() == constant.String {
					labels = append(labels, constant.StringVal(k))
				}
			}
		}
	})
	labels = append(labels, "\x00other")
	var dom []constant.Value
	for _, l := range labels {
		dom = append(dom, constant.MakeString(l))
	}
	atoms := []Atom{{Name: "label", Dom: dom, Match: func(t *Term) bool { return t.Op == "call" && t.Name == "strings.ToLower" }}}
	tb := BuildTable(f, atoms, true)
	arms := map[string][]Effect{}
	paths := map[string]*Path{}
	for _, p := range tb.SuccessPaths() {
		lv, ok := tb.namesOnPath(p)["label"]
		if !ok {
			continue
		}
		l := constant.StringVal(lv)
		arms[l] = append(arms[l], p.Effects...)
		paths[l] = p
	}
	return arms, paths
}

func ruleC18Codec(c *Ctx) {
	c.Doc("c18.codec-pairs", "the functions registered as encode and decode switch over the same set of base labels; for each label the decoder calls the inverse method of the very encoding the encoder uses (base64.URLEncoding.EncodeToString <-> base64.URLEncoding.DecodeString, base32.StdEncoding…, hex.EncodeToString <-> hex.DecodeString); both move the value through gob in the same wrapper struct type; an unknown base is an error in both")
	reg := c.registry()
	enc, dec := reg["encode"], reg["decode"]
	if enc == nil || dec == nil {
		c.Unknown("c18.codec-pairs", "encode/decode", "-", "anchor lost")
		return
	}
	c.Fn(c.P.funcKey(enc))
	c.Fn(c.P.funcKey(dec))
	ea, _ := c.labelArms(enc)
	da, _ := c.labelArms(dec)
	sig := func(effs []Effect, verbs ...string) string {
		for _, e := range effs {
			if e.Kind != "call" {
				continue
			}
			for _, v := range verbs {
				if strings.HasSuffix(e.Callee, v) {
					// method on an encoding object: the object is arg 0 (a package-level encoding)
					obj := ""
					if strings.Contains(e.Callee, "Encoding)") && len(e.Args) > 0 {
						obj = e.Args[0].String()
					}
					pkg := e.Callee
					if i := strings.LastIndex(pkg, "."); i > 0 {
						pkg = pkg[:i]
					}
					return pkg + "|" + obj
				}
			}
		}
		return ""
	}
	var labels []string
	for l := range ea {
		if l != "\x00other" {
			labels = append(labels, l)
		}
	}
	sort.Strings(labels)
	for _, l := range labels {
		es := sig(ea[l], "EncodeToString")
		ds := sig(da[l], "DecodeString")
		ok := es != "" && es == ds
		why := ""
		if !ok {
			why = fmt.Sprintf("base %q: encoder uses %q, decoder uses %q", l, es, ds)
			if _, has := da[l]; !has {
				why = fmt.Sprintf("base %q is encoded but cannot be decoded", l)
			}
		}
		c.Check(ok, "c18.codec-pairs", "encode/decode/"+l, c.P.Pos(enc.Pos()), "same encoding object on both sides: "+es, why)
	}
	for l := range da {
		if _, has := ea[l]; !has && l != "\x00other" {
			c.Fail("c18.codec-pairs", "encode/decode/"+l, c.P.Pos(dec.Pos()), fmt.Sprintf("base %q is decoded but never encoded", l))
		}
	}
	if len(labels) < 3 {
		c.Unknown("c18.codec-pairs", "encode/labels", c.P.Pos(enc.Pos()), fmt.Sprintf("only %d base labels found (base64, base32, hex expected)", len(labels)))
	}
	for _, want := range []string{"base64", "base32", "hex"} {
		if _, has := ea[want]; !has {
			c.Fail("c18.codec-pairs", "encode/decode/"+want, c.P.Pos(enc.Pos()), "base "+want+" is not supported by the encoder")
		}
	}
	// gob wrapper type agreement
	wrap := func(f *ssa.Function, method string) string {
		out := ""
		deepInstrs(f, func(_ *ssa.Function, _ *TB, _ *ssa.BasicBlock, in ssa.Instruction) {
			call, ok := in.(*ssa.Call)
			if !ok || call.Common().StaticCallee() == nil || call.Common().StaticCallee().Name() != method || !strings.Contains(call.Common().StaticCallee().String(), "gob") {
				return
			}
			a := call.Common().Args[1]
			if mi, isMI := a.(*ssa.MakeInterface); isMI {
				t := types.Unalias(mi.X.Type())
				if pt, isP := t.(*types.Pointer); isP {
					t = types.Unalias(pt.Elem())
				}
				out = t.String()
			}
		})
		return out
	}
	ew, dw := wrap(enc, "Encode"), wrap(dec, "Decode")
	c.Check(ew != "" && ew == dw, "c18.codec-pairs", "encode/decode/gob-wrapper", c.P.Pos(enc.Pos()), "both sides use "+ew, fmt.Sprintf("the encoder gob-encodes %q, the decoder gob-decodes %q", ew, dw))
	// NULL agreement: if the encoder maps NULL to NULL (without encoding it), the decoder must accept NULL
	nullPassThrough := func(f *ssa.Function) bool {
		paths, _ := WalkFunc(f, WalkCfg{MaxVisits: 1, MaxPaths: 3000, NoEffects: true})
		for _, p := range paths {
			if p.Exit != "return" || len(p.Ret) != 2 || !p.Ret[0].Nil || !p.Ret[1].Nil {
				continue
			}
			for k, v := range p.Asg {
				kt := p.KeyTerm[k]
				if x, isN := isNilTest(kt); isN && isTrueC(v) && x.Op == "index" && x.Args[0].Op == "param" && x.Args[1].Name == "0" {
					return true
				}
			}
		}
		return false
	}
	en, dn := nullPassThrough(enc), nullPassThrough(dec)
	c.Check(!en || dn, "c18.codec-pairs", "encode/decode/null", c.P.Pos(enc.Pos()), fmt.Sprintf("NULL handling agrees (encoder passes NULL through: %v, decoder accepts NULL: %v)", en, dn), "ENCODE returns NULL for a NULL value without encoding it, but DECODE does not accept NULL: DECODE(ENCODE(NULL, b), b) fails")
	// unknown label => error
	for name, f := range map[string]*ssa.Function{"encode": enc, "decode": dec} {
		arms, _ := c.labelArms(f)
		_, okOther := arms["\x00other"]
		c.Check(!okOther, "c18.codec-pairs", name+"/unknown-base", c.P.Pos(f.Pos()), "an unknown base has no success path", name+" succeeds for an unknown base")
	}
}

func ruleC18Hash(c *Ctx) {
	c.Doc("c18.hash-table", "the function registered as hash: per algorithm label the constructor comes from the package the label names (sha1 <-> crypto/sha1.New, sha256, sha512, md5), the digest of the gob bytes of the value is returned as hex.EncodeToString(Sum(nil)), an unknown algorithm is an error, and nothing time- or random-dependent is called")
	h := c.registry()["hash"]
	if h == nil {
		c.Unknown("c18.hash-table", "hash", "-", "anchor lost")
		return
	}
	c.Fn(c.P.funcKey(h))
	arms, paths := c.labelArms(h)
	for _, l := range []string{"sha1", "sha256", "sha512", "md5"} {
		effs, has := arms[l]
		if !has {
			c.Fail("c18.hash-table", "hash/"+l, c.P.Pos(h.Pos()), "algorithm "+l+" has no success path")
			continue
		}
		ctor := ""
		for _, e := range effs {
			if e.Kind == "call" && strings.HasPrefix(e.Callee, "crypto/") && strings.HasSuffix(e.Callee, ".New") {
				ctor = e.Callee
			}
		}
		ok := ctor == "crypto/"+l+".New"
		why := ""
		if !ok {
			why = fmt.Sprintf("algorithm %q is computed with %q", l, ctor)
		}
		if p := paths[l]; ok && p != nil {
			r := p.Ret[0].T
			if r == nil || !strings.HasSuffix(r.Name, "hex.EncodeToString") || !strings.Contains(r.String(), "inv:Sum(") {
				ok, why = false, "the result is "+termStr(r)+", not hex.EncodeToString(h.Sum(nil))"
			}
			// the hasher is fed the gob bytes
			fed := false
			for _, e := range p.Effects {
				if e.Kind == "call" && e.Callee == "inv:Write" && len(e.Args) == 2 && strings.Contains(e.Args[1].String(), "Bytes(") {
					fed = true
				}
			}
			if !fed {
				ok, why = false, "the hasher is not fed the encoded bytes of the value"
			}
		}
		c.Check(ok, "c18.hash-table", "hash/"+l, c.P.Pos(h.Pos()), ctor+", hex of Sum(nil)", why)
	}
	_, other := arms["\x00other"]
	c.Check(!other, "c18.hash-table", "hash/unknown-algorithm", c.P.Pos(h.Pos()), "an unknown algorithm has no success path", "hash succeeds for an unknown algorithm")
	impure := ""
	for g := range c.P.reachableFrom(h) {
		allInstrs(g, func(_ *ssa.BasicBlock, in ssa.Instruction) {
			if call, ok := in.(*ssa.Call); ok && call.Common().StaticCallee() != nil && call.Common().StaticCallee().Pkg != nil {
				pk := call.Common().StaticCallee().Pkg.Pkg.Path()
				if pk == "time" || pk == "math/rand" || pk == "crypto/rand" {
					impure = pk + "." + call.Common().StaticCallee().Name()
				}
			}
		})
	}
	c.Check(impure == "", "c18.hash-table", "hash/pure", c.P.Pos(h.Pos()), "no time/random dependence", "hash calls "+impure)
}

func ruleC18IndexContracts(c *Ctx) {
	c.Doc("c18.index-contracts", "first returns element 0 of args[0] under len > 0 and NULL otherwise; last returns element len-1 under len > 0; elementat returns NULL for an empty array, element index under 0 <= index < len and an error otherwise (two-sided, proven from dominating guards) with index the integer value of args[1]; a NULL array yields NULL; unwind appends item... for []any items and item otherwise (one level, no recursion); array returns its args; concat writes the %v text of each argument once, in index order")
	reg := c.registry()
	for _, n := range []string{"first", "last", "elementat"} {
		f := reg[n]
		if f == nil {
			continue
		}
		c.Fn(c.P.funcKey(f))
		var why []string
		nIdx := 0
		allInstrs(f, func(_ *ssa.BasicBlock, in ssa.Instruction) {
			ia, ok := in.(*ssa.IndexAddr)
			if !ok {
				return
			}
			if _, isP := ia.X.(*ssa.Parameter); isP {
				return // args[k]: c18.arity
			}
			if a, isA := ia.X.(*ssa.Alloc); isA && (a.Comment == "varargs" || a.Comment == "slicelit") {
				return
			}
			nIdx++
			fs := factsAt(ia.Block())
			if !proveLTLen(ia.Index, ia.X, fs, 0) {
				why = append(why, "upper bound of the element index is not proven ("+NewTB().Of(ia.Index).String()+" < len)")
			}
			if !proveGE0(ia.Index, fs, 0) {
				why = append(why, "lower bound of the element index is not proven ("+NewTB().Of(ia.Index).String()+" >= 0): a negative index panics")
			}
			it := NewTB().Of(ia.Index)
			switch n {
			case "first":
				if it.Name != "0" {
					why = append(why, "first reads element "+it.String())
				}
			case "last":
				if !(it.Op == "bin" && it.Name == "-" && it.Args[0].Name == "builtin:len" && it.Args[1].Name == "1") {
					why = append(why, "last reads element "+it.String()+" (len-1 expected)")
				}
			case "elementat":
				if !(it.Op == "conv" && strings.Contains(it.String(), "AsType[float64](p:") && strings.Contains(it.String(), "[c:1]")) {
					why = append(why, "elementat's index is "+it.String()+" (the integer value of args[1] expected)")
				}
			}
		})
		if nIdx != 1 {
			why = append(why, fmt.Sprintf("%d element reads found (one expected)", nIdx))
		}
		// out of range: first/last => NULL, elementat => error; NULL array => NULL
		paths, _ := WalkFunc(f, WalkCfg{MaxVisits: 1})
		sawOut := false
		for _, p := range paths {
			if p.Exit != "return" {
				continue
			}
			inRange := false
			for _, e := range p.Blocks {
				_ = e
			}
			if t := p.Ret[0].T; t != nil && t.Op == "index" {
				inRange = true
			}
			if inRange {
				continue
			}
			// a path that passed the conversions but found the index outside
			outside := false
			for k, v := range p.Asg {
				kt := p.KeyTerm[k]
				if kt != nil && kt.Op == "bin" && strings.Contains(kt.String(), "builtin:len(") && (kt.Name == ">" || kt.Name == "<" || kt.Name == ">=" || kt.Name == "<=") {
					if !isTrueC(v) {
						outside = true
					}
				}
			}
			if !outside {
				continue
			}
			sawOut = true
			if n == "elementat" {
				if p.Ret[1].Nil {
					why = append(why, "elementat returns successfully for an index outside the array")
				}
			} else if !p.Ret[0].Nil || !p.Ret[1].Nil {
				why = append(why, n+" of an empty array does not return NULL")
			}
		}
		if !sawOut {
			why = append(why, "no path handles an index outside the array")
		}
		if n == "elementat" {
			// an empty array yields NULL, like its siblings: a path that knows len == 0 returns (nil, nil)
			sawEmpty := false
			for _, p := range paths {
				if p.Exit != "return" || p.final == nil {
					continue
				}
				for k, r := range p.final.rng {
					if strings.HasPrefix(k, "builtin:len(") && r[1] == 0 {
						sawEmpty = true
						if !p.Ret[0].Nil || !p.Ret[1].Nil {
							why = append(why, "elementat of an empty array does not return NULL")
						}
					}
				}
			}
			if !sawEmpty {
				why = append(why, "elementat has no path for the empty array: ELEMENTAT([], 0) is an error where FIRST([]) and LAST([]) are NULL")
			}
		}
		c.Check(len(why) == 0, "c18.index-contracts", "registered:"+n, c.P.Pos(f.Pos()), "two-sided bound proven; reference element; out of range handled", strings.Join(uniq(why), "; "))
	}
	// unwind
	if f := reg["unwind"]; f != nil {
		c.Fn(c.P.funcKey(f))
		var why []string
		if c.P.reachableFrom(f)[f] && selfCalls(f) {
			why = append(why, "unwind recurses (flattens more than one level)")
		}
		// (a pass that only counts -- no append, no store, no call -- decides nothing about the output: a sizing loop in
		// front of make(..., 0, n) is not a loop over the items in the sense of this rule)
		var loops []*loopInfo
		for _, lp := range rangeLoops(f) {
			if !effectFreeLoop(f, lp) {
				loops = append(loops, lp)
			}
		}
		if len(loops) != 1 {
			why = append(why, fmt.Sprintf("%d loops (one over the items expected)", len(loops)))
		} else {
			lp := loops[0]
			paths, _ := WalkFrom(f, lp.body, lp.header, WalkCfg{StopAt: func(b *ssa.BasicBlock) bool { return b == lp.header }, MaxVisits: 1})
			nArr, nOther := 0, 0
			for _, p := range paths {
				if p.Exit != "stop" {
					continue
				}
				isArr := false
				for k, v := range p.Asg {
					kt := p.KeyTerm[k]
					if kt != nil && kt.Op == "ext" && kt.Name == "1" && kt.Args[0].Op == "assertok" && kt.Args[0].Name == "[]any" && isTrueC(v) {
						isArr = true
					}
				}
				apps := 0
				var arg *Term
				for _, e := range p.Effects {
					if isAppendOf(e) {
						apps++
						arg = e.Args[1]
					}
				}
				if apps != 1 {
					why = append(why, fmt.Sprintf("an item is appended %d times", apps))
					continue
				}
				if isArr {
					nArr++
					// spread of the asserted array
					if !(arg.Op == "ext" && arg.Args[0].Op == "assertok" && elemOfLoop(arg, lp)) {
						why = append(why, "an array item is not spread into the output: "+arg.String())
					}
				} else {
					nOther++
					if !(arg.Op == "varargs" && len(arg.Args) == 1 && elemOfLoop(arg.Args[0], lp)) {
						why = append(why, "a non-array item is not appended as it is: "+arg.String())
					}
				}
			}
			if nArr == 0 || nOther == 0 {
				why = append(why, fmt.Sprintf("paths: array items=%d other items=%d", nArr, nOther))
			}
		}
		c.Check(len(why) == 0, "c18.index-contracts", "registered:unwind", c.P.Pos(f.Pos()), "one level: arrays spread, others kept, in order", strings.Join(uniq(why), "; "))
	}
	// array
	if f := reg["array"]; f != nil {
		c.Fn(c.P.funcKey(f))
		ok, why := true, ""
		allInstrs(f, func(_ *ssa.BasicBlock, in ssa.Instruction) {
			if r, isR := in.(*ssa.Return); isR {
				t := NewTB().Of(r.Results[0])
				if !(t.Op == "param" && shortType(t.Typ) == "[]any") || !isNilConst(r.Results[1]) {
					ok, why = false, "array returns "+t.String()
				}
			}
		})
		c.Check(ok, "c18.index-contracts", "registered:array", c.P.Pos(f.Pos()), "returns its arguments", why)
	}
	// concat
	if f := reg["concat"]; f != nil {
		c.Fn(c.P.funcKey(f))
		var why []string
		nullRendered := false
		loops := rangeLoops(f)
		if len(loops) != 1 || NewTB().Of(loops[0].over).Op != "param" {
			why = append(why, "concat does not make a single in-order pass over its arguments")
		} else {
			lp := loops[0]
			paths, _ := WalkFrom(f, lp.body, lp.header, WalkCfg{StopAt: func(b *ssa.BasicBlock) bool { return b == lp.header }, MaxVisits: 1})
			for _, p := range paths {
				if p.Exit != "stop" {
					why = append(why, "an argument ends the pass early")
					continue
				}
				writes := 0
				nilTested, isNil := false, false
				for k, v := range p.Asg {
					if x, isN := isNilTest(p.KeyTerm[k]); isN && elemOfLoop(x, lp) {
						nilTested, isNil = true, isTrueC(v)
					}
				}
				if !nilTested {
					nullRendered = true
				}
				if nilTested && isNil {
					for _, e := range p.Effects {
						if e.Kind == "call" && strings.Contains(e.Callee, "Write") {
							why = append(why, "a NULL argument is written")
						}
					}
					continue
				}
				for _, e := range p.Effects {
					if e.Kind == "call" && strings.Contains(e.Callee, "WriteString") {
						writes++
						a, ok := callArgs(e.Args[len(e.Args)-1], "TextOf")
						if !ok || len(a) != 1 || !elemOfLoop(a[0], lp) {
							why = append(why, "concat writes "+e.Args[len(e.Args)-1].String()+" instead of the textual form (TextOf) of the argument")
						}
					}
				}
				if writes != 1 {
					why = append(why, fmt.Sprintf("an argument is written %d times", writes))
				}
			}
		}
		c.Check(len(why) == 0, "c18.index-contracts", "registered:concat", c.P.Pos(f.Pos()), "each argument's %v text written once, in order", strings.Join(uniq(why), "; "))
		c.Check(!nullRendered, "c18.index-contracts", "registered:concat/null", c.P.Pos(f.Pos()), "a NULL argument contributes nothing", "concat writes the %v text of every argument without testing it for NULL: a NULL argument is rendered as `<nil>` instead of contributing nothing")
	}
}

func selfCalls(f *ssa.Function) bool {
	found := false
	allInstrs(f, func(_ *ssa.BasicBlock, in ssa.Instruction) {
		if call, ok := in.(*ssa.Call); ok && call.Common().StaticCallee() == f {
			found = true
		}
	})
	return found
}

func ruleC18Selection(c *Ctx) {
	c.Doc("c18.select-contracts", "if returns (the value of) args[1] when the condition args[0] is true and args[2] when it is false; to_lower/to_upper return strings.ToLower/ToUpper of the string args[0]; changetype maps string/double/integer/array to the %v text / float parse / integer parse / one-element slice of the value; constant looks options.constants up by the %v text of args[0] and fails when absent; daterange returns [text(args[0]), text(args[1])] — element i depends on args[i] and on nothing else")
	reg := c.registry()
	argIdx := func(t *Term, k string) bool {
		return t != nil && t.Contains(func(x *Term) bool {
			return x.Op == "index" && x.Args[0].Op == "param" && x.Args[1].Name == k
		})
	}
	onlyArg := func(t *Term, k string) bool {
		if !argIdx(t, k) {
			return false
		}
		for _, o := range []string{"0", "1", "2"} {
			if o != k && argIdx(t, o) {
				return false
			}
		}
		return true
	}
	if f := reg["if"]; f != nil {
		c.Fn(c.P.funcKey(f))
		atoms := []Atom{{Name: "cond", Dom: boolDom, Match: func(t *Term) bool {
			if t.Op != "load" {
				return false
			}
			in := ext0(t.Args[0])
			if in == nil {
				return false
			}
			a, ok := callArgs(in, "AsType")
			return ok && strings.Contains(in.Name, "[bool]") && len(a) == 1 && onlyArg(a[0], "0")
		}}}
		tb := BuildTable(f, atoms, true)
		var why []string
		nT, nF := 0, 0
		for _, p := range tb.SuccessPaths() {
			cv, has := tb.namesOnPath(p)["cond"]
			if !has {
				continue
			}
			r := p.Ret[0]
			want := "2"
			if isTrueC(cv) {
				want = "1"
				nT++
			} else {
				nF++
			}
			if r.Nil {
				// NULL branch value: guarded by the pointer of that branch being nil
				okNil := false
				for k, v := range p.Asg {
					kt := p.KeyTerm[k]
					if x, isN := isNilTest(kt); isN && isTrueC(v) && onlyArg(x, want) {
						okNil = true
					}
				}
				if !okNil {
					why = append(why, "if returns NULL although the selected branch (args["+want+"]) is not NULL")
				}
				continue
			}
			if !onlyArg(r.T, want) {
				why = append(why, fmt.Sprintf("with the condition %v, if returns %s instead of args[%s]", isTrueC(cv), avString(r), want))
			}
		}
		if nT == 0 || nF == 0 {
			why = append(why, fmt.Sprintf("paths: true=%d false=%d", nT, nF))
		}
		// a NULL condition: AsType[bool](NULL) is a nil pointer; every load of it is dominated by a non-nil test, and the
		// nil path returns args[2]
		allInstrs(f, func(b *ssa.BasicBlock, in ssa.Instruction) {
			ld, ok := in.(*ssa.UnOp)
			if !ok || ld.Op != token.MUL {
				return
			}
			ex, ok := ld.X.(*ssa.Extract)
			if !ok || ex.Index != 0 {
				return
			}
			call, ok := ex.Tuple.(*ssa.Call)
			if !ok || call.Common().StaticCallee() == nil || !strings.HasPrefix(call.Common().StaticCallee().Name(), "AsType[bool]") {
				return
			}
			guarded := false
			for _, fc := range relFacts(factsAt(b)) {
				if fc.x == ssa.Value(ex) && fc.r == relNE {
					if cst, isC := fc.y.(*ssa.Const); isC && cst.IsNil() {
						guarded = true
					}
				}
			}
			if !guarded {
				why = append(why, "the condition pointer is dereferenced without a nil test: IF(NULL, x, y) panics instead of returning y")
			}
		})
		for _, p := range tb.SuccessPaths() {
			for k, v := range p.Asg {
				if x, isN := isNilTest(p.KeyTerm[k]); isN && isTrueC(v) && x.Op == "ext" && x.Name == "0" && strings.Contains(x.String(), "AsType[bool]") {
					r := p.Ret[0]
					if !r.Nil && !onlyArg(r.T, "2") {
						why = append(why, "with a NULL condition, if returns "+avString(r)+" instead of args[2]")
					}
				}
			}
		}
		c.Check(len(why) == 0, "c18.select-contracts", "registered:if", c.P.Pos(f.Pos()), "true => args[1], false => args[2]", strings.Join(uniq(why), "; "))
	}
	for n, lib := range map[string]string{"to_lower": "strings.ToLower", "to_upper": "strings.ToUpper"} {
		f := reg[n]
		if f == nil {
			continue
		}
		c.Fn(c.P.funcKey(f))
		paths, _ := WalkFunc(f, WalkCfg{MaxVisits: 1})
		ok, why, k := true, "", 0
		for _, p := range paths {
			if p.Exit != "return" || !p.Ret[1].Nil {
				continue
			}
			k++
			a, isLib := callArgs(p.Ret[0].T, lib)
			if !isLib || len(a) != 1 || !onlyArg(a[0], "0") || !strings.Contains(a[0].String(), "AsType[string]") {
				ok, why = false, n+" returns "+avString(p.Ret[0])+" instead of "+lib+"(args[0])"
			}
		}
		if k == 0 {
			ok, why = false, "no success path"
		}
		c.Check(ok, "c18.select-contracts", "registered:"+n, c.P.Pos(f.Pos()), lib+" of the string argument", why)
	}
	if f := reg["changetype"]; f != nil {
		c.Fn(c.P.funcKey(f))
		arms, paths := c.labelArms(f)
		_ = arms
		want := map[string]func(*Term) bool{
			"string": func(t *Term) bool {
				// the textual form: TextOf (floats without an exponent, so that string -> double -> string round-trips)
				a, ok := callArgs(t, "TextOf")
				return ok && len(a) == 1 && onlyArg(a[0], "0")
			},
			"double": func(t *Term) bool {
				x := ext0(t)
				if x == nil {
					return false
				}
				a, ok := callArgs(x, "ToFloat64")
				return ok && onlyArg(a[0], "0")
			},
			"integer": func(t *Term) bool {
				x := ext0(t)
				if x == nil {
					return false
				}
				a, ok := callArgs(x, "ToInt")
				return ok && onlyArg(a[0], "0")
			},
			"array": func(t *Term) bool {
				return t != nil && (t.Op == "slice" || t.Op == "varargs" || strings.Contains(t.String(), "alloc"))
			},
		}
		for _, l := range []string{"string", "double", "integer", "array"} {
			p := paths[l]
			if p == nil {
				c.Fail("c18.select-contracts", "registered:changetype/"+l, c.P.Pos(f.Pos()), "conversion type "+l+" has no success path")
				continue
			}
			c.Check(want[l](p.Ret[0].T), "c18.select-contracts", "registered:changetype/"+l, c.P.Pos(f.Pos()), "reference conversion of args[0]", "changetype to "+l+" returns "+avString(p.Ret[0]))
		}
		_, other := paths["\x00other"]
		c.Check(!other, "c18.select-contracts", "registered:changetype/unknown", c.P.Pos(f.Pos()), "an unknown type name is an error", "changetype succeeds for an unknown type name")
	}
	if f := reg["constant"]; f != nil {
		c.Fn(c.P.funcKey(f))
		atoms := []Atom{{Name: "found", Dom: boolDom, Match: func(t *Term) bool {
			return t.Op == "ext" && t.Name == "1" && t.Args[0].Op == "lookupok" && t.Args[0].Args[0].Op == "field" && t.Args[0].Args[0].Name == "constants"
		}}}
		tb := BuildTable(f, atoms, false)
		var why []string
		nF, nA := 0, 0
		for _, p := range tb.Paths {
			if p.Exit != "return" {
				continue
			}
			fv, has := tb.namesOnPath(p)["found"]
			if !has {
				continue
			}
			for k := range p.Asg {
				if tb.Seen[k] == "found" {
					kk := p.KeyTerm[k].Args[0].Args[1]
					// the name of a constant is the decimal text of the argument (TextOf): the %v text of 1500000.0 is 1.5e+06
					if a, ok := callArgs(kk, "fmt.Sprintf"); ok && len(a) == 2 && a[0].Name == `"%v"` && onlyArg(a[1], "0") {
						why = append(why, "the constant is looked up by the %v text of args[0]: a numeric name of a million and above is looked up as 1.5e+06, not 1500000")
					} else if ta, isT := callArgs(kk, "TextOf"); !isT || len(ta) != 1 || !onlyArg(ta[0], "0") {
						why = append(why, "the constant is looked up by "+kk.String()+", not by the text of args[0]")
					}
				}
			}
			if isTrueC(fv) {
				nF++
				r := ext0(p.Ret[0].T)
				if r == nil || r.Op != "lookupok" || !p.Ret[1].Nil {
					why = append(why, "a configured constant is not returned: "+avString(p.Ret[0]))
				}
			} else {
				nA++
				if p.Ret[1].Nil {
					why = append(why, "an unknown constant does not fail")
				}
			}
		}
		if nF == 0 || nA == 0 {
			why = append(why, fmt.Sprintf("paths: found=%d absent=%d", nF, nA))
		}
		c.Check(len(why) == 0, "c18.select-contracts", "registered:constant", c.P.Pos(f.Pos()), "options.constants[text(args[0])] or an error", strings.Join(uniq(why), "; "))
	}
	if f := reg["daterange"]; f != nil {
		c.Fn(c.P.funcKey(f))
		// flow-insensitive terms of the two stored elements of the returned slice literal
		var why []string
		elems := map[int64]*Term{}
		tbd := NewTB()
		allInstrs(f, func(_ *ssa.BasicBlock, in ssa.Instruction) {
			st, ok := in.(*ssa.Store)
			if !ok {
				return
			}
			ia, ok := st.Addr.(*ssa.IndexAddr)
			if !ok {
				return
			}
			if a, isA := ia.X.(*ssa.Alloc); !isA || a.Comment != "slicelit" {
				return
			}
			if k, isC := constIntOf(ia.Index); isC {
				elems[k] = tbd.Of(st.Val)
			}
		})
		for i := int64(0); i < 2; i++ {
			t := elems[i]
			k := fmt.Sprint(i)
			switch {
			case t == nil:
				why = append(why, "element "+k+" of the result is not set")
			case !onlyArg(t, k):
				why = append(why, "element "+k+" of the result is "+t.String()+": it does not depend on args["+k+"] alone")
			case t.Contains(func(x *Term) bool {
				a, ok := callArgs(x, "fmt.Sprintf")
				return ok && len(a) >= 1 && a[0].Name == `"%v"`
			}):
				why = append(why, "element "+k+" of the result is the %v text of args["+k+"]: an epoch bound such as 1700000000000 comes back as 1.7e+12, neither the bound nor its decimal text")
			}
		}
		if len(elems) != 2 {
			why = append(why, fmt.Sprintf("the result has %d elements", len(elems)))
		}
		c.Check(len(why) == 0, "c18.select-contracts", "registered:daterange", c.P.Pos(f.Pos()), "[text(args[0]), text(args[1])]", strings.Join(uniq(why), "; "))
	}
}

func init() { register("C18", ruleC18Pure, ruleC18ArgReader) }

// ruleC18Pure: the contract functions are functions of their arguments.
func ruleC18Pure(c *Ctx) {
	c.Doc("c18.pure", "each contract function (encode, decode, hash, first, last, elementat, unwind, array, concat, if, to_lower, to_upper, changetype, daterange) and every module function it calls statically touches no package-level variable of the module other than the error sentinels (values of the module's error type, never assigned after init): no shared encoder, buffer, cache or counter — the result for an argument list cannot depend on earlier calls")
	reg := c.registry()
	names := []string{"encode", "decode", "hash", "first", "last", "elementat", "unwind", "array", "concat", "if", "to_lower", "to_upper", "changetype", "daterange"}
	for _, name := range names {
		f := reg[name]
		if f == nil {
			continue // reported by c18.registry
		}
		bad, nSeen := c.packageStateUses(f)
		c.Check(len(bad) == 0, "c18.pure", "registered:"+name, c.P.Pos(f.Pos()), fmt.Sprintf("%d module functions, no package-level state", nSeen), strings.Join(uniq(bad), "; "))
	}
}

// packageStateUses: the uses of package-level variables of the module (other than error sentinels that are only read and
// read-only dispatch tables) in f and in every module function it calls statically or hands a function literal to.
func (c *Ctx) packageStateUses(f *ssa.Function) (bad []string, nFuncs int) {
	seen := map[*ssa.Function]bool{}
	var visit func(g *ssa.Function, d int)
	visit = func(g *ssa.Function, d int) {
		if seen[g] || d > 6 || !c.P.InModule(g) || len(g.Blocks) == 0 {
			return
		}
		seen[g] = true
		allInstrs(g, func(_ *ssa.BasicBlock, in ssa.Instruction) {
			for _, op := range in.Operands(nil) {
				gl, ok := (*op).(*ssa.Global)
				if !ok || gl.Pkg == nil || !strings.HasPrefix(gl.Pkg.Pkg.Path(), modPath) {
					continue
				}
				if pt, isP := gl.Type().Underlying().(*types.Pointer); isP && isErrorSentinelType(pt.Elem()) {
					if _, isStore := in.(*ssa.Store); !isStore {
						continue
					}
				}
				if roTableOf(gl) != nil {
					continue // a read-only dispatch table: a constant of the program
				}
				if constObjectOf(gl) != nil {
					continue // a replacer / pattern built once by the package initialiser: a constant of the program
				}
				bad = append(bad, fmt.Sprintf("%s uses the package-level variable %s at %s", c.P.funcKey(g), gl.Name(), c.P.Pos(in.Pos())))
			}
			if call, isCall := in.(ssa.CallInstruction); isCall {
				if cal := call.Common().StaticCallee(); cal != nil {
					visit(cal, d+1)
				}
				for _, a := range call.Common().Args {
					if mc, isMC := a.(*ssa.MakeClosure); isMC {
						visit(mc.Fn.(*ssa.Function), d+1)
					}
				}
			}
		})
	}
	visit(f, 0)
	return bad, len(seen)
}

func init() {
	register("C16", ruleParsePure)
	register("C17", ruleParsePure)
	register("C12", ruleParsePure)
	register("C13", ruleParsePure)
}

// ruleParsePure: from text to statement nothing is remembered.
func ruleParsePure(c *Ctx) {
	c.Doc("parse.pure", "the way from the query text to the parsed statement keeps no state between calls: Parse and the text rewriters of the dialect options (DoubleQuotesToBackTick, FixIdiomaticArray, FindArrayIndex) and everything they call in the module touch no package-level variable — a statement or rewrite cache keyed by the text, or by a normalised form of it, serves one query's text, literals included, to another query (white space inside a string literal is content, the options in force are not part of the text)")
	n := 0
	for _, name := range []string{"Parse", "DoubleQuotesToBackTick", "FixIdiomaticArray", "FindArrayIndex"} {
		f := c.P.Func(modPath, name)
		if f == nil {
			continue
		}
		n++
		c.Fn(name)
		bad, k := c.packageStateUses(f)
		c.Check(len(bad) == 0, "parse.pure", name, c.P.Pos(f.Pos()), fmt.Sprintf("%d module functions, no package-level state", k), strings.Join(uniq(bad), "; "))
	}
	if n < 3 {
		c.Unknown("parse.pure", "anchors", "-", fmt.Sprintf("only %d of Parse and the text rewriters found", n))
	}
}

// isErrorSentinelType: the module's error value types (implement error, declared in the module).
func isErrorSentinelType(t types.Type) bool {
	if nt, ok := t.(*types.Named); ok && nt.Obj().Pkg() != nil && strings.HasPrefix(nt.Obj().Pkg().Path(), modPath) {
		ms := types.NewMethodSet(t)
		if ms.Lookup(nt.Obj().Pkg(), "Error") != nil {
			return true
		}
		ms = types.NewMethodSet(types.NewPointer(t))
		return ms.Lookup(nt.Obj().Pkg(), "Error") != nil
	}
	return isErrorType2(t)
}

func isErrorType2(t types.Type) bool { return t.String() == "error" }

// ruleC18ArgReader: the argument list a function receives.
func ruleC18ArgReader(c *Ctx) {
	c.Doc("c18.arg-reader", "argument evaluation (FuncArgReader): the list handed to a function is storage made by the call (never nil — ARRAY() is the empty array, not NULL); each argument expression contributes exactly one element, the unwrapped evaluation of that expression, appended in order; an evaluation error is returned")
	f := c.P.Func(modPath, "FuncArgReader")
	if f == nil {
		c.Unknown("c18.arg-reader", "FuncArgReader", "-", "anchor lost")
		return
	}
	c.Fn("FuncArgReader")
	var why []string
	// every success return's slice roots at a make/empty literal
	allInstrs(f, func(_ *ssa.BasicBlock, in ssa.Instruction) {
		r, ok := in.(*ssa.Return)
		if !ok || len(r.Results) != 2 {
			return
		}
		if c1, is1 := r.Results[1].(*ssa.Const); !is1 || !c1.IsNil() {
			// error return: nil list
			if c0, is0 := r.Results[0].(*ssa.Const); !is0 || !c0.IsNil() {
				why = append(why, "a list is returned together with an error at "+c.P.Pos(r.Pos()))
			}
			return
		}
		seen := map[ssa.Value]bool{}
		var root func(v ssa.Value)
		root = func(v ssa.Value) {
			if seen[v] {
				return
			}
			seen[v] = true
			switch x := v.(type) {
			case *ssa.Phi:
				for _, e := range x.Edges {
					root(e)
				}
			case *ssa.Call:
				if bi, isB := x.Call.Value.(*ssa.Builtin); isB && bi.Name() == "append" {
					root(x.Call.Args[0])
					return
				}
				why = append(why, "the list returned at "+c.P.Pos(r.Pos())+" is "+NewTB().Of(v).String())
			case *ssa.MakeSlice:
			case *ssa.Slice:
				if _, isAl := x.X.(*ssa.Alloc); !isAl {
					why = append(why, "the list returned at "+c.P.Pos(r.Pos())+" is "+NewTB().Of(v).String())
				}
			default:
				why = append(why, "the list returned at "+c.P.Pos(r.Pos())+" is "+NewTB().Of(v).String()+", not storage made by the call (a nil list makes ARRAY() NULL)")
			}
		}
		root(r.Results[0])
	})
	loops := rangeLoops(f)
	if len(loops) != 1 {
		why = append(why, fmt.Sprintf("%d loops over the argument expressions (1 expected)", len(loops)))
	} else {
		lp := loops[0]
		paths, err := WalkFrom(f, lp.body, lp.header, WalkCfg{StopAt: func(b *ssa.BasicBlock) bool { return b == lp.header }, MaxVisits: 1})
		if err != nil {
			c.Unknown("c18.arg-reader", "FuncArgReader", c.P.Pos(f.Pos()), err.Error())
			return
		}
		n := 0
		for _, p := range paths {
			if p.Exit != "stop" {
				continue
			}
			n++
			apps := 0
			for _, e := range p.Effects {
				// the indexed form: the list is made with the length of the argument list and round i stores into slot i
				indexed := ownSlotStore(f, e, lp)
				if isAppendOf(e) || indexed {
					apps++
					v := e.Args[1]
					if v.Op == "varargs" && len(v.Args) == 1 {
						v = v.Args[0]
					}
					x := ext0(v)
					a, ok := callArgs(x, "ValueOf")
					if x == nil || !ok || len(a) != 3 {
						why = append(why, "an argument is appended without unwrapping: "+v.String())
						continue
					}
					ea, isE := callArgs(ext0(a[2]), "Expr")
					if !isE || len(ea) < 3 || !elemOfLoop(ea[2], lp) {
						why = append(why, "the appended value is not the evaluation of the loop's own argument expression: "+a[2].String())
					}
				}
			}
			if apps != 1 {
				why = append(why, fmt.Sprintf("an argument contributes %d elements", apps))
			}
		}
		if n == 0 {
			why = append(why, "no completing iteration path")
		}
	}
	c.Check(len(why) == 0, "c18.arg-reader", "FuncArgReader", c.P.Pos(f.Pos()), "fresh non-nil list; one unwrapped evaluation per argument, in order", strings.Join(uniq(why), "; "))
}

func init() { register("C18", ruleC18TextOf) }

// ruleC18TextOf: the textual form of a value.
func ruleC18TextOf(c *Ctx) {
	c.Doc("c18.text-of", "textual form (TextOf): a float64/float32 is written by strconv.FormatFloat(v, 'f', -1, bits) — the shortest exact decimal text without an exponent, so that CONCAT('id-', 1000000) is id-1000000 and CHANGETYPE(CHANGETYPE('1234567','double'),'string') returns '1234567' — and every other value by %v; the integer conversion (ToInt) parses that same text")
	f := c.P.Func(modPath, "TextOf")
	if f == nil {
		c.Fail("c18.text-of", "TextOf", "-", "no textual-form helper: numbers are rendered by %v (1000000 becomes 1e+06)")
		return
	}
	c.Fn("TextOf")
	var why []string
	paths, err := WalkFunc(f, WalkCfg{MaxVisits: 1})
	if err != nil {
		why = append(why, err.Error())
	}
	sawFloat := false
	for _, p := range paths {
		if p.Exit != "return" || len(p.Ret) != 1 {
			continue
		}
		kind := ""
		for _, k := range p.Order {
			kt := p.KeyTerm[k]
			if kt != nil && kt.Op == "ext" && kt.Name == "1" && kt.Args[0].Op == "assertok" {
				if v, _ := p.Assumed(k); v && kind == "" {
					kind = kt.Args[0].Name
				}
			}
		}
		r := p.Ret[0].T
		if kind == "float64" || kind == "float32" {
			sawFloat = sawFloat || kind == "float64"
			a, ok := callArgs(r, "strconv.FormatFloat")
			if !ok || len(a) != 4 || a[1].Name != "102" || a[2].Name != "-1" {
				why = append(why, "a "+kind+" is rendered by "+termStr(r)+", not by FormatFloat(v, 'f', -1, bits)")
			} else {
				// the number that is written is the value itself (widened from float32 at most), not a rounded or otherwise
				// recomputed one: the join keys, IN lists and register names built from this text tell apart what Compare tells apart
				v := a[0]
				for v != nil && (v.Op == "conv" || v.Op == "ext") && len(v.Args) > 0 {
					v = v.Args[0]
				}
				if v == nil || !(v.Op == "assertok" || v.Op == "assert") || len(v.Args) == 0 || v.Args[0].Op != "param" {
					why = append(why, "the "+kind+" that is written is "+termStr(a[0])+", not the value itself: two numbers that compare different can get one text (hash-join keys, DISTINCT, register names merge them)")
				}
			}
		} else if a, ok := callArgs(r, "fmt.Sprintf"); !ok || a[0].Name != `"%v"` {
			why = append(why, "a non-float value is rendered by "+termStr(r))
		}
	}
	if !sawFloat {
		why = append(why, "TextOf has no float64 arm")
	}
	if ti := c.P.Func(modPath, "ToInt"); ti != nil {
		uses := false
		allInstrs(ti, func(_ *ssa.BasicBlock, in ssa.Instruction) {
			if call, ok := in.(*ssa.Call); ok && call.Common().StaticCallee() == f {
				uses = true
			}
		})
		if !uses {
			why = append(why, "ToInt does not parse the textual form: CHANGETYPE(1234567, 'integer') fails on the exponent text")
		}
	}
	c.Check(len(why) == 0, "c18.text-of", "TextOf", c.P.Pos(f.Pos()), "floats without an exponent, everything else by %v; ToInt parses it", strings.Join(uniq(why), "; "))
}

func init() { register("C18", ruleC18HashStable) }

// ruleC18HashStable: a hash depends on its argument only, not on the process history.
func ruleC18HashStable(c *Ctx) {
	c.Doc("c18.hash-stable", "HASH: the hashed bytes are a gob stream, and gob writes into a stream the id it gave the encoded type, assigned process-wide in order of first use; an init function of the package therefore encodes a value of exactly the struct type that the hash preimage encodes, before any query can run (the id is the same in every process, whatever was gob-encoded before the first HASH call); arrays are broken down element by element and never handed to gob (which does not know []any)")
	hp := c.P.Func(modPath, "HashPreimage")
	h := c.registry()["hash"]
	var why []string
	if h == nil {
		c.Unknown("c18.hash-stable", "registered:hash", "-", "anchor lost")
		return
	}
	// the struct type(s) the hash path gob-encodes
	enc := map[string]bool{}
	seen := map[*ssa.Function]bool{}
	var visit func(g *ssa.Function, d int)
	visit = func(g *ssa.Function, d int) {
		if seen[g] || d > 3 || !c.P.InModule(g) {
			return
		}
		seen[g] = true
		allInstrs(g, func(_ *ssa.BasicBlock, in ssa.Instruction) {
			call, ok := in.(*ssa.Call)
			if !ok {
				return
			}
			if cal := call.Common().StaticCallee(); cal != nil {
				if cal.Name() == "Encode" && strings.Contains(cal.String(), "encoding/gob") && len(call.Call.Args) == 2 {
					if mi, isMI := call.Call.Args[1].(*ssa.MakeInterface); isMI {
						enc[types.Unalias(mi.X.Type()).String()] = true
					}
				}
				visit(cal, d+1)
			}
		})
	}
	visit(h, 0)
	if len(enc) == 0 {
		why = append(why, "the hash path encodes nothing with gob (anchor lost)")
	}
	primed := map[string]bool{}
	for _, f := range c.P.ModFuncs {
		if !strings.HasPrefix(f.Name(), "init") || f.Parent() != nil {
			continue
		}
		// (the priming may go through the module's own encoding helper)
		seenP := map[*ssa.Function]bool{}
		var visitP func(g *ssa.Function, d int)
		visitP = func(g *ssa.Function, d int) {
			if seenP[g] || d > 3 || !c.P.InModule(g) {
				return
			}
			seenP[g] = true
			allInstrs(g, func(_ *ssa.BasicBlock, in ssa.Instruction) {
				call, ok := in.(*ssa.Call)
				if !ok {
					return
				}
				cal := call.Common().StaticCallee()
				if cal == nil {
					return
				}
				if cal.Name() == "Encode" && strings.Contains(cal.String(), "encoding/gob") && len(call.Call.Args) == 2 {
					if mi, isMI := call.Call.Args[1].(*ssa.MakeInterface); isMI {
						primed[types.Unalias(mi.X.Type()).String()] = true
					}
					return
				}
				if isUnknownHelper(cal) || d == 0 && cal.Name() != "Encode" && strings.Contains(strings.ToLower(cal.Name()), "encode") {
					visitP(cal, d+1)
				}
			})
		}
		visitP(f, 0)
	}
	for t := range enc {
		if !primed[t] {
			why = append(why, "the type "+t+" gets its gob id at the first HASH call: HASH('test data','sha1') differs between a fresh process and one that gob-encoded another type first")
		}
	}
	if hp == nil {
		why = append(why, "no array-aware preimage (HashPreimage): HASH of an array fails with gob: type not registered")
	} else {
		c.Fn("HashPreimage")
		rec, arr := false, false
		allInstrs(hp, func(_ *ssa.BasicBlock, in ssa.Instruction) {
			if call, ok := in.(*ssa.Call); ok && call.Common().StaticCallee() == hp {
				rec = true
			}
			if ta, ok := in.(*ssa.TypeAssert); ok && shortType(ta.AssertedType) == "[]any" {
				arr = true
			}
		})
		if !rec || !arr {
			why = append(why, "HashPreimage does not break arrays down element by element")
		}
	}
	c.Check(len(why) == 0, "c18.hash-stable", "registered:hash", c.P.Pos(h.Pos()), "gob id primed in init; arrays element-wise", strings.Join(uniq(why), "; "))
}

// ownSlotStore: effect e is the store `list[i] = v` where list was made by this call with len(collection of the loop) elements
// and i is the index the loop reads its own element with: the indexed twin of `list = append(list, v)`.
func ownSlotStore(f *ssa.Function, e Effect, lp *loopInfo) bool {
	if e.Kind != "store" || lp == nil || lp.over == nil || len(e.Args) != 2 {
		return false
	}
	st, ok := e.Instr.(*ssa.Store)
	if !ok {
		return false
	}
	ia, ok := st.Addr.(*ssa.IndexAddr)
	if !ok {
		return false
	}
	ms, ok := ia.X.(*ssa.MakeSlice)
	if !ok || !isLenOf(ms.Len, lp.over) {
		return false
	}
	own := false
	allInstrs(f, func(_ *ssa.BasicBlock, in ssa.Instruction) {
		if rd, isIA := in.(*ssa.IndexAddr); isIA && rd.X == lp.over && rd.Index == ia.Index {
			own = true
		}
	})
	return own
}

// effectFreeLoop: no block of the loop calls anything (len and cap apart), stores through a pointer, updates a map, sends,
// defers or starts a goroutine: the loop only computes numbers from what it reads.
func effectFreeLoop(f *ssa.Function, lp *loopInfo) bool {
	free := true
	for _, b := range f.Blocks {
		if b != lp.header && !inNaturalLoop(lp.header, b) {
			continue
		}
		for _, in := range b.Instrs {
			switch x := in.(type) {
			case *ssa.Call:
				if bi, isB := x.Call.Value.(*ssa.Builtin); isB && (bi.Name() == "len" || bi.Name() == "cap") {
					continue
				}
				free = false
			case *ssa.Store, *ssa.MapUpdate, *ssa.Send, *ssa.Go, *ssa.Defer, *ssa.Panic, *ssa.Return:
				free = false
			}
		}
	}
	return free
}
