package main

import (
	"fmt"
	"go/token"
	"go/types"
	"sort"
	"strings"

	"golang.org/x/tools/go/ssa"
)

func init() {
	register("C13", ruleC13GlobalLockset, ruleC13CapturedVars, ruleC13FieldLocks, ruleC13PerQueryState, ruleC13SharedDocument,
		// WaitGroup/recover discipline of the library's own goroutines (shared with C10): Add before go, Done deferred
		ruleC10GoClosures, ruleC10LockPairing)
}

// apiEntries: the functions a caller invokes on the query path.
func (c *Ctx) apiEntries() []*ssa.Function {
	var out []*ssa.Function
	for _, n := range []string{"New", "Prepare", "ExecReader", "Sort", "Parse", "Build"} {
		if f := c.P.Func(modPath, n); f != nil {
			out = append(out, f)
		}
	}
	for _, n := range []string{"Exec", "exec", "execAndPostProcess"} {
		if f := c.P.Method(modPath, "Query", n); f != nil {
			out = append(out, f)
		}
	}
	return out
}

// lockHeldAt: in fn, instruction `at` executes with the mutex `mu` (a global or a field path,
// compared by term) held: a Lock/RLock call on it dominates `at` and the unlock is deferred,
// or Lock … at … Unlock occur in this order inside one basic block.
func lockHeldAt(fn *ssa.Function, at ssa.Instruction, muTerm string, needWrite bool) (bool, string) {
	held := locksHeldAt(fn, at)
	lvl, ok := held[muTerm]
	switch {
	case !ok:
		return false, "the mutex " + muTerm + " is not held on every path reaching the access"
	case needWrite && lvl < 2:
		return false, "only the read lock is held at a write"
	}
	return true, "the mutex is held on every path reaching the access (must-hold dataflow)"
}

func ruleC13GlobalLockset(c *Ctx) {
	c.Doc("c13.global-lockset", "for every package-level variable of package genql that can hold shared mutable state (maps, slices, pointers, interfaces such as hash.Hash — all but *regexp.Regexp and sync primitives); a method call on such an object counts as a write: either every access reachable from an API entry is made while the package's mutex is held (Lock dominating with a deferred unlock, or Lock…access…Unlock in one block), or the variable is written only by functions that are not reachable from any API entry (registries filled by init and the exported Register* functions, which the caller must not race with queries)")
	c.NotDecidedClause("C13: absence of races over all schedules (only the lockset/ownership discipline is decided); cross-talk of values between queries; Register* racing with queries (excluded by the property's own wording)")
	c.Assume("RegisterFunction/RegisterImmediateFunction/RegisterExternalFunction/Import/RegisterTopLevelFunction are not called concurrently with queries")
	pk := c.P.SSAPkgs[modPath]
	if pk == nil {
		c.Unknown("c13.global-lockset", "package", "-", "package not loaded")
		return
	}
	reach := c.P.reachableFrom(c.apiEntries()...)
	var globals []*ssa.Global
	for _, m := range pk.Members {
		if g, ok := m.(*ssa.Global); ok {
			et := g.Type().(*types.Pointer).Elem()
			if !canHoldRef(et) || concurrencySafeType(et) {
				continue
			}
			globals = append(globals, g)
		}
	}
	sort.Slice(globals, func(i, j int) bool { return globals[i].Name() < globals[j].Name() })
	// the package mutex: a global of type sync.Mutex / RWMutex
	muTerm := ""
	for _, m := range pk.Members {
		if g, ok := m.(*ssa.Global); ok && strings.Contains(g.Type().String(), "sync.") && strings.Contains(g.Type().String(), "Mutex") {
			muTerm = NewTB().Of(g).String()
		}
	}
	for _, g := range globals {
		key := "global/" + globalName(g)
		type acc struct {
			fn    *ssa.Function
			in    ssa.Instruction
			write bool
		}
		var accs []acc
		for _, f := range c.P.pkgFuncs(modPath) {
			allInstrs(f, func(_ *ssa.BasicBlock, in ssa.Instruction) {
				switch in := in.(type) {
				case *ssa.Store:
					if in.Addr == ssa.Value(g) {
						accs = append(accs, acc{f, in, true})
					}
				case *ssa.UnOp:
					if in.Op == token.MUL && in.X == ssa.Value(g) {
						w := false
						if refs := in.Referrers(); refs != nil {
							for _, r := range *refs {
								switch r := r.(type) {
								case *ssa.MapUpdate:
									if r.Map == ssa.Value(in) {
										w = true
									}
								case *ssa.Call:
									if b, ok := r.Call.Value.(*ssa.Builtin); ok && (b.Name() == "delete" || b.Name() == "clear") {
										w = true
									}
									// a method call on a shared object that is not documented as safe for
									// concurrent use (hash.Hash, bytes.Buffer, …) mutates it
									if r.Call.IsInvoke() && r.Call.Value == ssa.Value(in) {
										w = true
									}
									if sc := r.Call.StaticCallee(); sc != nil && sc.Signature.Recv() != nil && len(r.Call.Args) > 0 && r.Call.Args[0] == ssa.Value(in) {
										w = true
									}
								}
							}
						}
						accs = append(accs, acc{f, in, w})
					}
				}
			})
		}
		var writersInReach, writersOutside []string
		for _, a := range accs {
			if a.write {
				if reach[a.fn] {
					writersInReach = append(writersInReach, c.P.funcKey(a.fn))
				} else {
					writersOutside = append(writersOutside, c.P.funcKey(a.fn))
				}
			}
		}
		c.Anchor("shared global", fmt.Sprintf("%s (%d accesses, writers on the query path: %v, other writers: %v)", g.Name(), len(accs), uniq(writersInReach), uniq(writersOutside)))
		if len(writersInReach) == 0 {
			c.Pass("c13.global-lockset", key, c.P.Pos(g.Pos()), "written only by functions not reachable from an API entry ("+strings.Join(uniq(writersOutside), ",")+"); read-only on the query path")
			continue
		}
		ok, why := true, ""
		if muTerm == "" {
			ok, why = false, "the variable is written on the query path and the package has no mutex"
		}
		n := 0
		for _, a := range accs {
			if !reach[a.fn] {
				continue
			}
			n++
			c.Fn(c.P.funcKey(a.fn))
			held, reason := lockHeldAt(a.fn, a.in, muTerm, a.write)
			if !held {
				ok, why = false, fmt.Sprintf("%s of %s in %s at %s: %s", map[bool]string{true: "write", false: "read"}[a.write], g.Name(), c.P.funcKey(a.fn), c.P.Pos(a.in.Pos()), reason)
			}
		}
		c.Check(ok, "c13.global-lockset", key, c.P.Pos(g.Pos()), fmt.Sprintf("%d accesses on the query path, all with the mutex held", n), why)
	}
	if len(globals) < 3 {
		c.Unknown("c13.global-lockset", "globals", "-", fmt.Sprintf("only %d shared mutable globals found (cache, functions, immediateFunctions, topLevelFunctions expected)", len(globals)))
	}
}

// concurrencySafeType: types whose methods are documented as safe for concurrent use, or that
// are synchronisation primitives themselves.
func concurrencySafeType(t types.Type) bool {
	s := t.String()
	for _, ok := range []string{"*regexp.Regexp", "*strings.Replacer", "sync.Mutex", "sync.RWMutex", "sync.WaitGroup", "sync.Once", "sync.Map", "sync/atomic."} {
		if strings.Contains(s, ok) {
			return true
		}
	}
	return false
}

// inCycle: block b lies on a CFG cycle.
func inCycle(b *ssa.BasicBlock) bool {
	seen := map[*ssa.BasicBlock]bool{}
	q := append([]*ssa.BasicBlock{}, b.Succs...)
	for len(q) > 0 {
		x := q[0]
		q = q[1:]
		if x == b {
			return true
		}
		if seen[x] {
			continue
		}
		seen[x] = true
		q = append(q, x.Succs...)
	}
	return false
}

func ruleC13CapturedVars(c *Ctx) {
	c.Doc("c13.captured-vars", "for every go statement whose closure stores to a variable captured from the spawner: the spawner reads that variable after the go statement only behind a WaitGroup.Wait that the closure's (deferred) Done precedes; if the go statement sits in a loop (several instances run concurrently) every such store in the closure is made between Lock and Unlock of a captured mutex")
	n := 0
	for _, f := range c.P.pkgFuncs(modPath) {
		k := 0
		allInstrs(f, func(b *ssa.BasicBlock, in ssa.Instruction) {
			g, ok := in.(*ssa.Go)
			if !ok {
				return
			}
			k++
			mc, ok := g.Call.Value.(*ssa.MakeClosure)
			if !ok {
				return
			}
			clo := mc.Fn.(*ssa.Function)
			key := fmt.Sprintf("%s/go#%d", c.P.funcKey(f), k)
			c.Fn(c.P.funcKey(f))
			// captured cells the closure (or closures it defers) stores to
			written := map[*ssa.Alloc]bool{}
			var stores []*ssa.Store
			var visit func(fn *ssa.Function, bind map[*ssa.FreeVar]ssa.Value)
			visit = func(fn *ssa.Function, bind map[*ssa.FreeVar]ssa.Value) {
				allInstrs(fn, func(_ *ssa.BasicBlock, cin ssa.Instruction) {
					switch cin := cin.(type) {
					case *ssa.Store:
						if fv, ok := cin.Addr.(*ssa.FreeVar); ok {
							if a, ok := bind[fv].(*ssa.Alloc); ok {
								written[a] = true
								stores = append(stores, cin)
							}
						}
					case *ssa.MakeClosure:
						inner := cin.Fn.(*ssa.Function)
						ib := map[*ssa.FreeVar]ssa.Value{}
						for i, bv := range cin.Bindings {
							if i < len(inner.FreeVars) {
								if fv, ok := bv.(*ssa.FreeVar); ok {
									ib[inner.FreeVars[i]] = bind[fv]
								} else {
									ib[inner.FreeVars[i]] = bv
								}
							}
						}
						visit(inner, ib)
					}
				})
			}
			bind := map[*ssa.FreeVar]ssa.Value{}
			for i, bv := range mc.Bindings {
				if i < len(clo.FreeVars) {
					bind[clo.FreeVars[i]] = bv
				}
			}
			visit(clo, bind)
			if len(written) == 0 {
				c.PassTrivial("c13.captured-vars", key, c.P.Pos(g.Pos()), "the goroutine stores to no captured variable")
				return
			}
			n++
			ok2, why := true, ""
			// reads in the spawner after the go statement
			waitBlocks := []*ssa.BasicBlock{}
			allInstrs(f, func(wb *ssa.BasicBlock, win ssa.Instruction) {
				if call, ok := win.(*ssa.Call); ok && strings.HasSuffix(calleeName(call.Common()), "(*sync.WaitGroup).Wait") {
					waitBlocks = append(waitBlocks, wb)
				}
			})
			doneDeferred := false
			allInstrs(clo, func(_ *ssa.BasicBlock, cin ssa.Instruction) {
				if d, ok := cin.(*ssa.Defer); ok && strings.HasSuffix(calleeName(d.Common()), "(*sync.WaitGroup).Done") {
					doneDeferred = true
				}
			})
			for a := range written {
				if refs := a.Referrers(); refs != nil {
					for _, r := range *refs {
						ld, ok := r.(*ssa.UnOp)
						if !ok || ld.Op != token.MUL || ld.Parent() != f {
							continue
						}
						// is the load after the go statement?
						after := false
						if ld.Block() == b {
							seenGo := false
							for _, x := range b.Instrs {
								if x == ssa.Instruction(g) {
									seenGo = true
								}
								if x == ssa.Instruction(ld) && seenGo {
									after = true
								}
							}
						} else if reaches(b, ld.Block()) {
							after = true
						}
						if !after {
							continue
						}
						synced := false
						for _, wb := range waitBlocks {
							if wb != b && wb.Dominates(ld.Block()) && reaches(b, wb) {
								synced = true
							}
							if wb == ld.Block() {
								// Wait earlier in the same block
								for _, x := range wb.Instrs {
									if call, ok := x.(*ssa.Call); ok && strings.HasSuffix(calleeName(call.Common()), "(*sync.WaitGroup).Wait") {
										synced = true
									}
									if x == ssa.Instruction(ld) {
										break
									}
								}
							}
						}
						if !synced || !doneDeferred {
							ok2, why = false, fmt.Sprintf("the spawner reads %s at %s after starting the goroutine that writes it, with no WaitGroup.Wait in between (data race)", a.Comment, c.P.Pos(ld.Pos()))
						}
					}
				}
			}
			if inCycle(b) {
				// writes THROUGH a captured variable that the goroutine also reassigns (element stores, copy into
				// a sub-slice of it) are writes to shared storage as well
				var visit2 func(fn *ssa.Function, bind map[*ssa.FreeVar]ssa.Value)
				visit2 = func(fn *ssa.Function, bind map[*ssa.FreeVar]ssa.Value) {
					derives := func(v ssa.Value) bool {
						seen := map[ssa.Value]bool{}
						var rec func(x ssa.Value) bool
						rec = func(x ssa.Value) bool {
							if seen[x] {
								return false
							}
							seen[x] = true
							switch x := x.(type) {
							case *ssa.UnOp:
								if fv, ok := x.X.(*ssa.FreeVar); ok {
									if a, ok := bind[fv].(*ssa.Alloc); ok && written[a] {
										return true
									}
								}
							case *ssa.Slice:
								return rec(x.X)
							case *ssa.Phi:
								for _, e := range x.Edges {
									if rec(e) {
										return true
									}
								}
							case *ssa.IndexAddr:
								return rec(x.X)
							}
							return false
						}
						return rec(v)
					}
					allInstrs(fn, func(_ *ssa.BasicBlock, cin ssa.Instruction) {
						var target ssa.Value
						switch cin := cin.(type) {
						case *ssa.Store:
							if ia, ok := cin.Addr.(*ssa.IndexAddr); ok {
								target = ia.X
							}
						case *ssa.Call:
							if bi, ok := cin.Call.Value.(*ssa.Builtin); ok && bi.Name() == "copy" {
								target = cin.Call.Args[0]
							}
						}
						if target != nil && derives(target) && len(locksHeldAt(fn, cin)) == 0 {
							ok2, why = false, fmt.Sprintf("the goroutine writes into storage reached through a shared captured variable at %s without holding the lock (another instance may reallocate or overwrite it)", c.P.Pos(cin.Pos()))
						}
					})
				}
				visit2(clo, bind)
				for _, st := range stores {
					if len(locksHeldAt(st.Parent(), st)) == 0 {
						ok2, why = false, fmt.Sprintf("concurrent instances of the goroutine store to a captured variable at %s without holding a lock", c.P.Pos(st.Pos()))
					}
				}
			}
			c.Check(ok2, "c13.captured-vars", key, c.P.Pos(g.Pos()), fmt.Sprintf("%d captured variables written by the goroutine; spawner reads them only after Wait; stores under a lock where instances overlap", len(written)), why)
		})
	}
	if n == 0 {
		c.Unknown("c13.captured-vars", "go-inventory", "-", "no goroutine writing captured variables found (parallel joins and ASYNC expected)")
	}
}

func ruleC13FieldLocks(c *Ctx) {
	c.Doc("c13.field-locks", "Options.vars is accessed only while Options.varsMut is held: writes under Lock, reads under Lock or RLock (must-hold at the access, unlock deferred or same block); WithVars (configuration time) is exempt")
	n := 0
	for _, f := range c.P.pkgFuncs(modPath) {
		tbd := NewTB()
		allInstrs(f, func(_ *ssa.BasicBlock, in ssa.Instruction) {
			ld, ok := in.(*ssa.UnOp)
			if !ok || ld.Op != token.MUL {
				return
			}
			fa, ok := ld.X.(*ssa.FieldAddr)
			if !ok || fieldName(fa.X.Type(), fa.Field) != "vars" || !isNamedType(fa.X.Type(), modPath, "Options") {
				return
			}
			write := false
			if refs := ld.Referrers(); refs != nil {
				for _, r := range *refs {
					if mu, ok := r.(*ssa.MapUpdate); ok && mu.Map == ssa.Value(ld) {
						write = true
					}
				}
			}
			n++
			key := fmt.Sprintf("%s/vars-%s", c.P.funcKey(f), map[bool]string{true: "write", false: "read"}[write])
			c.Fn(c.P.funcKey(f))
			base := tbd.Of(fa.X).String()
			muTerm := "(" + base + ").varsMut"
			held, reason := lockHeldAt(f, ld, muTerm, write)
			c.Check(held, "c13.field-locks", key, c.P.Pos(ld.Pos()), reason, "Options.vars is "+map[bool]string{true: "written", false: "read"}[write]+" without "+map[bool]string{true: "the write lock", false: "a lock"}[write]+" on Options.varsMut: "+reason)
		})
	}
	if n < 2 {
		c.Unknown("c13.field-locks", "Options.vars", "-", fmt.Sprintf("only %d accesses of Options.vars found (getvar and setvar expected)", n))
	}
}

// ruleC13PerQueryState: no *Query (or its mutable per-query state) is stored in a package-level variable.
func ruleC13PerQueryState(c *Ctx) {
	c.Doc("c13.per-query-state", "no value of type *Query, *Options, sync.WaitGroup or a per-query slice/map (postProcessors, singletonExecutions) is stored into a package-level variable or into the process-wide caches: per-query state is never shared between two API activations (ownership analysis: contents of every global object)")
	o := c.own()
	bad := ""
	n := 0
	for g, id := range o.globalO {
		n++
		for cid := range o.contentClosure(id, 3) {
			ob := o.objs[cid]
			if ob.kind == "field" && (strings.HasPrefix(ob.label, "Query.") || strings.HasPrefix(ob.label, "Options.")) {
				bad = fmt.Sprintf("global %s may hold %s", g.Name(), ob.label)
			}
			if ob.kind == "alloc" && ob.pos.IsValid() {
				// an allocated Query object
				for v, sid := range o.siteO {
					if sid == cid {
						if a, ok := v.(*ssa.Alloc); ok && isNamedType(a.Type(), modPath, "Query") {
							bad = fmt.Sprintf("global %s may hold a *Query allocated at %s", g.Name(), c.P.Pos(a.Pos()))
						}
						if a, ok := v.(*ssa.Alloc); ok && isNamedType(a.Type(), modPath, "Options") {
							bad = fmt.Sprintf("global %s may hold an *Options allocated at %s: every query that ends up with it shares its variables, handlers and locks with all the others", g.Name(), c.P.Pos(a.Pos()))
						}
					}
				}
			}
		}
	}
	c.Check(bad == "", "c13.per-query-state", "globals", "-", fmt.Sprintf("%d global objects examined: none can reach a Query", n), bad)
}

func (o *Own) contentClosure(id objID, depth int) map[objID]bool {
	out := map[objID]bool{}
	var rec func(x objID, d int)
	rec = func(x objID, d int) {
		if d > depth {
			return
		}
		for cid := range o.content[x] {
			if !out[cid] {
				out[cid] = true
				rec(cid, d+1)
			}
		}
	}
	rec(id, 0)
	return out
}

// ruleC13SharedDocument: for queries sharing one document every write into document storage is a
// race regardless of later restoration, including the tolerated marker.
func ruleC13SharedDocument(c *Ctx) {
	c.Doc("c13.shared-document", "for concurrent queries reading one shared document, no write site may target document storage at all — the temporary <- marker that C11 tolerates (restored by defer) is a concurrent map write here")
	c.classifyWrites("c13.shared-document", nil, false)
}

// shared with C09 / C14: the parsed selectors in the process-wide cache are shared by all queries (a write is cross-talk
// and a data race); a nested execution whose wait group is not chained loses the happens-before edge to the caller
func init() { register("C13", ruleC09ParsedImmutable, ruleC14NestedWaits) }

func init() { register("C13", ruleC13ParallelGuard); register("C10", ruleC13ParallelGuard); register("C14", ruleC13ParallelGuard) }

// ruleC13ParallelGuard: the ON expression is evaluated from several goroutines only when it cannot touch query state.
func ruleC13ParallelGuard(c *Ctx) {
	c.Doc("c13.parallel-guard", "the parallel nested-loop matcher (ParallelJoinFunc) evaluates the ON expression on the one shared *Query from one goroutine per key; the expression evaluators write query state without a lock (FunExpr/AggrFunExpr: the ONCE/aggregate memo map; SelectExpr/FunExpr: the post-processor list). Every call of ParallelJoinFunc is therefore dominated by isParallelSafe(j.joinExpr) being true, and isParallelSafe answers true only for AND/OR trees of comparisons between two column references (and boolean literals): a concurrent map write is a fatal error that no recover can stop")
	pj := c.P.Method(modPath, "Join", "ParallelJoinFunc")
	safe := c.P.Func(modPath, "isParallelSafe")
	if pj == nil {
		c.Unknown("c13.parallel-guard", "(*Join).ParallelJoinFunc", "-", "anchor lost")
		return
	}
	n := 0
	for _, f := range c.P.ModFuncs {
		allInstrs(f, func(b *ssa.BasicBlock, in ssa.Instruction) {
			call, ok := in.(*ssa.Call)
			if !ok || call.Common().StaticCallee() != pj {
				return
			}
			n++
			guarded := false
			for _, fc := range factsAt(b) {
				cond, truth := fc.cond, fc.truth
				for {
					u, isU := cond.(*ssa.UnOp)
					if !isU || u.Op != token.NOT {
						break
					}
					cond, truth = u.X, !truth
				}
				if gc, isCall := cond.(*ssa.Call); isCall && safe != nil && gc.Common().StaticCallee() == safe && truth {
					if strings.Contains(NewTB().Of(gc.Call.Args[0]).String(), "joinExpr") {
						guarded = true
					}
				}
			}
			c.Check(guarded, "c13.parallel-guard", "ParallelJoinFunc <- "+c.P.funcKey(f), c.P.Pos(call.Pos()), "called only when isParallelSafe(j.joinExpr)", "the parallel nested-loop matcher is started without checking that the ON expression is free of query state: `PARALLEL JOIN ... ON x.id = y.id AND ONCE.f()` writes the memo map from several goroutines (fatal error: concurrent map writes)")
		})
	}
	if n == 0 {
		c.Unknown("c13.parallel-guard", "(*Join).ParallelJoinFunc", c.P.Pos(pj.Pos()), "no call site found")
	}
	if safe == nil {
		c.Fail("c13.parallel-guard", "isParallelSafe", "-", "no predicate isParallelSafe: nothing decides whether an ON expression may be evaluated concurrently")
		return
	}
	c.Fn("isParallelSafe")
	if why, isWL := parallelSafeWorklist(safe); isWL {
		c.Check(len(why) == 0, "c13.parallel-guard", "isParallelSafe", c.P.Pos(safe.Pos()), "worklist form: true only when every node taken from the list is a column-to-column comparison, a boolean literal, or an AND/OR whose two operands are put on the list", strings.Join(uniq(why), "; "))
		return
	}
	// the predicate's table: true only on the admitted node kinds
	paths, err := WalkFunc(safe, WalkCfg{MaxVisits: 1})
	if err != nil {
		c.Unknown("c13.parallel-guard", "isParallelSafe", c.P.Pos(safe.Pos()), err.Error())
		return
	}
	var why []string
	for _, p := range paths {
		if p.Exit != "return" || len(p.Ret) != 1 {
			continue
		}
		kind := ""
		for _, k := range p.Order {
			kt := p.KeyTerm[k]
			if kt != nil && kt.Op == "ext" && kt.Name == "1" && kt.Args[0].Op == "assertok" && kt.Args[0].Args[0].Op == "param" {
				if v, _ := p.Assumed(k); v && kind == "" {
					kind = kt.Args[0].Name
				}
			}
		}
		r := p.Ret[0]
		mayBeTrue := r.C == nil || isTrueC(r.C)
		if !mayBeTrue {
			continue
		}
		switch kind {
		case "*sqlparser.ComparisonExpr":
			// true only with both operands column references
			both := 0
			for k, v := range p.Asg {
				kt := p.KeyTerm[k]
				if kt != nil && kt.Op == "ext" && kt.Name == "1" && kt.Args[0].Op == "assertok" && kt.Args[0].Name == "*sqlparser.ColName" && isTrueC(v) {
					both++
				}
			}
			if r.C != nil && both < 2 {
				why = append(why, "a comparison is declared safe although an operand is not a plain column reference")
			}
		case "*sqlparser.AndExpr", "*sqlparser.OrExpr":
			rt := termStr(r.T)
			if r.C != nil || !strings.Contains(rt, "isParallelSafe(") {
				why = append(why, kind+" is declared safe without examining both operands")
			} else if !(strings.Contains(rt, ").Left)") && strings.Contains(rt, ").Right)")) {
				// the result depends on the recursive verdicts: both operands must have been examined on a path that may answer true
				seenL, seenR := strings.Contains(rt, ").Left)"), strings.Contains(rt, ").Right)")
				for _, e := range p.Effects {
					if e.Kind == "call" && e.Callee == "isParallelSafe" && len(e.Args) == 1 {
						if strings.HasSuffix(e.Args[0].String(), ").Left") {
							seenL = true
						}
						if strings.HasSuffix(e.Args[0].String(), ").Right") {
							seenR = true
						}
					}
				}
				if !seenL || !seenR {
					why = append(why, kind+" is declared safe without examining both operands")
				}
			}
		case "sqlparser.BoolVal":
		default:
			why = append(why, "a node of kind "+kind+" (or an unknown kind) is declared safe: its evaluator may write query state")
		}
	}
	c.Check(len(why) == 0, "c13.parallel-guard", "isParallelSafe", c.P.Pos(safe.Pos()), "true only for AND/OR trees of column-to-column comparisons and boolean literals", strings.Join(uniq(why), "; "))
}

// A predicate over an expression tree written with an explicit stack instead of recursion: a list that starts as
// [expr]; each round takes one node off the list; the answer is true only when the list is exhausted; a round either
// answers false or goes on to the next round, possibly after putting the node's operands on the list.
type wlRound struct {
	p          *Path
	kind       string // the asserted type of the node this round looks at ("" if none)
	node       *Term  // the type assertion of the node
	next       *Term  // the list handed to the next round
	popped     bool   // next is the list without the node
	pushesBoth bool   // next is the list without the node plus the node's Left and Right
}

type worklist struct {
	fn      *ssa.Function
	pending *ssa.Phi
	why     []string // structural defects of the loop itself
	rounds  []wlRound
}

// recogniseWorklist returns nil when fn is not written in worklist form.
func recogniseWorklist(fn *ssa.Function) *worklist {
	var header *ssa.BasicBlock
	var pending *ssa.Phi
	for _, b := range fn.Blocks {
		if len(b.Instrs) == 0 {
			continue
		}
		iff, ok := b.Instrs[len(b.Instrs)-1].(*ssa.If)
		if !ok {
			continue
		}
		cmp, ok := iff.Cond.(*ssa.BinOp)
		if !ok || !(cmp.Op == token.GTR || cmp.Op == token.NEQ) {
			continue
		}
		if k, isK := constIntOf(cmp.Y); !isK || k != 0 {
			continue
		}
		ln, ok := cmp.X.(*ssa.Call)
		if !ok {
			continue
		}
		if bi, isB := ln.Call.Value.(*ssa.Builtin); !isB || bi.Name() != "len" {
			continue
		}
		ph, ok := ln.Call.Args[0].(*ssa.Phi)
		if !ok || ph.Block() != b {
			continue
		}
		if _, isSl := ph.Type().Underlying().(*types.Slice); !isSl {
			continue
		}
		header, pending = b, ph
	}
	if header == nil || len(fn.Params) == 0 {
		return nil
	}
	wl := &worklist{fn: fn, pending: pending}
	body, exit := header.Succs[0], header.Succs[1]
	// the list starts as [expr], expr being a parameter
	initOK := false
	for i, e := range pending.Edges {
		if header.Dominates(header.Preds[i]) {
			continue
		}
		if sl, isSl := e.(*ssa.Slice); isSl {
			if a, isA := sl.X.(*ssa.Alloc); isA {
				st := allocElemStores(a)
				if len(st) == 1 {
					if _, isP := st[0].(*ssa.Parameter); isP {
						initOK = true
					}
				}
			}
		}
	}
	if !initOK {
		wl.why = append(wl.why, "the list of pending nodes does not start with the expression itself")
	}
	post, err := WalkFrom(fn, exit, header, WalkCfg{MaxVisits: 1, NoEffects: true})
	if err != nil {
		wl.why = append(wl.why, err.Error())
		return wl
	}
	for _, p := range post {
		if p.Exit == "return" && len(p.Ret) == 1 && p.Ret[0].C == nil {
			wl.why = append(wl.why, "the answer after the list is exhausted is not a constant")
		}
	}
	paths, err := WalkFrom(fn, body, header, WalkCfg{StopAt: func(b *ssa.BasicBlock) bool { return b == header }, MaxVisits: 1})
	if err != nil {
		wl.why = append(wl.why, err.Error())
		return wl
	}
	derives := func(t *Term) bool {
		return t != nil && t.Contains(func(x *Term) bool { return x.V == ssa.Value(pending) })
	}
	for _, p := range paths {
		if p.Exit == "return" {
			if len(p.Ret) == 1 && (p.Ret[0].C == nil || isTrueC(p.Ret[0].C)) {
				wl.why = append(wl.why, "the predicate can answer true before the list of pending nodes is exhausted")
			}
			continue
		}
		if p.Exit != "stop" {
			wl.why = append(wl.why, "a round of the worklist loop could not be followed to its end")
			continue
		}
		r := wlRound{p: p}
		for _, k := range p.Order {
			kt := p.KeyTerm[k]
			if kt != nil && kt.Op == "ext" && kt.Name == "1" && kt.Args[0].Op == "assertok" && kt.Args[0].Args[0].Op == "index" && derives(kt.Args[0].Args[0]) {
				if v, _ := p.Assumed(k); v && r.kind == "" {
					r.kind, r.node = kt.Args[0].Name, kt.Args[0]
				}
			}
		}
		r.next = p.PhiIn[pending].T
		r.popped = r.next != nil && r.next.Op == "slice" && derives(r.next)
		if r.node != nil && r.next != nil && r.next.Op == "call" && r.next.Name == "builtin:append" && len(r.next.Args) == 2 && r.next.Args[0].Op == "slice" && derives(r.next.Args[0]) && r.next.Args[1].Op == "varargs" {
			l, rr := false, false
			for _, a := range r.next.Args[1].Args {
				if a.Op != "field" || len(a.Args) != 1 || a.Args[0].Op != "ext" {
					continue
				}
				if x, ok := a.Args[0].V.(*ssa.Extract); ok && x.Tuple == r.node.V {
					switch a.Name {
					case "Left":
						l = true
					case "Right":
						rr = true
					}
				}
			}
			r.pushesBoth = l && rr
		}
		wl.rounds = append(wl.rounds, r)
	}
	if len(wl.rounds) == 0 {
		wl.why = append(wl.why, "no round of the worklist loop continues")
	}
	return wl
}

// parallelSafeWorklist decides the iterative form of isParallelSafe: a round goes on only for a column-to-column
// comparison, a boolean literal (list unchanged), or an AND/OR node whose Left and Right are both appended to the list.
func parallelSafeWorklist(safe *ssa.Function) (why []string, isWorklist bool) {
	wl := recogniseWorklist(safe)
	if wl == nil {
		return nil, false
	}
	why = append(why, wl.why...)
	for _, r := range wl.rounds {
		switch r.kind {
		case "*sqlparser.ComparisonExpr":
			both := 0
			for k, v := range r.p.Asg {
				kt := r.p.KeyTerm[k]
				if kt != nil && kt.Op == "ext" && kt.Name == "1" && kt.Args[0].Op == "assertok" && kt.Args[0].Name == "*sqlparser.ColName" && isTrueC(v) {
					both++
				}
			}
			if both < 2 {
				why = append(why, "a comparison is accepted although an operand is not a plain column reference")
			}
			if !r.popped {
				why = append(why, "after a comparison the list of pending nodes is "+termStr(r.next)+", not the list without the node")
			}
		case "sqlparser.BoolVal":
			if !r.popped {
				why = append(why, "after a boolean literal the list of pending nodes is "+termStr(r.next)+", not the list without the node")
			}
		case "*sqlparser.AndExpr", "*sqlparser.OrExpr":
			if !r.pushesBoth {
				why = append(why, r.kind+" is accepted without putting both of its operands on the list of pending nodes (the list becomes "+termStr(r.next)+")")
			}
		default:
			why = append(why, "a node of kind "+r.kind+" (or an unknown kind) is accepted: its evaluator may write query state")
		}
	}
	return why, true
}

// allocElemStores: the values stored into the elements of a local array (a slice literal's backing store).
func allocElemStores(a *ssa.Alloc) []ssa.Value {
	var out []ssa.Value
	if a.Referrers() == nil {
		return nil
	}
	for _, r := range *a.Referrers() {
		if ia, ok := r.(*ssa.IndexAddr); ok && ia.Referrers() != nil {
			for _, u := range *ia.Referrers() {
				if st, ok := u.(*ssa.Store); ok && st.Addr == ssa.Value(ia) {
					out = append(out, st.Val)
				}
			}
		}
	}
	return out
}

func init() {
	register("C13", rulePublishComplete)
	register("C04", rulePublishComplete)
	register("C09", rulePublishComplete)
}

// rulePublishComplete: what is stored into a process-wide map is finished when it is stored.
func rulePublishComplete(c *Ctx) {
	c.Doc("shared.publish-complete", "a value stored into a package-level map that other goroutines read (the selector cache) is complete at that moment: on no path after the store does the storing function write an element or a field of the stored value (or of storage it was sliced or grown from) — a reader that finds the entry in between (the goroutines of a PARALLEL join resolving the same column) would work with a half-filled parse")
	n := 0
	for _, f := range c.P.ModFuncs {
		if f.Name() == "init" {
			continue
		}
		for _, b := range f.Blocks {
			for i, in := range b.Instrs {
				mu, ok := in.(*ssa.MapUpdate)
				if !ok {
					continue
				}
				ld, isLd := mu.Map.(*ssa.UnOp)
				if !isLd {
					continue
				}
				g, isG := ld.X.(*ssa.Global)
				if !isG || g.Pkg == nil || !strings.HasPrefix(g.Pkg.Pkg.Path(), modPath) {
					continue
				}
				n++
				roots := storageRoots(mu.Value)
				bad := ""
				check := func(x ssa.Instruction) {
					st, isSt := x.(*ssa.Store)
					if !isSt || bad != "" {
						return
					}
					var base ssa.Value
					switch a := st.Addr.(type) {
					case *ssa.IndexAddr:
						base = a.X
					case *ssa.FieldAddr:
						base = a.X
					default:
						return
					}
					for r := range storageRoots(base) {
						if roots[r] {
							bad = "the value stored into " + g.Name() + " at " + c.P.Pos(mu.Pos()) + " is still written at " + c.P.Pos(st.Pos()) + ": a concurrent reader can see the entry before it is complete"
						}
					}
				}
				for _, x := range b.Instrs[i+1:] {
					check(x)
				}
				for _, ob := range f.Blocks {
					if ob == b {
						// the block itself again only through a cycle
						cyc := false
						for _, s := range b.Succs {
							if reaches(s, b) {
								cyc = true
							}
						}
						if !cyc {
							continue
						}
					} else {
						reach := false
						for _, s := range b.Succs {
							if reaches(s, ob) {
								reach = true
							}
						}
						if !reach {
							continue
						}
					}
					for _, x := range ob.Instrs {
						check(x)
					}
				}
				c.Check(bad == "", "shared.publish-complete", c.P.funcKey(f)+"/"+g.Name(), c.P.Pos(mu.Pos()), "nothing writes the stored value after the store", bad)
			}
		}
	}
	if n == 0 {
		c.Unknown("shared.publish-complete", "shared-maps", "-", "anchor lost: no store into a package-level map outside the initialisers")
	}
}

// storageRoots: the values whose storage v may share (through phis, appends, reslicing, conversions and boxing).
func storageRoots(v ssa.Value) map[ssa.Value]bool {
	out := map[ssa.Value]bool{}
	var visit func(v ssa.Value, d int)
	visit = func(v ssa.Value, d int) {
		if v == nil || out[v] || d > 12 {
			return
		}
		switch x := v.(type) {
		case *ssa.Const:
			return
		case *ssa.Phi:
			out[v] = true
			for _, e := range x.Edges {
				visit(e, d+1)
			}
			return
		case *ssa.Slice:
			visit(x.X, d+1)
			return
		case *ssa.MakeInterface:
			visit(x.X, d+1)
			return
		case *ssa.ChangeType:
			visit(x.X, d+1)
			return
		case *ssa.Convert:
			visit(x.X, d+1)
			return
		case *ssa.UnOp:
			if x.Op == token.MUL {
				if a, ok := x.X.(*ssa.Alloc); ok {
					out[v] = true
					for _, st := range storesTo(a) {
						visit(st.Val, d+1)
					}
					return
				}
			}
		case *ssa.Call:
			if bi, ok := x.Call.Value.(*ssa.Builtin); ok && bi.Name() == "append" {
				out[v] = true
				visit(x.Call.Args[0], d+1)
				return
			}
		}
		out[v] = true
	}
	visit(v, 0)
	return out
}

func init() { register("C13", ruleC13RecordLocks); register("C04", ruleC13RecordLocks) }

// ruleC13RecordLocks: a record that carries its own mutex is written only while that mutex is held, wherever goroutines run.
func ruleC13RecordLocks(c *Ctx) {
	c.Doc("c13.record-locks", "shared state kept in a record instead of captured variables (a collector/result type with a sync.Mutex field that the goroutines of a PARALLEL join share): in every function reachable from a `go` statement of the module, each store to a data field of such a record (and each element store through one) is made while a mutex is held; constructors and the code after wg.Wait are not reachable from a go statement and are exempt")
	// lock-carrying record types of the module
	carries := func(t types.Type) bool {
		pt, ok := t.Underlying().(*types.Pointer)
		if !ok {
			return false
		}
		nt, ok := pt.Elem().(*types.Named)
		if !ok || nt.Obj().Pkg() == nil || !strings.HasPrefix(nt.Obj().Pkg().Path(), modPath) {
			return false
		}
		st, ok := nt.Underlying().(*types.Struct)
		if !ok {
			return false
		}
		for i := 0; i < st.NumFields(); i++ {
			if s := st.Field(i).Type().String(); s == "sync.Mutex" || s == "sync.RWMutex" {
				return true
			}
		}
		return false
	}
	isSyncField := func(t types.Type, idx int) bool {
		st, ok := t.Underlying().(*types.Pointer).Elem().Underlying().(*types.Struct)
		if !ok || idx >= st.NumFields() {
			return false
		}
		return strings.HasPrefix(st.Field(idx).Type().String(), "sync.")
	}
	// functions reachable from the go statements
	reach := map[*ssa.Function]bool{}
	var visit func(f *ssa.Function, d int)
	visit = func(f *ssa.Function, d int) {
		if f == nil || reach[f] || d > 5 || len(f.Blocks) == 0 || !c.P.InModule(f) {
			return
		}
		reach[f] = true
		for _, a := range f.AnonFuncs {
			visit(a, d+1)
		}
		allInstrs(f, func(_ *ssa.BasicBlock, in ssa.Instruction) {
			if ci, ok := in.(ssa.CallInstruction); ok {
				visit(ci.Common().StaticCallee(), d+1)
			}
		})
	}
	for _, f := range c.P.ModFuncs {
		allInstrs(f, func(_ *ssa.BasicBlock, in ssa.Instruction) {
			if g, ok := in.(*ssa.Go); ok {
				switch v := g.Call.Value.(type) {
				case *ssa.MakeClosure:
					visit(v.Fn.(*ssa.Function), 0)
				case *ssa.Function:
					visit(v, 0)
				}
			}
		})
	}
	n := 0
	var fns []*ssa.Function
	for f := range reach {
		fns = append(fns, f)
	}
	sort.Slice(fns, func(i, j int) bool { return fns[i].String() < fns[j].String() })
	for _, f := range fns {
		k := 0
		allInstrs(f, func(_ *ssa.BasicBlock, in ssa.Instruction) {
			st, ok := in.(*ssa.Store)
			if !ok {
				return
			}
			var fa *ssa.FieldAddr
			switch a := st.Addr.(type) {
			case *ssa.FieldAddr:
				fa = a
			case *ssa.IndexAddr:
				// an element store through a field of the record
				if ld, isLd := a.X.(*ssa.UnOp); isLd && ld.Op == token.MUL {
					fa, _ = ld.X.(*ssa.FieldAddr)
				}
			}
			if fa == nil || !carries(fa.X.Type()) || isSyncField(fa.X.Type(), fa.Field) {
				return
			}
			n++
			k++
			held := locksHeldAt(f, st)
			c.Check(len(held) > 0, "c13.record-locks", fmt.Sprintf("%s/%s#%d", c.P.funcKey(f), fieldName(fa.X.Type(), fa.Field), k), c.P.Pos(st.Pos()), "stored while a mutex is held", "the field "+fieldName(fa.X.Type(), fa.Field)+" of a record shared by goroutines is written without holding its mutex: concurrent instances race on it (lost rows, torn slice headers)")
		})
	}
	if n == 0 {
		c.PassTrivial("c13.record-locks", "module", "-", "no goroutine-reachable function stores to a field of a mutex-carrying record (the parallel executors keep their shared state in captured variables: c13.captured-vars)")
	}
}

func init() { register("C13", ruleC13ParallelEvaluators); register("C10", ruleC13ParallelEvaluators) }

// ruleC13ParallelEvaluators: what the guard admits must really be free of query state.
func ruleC13ParallelEvaluators(c *Ctx) {
	c.Doc("c13.parallel-evaluators", "the other half of c13.parallel-guard: the evaluators of the node kinds isParallelSafe admits (comparison, AND, OR — every module function taking one of these nodes) and everything they call short of re-entering the expression dispatcher write no field of the shared *Query and no map or slice held in one (a memo of compiled patterns, a counter, a post-processor): they run on one goroutine per key of a PARALLEL join without a lock")
	disp := c.P.Func(modPath, "Expr")
	var roots []*ssa.Function
	for _, t := range []string{"*sqlparser.ComparisonExpr", "*sqlparser.AndExpr", "*sqlparser.OrExpr"} {
		for _, f := range c.P.funcsWithParam(t) {
			if paramOfType(f, "*Query") != nil {
				roots = append(roots, f)
			}
		}
	}
	if disp == nil || len(roots) < 3 {
		c.Unknown("c13.parallel-evaluators", "evaluators", "-", fmt.Sprintf("anchor lost: dispatcher=%v, evaluators of comparison/AND/OR taking the query=%d", disp != nil, len(roots)))
		return
	}
	isQueryField := func(v ssa.Value) (string, bool) {
		fa, ok := v.(*ssa.FieldAddr)
		if !ok || !isNamedType(fa.X.Type(), modPath, "Query") {
			return "", false
		}
		return fieldName(fa.X.Type(), fa.Field), true
	}
	heldInQuery := func(v ssa.Value) (string, bool) {
		for i := 0; i < 6; i++ {
			switch x := v.(type) {
			case *ssa.UnOp:
				if n, ok := isQueryField(x.X); ok && x.Op == token.MUL {
					return n, true
				}
				return "", false
			case *ssa.Slice:
				v = x.X
			case *ssa.IndexAddr:
				v = x.X
			case *ssa.ChangeType:
				v = x.X
			default:
				return "", false
			}
		}
		return "", false
	}
	seen := map[*ssa.Function]bool{}
	var work []*ssa.Function
	push := func(f *ssa.Function) {
		if f != nil && !seen[f] && c.P.InModule(f) && f.Blocks != nil {
			seen[f] = true
			work = append(work, f)
		}
	}
	for _, r := range roots {
		push(r)
	}
	var why []string
	scan := func(f *ssa.Function, follow bool) {
		c.Fn(c.P.funcKey(f))
		allInstrs(f, func(_ *ssa.BasicBlock, in ssa.Instruction) {
			switch x := in.(type) {
			case *ssa.Store:
				if n, ok := isQueryField(x.Addr); ok {
					why = append(why, fmt.Sprintf("%s assigns Query.%s at %s", c.P.funcKey(f), n, c.P.Pos(x.Pos())))
				} else if ia, isIA := x.Addr.(*ssa.IndexAddr); isIA {
					if n, ok := heldInQuery(ia.X); ok {
						why = append(why, fmt.Sprintf("%s writes an element of Query.%s at %s", c.P.funcKey(f), n, c.P.Pos(x.Pos())))
					}
				}
			case *ssa.MapUpdate:
				if n, ok := heldInQuery(x.Map); ok {
					why = append(why, fmt.Sprintf("%s writes the map Query.%s at %s", c.P.funcKey(f), n, c.P.Pos(x.Pos())))
				}
			case *ssa.MakeClosure:
				if follow {
					push(x.Fn.(*ssa.Function))
				}
			case ssa.CallInstruction:
				if !follow {
					return
				}
				if sc := x.Common().StaticCallee(); sc != nil && sc != disp {
					push(sc)
				}
			}
		})
	}
	for len(work) > 0 {
		f := work[0]
		work = work[1:]
		scan(f, true)
	}
	// the dispatcher's own body (its arms for column references and literals), without following it further
	scan(disp, false)
	c.Check(len(why) == 0, "c13.parallel-evaluators", "comparison/AND/OR", c.P.Pos(roots[0].Pos()), fmt.Sprintf("%d functions reachable from the admitted evaluators write no query state", len(seen)), strings.Join(uniq(why), "; ")+": evaluated from one goroutine per key by the PARALLEL join, unsynchronised (fatal error: concurrent map writes, or a lost update)")
}

func init() {
	register("C13", ruleC13CatalogResolvesThunks)
	register("C10", ruleC13CatalogResolvesThunks)
}

// ruleC13CatalogResolvesThunks: what the parallel matchers compare is plain data, not a lazy CTE entry.
func ruleC13CatalogResolvesThunks(c *Ctx) {
	c.Doc("c13.catalog-resolves-thunks", "the catalog builder (ToCatalog) reads the key columns of a join side with the selector reader; on `dual` (whose row is the CTE registry) and on documents that carry CTE entries such a column can be a lazy CTE thunk. The builder recognises the thunk type on the value it read and evaluates it there, on the query's own goroutine: left in the key map, it is evaluated by ValueOf inside the goroutines of a PARALLEL join — once per goroutine, each writing the shared registry (fatal error: concurrent map writes, inside New)")
	f := c.P.Func(modPath, "ToCatalog")
	if f == nil {
		c.Unknown("c13.catalog-resolves-thunks", "ToCatalog", "-", "anchor lost")
		return
	}
	c.Fn("ToCatalog")
	reads, resolves := false, false
	deepInstrs(f, func(_ *ssa.Function, tb *TB, _ *ssa.BasicBlock, in ssa.Instruction) {
		switch x := in.(type) {
		case *ssa.Call:
			if calleeName(x.Common()) == "ExecReader" {
				reads = true
			}
		case *ssa.TypeAssert:
			if isThunkType(x.AssertedType) && strings.Contains(tb.Of(x.X).String(), "ExecReader(") {
				resolves = true
			}
		}
	})
	if !reads {
		c.Unknown("c13.catalog-resolves-thunks", "ToCatalog", c.P.Pos(f.Pos()), "anchor lost: the catalog builder does not read its key columns with the selector reader")
		return
	}
	c.Check(resolves, "c13.catalog-resolves-thunks", "ToCatalog", c.P.Pos(f.Pos()), "a key column that is a lazy CTE entry is evaluated while the catalog is built", "ToCatalog stores whatever the selector reader returns as a key value: a lazy CTE entry (`… u PARALLEL LEFT JOIN dual ON u.a > c1`) stays a thunk in the key map and is called by ValueOf from every goroutine of the parallel matcher, each call writing the shared CTE registry")
}

func init() {
	register("C13", ruleC13GoroutineRowSnapshot)
	register("C10", ruleC13GoroutineRowSnapshot)
}

// ruleC13GoroutineRowSnapshot: a call that runs next to the query does not share the query's live row.
func ruleC13GoroutineRowSnapshot(c *Ctx) {
	c.Doc("c13.goroutine-row-snapshot", "the goroutines FunExpr starts for ASYNC, SPIN and SPINASYNC calls hand the function a row of their own (a copy made before the goroutine starts), never FunExpr's `current` parameter itself: the query goes on writing to its rows while the call runs — the row of `dual` is the CTE registry, which every CTE evaluation updates — and a function that ranges over its row then dies with `concurrent map iteration and map write`, which no recover can stop")
	f := c.theFunc("function call evaluator", "*sqlparser.FuncExpr", "FunExpr")
	if f == nil {
		c.Unknown("c13.goroutine-row-snapshot", "FunExpr", "-", "anchor lost")
		return
	}
	var row *ssa.Parameter
	for _, p := range f.Params {
		if shortType(p.Type()) == "Map" {
			row = p
		}
	}
	if row == nil {
		c.Unknown("c13.goroutine-row-snapshot", "FunExpr", c.P.Pos(f.Pos()), "anchor lost: no row parameter")
		return
	}
	// the parameter itself, or the cell it was spilled to because a closure captures it
	var isLiveRow func(v ssa.Value) bool
	isLiveRow = func(v ssa.Value) bool {
		if v == ssa.Value(row) {
			return true
		}
		// a read of the cell the parameter was spilled to (another closure of the function captures it)
		if ld, ok := v.(*ssa.UnOp); ok && ld.Op == token.MUL {
			if _, isCell := ld.X.(*ssa.Alloc); isCell {
				return isLiveRow(ld.X)
			}
		}
		if al, ok := v.(*ssa.Alloc); ok && al.Referrers() != nil {
			n, only := 0, false
			for _, r := range *al.Referrers() {
				if st, isSt := r.(*ssa.Store); isSt && st.Addr == ssa.Value(al) {
					n++
					only = st.Val == ssa.Value(row)
				}
			}
			return n == 1 && only
		}
		return false
	}
	n := 0
	var why []string
	deepInstrs(f, func(g *ssa.Function, _ *TB, _ *ssa.BasicBlock, in ssa.Instruction) {
		gs, ok := in.(*ssa.Go)
		if !ok || g != f {
			return
		}
		n++
		shared := false
		if mc, isMC := gs.Call.Value.(*ssa.MakeClosure); isMC {
			for _, b := range mc.Bindings {
				if isLiveRow(b) {
					shared = true
				}
			}
		}
		for _, a := range gs.Call.Args {
			if isLiveRow(a) {
				shared = true
			}
		}
		if shared {
			why = append(why, "the goroutine started at "+c.P.Pos(gs.Pos())+" works on FunExpr's own row")
		}
	})
	if n == 0 {
		c.PassTrivial("c13.goroutine-row-snapshot", "FunExpr", c.P.Pos(f.Pos()), "FunExpr starts no goroutine itself")
		return
	}
	c.Check(len(why) == 0, "c13.goroutine-row-snapshot", "FunExpr", c.P.Pos(f.Pos()), fmt.Sprintf("%d goroutines get a row of their own", n), strings.Join(why, "; ")+": the query keeps writing to that map (the `dual` row is the CTE registry) while the function reads it")
}
