package main

import (
	"encoding/json"
	"fmt"
	"os"
	"path/filepath"
	"regexp"
	"sort"
	"strings"
	"time"
)

// Status of an obligation.
const (
	Discharged = "DISCHARGED"
	Violated   = "VIOLATED"
	Undecided  = "UNDECIDED"
)

// Obligation is one rule instance: rule-id @ construct-key (never a line number).
type Obligation struct {
	Rule      string `json:"rule"`
	Construct string `json:"construct"`
	Status    string `json:"status"`
	Pos       string `json:"pos,omitempty"`
	Detail    string `json:"detail,omitempty"`
	// NonTrivial: discharged by an argument that actually inspected structure (a table, a guard, a flow),
	// as opposed to "no instance / not reachable".
	NonTrivial bool `json:"nontrivial,omitempty"`
}

func (o *Obligation) Key() string { return o.Rule + " @ " + o.Construct }

// Ctx collects what one property check analysed and concluded.
type Ctx struct {
	P           *Program
	Property    string
	Tier        string
	Obs         []*Obligation
	Anchors     []string
	Functions   map[string]bool
	CallSites   int
	Notes       []string
	Assumptions []string
	NotDecided  []string
	RulesDoc    []string
}

func (c *Ctx) add(rule, construct, status, pos, detail string, nontrivial bool) *Obligation {
	// obligations are keyed by rule+construct: a second report for the same key keeps the worst status
	for _, o := range c.Obs {
		if o.Rule == rule && o.Construct == construct {
			rank := map[string]int{Discharged: 0, Undecided: 1, Violated: 2}
			if rank[status] > rank[o.Status] {
				o.Status, o.Pos, o.Detail = status, pos, detail
			} else if status == o.Status && status != Discharged && detail != "" && !strings.Contains(o.Detail, detail) {
				o.Detail += " | " + pos + " " + detail
			}
			return o
		}
	}
	o := &Obligation{Rule: rule, Construct: construct, Status: status, Pos: pos, Detail: detail, NonTrivial: nontrivial}
	c.Obs = append(c.Obs, o)
	return o
}

func (c *Ctx) Pass(rule, construct, pos, why string) {
	c.add(rule, construct, Discharged, pos, why, true)
}
func (c *Ctx) PassTrivial(rule, construct, pos, why string) {
	c.add(rule, construct, Discharged, pos, why, false)
}
func (c *Ctx) Fail(rule, construct, pos, why string) {
	c.add(rule, construct, Violated, pos, why, true)
}
func (c *Ctx) Unknown(rule, construct, pos, why string) {
	c.add(rule, construct, Undecided, pos, why, true)
}
func (c *Ctx) Check(ok bool, rule, construct, pos, okWhy, failWhy string) bool {
	if ok {
		c.Pass(rule, construct, pos, okWhy)
	} else {
		c.Fail(rule, construct, pos, failWhy)
	}
	return ok
}
func (c *Ctx) Anchor(role, where string) {
	c.Anchors = append(c.Anchors, role+" => "+where)
}
func (c *Ctx) Fn(name string) {
	if c.Functions == nil {
		c.Functions = map[string]bool{}
	}
	c.Functions[name] = true
}
func (c *Ctx) Doc(rule, text string)     { c.RulesDoc = append(c.RulesDoc, rule+": "+text) }
func (c *Ctx) Assume(text string)        { c.Assumptions = append(c.Assumptions, text) }
func (c *Ctx) NotDecidedClause(t string) { c.NotDecided = append(c.NotDecided, t) }

// ---- known findings -------------------------------------------------------------------

type KnownFinding struct {
	Property  string `json:"property"`
	Rule      string `json:"rule"`
	Construct string `json:"construct"`
	What      string `json:"what"`
}
type FixedFinding struct {
	Property string `json:"property"`
	Commit   string `json:"commit"`
	What     string `json:"what"`
}
type KnownFile struct {
	Comment string         `json:"comment"`
	Known   []KnownFinding `json:"known"`
	Fixed   []FixedFinding `json:"fixed"`
}

func loadKnown(path string) (*KnownFile, error) {
	kf := &KnownFile{}
	b, err := os.ReadFile(path)
	if err != nil {
		if os.IsNotExist(err) {
			return kf, nil
		}
		return nil, err
	}
	if err := json.Unmarshal(b, kf); err != nil {
		return nil, err
	}
	return kf, nil
}

// ---- evidence -------------------------------------------------------------------------

type Evidence struct {
	PropertyID  string                 `json:"property_id"`
	Tier        string                 `json:"tier"`
	Seed        int                    `json:"seed"`
	Level       string                 `json:"level"`
	Coverage    map[string]interface{} `json:"coverage"`
	Assumptions []string               `json:"assumptions"`
	WallS       float64                `json:"wall_s"`
	Violations  int                    `json:"violations"`
}

var unsafeName = regexp.MustCompile(`[^A-Za-z0-9_.-]+`)

// finish prints the verdict lines, writes evidence and replay records, and returns the exit code.
func (c *Ctx) finish(start time.Time, verifDir string, seed int, extra map[string]interface{}) int {
	kf, err := loadKnown(filepath.Join(verifDir, "known_findings.json"))
	if err != nil {
		fmt.Printf("ERROR reading known_findings.json: %v\n", err)
		return 2
	}
	sort.SliceStable(c.Obs, func(i, j int) bool { return c.Obs[i].Key() < c.Obs[j].Key() })
	nDis, nViol, nUnd, nKnown, nNontrivial := 0, 0, 0, 0, 0
	var samples []interface{}
	var viols []interface{}
	exit := 0
	replayDir := filepath.Join(verifDir, "evidence", "replay")
	os.MkdirAll(replayDir, 0o755)
	// remove stale replay files of this property
	if ms, _ := filepath.Glob(filepath.Join(replayDir, c.Property+".*.json")); ms != nil {
		for _, m := range ms {
			os.Remove(m)
		}
	}
	distinct := map[string]bool{}
	for _, o := range c.Obs {
		switch o.Status {
		case Discharged:
			nDis++
			if o.NonTrivial && !distinct[o.Key()] {
				distinct[o.Key()] = true
				nNontrivial++
			}
			if len(samples) < 12 {
				samples = append(samples, o)
			}
		default:
			known := false
			if o.Status == Violated {
				for _, k := range kf.Known {
					if k.Property == c.Property && k.Rule == o.Rule && k.Construct == o.Construct {
						known = true
						fmt.Printf("KNOWN-FINDING: property=%s %s [%s @ %s] %s\n", c.Property, k.What, o.Rule, o.Construct, o.Pos)
						nKnown++
						viols = append(viols, map[string]interface{}{"known_finding": true, "obligation": o})
					}
				}
			}
			if known {
				continue
			}
			if o.Status == Violated {
				nViol++
			} else {
				nUnd++
			}
			exit = 1
			name := unsafeName.ReplaceAllString(c.Property+"."+o.Rule+"."+o.Construct, "_") + ".json"
			path := filepath.Join(replayDir, name)
			rec := map[string]interface{}{"property": c.Property, "obligation": o,
				"replay": fmt.Sprintf("%s/bin/genqlcheck -repo %s -property %s -only '%s'", verifDir, c.P.Dir, c.Property, o.Key())}
			b, _ := json.MarshalIndent(rec, "", " ")
			os.WriteFile(path, b, 0o644)
			fmt.Printf("%s %s @ %s  %s  %s\n", o.Status, o.Rule, o.Construct, o.Pos, o.Detail)
			fmt.Printf("VIOLATION property=%s replay=%s\n", c.Property, path)
			viols = append(viols, map[string]interface{}{"known_finding": false, "obligation": o})
		}
	}
	fns := []string{}
	for f := range c.Functions {
		fns = append(fns, f)
	}
	sort.Strings(fns)
	expl := "Static analysis of /repo's current working tree (type-checked AST + go/ssa with instantiated generics + VTA call graph); nothing in genql is executed. " +
		"The check decides STRUCTURAL NECESSARY CONDITIONS of the property for all inputs; it does not prove the behaviour. Rules applied: " +
		strings.Join(c.RulesDoc, " || ") + ". Clauses NOT decided by this family: " + strings.Join(c.NotDecided, "; ") + "."
	cov := map[string]interface{}{
		"explanation":         expl,
		"obligations":         len(c.Obs),
		"discharged":          nDis,
		"violated_unlisted":   nViol,
		"undecided":           nUnd,
		"known_findings":      nKnown,
		"evaluations":         len(c.Obs),
		"distinct_nontrivial": nNontrivial,
		"rule":                "one case = one obligation `rule @ construct` found by resolving anchors through types/SSA; distinct = distinct key; non-trivial = discharged by an inspected table/guard/flow rather than by absence",
		"samples":             samples,
		"exhaustive":          true,
		"functions":           fns,
		"call_sites":          c.CallSites,
		"anchors":             c.Anchors,
		"notes":               c.Notes,
		"findings":            viols,
		"checker_cmd":         strings.Join(os.Args, " "),
		"trusted_base":        []string{"go/types", "go/ssa", "callgraph/vta", "the reference tables in /verif/checker/rules_*.go"},
	}
	for k, v := range extra {
		cov[k] = v
	}
	ev := Evidence{PropertyID: c.Property, Tier: c.Tier, Seed: seed, Level: "other", Coverage: cov,
		Assumptions: append([]string{"the Go type checker, go/ssa construction and VTA over-approximation of dynamic calls are correct",
			"user-registered functions and callbacks are unknown callees (treated conservatively)"}, c.Assumptions...),
		WallS: time.Since(start).Seconds(), Violations: nViol + nUnd}
	b, _ := json.MarshalIndent(ev, "", " ")
	evPath := filepath.Join(verifDir, "evidence", c.Property+".json")
	if err := os.WriteFile(evPath, b, 0o644); err != nil {
		fmt.Printf("ERROR writing evidence: %v\n", err)
		return 2
	}
	fmt.Printf("%s tier=%s obligations=%d discharged=%d known=%d violated=%d undecided=%d functions=%d wall=%.1fs\n",
		c.Property, c.Tier, len(c.Obs), nDis, nKnown, nViol, nUnd, len(fns), time.Since(start).Seconds())
	return exit
}
