package main

import (
	"go/constant"
	"go/token"
	"go/types"
	"strings"

	"golang.org/x/tools/go/ssa"
)

// Read-only dispatch tables. A `switch` over an enum or a name is often rewritten into a package-level map from
// the key to a function (or a constant) that is filled by its composite literal and only ever read afterwards.
// Such a map is a finite table the engines can read: a lookup with a key the path determines resolves to the
// entry (or to "absent"), exactly like the arm of the switch it replaced. A map qualifies when
//   - it is assigned once, in the package initialiser, a map built there with constant keys only, and
//   - every other use in the module loads it for a lookup, a range or len (no update, no escape).

type roTable struct {
	G       *ssa.Global
	Entries map[string]ssa.Value // key (constant.ExactString) -> the value stored by the initialiser
	Keys    []constant.Value
}

var curProgram *Program
var roTableCache = map[*ssa.Global]*roTable{}

func roTableOf(g *ssa.Global) *roTable {
	if t, ok := roTableCache[g]; ok {
		return t
	}
	t := buildRoTable(g)
	roTableCache[g] = t
	return t
}

func stripBox(v ssa.Value) ssa.Value {
	for {
		switch x := v.(type) {
		case *ssa.MakeInterface:
			v = x.X
		case *ssa.ChangeType:
			v = x.X
		case *ssa.ChangeInterface:
			v = x.X
		case *ssa.UnOp:
			// a variable that holds a function value and is assigned exactly once (`var f T; f = func…`, the form a
			// closure that mentions itself needs)
			if mc := onceAssignedClosure(x); mc != nil {
				return mc
			}
			return v
		default:
			return v
		}
	}
}

// onceAssignedClosure: ld loads a local variable cell whose only store, anywhere, is a closure.
func onceAssignedClosure(ld *ssa.UnOp) *ssa.MakeClosure {
	if ld.Op != token.MUL {
		return nil
	}
	cell := ld.X
	// a captured variable: the cell of the function that created the closure (followed outwards)
	for hop := 0; hop < 3; hop++ {
		fv, isFV := cell.(*ssa.FreeVar)
		if !isFV {
			break
		}
		inner := fv.Parent()
		outer := inner.Parent()
		if outer == nil {
			return nil
		}
		idx := -1
		for i, x := range inner.FreeVars {
			if x == fv {
				idx = i
			}
		}
		var bound ssa.Value
		for _, b := range outer.Blocks {
			for _, in := range b.Instrs {
				if mc, ok := in.(*ssa.MakeClosure); ok && mc.Fn == ssa.Value(inner) && idx >= 0 && idx < len(mc.Bindings) {
					bound = mc.Bindings[idx]
				}
			}
		}
		if bound == nil {
			return nil
		}
		cell = bound
	}
	al, ok := cell.(*ssa.Alloc)
	if !ok || al.Referrers() == nil {
		return nil
	}
	var found *ssa.MakeClosure
	n := 0
	for _, r := range *al.Referrers() {
		switch x := r.(type) {
		case *ssa.Store:
			if x.Addr != ssa.Value(al) {
				return nil // the cell's address escapes into another cell
			}
			n++
			v := x.Val
			for {
				if mi, ok := v.(*ssa.MakeInterface); ok {
					v = mi.X
					continue
				}
				if ct, ok := v.(*ssa.ChangeType); ok {
					v = ct.X
					continue
				}
				break
			}
			found, _ = v.(*ssa.MakeClosure)
		case *ssa.MakeClosure:
			// captured: the closure must not assign it
			fn := x.Fn.(*ssa.Function)
			for i, b := range x.Bindings {
				if b == ssa.Value(al) && i < len(fn.FreeVars) && fn.FreeVars[i].Referrers() != nil {
					for _, fr := range *fn.FreeVars[i].Referrers() {
						if st, isSt := fr.(*ssa.Store); isSt && st.Addr == ssa.Value(fn.FreeVars[i]) {
							return nil
						}
					}
				}
			}
		}
	}
	if n != 1 || !cellStableForClosures(al) {
		// (one store instruction inside a loop the variable is declared outside of is one store per round: every
		// closure made in the loop then shares the cell and sees the last round's value)
		return nil
	}
	return found
}

func buildRoTable(g *ssa.Global) *roTable {
	if curProgram == nil || g.Pkg == nil {
		return nil
	}
	pt, ok := g.Type().Underlying().(*types.Pointer)
	if !ok {
		return nil
	}
	if _, isMap := pt.Elem().Underlying().(*types.Map); !isMap {
		return nil
	}
	initFn := g.Pkg.Func("init")
	if initFn == nil {
		return nil
	}
	var mm *ssa.MakeMap
	nStores := 0
	okUses := true
	for _, f := range curProgram.ModFuncs {
		for _, b := range f.Blocks {
			for _, in := range b.Instrs {
				uses := false
				for _, op := range in.Operands(nil) {
					if op != nil && *op == ssa.Value(g) {
						uses = true
					}
				}
				if !uses {
					continue
				}
				switch x := in.(type) {
				case *ssa.Store:
					if x.Addr != ssa.Value(g) || f != initFn {
						okUses = false
						continue
					}
					nStores++
					mm, _ = x.Val.(*ssa.MakeMap)
				case *ssa.UnOp:
					if x.Op != token.MUL || x.Referrers() == nil {
						okUses = false
						continue
					}
					for _, r := range *x.Referrers() {
						switch u := r.(type) {
						case *ssa.Lookup:
							if u.X != ssa.Value(x) {
								okUses = false
							}
						case *ssa.Range:
						case *ssa.DebugRef:
						case *ssa.Call:
							if bi, isB := u.Call.Value.(*ssa.Builtin); !isB || bi.Name() != "len" {
								okUses = false
							}
						default:
							okUses = false
						}
					}
				case *ssa.DebugRef:
				default:
					okUses = false
				}
			}
		}
	}
	if !okUses || nStores != 1 || mm == nil || mm.Referrers() == nil {
		return nil
	}
	t := &roTable{G: g, Entries: map[string]ssa.Value{}}
	for _, r := range *mm.Referrers() {
		switch u := r.(type) {
		case *ssa.MapUpdate:
			k, isC := stripBox(u.Key).(*ssa.Const)
			if u.Map != ssa.Value(mm) || !isC || k.Value == nil {
				return nil
			}
			if _, dup := t.Entries[k.Value.ExactString()]; !dup {
				t.Keys = append(t.Keys, k.Value)
			}
			t.Entries[k.Value.ExactString()] = stripBox(u.Value)
		case *ssa.Store:
			if u.Val != ssa.Value(mm) {
				return nil
			}
		case *ssa.DebugRef:
		default:
			return nil
		}
	}
	return t
}

// roTableOfTerm: the term is the loaded value of a read-only table.
func roTableOfTerm(t *Term) *roTable {
	if t == nil || t.Op != "load" || len(t.Args) != 1 || t.Args[0].Op != "global" {
		return nil
	}
	g, ok := t.Args[0].V.(*ssa.Global)
	if !ok {
		return nil
	}
	return roTableOf(g)
}

// roLookup: for a lookup term (lookup / lookupok) on a read-only table whose key the assignment determines:
// the entry's value (nil when the key is absent) and whether the lookup was decided at all.
func roLookup(t *Term, asg Asg) (entry ssa.Value, present, decided bool) {
	if t == nil || (t.Op != "lookup" && t.Op != "lookupok") || len(t.Args) != 2 {
		return nil, false, false
	}
	tab := roTableOfTerm(t.Args[0])
	if tab == nil {
		return nil, false, false
	}
	k, ok := EvalTermN(t.Args[1], asg)
	if !ok {
		return nil, false, false
	}
	e, has := tab.Entries[k.ExactString()]
	return e, has, true
}

// constObjectOf: a package-level *strings.Replacer or *regexp.Regexp that the package initialiser builds once (from
// strings.NewReplacer / regexp.MustCompile) and nothing else assigns: an immutable object whose methods are safe for
// concurrent use and keep no state between calls -- a constant of the program, like a read-only dispatch table.
// Returns the call that builds it, or nil.
func constObjectOf(gl *ssa.Global) *ssa.Call {
	if gl == nil || gl.Pkg == nil {
		return nil
	}
	ts := gl.Type().String()
	if !strings.Contains(ts, "*strings.Replacer") && !strings.Contains(ts, "*regexp.Regexp") {
		return nil
	}
	var build *ssa.Call
	n := 0
	for _, m := range gl.Pkg.Members {
		f, ok := m.(*ssa.Function)
		if !ok {
			continue
		}
		for _, g := range withClosures(f) {
			allInstrs(g, func(_ *ssa.BasicBlock, in ssa.Instruction) {
				st, ok := in.(*ssa.Store)
				if !ok || st.Addr != ssa.Value(gl) {
					return
				}
				n++
				if g.Name() != "init" || g.Synthetic == "" {
					n += 100 // assigned outside the package initialiser
					return
				}
				if call, isCall := st.Val.(*ssa.Call); isCall {
					if nm := calleeName(call.Common()); nm == "strings.NewReplacer" || nm == "regexp.MustCompile" {
						build = call
					}
				}
			})
		}
	}
	// methods of the module's types may assign it too
	if n != 1 || build == nil {
		return nil
	}
	return build
}

// replacerPairs: call is `R.Replace(x)` on a constant *strings.Replacer R (constObjectOf) built from constant
// (old, new) pairs: the pairs in the order written, and the replaced text x. A Replacer substitutes in one pass over the
// text (what a replacement produced is never rewritten), so no order of application has to be argued.
func replacerPairs(call *ssa.Call) (pairs [][2]string, x ssa.Value, ok bool) {
	if call == nil || calleeName(call.Common()) != "(*strings.Replacer).Replace" || len(call.Call.Args) != 2 {
		return nil, nil, false
	}
	ld, isLd := call.Call.Args[0].(*ssa.UnOp)
	if !isLd || ld.Op != token.MUL {
		return nil, nil, false
	}
	gl, isG := ld.X.(*ssa.Global)
	if !isG {
		return nil, nil, false
	}
	build := constObjectOf(gl)
	if build == nil || calleeName(build.Common()) != "strings.NewReplacer" || len(build.Call.Args) != 1 {
		return nil, nil, false
	}
	sl, isSl := build.Call.Args[0].(*ssa.Slice)
	if !isSl {
		return nil, nil, false
	}
	al, isAl := sl.X.(*ssa.Alloc)
	if !isAl {
		return nil, nil, false
	}
	texts := map[int64]string{}
	for _, st := range storesToArray(al) {
		ia := st.Addr.(*ssa.IndexAddr)
		i, isI := constIntOf(ia.Index)
		s, isS := constString(st.Val)
		if !isI || !isS {
			return nil, nil, false
		}
		texts[i] = s
	}
	if len(texts) == 0 || len(texts)%2 != 0 {
		return nil, nil, false
	}
	for i := 0; i < len(texts); i += 2 {
		o, ok1 := texts[int64(i)]
		n, ok2 := texts[int64(i+1)]
		if !ok1 || !ok2 {
			return nil, nil, false
		}
		pairs = append(pairs, [2]string{o, n})
	}
	return pairs, call.Call.Args[1], true
}
