package main

import (
	"fmt"
	"go/token"
	"os"
	"strings"

	"golang.org/x/tools/go/ssa"
)

// sizeAllowed: the size tests present in the tree as read (function -> compared term -> reason). Each
// is a shape test on a split/argument list whose both outcomes the owning rules inspect, or an arity guard.
var sizeAllowed = map[string]string{
	"ParsePipe/len(strings.Split(..)) == 2":      "a pipe segment `name|arg` splits in two parts; both outcomes are selector-grammar shapes (C09 not-decided clause: grammar agreement)",
	"ParseSelector/len(strings.SplitN(..)) == 2": "`selector=>function` splits in at most two parts (SplitN n=2): the size cannot exceed the constant",
	"ReadRange/len(strings.Split(..)) != 2":      "a range `(a:b)` has exactly two bounds; any other count is rejected with an error",
}

// ruleSizeThresholds runs after the rules of a property, over the functions those rules analysed.
// The path rules explore loops up to a small unrolling bound, with exact collection sizes on each
// path; behaviour that is selected by a test `len(x) <op> k` with k >= 2 lies (partly) beyond that
// bound, so such a test is reported as undecided unless it is one of the enumerated shape tests.
func ruleSizeThresholds(c *Ctx) {
	c.Doc("size.threshold", "coverage obligation of the path rules: in every function the rules of this property analysed, no branch compares len(...)/cap(...) of a slice, map or string with a constant >= 2 other than the enumerated shape tests (two-part splits, arity guards); a size-dependent fast path or special case beyond the unrolling bound is not covered by the path rules and is reported as undecided")
	seen := map[string]bool{}
	for _, f := range c.P.ModFuncs {
		if len(f.TypeArgs()) > 0 {
			continue
		}
		root := f
		for root.Parent() != nil {
			root = root.Parent()
		}
		rk := c.P.funcKey(root)
		if os.Getenv("SIZE_ALL") == "" && !c.Functions[rk] && !c.Functions[root.Name()] && !c.Functions[strings.TrimPrefix(rk, "genql.")] {
			continue
		}
		allInstrs(f, func(b *ssa.BasicBlock, in ssa.Instruction) {
			bo, ok := in.(*ssa.BinOp)
			if !ok {
				return
			}
			switch bo.Op {
			case token.LSS, token.LEQ, token.GTR, token.GEQ, token.EQL, token.NEQ:
			default:
				return
			}
			var lenSide, constSide ssa.Value = bo.X, bo.Y
			if _, isC := bo.X.(*ssa.Const); isC {
				lenSide, constSide = bo.Y, bo.X
			}
			k, isK := constIntOf(constSide)
			if !isK || k < 2 {
				return
			}
			call, isCall := lenSide.(*ssa.Call)
			if !isCall {
				return
			}
			if bi, isB := call.Call.Value.(*ssa.Builtin); !isB || (bi.Name() != "len" && bi.Name() != "cap") {
				return
			}
			what := shortType(call.Call.Args[0].Type())
			if ac, isAC := call.Call.Args[0].(*ssa.Call); isAC && ac.Common().StaticCallee() != nil {
				what = funcName(ac.Common().StaticCallee()) + "(..)"
			}
			key := fmt.Sprintf("%s/len(%s) %s %d", c.P.funcKey(f), what, bo.Op, k)
			if seen[key] {
				return
			}
			seen[key] = true
			reason, ok := sizeAllowed[key]
			if ok {
				c.Pass("size.threshold", key, c.P.Pos(bo.Pos()), "enumerated shape test: "+reason)
			} else {
				c.Unknown("size.threshold", key, c.P.Pos(bo.Pos()), "behaviour selected by a collection size >= 2 lies beyond the unrolling bound of the path rules and is not covered; not an enumerated shape test")
			}
		})
	}
}

func stripRegs(s string) string {
	out := []byte{}
	for i := 0; i < len(s); i++ {
		if s[i] == '@' && i+1 < len(s) && s[i+1] == 't' {
			j := i + 2
			for j < len(s) && s[j] >= '0' && s[j] <= '9' {
				j++
			}
			if j > i+2 {
				i = j - 1
				continue
			}
		}
		out = append(out, s[i])
	}
	return string(out)
}
