package main

import (
	"fmt"
	"go/token"
	"go/types"
	"os"
	"sort"
	"strings"

	"golang.org/x/tools/go/ssa"
)

// Engine E-own: inclusion-based (Andersen-style, field-based for struct fields, context-
// insensitive) may-alias analysis over the module, used to decide which storage every write
// site may touch. Abstract objects are allocation sites, one object per struct field of the
// module's named types, one per global, and the distinguished object Input, which stands for
// the caller's document and everything reachable from it (content(Input) = {Input}).

type objID int

type ownObj struct {
	id    objID
	kind  string // input alloc field global closure ext append
	label string
	pos   token.Pos
}

type Own struct {
	p       *Program
	objs    []*ownObj
	pts     map[ssa.Value]map[objID]bool
	content map[objID]map[objID]bool
	fieldO  map[string]objID
	globalO map[*ssa.Global]objID
	siteO   map[ssa.Value]objID
	keyO    map[objID]objID
	retPts  map[*ssa.Function][]map[objID]bool
	Input   objID
	Ext     objID
	changed bool
	funcs   []*ssa.Function
	Writes  []*WriteSite
	seeds   []string
	cur     string
}

type WriteSite struct {
	Fn     *ssa.Function
	Instr  ssa.Instruction
	Kind   string // mapupdate delete elemstore fieldstore ptrstore copy sort append maps.Copy
	Target ssa.Value
	Objs   []objID
	Input  bool
}

func canHoldRef(t types.Type) bool {
	switch u := t.Underlying().(type) {
	case *types.Map, *types.Slice, *types.Pointer, *types.Interface, *types.Chan, *types.Signature:
		return true
	case *types.Struct:
		for i := 0; i < u.NumFields(); i++ {
			if canHoldRef(u.Field(i).Type()) {
				return true
			}
		}
	case *types.Array:
		return canHoldRef(u.Elem())
	case *types.Tuple:
		for i := 0; i < u.Len(); i++ {
			if canHoldRef(u.At(i).Type()) {
				return true
			}
		}
	}
	return false
}

func (o *Own) newObj(kind, label string, pos token.Pos) objID {
	id := objID(len(o.objs))
	o.objs = append(o.objs, &ownObj{id: id, kind: kind, label: label, pos: pos})
	return id
}

func (o *Own) addPts(v ssa.Value, id objID) {
	m := o.pts[v]
	if m == nil {
		m = map[objID]bool{}
		o.pts[v] = m
	}
	if !m[id] {
		m[id] = true
		o.changed = true
	}
}

func (o *Own) addAll(v ssa.Value, src map[objID]bool) {
	for id := range src {
		o.addPts(v, id)
	}
}

func (o *Own) addContent(c objID, src map[objID]bool) {
	if c == o.Input {
		return // content(Input) stays {Input}
	}
	m := o.content[c]
	if m == nil {
		m = map[objID]bool{}
		o.content[c] = m
	}
	for id := range src {
		if !m[id] {
			m[id] = true
			o.changed = true
			if tr := os.Getenv("OWN_TRACE"); tr != "" && id == o.Input && strings.Contains(o.objs[c].label+"@"+o.p.Pos(o.objs[c].pos), tr) {
				fmt.Fprintf(os.Stderr, "OWN_TRACE: Input enters content(%s@%s) at %s\n", o.objs[c].label, o.p.Pos(o.objs[c].pos), o.cur)
			}
		}
	}
}

// contentOf returns the union of the contents of the objects v may point to.
func (o *Own) contentOf(src map[objID]bool) map[objID]bool {
	out := map[objID]bool{}
	for id := range src {
		for c := range o.content[id] {
			out[c] = true
		}
	}
	return out
}

func (o *Own) fieldObj(t types.Type, idx int) objID {
	if p, ok := t.Underlying().(*types.Pointer); ok {
		t = p.Elem()
	}
	name := shortType(t) + "." + fieldName(t, idx)
	if id, ok := o.fieldO[name]; ok {
		return id
	}
	id := o.newObj("field", name, token.NoPos)
	o.fieldO[name] = id
	return id
}

// keysObj: the pseudo-object holding the (reference-typed) keys of map object m.
func (o *Own) keysObj(m objID) objID {
	if m == o.Input {
		return o.Input
	}
	if id, ok := o.keyO[m]; ok {
		return id
	}
	id := o.newObj("keys", "keys of "+o.objs[m].label, o.objs[m].pos)
	o.keyO[m] = id
	return id
}

func (o *Own) site(v ssa.Value, kind string) objID {
	if id, ok := o.siteO[v]; ok {
		return id
	}
	label := kind
	if f := valueFunc(v); f != nil {
		label = kind + " in " + o.p.funcKey(f)
	}
	id := o.newObj(kind, label, v.Pos())
	o.siteO[v] = id
	return id
}

func valueFunc(v ssa.Value) *ssa.Function {
	if in, ok := v.(ssa.Instruction); ok {
		return in.Parent()
	}
	return v.Parent()
}

// NewOwn builds and solves the analysis. seeds: (function, parameter index) pairs whose
// argument is the caller's document.
func NewOwn(p *Program, seeds map[*ssa.Function][]int) *Own {
	o := &Own{p: p, pts: map[ssa.Value]map[objID]bool{}, content: map[objID]map[objID]bool{}, fieldO: map[string]objID{},
		globalO: map[*ssa.Global]objID{}, siteO: map[ssa.Value]objID{}, keyO: map[objID]objID{}, retPts: map[*ssa.Function][]map[objID]bool{}}
	o.Input = o.newObj("input", "the caller's document", token.NoPos)
	o.content[o.Input] = map[objID]bool{o.Input: true}
	o.Ext = o.newObj("ext", "value produced by code outside the module", token.NoPos)
	for _, f := range p.ModFuncs {
		if len(f.Blocks) == 0 {
			continue
		}
		if f.Origin() != nil && len(f.TypeArgs()) == 0 {
			continue
		}
		o.funcs = append(o.funcs, f)
	}
	for f, idxs := range seeds {
		for _, i := range idxs {
			if i < len(f.Params) {
				o.addPts(f.Params[i], o.Input)
				o.seeds = append(o.seeds, fmt.Sprintf("%s param %s", p.funcKey(f), f.Params[i].Name()))
			}
		}
	}
	sort.Strings(o.seeds)
	for iter := 0; iter < 200; iter++ {
		o.changed = false
		for _, f := range o.funcs {
			o.function(f)
		}
		if !o.changed {
			break
		}
	}
	o.collectWrites()
	return o
}

func (o *Own) ptsOf(v ssa.Value) map[objID]bool {
	switch v := v.(type) {
	case *ssa.Global:
		id, ok := o.globalO[v]
		if !ok {
			id = o.newObj("global", "global "+v.Name(), v.Pos())
			o.globalO[v] = id
		}
		return map[objID]bool{id: true}
	case *ssa.Function:
		return nil
	case *ssa.Const:
		return nil
	}
	return o.pts[v]
}

func (o *Own) ret(f *ssa.Function, i int) map[objID]bool {
	rs := o.retPts[f]
	if i < len(rs) {
		return rs[i]
	}
	return nil
}

func (o *Own) addRet(f *ssa.Function, i int, src map[objID]bool) {
	rs := o.retPts[f]
	for len(rs) <= i {
		rs = append(rs, map[objID]bool{})
	}
	o.retPts[f] = rs
	for id := range src {
		if !rs[i][id] {
			rs[i][id] = true
			o.changed = true
		}
	}
}

func (o *Own) function(f *ssa.Function) {
	for _, b := range f.Blocks {
		for _, in := range b.Instrs {
			o.instr(f, in)
		}
	}
}

func (o *Own) instr(f *ssa.Function, in ssa.Instruction) {
	if os.Getenv("OWN_TRACE") != "" {
		o.cur = o.p.funcKey(f) + " " + o.p.Pos(in.Pos()) + " " + in.String()
	}
	switch in := in.(type) {
	case *ssa.Alloc:
		o.addPts(in, o.site(in, "alloc"))
	case *ssa.MakeMap:
		o.addPts(in, o.site(in, "make(map)"))
	case *ssa.MakeSlice:
		o.addPts(in, o.site(in, "make(slice)"))
	case *ssa.MakeChan:
		o.addPts(in, o.site(in, "make(chan)"))
	case *ssa.MakeClosure:
		id := o.site(in, "closure")
		o.addPts(in, id)
		fn := in.Fn.(*ssa.Function)
		for i, b := range in.Bindings {
			if i < len(fn.FreeVars) {
				o.addAll(fn.FreeVars[i], o.ptsOf(b))
			}
		}
	case *ssa.Phi:
		for _, e := range in.Edges {
			o.addAll(in, o.ptsOf(e))
		}
	case *ssa.MakeInterface:
		o.addAll(in, o.ptsOf(in.X))
	case *ssa.ChangeInterface:
		o.addAll(in, o.ptsOf(in.X))
	case *ssa.ChangeType:
		o.addAll(in, o.ptsOf(in.X))
	case *ssa.Convert:
		if canHoldRef(in.Type()) {
			o.addAll(in, o.ptsOf(in.X))
		}
	case *ssa.SliceToArrayPointer:
		o.addAll(in, o.ptsOf(in.X))
	case *ssa.TypeAssert:
		o.addAll(in, o.ptsOf(in.X))
	case *ssa.Slice:
		o.addAll(in, o.ptsOf(in.X))
	case *ssa.FieldAddr:
		o.addPts(in, o.fieldObj(in.X.Type(), in.Field))
	case *ssa.Field:
		if canHoldRef(in.Type()) {
			o.addAll(in, o.content[o.fieldObj(in.X.Type(), in.Field)])
			o.addAll(in, o.contentOf(o.ptsOf(in.X)))
		}
	case *ssa.IndexAddr:
		o.addAll(in, o.ptsOf(in.X))
	case *ssa.Index:
		if canHoldRef(in.Type()) {
			o.addAll(in, o.contentOf(o.ptsOf(in.X)))
		}
	case *ssa.Lookup:
		o.addAll(in, o.contentOf(o.ptsOf(in.X)))
	case *ssa.Range:
		o.addAll(in, o.ptsOf(in.X))
	case *ssa.Next:
		o.addAll(in, o.contentOf(o.ptsOf(in.Iter)))
	case *ssa.Extract:
		if !canHoldRef(in.Type()) {
			return
		}
		if call, ok := in.Tuple.(*ssa.Call); ok {
			o.callResult(f, call, in, in.Index)
			return
		}
		if nx, ok := in.Tuple.(*ssa.Next); ok {
			if in.Index == 1 {
				// the key of a map range
				for id := range o.ptsOf(nx.Iter) {
					if k, ok := o.keyO[id]; ok {
						o.addAll(in, o.content[k])
					}
				}
				return
			}
		}
		o.addAll(in, o.ptsOf(in.Tuple))
	case *ssa.UnOp:
		if in.Op == token.MUL && canHoldRef(in.Type()) {
			o.addAll(in, o.contentOf(o.ptsOf(in.X)))
		}
		if in.Op == token.ARROW {
			o.addAll(in, o.contentOf(o.ptsOf(in.X)))
		}
	case *ssa.Store:
		if canHoldRef(in.Val.Type()) {
			src := o.ptsOf(in.Val)
			for id := range o.ptsOf(in.Addr) {
				o.addContent(id, src)
			}
		}
	case *ssa.MapUpdate:
		for id := range o.ptsOf(in.Map) {
			o.addContent(id, o.ptsOf(in.Value))
			if canHoldRef(in.Key.Type()) {
				o.addContent(o.keysObj(id), o.ptsOf(in.Key))
			}
		}
	case *ssa.Send:
		for id := range o.ptsOf(in.Chan) {
			o.addContent(id, o.ptsOf(in.X))
		}
	case *ssa.Return:
		for i, r := range in.Results {
			if canHoldRef(r.Type()) {
				o.addRet(f, i, o.ptsOf(r))
			}
		}
	case *ssa.Call:
		o.call(f, in, in.Common())
		if in.Common().Signature().Results().Len() == 1 && canHoldRef(in.Type()) {
			o.callResult(f, in, in, 0)
		}
	case *ssa.Go:
		o.call(f, in, in.Common())
	case *ssa.Defer:
		o.call(f, in, in.Common())
	}
}

func (o *Own) moduleCallees(site ssa.CallInstruction) (mod []*ssa.Function, external bool) {
	cs := o.p.Callees(site)
	if len(cs) == 0 {
		return nil, true
	}
	for _, c := range cs {
		if o.p.InModule(c) && len(c.Blocks) > 0 {
			mod = append(mod, c)
		} else {
			external = true
		}
	}
	return
}

func (o *Own) call(f *ssa.Function, site ssa.CallInstruction, cc *ssa.CallCommon) {
	if b, ok := cc.Value.(*ssa.Builtin); ok {
		if call, isCall := site.(*ssa.Call); isCall {
			o.builtin(call, b.Name(), cc.Args)
		}
		return
	}
	mod, _ := o.moduleCallees(site)
	args := cc.Args
	for _, callee := range mod {
		params := callee.Params
		off := 0
		if cc.IsInvoke() {
			// receiver
			if len(params) > 0 {
				o.addAll(params[0], o.ptsOf(cc.Value))
			}
			off = 1
		}
		for i, a := range args {
			if i+off < len(params) && canHoldRef(a.Type()) {
				o.addAll(params[i+off], o.ptsOf(a))
			}
		}
		// closures called through a value: nothing more to bind (free variables are bound at MakeClosure)
	}
	// library models with an effect on contents
	if sc := cc.StaticCallee(); sc != nil && sc.Pkg != nil {
		switch sc.Pkg.Pkg.Path() + "." + sc.Name() {
		case "maps.Copy":
			if len(args) == 2 {
				src := o.contentOf(o.ptsOf(args[1]))
				for id := range o.ptsOf(args[0]) {
					o.addContent(id, src)
				}
			}
		}
		if sc.Origin() != nil && sc.Origin().Pkg != nil && sc.Origin().Pkg.Pkg.Path() == "maps" && sc.Origin().Name() == "Copy" && len(args) == 2 {
			src := o.contentOf(o.ptsOf(args[1]))
			for id := range o.ptsOf(args[0]) {
				o.addContent(id, src)
			}
		}
	}
}

func (o *Own) builtin(call *ssa.Call, name string, args []ssa.Value) {
	switch name {
	case "append":
		if len(args) == 0 {
			return
		}
		fresh := o.site(call, "append")
		o.addPts(call, fresh)
		o.addAll(call, o.ptsOf(args[0]))
		src := o.contentOf(o.ptsOf(args[0]))
		if len(args) > 1 {
			for id := range o.contentOf(o.ptsOf(args[1])) {
				src[id] = true
			}
		}
		o.addContent(fresh, src)
		if len(args) > 1 {
			add := o.contentOf(o.ptsOf(args[1]))
			for id := range o.ptsOf(args[0]) {
				o.addContent(id, add)
			}
		}
	case "copy":
		if len(args) == 2 {
			src := o.contentOf(o.ptsOf(args[1]))
			for id := range o.ptsOf(args[0]) {
				o.addContent(id, src)
			}
		}
	}
}

// callResult binds the result index idx of call to dst.
func (o *Own) callResult(f *ssa.Function, call *ssa.Call, dst ssa.Value, idx int) {
	cc := call.Common()
	if _, ok := cc.Value.(*ssa.Builtin); ok {
		return
	}
	mod, external := o.moduleCallees(call)
	for _, callee := range mod {
		o.addAll(dst, o.ret(callee, idx))
	}
	if external || len(mod) == 0 {
		// unknown code may return its argument or something inside it
		any := false
		for _, a := range cc.Args {
			if canHoldRef(a.Type()) {
				ps := o.ptsOf(a)
				if len(ps) > 0 {
					any = true
				}
				o.addAll(dst, ps)
				o.addAll(dst, o.contentOf(ps))
			}
		}
		if cc.IsInvoke() || !isStaticFunc(cc.Value) {
			ps := o.ptsOf(cc.Value)
			o.addAll(dst, ps)
			o.addAll(dst, o.contentOf(ps))
		}
		_ = any
		o.addPts(dst, o.Ext)
	}
}

func isStaticFunc(v ssa.Value) bool {
	_, ok := v.(*ssa.Function)
	return ok
}

func (o *Own) mayBeInput(v ssa.Value) bool { return o.ptsOf(v)[o.Input] }

func (o *Own) objList(v ssa.Value) []objID {
	var out []objID
	for id := range o.ptsOf(v) {
		out = append(out, id)
	}
	sort.Slice(out, func(i, j int) bool { return out[i] < out[j] })
	return out
}

func (o *Own) describe(ids []objID) string {
	var xs []string
	for _, id := range ids {
		ob := o.objs[id]
		s := ob.label
		if ob.pos.IsValid() {
			s += "@" + o.p.Pos(ob.pos)
		}
		xs = append(xs, s)
	}
	if len(xs) > 5 {
		xs = append(xs[:5], fmt.Sprintf("… %d more", len(xs)-5))
	}
	return strings.Join(xs, ", ")
}

// collectWrites lists every write site of the module with the objects its target may be.
func (o *Own) collectWrites() {
	add := func(f *ssa.Function, in ssa.Instruction, kind string, target ssa.Value) {
		w := &WriteSite{Fn: f, Instr: in, Kind: kind, Target: target, Objs: o.objList(target), Input: o.mayBeInput(target)}
		o.Writes = append(o.Writes, w)
	}
	for _, f := range o.funcs {
		for _, b := range f.Blocks {
			for _, in := range b.Instrs {
				switch in := in.(type) {
				case *ssa.MapUpdate:
					add(f, in, "mapupdate", in.Map)
				case *ssa.Store:
					switch a := in.Addr.(type) {
					case *ssa.IndexAddr:
						add(f, in, "elemstore", a.X)
					case *ssa.FieldAddr:
						add(f, in, "fieldstore", a.X)
					case *ssa.Alloc, *ssa.Global, *ssa.FreeVar:
						// variables
					default:
						add(f, in, "ptrstore", in.Addr)
					}
				case *ssa.Call:
					cc := in.Common()
					if b, ok := cc.Value.(*ssa.Builtin); ok {
						switch b.Name() {
						case "delete":
							add(f, in, "delete", cc.Args[0])
						case "copy":
							add(f, in, "copy", cc.Args[0])
						case "append":
							if len(cc.Args) > 1 {
								add(f, in, "append", cc.Args[0])
							}
						case "clear":
							add(f, in, "clear", cc.Args[0])
						}
						continue
					}
					if sc := cc.StaticCallee(); sc != nil {
						pk := ""
						nm := sc.Name()
						if sc.Pkg != nil {
							pk = sc.Pkg.Pkg.Path()
						} else if og := sc.Origin(); og != nil && og.Pkg != nil {
							pk, nm = og.Pkg.Pkg.Path(), og.Name()
						}
						switch pk + "." + nm {
						case "sort.Slice", "sort.SliceStable", "sort.Sort", "sort.Stable", "sort.Strings", "sort.Ints", "sort.Float64s", "slices.Sort", "slices.SortFunc", "slices.SortStableFunc", "slices.Reverse":
							add(f, in, "sort", cc.Args[0])
						case "maps.Copy":
							add(f, in, "maps.Copy", cc.Args[0])
						case "maps.DeleteFunc", "slices.Delete", "slices.Insert", "slices.Compact", "slices.CompactFunc", "slices.DeleteFunc":
							add(f, in, nm, cc.Args[0])
						}
					}
				}
			}
		}
	}
}

// reachableFrom: module functions reachable in the call graph from the roots.
func (p *Program) reachableFrom(roots ...*ssa.Function) map[*ssa.Function]bool {
	cg := p.CallGraph()
	seen := map[*ssa.Function]bool{}
	var q []*ssa.Function
	for _, r := range roots {
		if r != nil {
			q = append(q, r)
		}
	}
	for len(q) > 0 {
		f := q[0]
		q = q[1:]
		if seen[f] {
			continue
		}
		seen[f] = true
		// anonymous functions created by f are reachable too
		for _, a := range f.AnonFuncs {
			q = append(q, a)
		}
		n := cg.Nodes[f]
		if n == nil {
			continue
		}
		for _, e := range n.Out {
			if p.InModule(e.Callee.Func) && !seen[e.Callee.Func] {
				q = append(q, e.Callee.Func)
			}
		}
	}
	return seen
}
