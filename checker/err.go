package main

import (
	"fmt"
	"go/constant"
	"go/token"
	"go/types"
	"sort"
	"strings"

	"golang.org/x/tools/go/ssa"
)

// Engine E-err: error-flow. For every call site in the module whose callee can return a
// non-nil error, enumerate the abstract paths from the call to the function's exits on which
// the error is non-nil (the nil branch is pruned) and classify how each one ends.

type errSite struct {
	fn     *ssa.Function
	call   *ssa.Call
	errVal ssa.Value // the error value (Extract or the call itself)
	errIdx int
	callee string
	key    string
}

type errVerdict struct {
	site   *errSite
	status string // ok, dropped, unchecked, swallowed, replaced-by-nil, panics, used-before-test
	detail string
	idiom  string
}

func isErrorT(t types.Type) bool { return t != nil && t.String() == "error" }

// neverFails: callees whose error result is documented to be always nil.
func neverFails(call *ssa.Call) bool {
	cc := call.Common()
	name := ""
	var recv types.Type
	if cc.IsInvoke() {
		name = cc.Method.Name()
		recv = cc.Value.Type()
	} else if f := cc.StaticCallee(); f != nil {
		name = f.Name()
		if f.Signature.Recv() != nil {
			recv = f.Signature.Recv().Type()
		}
	}
	if f := cc.StaticCallee(); f != nil && f.Pkg != nil {
		// error constructors produce an error value, they do not fail
		switch f.Pkg.Pkg.Path() + "." + f.Name() {
		case "fmt.Errorf", "errors.New", "errors.Join":
			return true
		}
	}
	if recv == nil {
		return false
	}
	rs := recv.String()
	switch {
	case strings.Contains(rs, "bytes.Buffer") && strings.HasPrefix(name, "Write"):
		return true
	case strings.Contains(rs, "strings.Builder") && strings.HasPrefix(name, "Write"):
		return true
	case strings.Contains(rs, "hash.Hash") && name == "Write":
		return true
	}
	return false
}

// errSites enumerates the error-returning call sites of the module.
func (p *Program) errSites() []*errSite {
	var out []*errSite
	for _, f := range p.ModFuncs {
		if len(f.Blocks) == 0 || (f.Synthetic != "" && !strings.Contains(f.Synthetic, "instance of")) {
			continue
		}
		if f.Origin() != nil && len(f.TypeArgs()) == 0 {
			continue
		}
		if f.Name() == "init" || strings.HasPrefix(f.Name(), "init#") {
			continue
		}
		n := 0
		for _, b := range f.Blocks {
			for _, in := range b.Instrs {
				call, ok := in.(*ssa.Call)
				if !ok {
					continue
				}
				sig := call.Common().Signature()
				if sig == nil || sig.Results().Len() == 0 {
					continue
				}
				ei := sig.Results().Len() - 1
				if !isErrorT(sig.Results().At(ei).Type()) {
					continue
				}
				if neverFails(call) {
					continue
				}
				n++
				s := &errSite{fn: f, call: call, errIdx: ei, callee: calleeName(call.Common())}
				if sig.Results().Len() == 1 {
					s.errVal = call
				} else if refs := call.Referrers(); refs != nil {
					for _, r := range *refs {
						if ex, ok := r.(*ssa.Extract); ok && ex.Index == ei {
							s.errVal = ex
						}
					}
				}
				s.key = fmt.Sprintf("%s/%s#%d", p.funcKey(f), s.callee, n)
				out = append(out, s)
			}
		}
	}
	return out
}

// keyed by callee occurrence within the function: "fn/callee#k" where k counts error-returning
// calls in source order — stable under edits elsewhere, shifts only when a call is added/removed
// in the same function (then the obligations of that function are re-examined anyway).

func hasRealReferrers(v ssa.Value) bool {
	refs := v.Referrers()
	if refs == nil {
		return false
	}
	for _, r := range *refs {
		if _, dbg := r.(*ssa.DebugRef); !dbg {
			return true
		}
	}
	return false
}

// calleeErrImpliesFalse: in callee, every return with a possibly non-nil error has constant
// false at result index idx.
func calleeErrImpliesFalse(callee *ssa.Function, idx, ei int) bool {
	if callee == nil || len(callee.Blocks) == 0 {
		return false
	}
	ok := true
	n := 0
	allInstrs(callee, func(_ *ssa.BasicBlock, in ssa.Instruction) {
		r, isRet := in.(*ssa.Return)
		if !isRet || len(r.Results) <= ei {
			return
		}
		n++
		if c, isC := r.Results[ei].(*ssa.Const); isC && c.Value == nil {
			return // nil error
		}
		c, isC := r.Results[idx].(*ssa.Const)
		if !isC || c.Value == nil || c.Value.Kind() != constant.Bool || constant.BoolVal(c.Value) {
			ok = false
		}
	})
	return ok && n > 0
}

// isGoTarget: fn is the function of some `go` statement in its parent; a named function qualifies when the module
// only ever starts it with `go` (the body of a goroutine extracted into a function or method).
func isGoTarget(fn *ssa.Function) bool { return isGoTargetRec(fn, map[*ssa.Function]bool{}) }

// memo of isGoTargetRec per analysed program (a function in progress counts as "no": cycles never make a go target)
var goTargetMemo = map[*ssa.Function]bool{}
var goTargetMemoProg *Program

func isGoTargetRec(fn *ssa.Function, busy map[*ssa.Function]bool) (res bool) {
	if goTargetMemoProg != curProgram {
		goTargetMemo, goTargetMemoProg = map[*ssa.Function]bool{}, curProgram
	}
	if v, ok := goTargetMemo[fn]; ok {
		return v
	}
	if busy[fn] {
		return false
	}
	busy[fn] = true
	defer func() { delete(busy, fn); goTargetMemo[fn] = res }()
	par := fn.Parent()
	if par == nil {
		if curProgram == nil {
			return false
		}
		nGo, nOther := 0, 0
		for _, g := range curProgram.ModFuncs {
			allInstrs(g, func(_ *ssa.BasicBlock, in ssa.Instruction) {
				if ci, ok := in.(ssa.CallInstruction); ok && ci.Common().StaticCallee() == fn {
					if _, isGo := in.(*ssa.Go); isGo {
						nGo++
					} else if _, isCall := in.(*ssa.Call); isCall && g != fn && isGoTargetRec(g, busy) {
						nGo++ // called by the body of a goroutine: still only ever runs on a goroutine of its own
					} else {
						nOther++
					}
					return
				}
				for _, op := range in.Operands(nil) {
					if op != nil && *op == ssa.Value(fn) {
						nOther++ // taken as a value
					}
				}
			})
		}
		return nGo > 0 && nOther == 0
	}
	found := false
	allInstrs(par, func(_ *ssa.BasicBlock, in ssa.Instruction) {
		if g, ok := in.(*ssa.Go); ok {
			if mc, ok := g.Call.Value.(*ssa.MakeClosure); ok && mc.Fn == fn {
				found = true
			}
			if f, ok := g.Call.Value.(*ssa.Function); ok && f == fn {
				found = true
			}
		}
	})
	return found
}

func isFunctionTyped(v ssa.Value) bool {
	return strings.HasSuffix(shortType(v.Type()), "Function") || strings.Contains(v.Type().String(), "genql.Function")
}

// checkErrSite classifies one site.
func (p *Program) checkErrSite(s *errSite) errVerdict {
	v := errVerdict{site: s, status: "ok"}
	f := s.fn
	if s.errVal == nil || !hasRealReferrers(s.errVal) {
		v.status, v.detail = "dropped", "the error result of "+s.callee+" is discarded"
		return v
	}
	// asynchronous user-function calls (ASYNC/SPIN/SPINASYNC) are outside C19
	if isGoTarget(f) && !s.call.Common().IsInvoke() && s.call.Common().StaticCallee() == nil && isFunctionTyped(s.call.Common().Value) {
		v.idiom = "asynchronous user function (outside C19)"
		return v
	}
	fei := errIdx(f)
	// f(g()): every result of the call goes straight into one helper the rule tables do not know: the handling of the
	// error is looked for inside that helper (its parameters stand for the results)
	fwd, fwdCall := forwardedTo(s)
	cfg := WalkCfg{NoInline: true, InlineOnly: func(h *ssa.Function) bool { return fwd != nil && h == fwd }, MaxVisits: 1, MaxPaths: 3000,
		Prune: func(key string, t *Term, val constant.Value) bool {
			if x, ok := isNilTest(t); ok && x.V == s.errVal && val.Kind() == constant.Bool && constant.BoolVal(val) {
				return true // e == nil: not our business
			}
			return false
		}}
	paths, err := WalkFrom(f, s.call.Block(), nil, cfg)
	if err != nil {
		v.status, v.detail = "undecided", err.Error()
		return v
	}
	isE := func(t *Term) bool { return t != nil && t.V == s.errVal }
	derivedFromE := func(t *Term) bool {
		return t != nil && t.Contains(func(x *Term) bool { return x.V == s.errVal })
	}
	idioms := map[string]bool{}
	var viaHelper []helperStore
	for _, pa := range paths {
		// did this path pass the call at all? (the walk starts at the block's beginning)
		tested, nonNil := false, false
		var okKeyTrue bool
		for k, val := range pa.Asg {
			kt := pa.KeyTerm[k]
			if kt == nil {
				continue
			}
			if x, ok := isNilTest(kt); ok && x.V == s.errVal {
				tested = true
				nonNil = !constant.BoolVal(val)
			}
			// boolean result of the same call assumed true
			if kt.Op == "ext" && kt.Args[0].V == ssa.Value(s.call) && val.Kind() == constant.Bool && constant.BoolVal(val) {
				okKeyTrue = true
			}
		}
		// "keep the first error": a captured error variable is already non-nil on this path
		alreadyFailed := false
		for k, val := range pa.Asg {
			if kt := pa.KeyTerm[k]; kt != nil {
				if x, ok := isNilTest(kt); ok && isErrorType(x) && val.Kind() == constant.Bool && !constant.BoolVal(val) &&
					(x.Op == "load" && x.Args[0].Op == "freevar" || x.Op == "freevar" || x.Op == "field" && len(x.Args) == 1 && (x.Args[0].Op == "param" || x.Args[0].Op == "load" && x.Args[0].Args[0].Op == "freevar")) {
					alreadyFailed = true
				}
			}
		}
		handedOff, storedToCaptured, passedOn := false, false, false
		for _, e := range pa.Effects {
			switch e.Kind {
			case "call":
				for i, a := range e.Args {
					if derivedFromE(a) {
						if e.Callee == "dyn" && i > 0 && e.Args[0].Op == "field" && e.Args[0].Name == "errors" {
							handedOff = true
						} else if e.Instr != ssa.Instruction(s.call) {
							passedOn = true
							// a helper that keeps the error in a field of a shared record (mutex-protected first-error bookkeeping)
							if call, isCall := e.Instr.(*ssa.Call); isCall && !call.Common().IsInvoke() && call.Common().StaticCallee() != nil && i < len(call.Common().Args) {
								if j, fld, ok := paramStoredToField(call.Common().StaticCallee(), i); ok && j < len(call.Common().Args) {
									storedToCaptured = true
									viaHelper = append(viaHelper, helperStore{recv: call.Common().Args[j], field: fld})
								}
							}
						}
					}
				}
			case "store":
				if len(e.Args) == 2 && derivedFromE(e.Args[1]) && (e.Args[0].Op == "freevar" || e.Args[0].Op == "load" && e.Args[0].Args[0].Op == "freevar") {
					storedToCaptured = true
				}
				// kept in a field of a shared record (the receiver of a goroutine's method): some function of the
				// module must hand that field back as its error
				if st, isSt := e.Instr.(*ssa.Store); isSt && len(e.Args) == 2 && derivedFromE(e.Args[1]) {
					// an out-parameter: `*err = e` with err a *error parameter hands the error to the caller, like a result
					if pa, isPa := st.Addr.(*ssa.Parameter); isPa {
						if pt, isPtr := pa.Type().Underlying().(*types.Pointer); isPtr && pt.Elem().String() == "error" {
							handedOff = true
						}
					}
					if fa, isFA := st.Addr.(*ssa.FieldAddr); isFA {
						if _, isParam := fa.X.(*ssa.Parameter); isParam {
							if fieldReturnedAsError(fa) {
								storedToCaptured = true
							} else {
								v.status, v.detail = "swallowed", "the error of "+s.callee+" is kept in the field "+fieldName(fa.X.Type(), fa.Field)+" of a shared record, but no function of the module returns that field as its error"
								return v
							}
						}
					}
				}
			case "panic":
			}
		}
		switch pa.Exit {
		case "return":
			if fei >= 0 {
				r := pa.Ret[fei]
				switch {
				case tested && nonNil:
					if r.Nil || (r.C == nil && r.T != nil && r.T.Op == "const" && r.T.Name == "nil") {
						v.status, v.detail = "replaced-by-nil", "the error of "+s.callee+" is tested non-nil but the function returns a nil error"
						return v
					}
					idioms["if err != nil { return …, err }"] = true
				default: // not tested on this path
					if isE(r.T) || derivedFromE(r.T) {
						idioms["return f() / return v, err"] = true
					} else if okKeyTrue && calleeErrImpliesFalse(s.call.Common().StaticCallee(), 0, s.errIdx) {
						idioms["ok-flag dispatch (callee returns ok=false with every error)"] = true
					} else if storedToCaptured {
						idioms["stored to a captured variable"] = true
						if why := lastErrorWins(f, len(viaHelper) > 0); why != "" {
							v.status, v.detail = "overwritten", "the error of "+s.callee+" is stored into a captured variable whether or not it is nil, and "+why+": a later success puts nil over an earlier failure"
							return v
						}
						if why := capturedErrLost(f, s.errVal, viaHelper); why != "" {
							v.status, v.detail = "swallowed", why
							return v
						}
					} else {
						v.status, v.detail = "unchecked", "a path from the call to a return at "+p.Pos(pa.ExitInstr.Pos())+" neither tests nor returns the error of "+s.callee
						return v
					}
				}
			} else {
				// function without an error result
				switch {
				case handedOff:
					idioms["handed to options.errors"] = true
				case storedToCaptured:
					idioms["stored to a captured variable"] = true
					if !(tested && nonNil) {
						if why := lastErrorWins(f, len(viaHelper) > 0); why != "" {
							v.status, v.detail = "overwritten", "the error of "+s.callee+" is stored into a captured variable whether or not it is nil, and "+why+": a later success puts nil over an earlier failure"
							return v
						}
					}
					if why := capturedErrLost(f, s.errVal, viaHelper); why != "" {
						v.status, v.detail = "swallowed", why
						return v
					}
				case okKeyTrue && calleeErrImpliesFalse(s.call.Common().StaticCallee(), 0, s.errIdx):
					idioms["ok-flag dispatch (callee returns ok=false with every error)"] = true
				case tested && !nonNil:
				case alreadyFailed:
					idioms["first error kept in a captured variable"] = true
				default:
					v.status, v.detail = "swallowed", "the error of "+s.callee+" does not leave "+funcName(f)+" (no error result, not stored, not handed off)"
					return v
				}
			}
		case "panic":
			if tested && nonNil || passedOn {
				if panicIsConverted(f) {
					idioms["panic(err) under the caller's recover (Sort)"] = true
				} else {
					v.status, v.detail = "panics", "the error of "+s.callee+" is turned into a panic that no caller on this goroutine converts back to an error"
					return v
				}
			}
		case "cut", "stop":
			if okKeyTrue && calleeErrImpliesFalse(s.call.Common().StaticCallee(), 0, s.errIdx) {
				idioms["ok-flag dispatch (callee returns ok=false with every error)"] = true
				continue
			}
			if storedToCaptured || handedOff {
				continue
			}
			if tested && nonNil {
				v.status, v.detail = "swallowed", "the error of "+s.callee+" is tested non-nil and evaluation continues (loop continues)"
				return v
			}
			v.status, v.detail = "unchecked", "evaluation continues past the call without testing the error of "+s.callee
			return v
		}
	}
	// value results must not be used before the error is tested
	if fwd != nil {
		if why := usedBeforeTestForwarded(p, s, fwd, fwdCall); why != "" {
			v.status, v.detail = "used-before-test", why
			return v
		}
	} else if why := usedBeforeTest(p, s); why != "" {
		v.status, v.detail = "used-before-test", why
		return v
	}
	var ids []string
	for k := range idioms {
		ids = append(ids, k)
	}
	sort.Strings(ids)
	v.idiom = strings.Join(ids, " + ")
	return v
}

// capturedErrLost: e is stored into a variable captured from the parent; the parent (unless the
// closure itself also returns e) must return that variable as its error. Returns "" when fine.
type helperStore struct {
	recv  ssa.Value // the record the helper stores into, as passed at the call site
	field int
}

// paramStoredToField: h stores its parameter i (boxed or not) into a field of the record another parameter j points to.
func paramStoredToField(h *ssa.Function, i int) (j int, field int, ok bool) {
	if h == nil || i >= len(h.Params) || len(h.Blocks) == 0 {
		return 0, 0, false
	}
	allInstrs(h, func(_ *ssa.BasicBlock, in ssa.Instruction) {
		st, isSt := in.(*ssa.Store)
		if !isSt || ok {
			return
		}
		v := st.Val
		if mi, isMI := v.(*ssa.MakeInterface); isMI {
			v = mi.X
		}
		if v != ssa.Value(h.Params[i]) {
			return
		}
		fa, isFA := st.Addr.(*ssa.FieldAddr)
		if !isFA {
			return
		}
		for k, p := range h.Params {
			if fa.X == ssa.Value(p) {
				j, field, ok = k, fa.Field, true
			}
		}
	})
	return
}

func capturedErrLost(f *ssa.Function, e ssa.Value, via []helperStore) string {
	par := f.Parent()
	if par == nil {
		return ""
	}
	// an error kept by a helper in a field of a captured record: the parent must return that field as its error
	for _, hs := range via {
		ld, isLd := hs.recv.(*ssa.UnOp)
		if !isLd || ld.Op != token.MUL {
			return "the error is stored by a helper into a record that is not a captured variable of " + funcName(par)
		}
		fv, isFV := ld.X.(*ssa.FreeVar)
		if !isFV {
			return "the error is stored by a helper into a record that is not a captured variable of " + funcName(par)
		}
		var cell *ssa.Alloc
		allInstrs(par, func(_ *ssa.BasicBlock, pin ssa.Instruction) {
			if mc, ok := pin.(*ssa.MakeClosure); ok && mc.Fn == f {
				for i, b := range mc.Bindings {
					if i < len(f.FreeVars) && f.FreeVars[i] == fv {
						cell, _ = b.(*ssa.Alloc)
					}
				}
			}
		})
		pei := errIdx(par)
		if cell == nil || pei < 0 {
			return "the error is stored by a helper into a record of " + funcName(par) + ", which does not return it"
		}
		returned := false
		allInstrs(par, func(_ *ssa.BasicBlock, in ssa.Instruction) {
			r, ok := in.(*ssa.Return)
			if !ok || pei >= len(r.Results) {
				return
			}
			if u, ok := r.Results[pei].(*ssa.UnOp); ok && u.Op == token.MUL {
				if fa, ok := u.X.(*ssa.FieldAddr); ok && fa.Field == hs.field {
					if l2, ok := fa.X.(*ssa.UnOp); ok && l2.Op == token.MUL && l2.X == ssa.Value(cell) {
						returned = true
					}
				}
			}
			// `return rec.result()`: an accessor of the record that hands the field out as its own error result
			if ex, ok := r.Results[pei].(*ssa.Extract); ok {
				if call, ok := ex.Tuple.(*ssa.Call); ok {
					g := call.Common().StaticCallee()
					if g != nil && g.Blocks != nil && errIdx(g) == ex.Index {
						for k, a := range call.Call.Args {
							l2, ok := a.(*ssa.UnOp)
							if !ok || l2.Op != token.MUL || l2.X != ssa.Value(cell) || k >= len(g.Params) {
								continue
							}
							allInstrs(g, func(_ *ssa.BasicBlock, gin ssa.Instruction) {
								gr, ok := gin.(*ssa.Return)
								if !ok || ex.Index >= len(gr.Results) {
									return
								}
								if gu, ok := gr.Results[ex.Index].(*ssa.UnOp); ok && gu.Op == token.MUL {
									if gfa, ok := gu.X.(*ssa.FieldAddr); ok && gfa.Field == hs.field && gfa.X == ssa.Value(g.Params[k]) {
										returned = true
									}
								}
							})
						}
					}
				}
			}
		})
		if !returned {
			return "the error is kept in a field of the captured record " + cell.Comment + " but " + funcName(par) + " never returns that field as its error"
		}
	}
	// the free variable(s) e is stored to
	var cells []*ssa.Alloc
	allInstrs(f, func(_ *ssa.BasicBlock, in ssa.Instruction) {
		st, ok := in.(*ssa.Store)
		if !ok {
			return
		}
		derived := st.Val == e
		if mi, ok := st.Val.(*ssa.MakeInterface); ok && mi.X == e {
			derived = true
		}
		if !derived {
			return
		}
		if fv, ok := st.Addr.(*ssa.FreeVar); ok {
			// resolve the binding in the parent
			allInstrs(par, func(_ *ssa.BasicBlock, pin ssa.Instruction) {
				if mc, ok := pin.(*ssa.MakeClosure); ok && mc.Fn == f {
					for i, b := range mc.Bindings {
						if i < len(f.FreeVars) && f.FreeVars[i] == fv {
							if a, ok := b.(*ssa.Alloc); ok {
								cells = append(cells, a)
							}
						}
					}
				}
			})
		}
	})
	if len(cells) == 0 {
		return ""
	}
	pei := errIdx(par)
	if pei < 0 {
		return "the error is stored into a variable of " + funcName(par) + ", which has no error result"
	}
	for _, cell := range cells {
		returned := false
		allInstrs(par, func(_ *ssa.BasicBlock, in ssa.Instruction) {
			r, ok := in.(*ssa.Return)
			if !ok || pei >= len(r.Results) {
				return
			}
			v := r.Results[pei]
			if u, ok := v.(*ssa.UnOp); ok && u.Op == token.MUL && u.X == ssa.Value(cell) {
				returned = true
			}
		})
		if !returned {
			return "the error is stored into the captured variable " + cell.Comment + " but " + funcName(par) + " never returns that variable as its error"
		}
	}
	return ""
}

// panicIsConverted: f is a closure handed to a call inside a parent that defers a recover handler
// (the sort comparator idiom).
func panicIsConverted(f *ssa.Function) bool {
	par := f.Parent()
	if par == nil {
		// a named function or method: every use in the module is a function / method value created by a function
		// that defers a recover handler and only hands it to a synchronous call (the comparator as a method value)
		if curProgram == nil {
			return false
		}
		nOK, nBad := 0, 0
		for _, g := range curProgram.ModFuncs {
			allInstrs(g, func(_ *ssa.BasicBlock, in ssa.Instruction) {
				if ci, isCall := in.(ssa.CallInstruction); isCall && ci.Common().StaticCallee() == f {
					if g.Synthetic != "" && strings.Contains(g.Synthetic, "bound") {
						return // the bound-method wrapper itself
					}
					nBad++
					return
				}
				var val ssa.Value
				switch x := in.(type) {
				case *ssa.MakeClosure:
					if w, isFn := x.Fn.(*ssa.Function); isFn && w.Synthetic != "" && w.Object() == f.Object() && f.Object() != nil {
						val = x
					}
				default:
					for _, op := range in.Operands(nil) {
						if op != nil && *op == ssa.Value(f) {
							nBad++ // taken as a plain function value: not followed
						}
					}
				}
				if val == nil {
					return
				}
				if _, rec := deferredRecover(g); !rec {
					nBad++
					return
				}
				refs := val.Referrers()
				if refs == nil {
					nBad++
					return
				}
				for _, r := range *refs {
					switch u := r.(type) {
					case *ssa.Call:
						used := false
						for _, a := range u.Call.Args {
							if a == val {
								used = true
							}
						}
						if used {
							nOK++
						} else {
							nBad++
						}
					case *ssa.DebugRef:
					default:
						nBad++
					}
				}
			})
		}
		return nOK > 0 && nBad == 0
	}
	if isGoTarget(f) {
		return false
	}
	_, ok := deferredRecover(par)
	return ok
}

// usedBeforeTest: a non-error result of the call is consumed (asserted, indexed, passed on)
// at a point not dominated by the error's nil branch.
// forwardedTo: all results of the call are passed, and only passed, to one call of a module helper the rule tables do
// not know (collect(f()) ): that helper and the forwarding call.
func forwardedTo(s *errSite) (*ssa.Function, *ssa.Call) {
	refs := s.call.Referrers()
	if refs == nil || s.call.Common().Signature().Results().Len() < 2 {
		return nil, nil
	}
	var target *ssa.Call
	n := 0
	for _, r := range *refs {
		ex, ok := r.(*ssa.Extract)
		if !ok {
			if _, isDbg := r.(*ssa.DebugRef); isDbg {
				continue
			}
			return nil, nil
		}
		n++
		er := ex.Referrers()
		if er == nil {
			return nil, nil
		}
		for _, u := range *er {
			switch u := u.(type) {
			case *ssa.DebugRef:
			case *ssa.Call:
				if target != nil && target != u {
					return nil, nil
				}
				target = u
			default:
				return nil, nil
			}
		}
	}
	if target == nil || n != s.call.Common().Signature().Results().Len() || !isUnknownHelper(target.Common().StaticCallee()) {
		return nil, nil
	}
	return target.Common().StaticCallee(), target
}

// usedBeforeTestForwarded: usedBeforeTest inside the helper that received all results: its parameters stand for them.
func usedBeforeTestForwarded(p *Program, s *errSite, h *ssa.Function, fc *ssa.Call) string {
	param := func(result int) ssa.Value {
		for i, a := range fc.Common().Args {
			if ex, ok := a.(*ssa.Extract); ok && ex.Tuple == ssa.Value(s.call) && ex.Index == result && i < len(h.Params) {
				return h.Params[i]
			}
		}
		return nil
	}
	errP := param(s.errIdx)
	if errP == nil {
		return ""
	}
	var oks, others []ssa.Value
	var idx []int
	callee := s.call.Common().StaticCallee()
	for i := 0; i < s.call.Common().Signature().Results().Len(); i++ {
		if i == s.errIdx {
			continue
		}
		pv := param(i)
		if pv == nil {
			continue
		}
		if callee != nil && s.call.Common().Signature().Results().At(i).Type().String() == "bool" && calleeErrImpliesFalse(callee, i, s.errIdx) {
			oks = append(oks, pv)
		} else {
			others = append(others, pv)
			idx = append(idx, i)
		}
	}
	return usedBeforeTestCore(p, h, errP, oks, others, idx, s.callee)
}

func usedBeforeTest(p *Program, s *errSite) string {
	if s.call.Common().Signature().Results().Len() < 2 {
		return ""
	}
	refs := s.call.Referrers()
	if refs == nil {
		return ""
	}
	okIdx := -1
	if callee := s.call.Common().StaticCallee(); callee != nil {
		for i := 0; i < s.call.Common().Signature().Results().Len(); i++ {
			if i != s.errIdx && s.call.Common().Signature().Results().At(i).Type().String() == "bool" && calleeErrImpliesFalse(callee, i, s.errIdx) {
				okIdx = i
			}
		}
	}
	var oks, others []ssa.Value
	var idx []int
	for _, r := range *refs {
		ex, ok := r.(*ssa.Extract)
		if !ok || ex.Index == s.errIdx {
			continue
		}
		if ex.Index == okIdx {
			oks = append(oks, ex)
		} else {
			others = append(others, ex)
			idx = append(idx, ex.Index)
		}
	}
	return usedBeforeTestCore(p, s.fn, s.errVal, oks, others, idx, s.callee)
}

// usedBeforeTestCore: in fn, a value result (others) is consumed at a point that is dominated neither by the nil branch of a
// test of the error value nor by the true branch of an ok flag the callee returns false with every error.
func usedBeforeTestCore(p *Program, fn *ssa.Function, errVal ssa.Value, oks, others []ssa.Value, otherIdx []int, calleeName string) string {
	// the nil-successor blocks of tests of e
	var nilSuccs []*ssa.BasicBlock
	var visitE func(v ssa.Value, d int)
	seenE := map[ssa.Value]bool{}
	visitE = func(v ssa.Value, d int) {
		if seenE[v] || d > 4 {
			return
		}
		seenE[v] = true
		refs := v.Referrers()
		if refs == nil {
			return
		}
		for _, r := range *refs {
			switch r := r.(type) {
			case *ssa.BinOp:
				if (r.Op == token.NEQ || r.Op == token.EQL) && (isNilConst(r.X) || isNilConst(r.Y)) {
					if rr := r.Referrers(); rr != nil {
						for _, u := range *rr {
							if iff, ok := u.(*ssa.If); ok {
								b := iff.Block()
								if r.Op == token.NEQ {
									nilSuccs = append(nilSuccs, b.Succs[1])
								} else {
									nilSuccs = append(nilSuccs, b.Succs[0])
								}
							}
						}
					}
				}
			case *ssa.Store:
				// stored into a cell: follow the loads of the cell in this function
				if a, ok := r.Addr.(*ssa.Alloc); ok {
					if ar := a.Referrers(); ar != nil {
						for _, u := range *ar {
							if ld, ok := u.(*ssa.UnOp); ok && ld.Op == token.MUL && ld.Parent() == fn {
								visitE(ld, d+1)
							}
						}
					}
				}
			case *ssa.MakeInterface:
				visitE(r, d+1)
			case *ssa.Phi:
				// P = phi(e, other…): P == nil implies e == nil when every other edge comes from a
				// block that is itself under e == nil
				okPhi := true
				for i, edge := range r.Edges {
					if edge == v {
						continue
					}
					pred := r.Block().Preds[i]
					under := false
					for _, ns := range nilSuccs {
						if len(ns.Preds) == 1 && ns.Dominates(pred) {
							under = true
						}
					}
					if !under {
						okPhi = false
					}
				}
				if okPhi {
					visitE(r, d+1)
				}
			}
		}
	}
	visitE(errVal, 0)
	// second pass: phis may only be judged once the direct tests are known
	seenE = map[ssa.Value]bool{}
	visitE(errVal, 0)
	// ok-flag idiom: a boolean result that the callee returns false with every error guards the others
	for _, okv := range oks {
		if er := okv.Referrers(); er != nil {
			for _, u := range *er {
				if iff, ok := u.(*ssa.If); ok {
					nilSuccs = append(nilSuccs, iff.Block().Succs[0])
				}
			}
		}
	}
	for oi, ex := range others {
		exIndex := otherIdx[oi]
		var bad string
		var visit func(v ssa.Value, d int)
		seen := map[ssa.Value]bool{}
		visit = func(v ssa.Value, d int) {
			if seen[v] || d > 3 || bad != "" {
				return
			}
			seen[v] = true
			vr := v.Referrers()
			if vr == nil {
				return
			}
			for _, u := range *vr {
				switch u := u.(type) {
				case *ssa.DebugRef, *ssa.Return:
					continue
				case *ssa.Store:
					if _, isCell := u.Addr.(*ssa.Alloc); isCell {
						continue // assignment to a variable; its readers are other instructions
					}
				case *ssa.Phi:
					continue
				case *ssa.MakeInterface, *ssa.ChangeType, *ssa.ChangeInterface:
					visit(u.(ssa.Value), d+1)
					continue
				}
				dominated := false
				for _, ns := range nilSuccs {
					if len(ns.Preds) == 1 && ns.Dominates(u.Block()) {
						dominated = true
					}
				}
				if !dominated {
					bad = fmt.Sprintf("result #%d of %s is used at %s before its error is tested", exIndex, calleeName, p.Pos(u.Pos()))
					return
				}
			}
		}
		visit(ex, 0)
		if bad != "" {
			return bad
		}
	}
	return ""
}

// fieldReturnedAsError: some function of the module returns, as its error result, a load of the same field of the same record type.
func fieldReturnedAsError(fa *ssa.FieldAddr) bool {
	if curProgram == nil {
		return false
	}
	found := false
	for _, g := range curProgram.ModFuncs {
		ei := errIdx(g)
		if ei < 0 {
			continue
		}
		allInstrs(g, func(_ *ssa.BasicBlock, in ssa.Instruction) {
			r, ok := in.(*ssa.Return)
			if !ok || ei >= len(r.Results) {
				return
			}
			if u, ok := r.Results[ei].(*ssa.UnOp); ok && u.Op == token.MUL {
				if f2, ok := u.X.(*ssa.FieldAddr); ok && f2.Field == fa.Field && types.Identical(f2.X.Type(), fa.X.Type()) {
					found = true
				}
			}
		})
	}
	return found
}

func isNilConst(v ssa.Value) bool {
	c, ok := v.(*ssa.Const)
	return ok && c.Value == nil
}

// lastErrorWins: f is a closure that may run more than once per activation of its creator (it is handed to a call as a
// callback -- a sort comparator, an iteration helper -- or created in a loop): an error it stores into a captured variable
// without testing it first is overwritten by the nil of the next run. Returns "" when f runs at most once or when the
// store goes through a helper (first-error bookkeeping decides there).
func lastErrorWins(f *ssa.Function, viaHelper bool) string {
	par := f.Parent()
	if par == nil || viaHelper {
		return ""
	}
	why := ""
	allInstrs(par, func(b *ssa.BasicBlock, in ssa.Instruction) {
		mc, ok := in.(*ssa.MakeClosure)
		if !ok || mc.Fn != ssa.Value(f) {
			return
		}
		if blockInLoop(b) {
			why = "the closure is created once per round of a loop"
		}
		if mc.Referrers() == nil {
			return
		}
		for _, r := range *mc.Referrers() {
			ci, isCall := r.(ssa.CallInstruction)
			if !isCall {
				continue
			}
			if _, isGo := ci.(*ssa.Go); isGo {
				continue
			}
			for _, a := range ci.Common().Args {
				if a == ssa.Value(mc) {
					why = "the closure is a callback of " + calleeName(ci.Common()) + ", which may call it any number of times"
				}
			}
		}
	})
	return why
}

// blockInLoop: b lies on a cycle of its function's control-flow graph.
func blockInLoop(b *ssa.BasicBlock) bool {
	for _, s := range b.Succs {
		if s == b || reaches(s, b) {
			return true
		}
	}
	return false
}
