package main

import (
	"fmt"
	"go/token"
	"go/types"
	"strings"

	"golang.org/x/tools/go/ssa"
)

func init() {
	register("C09", ruleC09Total, ruleC09ReadOnly, ruleC09ParsedImmutable, ruleC09CacheKey, ruleC10LockPairing, ruleC09ThunkArms)
}

// readerReach: the module functions reachable from ExecReader on a JSON-like document, i.e. not
// through calls of lazy CTE thunks (values of type func() (any, error), which only the query
// engine puts into its own data and whose evaluation is the engine's, covered by C10/C19).
func (c *Ctx) readerReach() map[*ssa.Function]bool {
	er := c.P.Func(modPath, "ExecReader")
	if er == nil {
		return nil
	}
	cg := c.P.CallGraph()
	seen := map[*ssa.Function]bool{}
	q := []*ssa.Function{er}
	for len(q) > 0 {
		f := q[0]
		q = q[1:]
		if seen[f] {
			continue
		}
		seen[f] = true
		for _, a := range f.AnonFuncs {
			q = append(q, a)
		}
		n := cg.Nodes[f]
		if n == nil {
			continue
		}
		for _, e := range n.Out {
			if !c.P.InModule(e.Callee.Func) || seen[e.Callee.Func] {
				continue
			}
			if e.Site != nil && e.Site.Common().StaticCallee() == nil && !e.Site.Common().IsInvoke() {
				if sig, ok := e.Site.Common().Value.Type().Underlying().(*types.Signature); ok && sig.Params().Len() == 0 && sig.Results().Len() == 2 {
					continue // a thunk call
				}
			}
			q = append(q, e.Callee.Func)
		}
	}
	return seen
}

// libLenAtLeast1: values whose length is known to be >= 1 from library facts.
func libLenAtLeast1(v ssa.Value) bool {
	call, ok := v.(*ssa.Call)
	if !ok || call.Common().StaticCallee() == nil {
		return false
	}
	switch call.Common().StaticCallee().String() {
	case "strings.Split":
		// strings.Split(s, sep) with a non-empty separator returns at least one element
		if sep, isC := constString(call.Common().Args[1]); isC && sep != "" {
			return true
		}
		if cv, isConv := call.Common().Args[1].(*ssa.Convert); isConv {
			if _, isC := cv.X.(*ssa.Const); isC {
				return true
			}
		}
	case "strings.SplitN":
		if n, isC := constIntOf(call.Common().Args[2]); isC && n >= 1 {
			return true
		}
	}
	return false
}

// regexpMatchElem: v is an element of the result of FindAllString on one of the module's
// package-level patterns (every alternative of which is non-nullable: checked separately).
func regexpMatchElem(v ssa.Value) bool {
	// exactly an element of the result: load(IndexAddr(FindAllString(...), i)) — not a value derived from it
	// (trimming a match can make it empty)
	ld, ok := v.(*ssa.UnOp)
	if !ok || ld.Op != token.MUL {
		return false
	}
	ia, ok := ld.X.(*ssa.IndexAddr)
	if !ok {
		return false
	}
	call, ok := ia.X.(*ssa.Call)
	if !ok || call.Common().StaticCallee() == nil {
		return false
	}
	return call.Common().StaticCallee().String() == "(*regexp.Regexp).FindAllString"
}

func ruleC09Total(c *Ctx) {
	c.Doc("c09.total", "every function reachable from ExecReader (which has no recover): no single-result type assertion unless dominated by a successful comma-ok test of the same value to the same type; every index and slice expression on a slice or string is proven in range (both bounds) from dominating guards, range-loop indices, array types, len facts of strings.Split and non-empty regexp matches; so applying a step to a value of the wrong shape, or an index or slice bound outside the array, cannot panic")
	c.NotDecidedClause("C09: agreement of the evaluation with the documented grammar over all selector strings (incl. the `data[keep=>…]` split) — values computed by regexp tokenisation, no structural footprint")
	c.Assume("registered top-level functions (unknown callees) do not panic")
	reach := c.readerReach()
	if reach == nil {
		c.Unknown("c09.total", "ExecReader", "-", "anchor lost")
		return
	}
	nAssert, nIndex := 0, 0
	for f := range reach {
		if funcPkgPath(f) != modPath || len(f.Blocks) == 0 {
			continue
		}
		fk := c.P.funcKey(f)
		c.Fn(fk)
		ka, ki := 0, 0
		allInstrs(f, func(b *ssa.BasicBlock, in ssa.Instruction) {
			switch in := in.(type) {
			case *ssa.TypeAssert:
				if in.CommaOk {
					return
				}
				nAssert++
				ka++
				key := fmt.Sprintf("%s/assert#%d", fk, ka)
				// dominated by a successful comma-ok assertion of the same operand to the same type
				ok := false
				for _, fc := range factsAt(b) {
					if !fc.truth {
						continue
					}
					if ex, isEx := fc.cond.(*ssa.Extract); isEx && ex.Index == 1 {
						if ta, isTA := ex.Tuple.(*ssa.TypeAssert); isTA && ta.X == in.X && types.Identical(ta.AssertedType, in.AssertedType) {
							ok = true
						}
					}
				}
				// generic constraint switches `any(value).(type)` inside instantiations assert to the instance's own type
				if mi, isMI := in.X.(*ssa.MakeInterface); isMI && types.Identical(mi.X.Type(), in.AssertedType) {
					ok = true
				}
				c.Check(ok, "c09.total", key, c.P.Pos(in.Pos()), "dominated by a successful comma-ok test of the same value", "single-result assertion "+shortType(in.AssertedType)+" of "+NewTB().Of(in.X).String()+" without a dominating type test: a value of another shape panics out of ExecReader")
			case *ssa.IndexAddr, *ssa.Index:
				var x, idx ssa.Value
				if ia, isIA := in.(*ssa.IndexAddr); isIA {
					x, idx = ia.X, ia.Index
				} else {
					x, idx = in.(*ssa.Index).X, in.(*ssa.Index).Index
				}
				// arrays (and pointers to arrays) with constant or range indices are checked by the compiler
				xt := x.Type().Underlying()
				if p, isP := xt.(*types.Pointer); isP {
					xt = p.Elem().Underlying()
				}
				if at, isArr := xt.(*types.Array); isArr {
					if k, isC := constIntOf(idx); isC && k >= 0 && k < at.Len() {
						return
					}
				}
				if _, isMap := xt.(*types.Map); isMap {
					return
				}
				// range loop index: phi + 1 guarded by the loop header
				if bo, isB := idx.(*ssa.BinOp); isB && bo.Op == token.ADD {
					if _, isPhi := bo.X.(*ssa.Phi); isPhi {
						if k, isC := constIntOf(bo.Y); isC && k == 1 {
							return
						}
					}
				}
				nIndex++
				ki++
				key := fmt.Sprintf("%s/index#%d", fk, ki)
				fs := factsAt(b)
				upper := proveLTLen(idx, x, fs, 0)
				lower := proveGE0(idx, fs, 0)
				if !upper {
					// index + 1 <= len(x) in the difference-bound domain (two len() calls of one value are one quantity there)
					l := linOf(idx)
					upper = proveLin(lin{l.base, l.off + 1}, lin{lenKey{x}, 0}, fs, nil, 0)
				}
				if !lower {
					lower = proveLin(lin{nil, 0}, linOf(idx), fs, nil, 0)
				}
				if k, isC := constIntOf(idx); isC && k == 0 && !upper {
					// element 0 of a value known to be non-empty
					if libLenAtLeast1(x) || regexpMatchElem(x) {
						upper = true
					}
				}
				why := ""
				if !upper {
					why = "upper bound of " + NewTB().Of(idx).String() + " into " + NewTB().Of(x).String() + " is not proven"
				}
				if !lower {
					why += " lower bound not proven"
				}
				c.Check(upper && lower, "c09.total", key, c.P.Pos(in.Pos()), "0 <= index < len proven", strings.TrimSpace(why))
			case *ssa.Slice:
				if a, isA := in.X.(*ssa.Alloc); isA && (a.Comment == "varargs" || a.Comment == "slicelit" || a.Comment == "makeslice") {
					return
				}
				if _, isArrPtr := in.X.Type().Underlying().(*types.Pointer); isArrPtr && in.Low == nil && in.High == nil {
					return
				}
				if in.Low == nil && in.High == nil {
					return
				}
				nIndex++
				ki++
				key := fmt.Sprintf("%s/slice#%d", fk, ki)
				fs := factsAt(b)
				var why []string
				if in.Low != nil {
					okLow := proveLELen(in.Low, in.X, fs, 0)
					if k, isC := constIntOf(in.Low); isC && k == 1 && !okLow {
						// x[1:] under len(x) != 0 / len(x) >= 1 / element 0 read before
						if proveLTLen(ssa.NewConst(constantInt(0), in.Low.Type()), in.X, fs, 0) {
							okLow = true
						}
						for _, fc := range relFacts(fs) {
							if isLenOf(fc.x, in.X) {
								if n, isN := constIntOf(fc.y); isN && (fc.r == relNE && n == 0 || fc.r == relGT && n >= 0 || fc.r == relGE && n >= 1) {
									okLow = true
								}
							}
						}
					}
					if !okLow {
						okLow = proveLELenLin(in.Low, in.X, fs)
					}
					if !okLow {
						why = append(why, "low bound "+NewTB().Of(in.Low).String()+" not proven <= len")
					}
					if !proveGE0(in.Low, fs, 0) && !proveLin(lin{nil, 0}, linOf(in.Low), fs, nil, 0) {
						why = append(why, "low bound not proven >= 0")
					}
				}
				if in.High != nil {
					if !proveLELen(in.High, in.X, fs, 0) && !proveLELenLin(in.High, in.X, fs) {
						why = append(why, "high bound "+NewTB().Of(in.High).String()+" not proven <= len")
					}
					if in.Low != nil {
						// low <= high
						okLH := false
						for _, fc := range relFacts(fs) {
							if fc.x == in.Low && fc.y == in.High && (fc.r == relLE || fc.r == relLT || fc.r == relEQ) {
								okLH = true
							}
						}
						if !okLH {
							okLH = proveLE(in.Low, in.High, fs)
						}
						if !okLH {
							why = append(why, "low <= high not proven")
						}
					}
				}
				c.Check(len(why) == 0, "c09.total", key, c.P.Pos(in.Pos()), "slice bounds proven", strings.Join(why, "; "))
			}
		})
	}
	c.Notes = append(c.Notes, fmt.Sprintf("c09.total: %d unchecked-form assertions and %d index/slice sites examined in %d functions reachable from ExecReader", nAssert, nIndex, len(reach)))
	if nIndex < 8 {
		c.Unknown("c09.total", "inventory", "-", fmt.Sprintf("only %d index/slice sites found on the selector path", nIndex))
	}
	// the module's selector patterns cannot match the empty string (match[0] relies on it)
	c.checkPatternsNonNullable()
}

func ruleC09ReadOnly(c *Ctx) {
	c.Doc("c09.read-only", "evaluation never modifies the document: no write site in the functions reachable from ExecReader can target the document parameter or anything reachable from it (ownership analysis seeded at ExecReader's data parameter)")
	reach := c.readerReach()
	if reach == nil {
		c.Unknown("c09.read-only", "ExecReader", "-", "anchor lost")
		return
	}
	n, _ := c.classifyWrites("c09.read-only", reach, false)
	if n < 10 {
		c.Unknown("c09.read-only", "inventory", "-", fmt.Sprintf("only %d write sites found on the selector path", n))
	}
}

// ruleC09ThunkArms: every selector-kind arm of Reader that accepts data also resolves lazy CTE thunks.
func ruleC09ThunkArms(c *Ctx) {
	c.Doc("c07.thunk-siblings", "step dispatch (Reader): every selector-kind arm handles a lazy CTE thunk (func() (any, error)) by calling it, returning its error, and re-dispatching the SAME selector list on the result; a missing key yields NULL (nil data short-circuits)")
	f := c.P.Func(modPath, "Reader")
	if f == nil {
		c.Unknown("c07.thunk-siblings", "Reader", "-", "anchor lost")
		return
	}
	c.Fn("Reader")
	paths, err := WalkFunc(f, WalkCfg{MaxVisits: 1, MaxPaths: 8000})
	if err != nil {
		c.Unknown("c07.thunk-siblings", "Reader", c.P.Pos(f.Pos()), err.Error())
		return
	}
	selP, dataP := "", ""
	for _, pa := range f.Params {
		if shortType(pa.Type()) == "[]any" {
			selP = pa.Name()
		} else {
			dataP = pa.Name()
		}
	}
	kinds := map[string]bool{}
	thunk := map[string]string{}
	for _, p := range paths {
		kind, isThunk := "", false
		for _, k := range p.Order {
			kt := p.KeyTerm[k]
			if kt == nil || kt.Op != "ext" || kt.Name != "1" || kt.Args[0].Op != "assertok" {
				continue
			}
			if v, _ := p.Assumed(k); !v {
				continue
			}
			src := kt.Args[0].Args[0].String()
			if src == "p:"+selP+"[c:0]" {
				kind = kt.Args[0].Name
			}
			if ta, isTA := kt.Args[0].V.(*ssa.TypeAssert); isTA && strings.Contains(src, "p:"+dataP) && isThunkType(ta.AssertedType) {
				isThunk = true
			}
		}
		if kind == "" {
			continue
		}
		kinds[kind] = true
		if !isThunk || p.Exit != "return" {
			continue
		}
		// error path of the thunk, or the re-dispatch
		errNon := false
		for k, v := range p.Asg {
			if kt := p.KeyTerm[k]; kt != nil {
				if x, isN := isNilTest(kt); isN && isErrorType(x) && !isTrueC(v) {
					errNon = true
				}
			}
		}
		if errNon {
			if p.Ret[1].Nil {
				thunk[kind] = "the thunk's error is not returned"
			}
			continue
		}
		r := ext0(p.Ret[0].T)
		// the data of the re-dispatch is the thunk's result itself (not wrapped, converted or re-shaped)
		isResult := func(x *Term) bool {
			return x != nil && x.Op == "ext" && x.Name == "0" && len(x.Args) == 1 && x.Args[0].Op == "call" && x.Args[0].Name == "dyn"
		}
		good := r != nil && r.Op == "call" && r.Name == "Reader" && len(r.Args) == 2 && r.Args[1].Op == "param" && r.Args[1].Name == selP && isResult(r.Args[0])
		if good {
			if thunk[kind] == "" {
				thunk[kind] = "ok"
			}
		} else {
			thunk[kind] = "after resolving the thunk the arm does not re-dispatch the same selector list on the result: " + avString(p.Ret[0])
		}
	}
	if len(kinds) < 4 {
		c.Unknown("c07.thunk-siblings", "Reader/kinds", c.P.Pos(f.Pos()), fmt.Sprintf("only %d selector kinds found in the dispatch", len(kinds)))
	}
	for k := range kinds {
		st := thunk[k]
		c.Check(st == "ok", "c07.thunk-siblings", "Reader/"+k, c.P.Pos(f.Pos()), "thunk called, error returned, same selectors re-dispatched", func() string {
			if st == "" {
				return "the " + k + " arm has no case for a lazy CTE thunk: a CTE read through this selector kind fails"
			}
			return st
		}())
	}
}

func init() {
	register("C07", ruleThunkTypeAgree)
	register("C08", ruleThunkTypeAgree)
	register("C12", ruleThunkTypeAgree)
}

// ruleThunkTypeAgree: the places that recognise a lazy CTE agree with the place that registers one on its dynamic type.
func ruleThunkTypeAgree(c *Ctx) {
	c.Doc("thunk.type-agree", "a lazy CTE is recognised by its dynamic type: every type assertion / type-switch arm in the module on a thunk-shaped function type (func() (any, error)) names exactly the type under which BuildCte (and the memoising thunk) store the entry — with an alias both spellings are one type; once CteEvaluation is a defined type, a recogniser left on the plain function type silently stops matching (the CTE then reaches a function or a key read unevaluated)")
	regs := map[string]types.Type{}
	var regPos string
	for _, f := range c.P.ModFuncs {
		allInstrs(f, func(_ *ssa.BasicBlock, in ssa.Instruction) {
			mu, ok := in.(*ssa.MapUpdate)
			if !ok {
				return
			}
			if mi, isMI := mu.Value.(*ssa.MakeInterface); isMI && isThunkType(mi.X.Type()) {
				// one entry per type, not per spelling: an alias and what it stands for are the same dynamic type
				known := false
				for _, t := range regs {
					if types.Identical(types.Unalias(t), types.Unalias(mi.X.Type())) {
						known = true
					}
				}
				if !known {
					regs[mi.X.Type().String()] = mi.X.Type()
				}
				regPos = c.P.Pos(mu.Pos())
			}
		})
	}
	if len(regs) == 0 {
		c.Unknown("thunk.type-agree", "registration", "-", "anchor lost: no lazy CTE is stored into a document")
		return
	}
	var regT types.Type
	for _, t := range regs {
		regT = t
	}
	c.Check(len(regs) == 1, "thunk.type-agree", "registration", regPos, "one dynamic type for lazy CTE entries: "+regT.String(), fmt.Sprintf("lazy CTE entries are stored under %d different dynamic types", len(regs)))
	n := 0
	for _, f := range c.P.ModFuncs {
		k := 0
		allInstrs(f, func(_ *ssa.BasicBlock, in ssa.Instruction) {
			ta, ok := in.(*ssa.TypeAssert)
			if !ok || !isThunkType(ta.AssertedType) {
				return
			}
			n++
			k++
			same := false
			for _, t := range regs {
				if types.Identical(t, ta.AssertedType) {
					same = true
				}
			}
			c.Check(same, "thunk.type-agree", fmt.Sprintf("%s/recogniser#%d", c.P.funcKey(f), k), c.P.Pos(ta.Pos()), "asserts the registered type", "a lazy CTE is looked for as "+ta.AssertedType.String()+" but is stored as "+regT.String()+": this recogniser never matches")
		})
	}
	if n == 0 {
		c.Unknown("thunk.type-agree", "recognisers", "-", "no lazy-CTE recogniser found: nothing evaluates a CTE")
	}
}

// ruleC09ParsedImmutable: parsed selectors (shared through the process-wide cache) are never written after construction.
func ruleC09ParsedImmutable(c *Ctx) {
	c.Doc("c09.parsed-immutable", "the parsed selector objects (IndexSelector, PipeSelector — shared by every later evaluation through the process-wide cache) are written only by the functions that allocate them: no write site on the evaluation path may target their fields or storage reached through them (e.g. the slice GetRange returns)")
	reach := c.readerReach()
	if reach == nil {
		c.Unknown("c09.parsed-immutable", "ExecReader", "-", "anchor lost")
		return
	}
	o := c.own()
	allocators := map[*ssa.Function]bool{}
	for f := range reach {
		allInstrs(f, func(_ *ssa.BasicBlock, in ssa.Instruction) {
			if a, ok := in.(*ssa.Alloc); ok && (isNamedType(a.Type(), modPath, "IndexSelector") || isNamedType(a.Type(), modPath, "PipeSelector")) {
				allocators[f] = true
			}
		})
	}
	n := 0
	for _, w := range o.Writes {
		if !reach[w.Fn] {
			continue
		}
		hit := ""
		for _, id := range w.Objs {
			ob := o.objs[id]
			if ob.kind == "field" && (strings.HasPrefix(ob.label, "IndexSelector.") || strings.HasPrefix(ob.label, "PipeSelector.")) {
				hit = ob.label
			}
		}
		if hit == "" {
			continue
		}
		n++
		key := c.writeKey(w)
		c.Check(allocators[w.Fn], "c09.parsed-immutable", key, c.P.Pos(w.Instr.Pos()), "written by the function that allocates the selector", "a cached, shared parsed selector ("+hit+") is written during evaluation: the change leaks into every later use of the same selector text")
	}
	if n == 0 {
		c.PassTrivial("c09.parsed-immutable", "selectors", "-", "no write to selector fields outside composite literals")
	}
}

// ruleC09CacheKey: the cache maps a selector text to the parse of that very text.
func ruleC09CacheKey(c *Ctx) {
	c.Doc("c09.cache-key", "the selector cache is looked up and filled under the same key, and the value stored under a key is the parse of the very text the key is computed from (the parse input contains the key's term): two selector texts that differ can never be served each other's parse")
	var f *ssa.Function
	var upd *ssa.MapUpdate
	for _, g := range c.P.pkgFuncs(modPath) {
		allInstrs(g, func(_ *ssa.BasicBlock, in ssa.Instruction) {
			if mu, ok := in.(*ssa.MapUpdate); ok {
				if ld, ok := mu.Map.(*ssa.UnOp); ok {
					if gl, ok := ld.X.(*ssa.Global); ok && globalName(gl) == "cache" {
						f, upd = g, mu
					}
				}
			}
		})
	}
	if f == nil {
		c.Unknown("c09.cache-key", "selector-cache", "-", "anchor lost")
		return
	}
	key := c.P.funcKey(f)
	c.Fn(key)
	tbd := NewTB()
	kt := tbd.Of(upd.Key)
	var why []string
	// lookup key
	lookups := 0
	allInstrs(f, func(_ *ssa.BasicBlock, in ssa.Instruction) {
		if lk, ok := in.(*ssa.Lookup); ok {
			if ld, ok := lk.X.(*ssa.UnOp); ok {
				if gl, ok := ld.X.(*ssa.Global); ok && globalName(gl) == "cache" {
					lookups++
					if tbd.Of(lk.Index).String() != kt.String() {
						why = append(why, "the cache is looked up with "+tbd.Of(lk.Index).String()+" but filled under "+kt.String())
					}
				}
			}
		}
	})
	if lookups == 0 {
		why = append(why, "the cache is never looked up")
	}
	// the parse input derives from the key's term
	parsed := false
	allInstrs(f, func(_ *ssa.BasicBlock, in ssa.Instruction) {
		if call, ok := in.(*ssa.Call); ok && call.Common().StaticCallee() != nil && call.Common().StaticCallee().Name() == "ParseSelector" {
			parsed = true
			at := tbd.Of(call.Common().Args[0])
			if !strings.Contains(at.String(), kt.String()) {
				why = append(why, "the value stored under the key "+kt.String()+" is the parse of "+at.String()+", which is not derived from that key: different selector texts can share an entry")
			}
		}
	})
	if !parsed {
		why = append(why, "the cached value is not produced by ParseSelector")
	}
	c.Check(len(why) == 0, "c09.cache-key", key, c.P.Pos(upd.Pos()), "lookup key == store key == the text that is parsed", strings.Join(uniq(why), "; "))
}

func init() { register("C09", ruleC09StepDispatch, ruleC09DimensionWalk) }

// ruleC09StepDispatch: per (selector kind, data shape) arm of Reader, what is evaluated next.
func ruleC09StepDispatch(c *Ctx) {
	c.Doc("c09.step-dispatch", "step dispatch (Reader), per arm: no selectors left => the data itself; NULL data => NULL; key on an object => Reader(the object's value for that key (NULL when absent), remaining selectors); key or pipe on an array => an array of the same length whose element i is Reader(element i, the SAME selectors), an element error is returned; index selectors on an array => Reader(SelectMany(array, selector), remaining selectors); keep=> on an array => Reader(SelectDimension(array, selector), remaining selectors); pipe on an object => Reader(reshaped copy, remaining selectors); any other shape => an error")
	f := c.P.Func(modPath, "Reader")
	if f == nil {
		c.Unknown("c09.step-dispatch", "Reader", "-", "anchor lost")
		return
	}
	selP, dataP := "", ""
	for _, pa := range f.Params {
		if shortType(pa.Type()) == "[]any" {
			selP = pa.Name()
		} else {
			dataP = pa.Name()
		}
	}
	paths, err := WalkFunc(f, WalkCfg{MaxVisits: 2, MaxPaths: 20000})
	if err != nil {
		c.Unknown("c09.step-dispatch", "Reader", c.P.Pos(f.Pos()), err.Error())
		return
	}
	rest := func(t *Term) bool { // selectors[1:]
		return t.Op == "slice" && t.Args[0].Op == "param" && t.Args[0].Name == selP && t.Args[1].Op == "const" && t.Args[1].Name == "1" && t.Args[2].Name == "-"
	}
	same := func(t *Term) bool { return t.Op == "param" && t.Name == selP }
	type armRes struct {
		n   int
		why []string
	}
	arms := map[string]*armRes{}
	get := func(k string) *armRes {
		if arms[k] == nil {
			arms[k] = &armRes{}
		}
		return arms[k]
	}
	for _, p := range paths {
		if p.Exit != "return" || len(p.Ret) != 2 {
			continue
		}
		kind, shape := "", ""
		for _, k := range p.Order {
			kt := p.KeyTerm[k]
			if kt == nil || kt.Op != "ext" || kt.Name != "1" || kt.Args[0].Op != "assertok" {
				continue
			}
			if v, _ := p.Assumed(k); !v {
				continue
			}
			src := kt.Args[0].Args[0].String()
			if src == "p:"+selP+"[c:0]" && kind == "" {
				kind = kt.Args[0].Name
			}
			if src == "p:"+dataP && shape == "" {
				shape = kt.Args[0].Name
			}
		}
		if kind == "" {
			continue
		}
		// error exits of nested calls are E-err's business
		errNon := false
		for k, v := range p.Asg {
			if kt := p.KeyTerm[k]; kt != nil {
				if x, isN := isNilTest(kt); isN && isErrorType(x) && !isTrueC(v) {
					errNon = true
				}
			}
		}
		if errNon || (shape != "" && !p.Ret[1].Nil && !(p.Ret[1].T != nil && p.Ret[1].T.Op == "ext")) {
			continue // error exits (type errors of a pipe, failures of nested steps) are not success paths
		}
		if strings.HasPrefix(shape, "func()") {
			continue // c07.thunk-siblings
		}
		arm := kind + "/" + shape
		if shape == "" {
			arm = kind + "/other"
		}
		a := get(arm)
		a.n++
		r := ext0(p.Ret[0].T)
		fwd := func(want func(*Term) bool, argOK func(*Term) bool, what string) {
			if r == nil || r.Op != "call" || r.Name != "Reader" || len(r.Args) != 2 {
				a.why = append(a.why, "returns "+avString(p.Ret[0])+" instead of continuing with "+what)
				return
			}
			if !want(r.Args[1]) {
				a.why = append(a.why, "continues with the wrong selector list: "+r.Args[1].String())
			}
			if !argOK(r.Args[0]) {
				a.why = append(a.why, "continues on "+r.Args[0].String()+" instead of "+what)
			}
		}
		switch {
		case shape == "":
			if p.Ret[1].Nil {
				a.why = append(a.why, "a value of an unsupported shape does not yield an error")
			}
		case kind == "KeySelector" && (shape == "map[string]any" || shape == "Map"):
			fwd(rest, func(t *Term) bool {
				x, ok := callArgs(t, "SelectObject")
				return ok && len(x) == 2 && strings.Contains(x[0].String(), "p:"+dataP) && strings.Contains(x[1].String(), "p:"+selP+"[c:0]")
			}, "the object's value for the key")
		case (kind == "KeySelector" || kind == "[]*PipeSelector") && shape == "[]any":
			// result: make([]any, len(data)); element stores from Reader(item, selectors)
			if !(p.Ret[0].T != nil && strings.HasPrefix(p.Ret[0].T.String(), "make:slice")) {
				a.why = append(a.why, "does not return a fresh array: "+avString(p.Ret[0]))
			}
			for _, e := range p.Effects {
				if e.Kind == "call" && e.Callee == "Reader" && len(e.Args) == 2 && !same(e.Args[1]) {
					a.why = append(a.why, "an element is read with "+e.Args[1].String()+" instead of the same selectors")
				}
			}
		case kind == "[]*IndexSelector" && shape == "[]any":
			fwd(rest, func(t *Term) bool {
				x := ext0(t)
				if x == nil {
					return false
				}
				y, ok := callArgs(x, "SelectMany")
				return ok && len(y) == 2 && strings.Contains(y[0].String(), "p:"+dataP) && strings.Contains(y[1].String(), "p:"+selP+"[c:0]")
			}, "SelectMany(array, the index selectors)")
		case kind == "KeepDimension" && shape == "[]any":
			fwd(rest, func(t *Term) bool {
				x := ext0(t)
				if x == nil {
					return false
				}
				y, ok := callArgs(x, "SelectDimension")
				return ok && len(y) == 2 && strings.Contains(y[0].String(), "p:"+dataP) && strings.Contains(y[1].String(), "p:"+selP+"[c:0]")
			}, "SelectDimension(array, the selectors)")
		case kind == "[]*PipeSelector" && (shape == "map[string]any" || shape == "Map"):
			fwd(rest, func(t *Term) bool { return strings.HasPrefix(t.String(), "make:map") }, "the reshaped copy")
		}
	}
	want := []string{"KeySelector/map[string]any", "KeySelector/[]any", "[]*IndexSelector/[]any", "KeepDimension/[]any", "[]*PipeSelector/map[string]any", "[]*PipeSelector/[]any"}
	for _, w := range want {
		a := arms[w]
		if a == nil {
			// alias spelling of the map type
			a = arms[strings.Replace(w, "map[string]any", "Map", 1)]
		}
		if a == nil {
			c.Fail("c09.step-dispatch", "Reader/"+w, c.P.Pos(f.Pos()), "no success path for this arm")
			continue
		}
		c.Check(len(a.why) == 0, "c09.step-dispatch", "Reader/"+w, c.P.Pos(f.Pos()), fmt.Sprintf("%d paths continue correctly", a.n), strings.Join(uniq(a.why), "; "))
	}
	for k, a := range arms {
		if strings.HasSuffix(k, "/other") {
			c.Check(len(a.why) == 0, "c09.step-dispatch", "Reader/"+k, c.P.Pos(f.Pos()), "unsupported shape is an error", strings.Join(uniq(a.why), "; "))
		}
	}
	// base cases: no selectors => data; nil data => nil
	okBase, whyBase := false, "no path returns the data itself when no selectors are left"
	okNil := false
	for _, p := range paths {
		if p.Exit != "return" || !p.Ret[1].Nil {
			continue
		}
		work := 0
		for _, e := range p.Effects {
			if !(e.Kind == "call" && strings.HasPrefix(e.Callee, "builtin:")) {
				work++
			}
		}
		if p.Ret[0].T != nil && p.Ret[0].T.Op == "param" && p.Ret[0].T.Name == dataP && work == 0 {
			okBase = true
		}
		if p.Ret[0].Nil && work == 0 {
			okNil = true
		}
	}
	c.Check(okBase && okNil, "c09.step-dispatch", "Reader/base-cases", c.P.Pos(f.Pos()), "no selectors => data; NULL data => NULL", func() string {
		if !okBase {
			return whyBase
		}
		return "NULL data does not short-circuit to NULL (a missing key would fail the next step instead of yielding NULL)"
	}())
}

// ruleC09DimensionWalk: SelectDimension / SelectMany / Unwind.
func ruleC09DimensionWalk(c *Ctx) {
	c.Doc("c09.dimension-walk", "dimension walking: SelectDimension with no dimensions left returns its data; a range (m:n) slices the array with begin -> 0 and end -> len(array) defaults and recurses with the remaining dimensions; `each` maps the remaining dimensions over every element in order and returns the collected array; an index recurses into that element with the remaining dimensions; SelectMany flattens the result by len(dimensions)-1 levels (Unwind(depth): depth 0 is the identity, otherwise arrays are spliced one level and recursion continues with depth-1)")
	f := c.P.Func(modPath, "SelectDimension")
	if f == nil {
		c.Unknown("c09.dimension-walk", "SelectDimension", "-", "anchor lost")
		return
	}
	c.Fn("SelectDimension")
	dims := ""
	for _, pa := range f.Params {
		if strings.Contains(shortType(pa.Type()), "IndexSelector") {
			dims = pa.Name()
		}
	}
	// the dimensions still to be walked: the parameter itself (recursive form) or, when the tail calls were turned into
	// a loop, the loop-carried variable that starts as the parameter and drops its first element on every round
	var dimsParam, dataParam *ssa.Parameter
	for _, pa := range f.Params {
		if pa.Name() == dims {
			dimsParam = pa
		} else if dataParam == nil {
			dataParam = pa
		}
	}
	isRestOf := func(v ssa.Value, of ...ssa.Value) bool {
		sl, ok := v.(*ssa.Slice)
		if !ok || sl.High != nil || sl.Max != nil {
			return false
		}
		if k, isK := constIntOf(sl.Low); !isK || k != 1 {
			return false
		}
		for _, o := range of {
			if o != nil && sl.X == o {
				return true
			}
		}
		return false
	}
	var loopDims *ssa.Phi
	allInstrs(f, func(_ *ssa.BasicBlock, in ssa.Instruction) {
		ph, ok := in.(*ssa.Phi)
		if !ok || dimsParam == nil || !types.Identical(ph.Type(), dimsParam.Type()) {
			return
		}
		fromParam, rest := false, true
		for _, e := range ph.Edges {
			if e == ssa.Value(dimsParam) {
				fromParam = true
			} else if !isRestOf(e, ph) {
				rest = false
			}
		}
		if fromParam && rest && len(ph.Edges) >= 2 {
			loopDims = ph
		}
	})
	var why []string
	n := 0
	allInstrs(f, func(_ *ssa.BasicBlock, in ssa.Instruction) {
		call, ok := in.(*ssa.Call)
		if !ok || call.Common().StaticCallee() != f {
			return
		}
		n++
		var of []ssa.Value
		of = append(of, dimsParam)
		if loopDims != nil {
			of = append(of, loopDims)
		}
		if !isRestOf(call.Common().Args[1], of...) {
			why = append(why, "a recursive step does not continue with the remaining dimensions: "+NewTB().Of(call.Common().Args[1]).String())
		}
	})
	if loopDims != nil && dataParam != nil {
		// loop form: every round narrows the data (a range or an element of the array) and goes on with the rest
		for _, in := range loopDims.Block().Instrs {
			ph, ok := in.(*ssa.Phi)
			if !ok || ph == loopDims {
				continue
			}
			hasParam := false
			for _, e := range ph.Edges {
				if e == ssa.Value(dataParam) {
					hasParam = true
				}
			}
			if !hasParam {
				continue
			}
			seen := map[ssa.Value]bool{}
			for _, e := range ph.Edges {
				if e != ssa.Value(dataParam) && !seen[e] {
					seen[e] = true
					n++
				}
			}
		}
	}
	if n < 3 {
		why = append(why, fmt.Sprintf("only %d recursive steps found (range, each, index expected)", n))
	}
	// defaults of the range: begin==-1 -> 0 ; end==-1 -> len(array): the slice bounds are phis with those constants
	okDef := false
	allInstrs(f, func(_ *ssa.BasicBlock, in ssa.Instruction) {
		sl, ok := in.(*ssa.Slice)
		if !ok || sl.Low == nil || sl.High == nil {
			return
		}
		lo, hi := NewTB().Of(sl.Low).String(), NewTB().Of(sl.High).String()
		if strings.Contains(lo, "c:0") && strings.Contains(lo, "GetRange") && strings.Contains(hi, "builtin:len(") && strings.Contains(hi, "GetRange") {
			okDef = true
		}
	})
	if !okDef {
		why = append(why, "the range does not default `begin` to 0 and `end` to len(array)")
	}
	c.Check(len(why) == 0, "c09.dimension-walk", "SelectDimension", c.P.Pos(f.Pos()), fmt.Sprintf("%d recursive steps continue with dimensions[1:]; range defaults", n), strings.Join(uniq(why), "; "))

	// SelectMany: Unwind(result, len(dimensions)-1)
	if sm := c.P.Func(modPath, "SelectMany"); sm != nil {
		c.Fn("SelectMany")
		ok, whySM := false, "SelectMany does not flatten by len(dimensions)-1 levels"
		allInstrs(sm, func(_ *ssa.BasicBlock, in ssa.Instruction) {
			call, isC := in.(*ssa.Call)
			if !isC || call.Common().StaticCallee() == nil || call.Common().StaticCallee().Name() != "Unwind" {
				return
			}
			d := NewTB().Of(call.Common().Args[1])
			if d.Op == "bin" && d.Name == "-" && d.Args[0].Op == "call" && d.Args[0].Name == "builtin:len" && d.Args[1].Name == "1" {
				ok = true
			} else {
				whySM = "SelectMany flattens by " + d.String() + " levels"
			}
		})
		c.Check(ok, "c09.dimension-walk", "SelectMany", c.P.Pos(sm.Pos()), "Unwind(result, len(dimensions)-1)", whySM)
		// the depth is the number of WRITTEN dimensions minus one; only the dimensions that iterate (`each`) add a level
		// to the result, so an index-only selector over array-valued elements loses a level of the selected VALUE:
		// d[0:0] differs from d[0][0] when d[0][0] is itself an array of arrays
		countsIterating := false
		allInstrs(sm, func(_ *ssa.BasicBlock, in ssa.Instruction) {
			if call, isC := in.(*ssa.Call); isC && (strings.HasSuffix(calleeName(call.Common()), ".GetIndex") || strings.HasSuffix(calleeName(call.Common()), ".GetType")) {
				countsIterating = true
			}
		})
		c.Check(countsIterating, "c09.dimension-walk", "SelectMany/flatten-depth", c.P.Pos(sm.Pos()), "flattens by the number of iterating dimensions", "SelectMany flattens by len(dimensions)-1 whatever the dimensions are: an index dimension iterates nothing, so `d[0:0]` on {\"d\":[[[[1],[2]],[[3],[4]]]]} returns [1,2] where d[0][0] returns [[1],[2]] (one level of the selected value is removed)")
	}
	if uw := c.P.Func(modPath, "Unwind"); uw != nil {
		c.Fn("Unwind")
		var whyU []string
		paths, _ := WalkFunc(uw, WalkCfg{MaxVisits: 1})
		base := false
		for _, p := range paths {
			if p.Exit == "return" && p.Ret[0].T != nil && p.Ret[0].T.Op == "param" {
				for k, v := range p.Asg {
					if kt := p.KeyTerm[k]; kt != nil && kt.Op == "bin" && kt.Name == "==" && kt.Args[1].Name == "0" && isTrueC(v) {
						base = true
					}
				}
			}
		}
		if !base {
			whyU = append(whyU, "depth 0 is not the identity")
		}
		rec := false
		allInstrs(uw, func(_ *ssa.BasicBlock, in ssa.Instruction) {
			if call, ok := in.(*ssa.Call); ok && call.Common().StaticCallee() == uw {
				d := NewTB().Of(call.Common().Args[1])
				if d.Op == "bin" && d.Name == "-" && d.Args[1].Name == "1" {
					rec = true
				} else {
					whyU = append(whyU, "the recursion continues with depth "+d.String())
				}
			}
		})
		if !rec {
			whyU = append(whyU, "nested arrays are not unwound recursively with depth-1")
		}
		c.Check(len(whyU) == 0, "c09.dimension-walk", "Unwind", c.P.Pos(uw.Pos()), "depth 0 identity; depth-1 recursion on nested arrays", strings.Join(whyU, "; "))
	}
}

func init() { register("C09", ruleC09ArrowGuard, ruleC09ContinueSplit, ruleC09PipeString) }

// ruleC09ArrowGuard: `=>` is the function arrow only after a function name.
func ruleC09ArrowGuard(c *Ctx) {
	c.Doc("c09.function-arrow-guard", "selector parser (ParseSelector): the text in front of the first `=>` is taken for a top-level function name only when it passes the identifier test (isFunctionName, which rejects every byte outside [A-Za-z0-9_]); otherwise the `=>` belongs to the selector — `data[keep=>0:1]` keeps its dimension and a quoted key containing `=>` stays a key")
	f := c.P.Func(modPath, "ParseSelector")
	if f == nil {
		c.Unknown("c09.function-arrow-guard", "ParseSelector", "-", "anchor lost")
		return
	}
	guard := c.P.Func(modPath, "isFunctionName")
	n, ok := 0, true
	why := ""
	allInstrs(f, func(b *ssa.BasicBlock, in ssa.Instruction) {
		// the conversion of the prefix to TopLevelFunctionSelector
		ct, isCT := in.(*ssa.ChangeType)
		if !isCT || shortType(ct.Type()) != "TopLevelFunctionSelector" {
			return
		}
		n++
		guarded := false
		for _, fc := range factsAt(b) {
			cond, truth := fc.cond, fc.truth
			for {
				u, isU := cond.(*ssa.UnOp)
				if !isU || u.Op != token.NOT {
					break
				}
				cond, truth = u.X, !truth
			}
			if gc, isCall := cond.(*ssa.Call); isCall && guard != nil && gc.Common().StaticCallee() == guard && truth {
				guarded = true
			}
		}
		if !guarded {
			ok, why = false, "the text in front of `=>` becomes a function name without an identifier test: `data[keep=>0:1:2]` fails with `data[keep is not a function` and a quoted key containing `=>` is torn apart"
		}
	})
	if n == 0 {
		ok, why = false, "anchor lost: no TopLevelFunctionSelector conversion"
	}
	if ok && guard != nil {
		// the identifier test returns false inside its loop on a byte outside the classes, true after the loop
		paths, err := WalkFunc(guard, WalkCfg{MaxVisits: 2})
		if err != nil {
			ok, why = false, err.Error()
		}
		sawFalse, sawTrue := false, false
		for _, p := range paths {
			if p.Exit != "return" || len(p.Ret) != 1 || p.Ret[0].C == nil {
				continue
			}
			if isTrueC(p.Ret[0].C) {
				sawTrue = true
			} else {
				sawFalse = true
			}
		}
		if !sawFalse || !sawTrue {
			ok, why = false, "isFunctionName does not reject anything"
		}
	}
	c.Check(ok, "c09.function-arrow-guard", "ParseSelector", c.P.Pos(f.Pos()), "function arrow only after an identifier", why)
}

// ruleC09ContinueSplit: `::` continues only outside quotes.
func ruleC09ContinueSplit(c *Ctx) {
	c.Doc("c09.continue-split", "`::` continuation: the cache function splits the selector text with the quote-aware splitter (splitContinue), never with strings.Split on `::`; in the splitter the branch that closes a part is reachable only while no quote is open (dominated by the quoted flag being false) and the flag toggles on the single quote")
	var cs *ssa.Function
	for _, f := range c.P.pkgFuncs(modPath) {
		if f.Name() == "CachedSelectors" {
			cs = f
		}
	}
	sp := c.P.Func(modPath, "splitContinue")
	if cs == nil {
		c.Unknown("c09.continue-split", "CachedSelectors", "-", "anchor lost")
		return
	}
	var why []string
	usesSplitter := false
	allInstrs(cs, func(_ *ssa.BasicBlock, in ssa.Instruction) {
		call, ok := in.(*ssa.Call)
		if !ok || call.Common().StaticCallee() == nil {
			return
		}
		name := funcName(call.Common().StaticCallee())
		if name == "strings.Split" || name == "strings.SplitN" {
			if s, isS := constString(call.Call.Args[1]); isS && s == "::" {
				why = append(why, "the selector is split at every `::`, also inside a quoted key: `'a::b'` reads NULL instead of the key a::b")
			}
		}
		if sp != nil && call.Common().StaticCallee() == sp {
			usesSplitter = true
		}
	})
	if sp == nil {
		if len(why) == 0 {
			why = append(why, "anchor lost: splitContinue")
		}
	} else {
		if !usesSplitter {
			why = append(why, "the cache function does not split with splitContinue")
		}
		c.Fn("splitContinue")
		// the append that closes a part inside the loop is dominated by quoted == false
		hs := loopHeaders(sp)
		n := 0
		allInstrs(sp, func(b *ssa.BasicBlock, in ssa.Instruction) {
			call, ok := in.(*ssa.Call)
			if !ok {
				return
			}
			if bi, isB := call.Call.Value.(*ssa.Builtin); !isB || bi.Name() != "append" {
				return
			}
			inLoop := false
			for _, h := range hs {
				if inNaturalLoop(h, b) {
					inLoop = true
				}
			}
			if !inLoop {
				return
			}
			n++
			guarded := false
			for _, fc := range factsAt(b) {
				cond, truth := fc.cond, fc.truth
				for {
					u, isU := cond.(*ssa.UnOp)
					if !isU || u.Op != token.NOT {
						break
					}
					cond, truth = u.X, !truth
				}
				if ph, isPhi := cond.(*ssa.Phi); isPhi && ph.Type().String() == "bool" && !truth && loopCarried(sp, ph) {
					guarded = true
				}
			}
			if !guarded {
				why = append(why, "a part is closed at `::` without testing that no quote is open")
			}
		})
		if n == 0 {
			why = append(why, "the splitter closes no part inside its loop")
		}
		toggles := false
		allInstrs(sp, func(_ *ssa.BasicBlock, in ssa.Instruction) {
			if bo, ok := in.(*ssa.BinOp); ok && bo.Op == token.EQL {
				if k, isK := constIntOf(bo.Y); isK && k == 39 {
					toggles = true
				}
			}
		})
		if !toggles {
			why = append(why, "the splitter never tests for the single quote")
		}
	}
	c.Check(len(why) == 0, "c09.continue-split", "CachedSelectors", c.P.Pos(cs.Pos()), "quote-aware split at `::`", strings.Join(uniq(why), "; "))
}

// ruleC09PipeString: {k|string}.
func ruleC09PipeString(c *Ctx) {
	c.Doc("c09.pipe-string", "reshaping step `{k|string}` (the STRING arm of Reader's pipe case): a missing or NULL value stays NULL (the generic %v conversion is reachable only for non-nil values); a number is converted by strconv.FormatFloat(v, 'f', -1, 64) — no conversion through int64 (which saturates beyond 2^63) and no fixed six-digit %f")
	f := c.P.Func(modPath, "Reader")
	if f == nil {
		c.Unknown("c09.pipe-string", "Reader", "-", "anchor lost")
		return
	}
	var why []string
	nSprintf, nFmtFloat := 0, 0
	deepInstrs(f, func(g *ssa.Function, tb *TB, b *ssa.BasicBlock, in ssa.Instruction) {
		// only the pipe STRING arm: blocks dominated by GetType() == STRING ... identified by the stores into the reshaped copy
		switch x := in.(type) {
		case *ssa.Convert:
			if bt, ok := x.Type().Underlying().(*types.Basic); ok && bt.Kind() == types.Int64 {
				if st, ok := x.X.Type().Underlying().(*types.Basic); ok && st.Kind() == types.Float64 {
					why = append(why, "a float64 value is converted through int64 at "+c.P.Pos(x.Pos())+": numbers beyond 2^63 become -9223372036854775808")
				}
			}
		case *ssa.Call:
			name := calleeName(x.Common())
			if name == "strconv.FormatFloat" {
				nFmtFloat++
				a := x.Call.Args
				if len(a) == 4 {
					f1, _ := constIntOf(a[1])
					p1, _ := constIntOf(a[2])
					if f1 != 'f' || p1 != -1 {
						why = append(why, "numbers are formatted with a format other than ('f', -1): exponents or padding appear in the text")
					}
				}
			}
			if name == "fmt.Sprintf" && len(x.Call.Args) == 2 {
				if fs, isS := constString(x.Call.Args[0]); isS && (fs == "%v" || fs == "%f" || fs == "%d") {
					t := tb.Of(x.Call.Args[1])
					if !strings.Contains(t.String(), "GetKey(") {
						return
					}
					if fs != "%v" {
						why = append(why, "a value is rendered with "+fs+" at "+c.P.Pos(x.Pos()))
						return
					}
					nSprintf++
					// reachable only for a non-nil value
					guarded := false
					// the value that is formatted
					var formatted ssa.Value
					if sl, isSl := x.Call.Args[1].(*ssa.Slice); isSl {
						if al, isAl := sl.X.(*ssa.Alloc); isAl {
							for _, st := range storesToArray(al) {
								formatted = st.Val
								if mi, isMI := formatted.(*ssa.MakeInterface); isMI {
									formatted = mi.X
								}
							}
						}
					}
					for _, fc := range factsAt(b) {
						bo, isBo := fc.cond.(*ssa.BinOp)
						if !isBo || !isNilConst(bo.Y) || formatted == nil || bo.X != formatted {
							continue
						}
						if bo.Op == token.EQL && !fc.truth || bo.Op == token.NEQ && fc.truth {
							guarded = true
						}
					}
					if !guarded {
						why = append(why, "the %v conversion is reachable with a NULL value: `{id|string}` on a missing key yields the text `<nil>`")
					}
				}
			}
		}
	})
	if nSprintf == 0 {
		why = append(why, "anchor lost: no %v conversion of a reshaped value")
	}
	if nFmtFloat == 0 {
		why = append(why, "numbers are not converted with strconv.FormatFloat")
	}
	c.Check(len(why) == 0, "c09.pipe-string", "Reader/{k|string}", c.P.Pos(f.Pos()), "NULL stays NULL; numbers through FormatFloat('f', -1)", strings.Join(uniq(why), "; "))
}

// a parse that an evaluation can change makes the next evaluation of the same query differ (C12)
func init() { register("C12", ruleC09ParsedImmutable) }

func init() { register("C09", ruleC09PipeNumber) }

// ruleC09PipeNumber: `{k|number}` leaves a missing key NULL.
func ruleC09PipeNumber(c *Ctx) {
	c.Doc("c09.pipe-number", "reshaping step `{k|number}` (the NUMBER arm of Reader's pipe case): the value read under the key is tested against NULL before it is required to be a string — a missing or NULL key stays NULL, as it does for `{k}` and `{k|string}`; without the test one row that lacks the key fails the whole selector with `k is of <nil> type`")
	f := c.P.Func(modPath, "Reader")
	if f == nil {
		c.Unknown("c09.pipe-number", "Reader", "-", "anchor lost")
		return
	}
	n := 0
	var why []string
	deepInstrs(f, func(g *ssa.Function, tb *TB, b *ssa.BasicBlock, in ssa.Instruction) {
		ta, ok := in.(*ssa.TypeAssert)
		if !ok || !ta.CommaOk || shortType(ta.AssertedType) != "string" {
			return
		}
		if !strings.Contains(tb.Of(ta.X).String(), "GetKey(") {
			return
		}
		n++
		guarded := false
		for _, fc := range factsAt(b) {
			bo, isBo := fc.cond.(*ssa.BinOp)
			if !isBo || !isNilConst(bo.Y) {
				continue
			}
			// the same value, or another read of the same key
			if bo.X != ta.X && tb.Of(bo.X).String() != tb.Of(ta.X).String() {
				continue
			}
			if bo.Op == token.EQL && !fc.truth || bo.Op == token.NEQ && fc.truth {
				guarded = true
			}
		}
		if !guarded {
			why = append(why, "the value under the key is required to be a string at "+c.P.Pos(ta.Pos())+" before NULL is considered: `{id|number}` fails on a row without `id`")
		}
	})
	if n == 0 {
		c.Unknown("c09.pipe-number", "Reader/{k|number}", c.P.Pos(f.Pos()), "anchor lost: no string requirement on a reshaped value")
		return
	}
	c.Check(len(why) == 0, "c09.pipe-number", "Reader/{k|number}", c.P.Pos(f.Pos()), "NULL stays NULL", strings.Join(uniq(why), "; "))
}

func init() {
	register("C09", ruleC09NoLiteralShortcut)
	register("C01", ruleC09NoLiteralShortcut)
	register("C02", ruleC09NoLiteralShortcut)
}

// ruleC09NoLiteralShortcut: a selector text is never used as a map key of the document.
func ruleC09NoLiteralShortcut(c *Ctx) {
	c.Doc("c09.no-literal-shortcut", "in every function reachable from ExecReader: a string parameter that is handed to the selector parser (directly or through the cache) is never also used, as it stands, as the key of a lookup in the data — `a.b` means the path a -> b even when the object happens to hold a key spelled `a.b`, and a missing path is NULL whatever literal keys exist")
	reach := c.readerReach()
	parser := c.P.Func(modPath, "ParseSelector")
	if reach == nil || parser == nil {
		c.Unknown("c09.no-literal-shortcut", "ExecReader", "-", "anchor lost")
		return
	}
	// functions from which the parser is reachable by static calls
	toParser := map[*ssa.Function]bool{parser: true}
	for changed := true; changed; {
		changed = false
		for f := range reach {
			if toParser[f] {
				continue
			}
			allInstrs(f, func(_ *ssa.BasicBlock, in ssa.Instruction) {
				if call, ok := in.(ssa.CallInstruction); ok {
					if sc := call.Common().StaticCallee(); sc != nil && toParser[sc] && !toParser[f] {
						toParser[f] = true
						changed = true
					}
				}
			})
		}
	}
	n := 0
	var why []string
	for f := range reach {
		if f.Blocks == nil {
			continue
		}
		// string parameters that travel on to the parser
		sel := map[*ssa.Parameter]bool{}
		allInstrs(f, func(_ *ssa.BasicBlock, in ssa.Instruction) {
			call, ok := in.(ssa.CallInstruction)
			if !ok {
				return
			}
			sc := call.Common().StaticCallee()
			if sc == nil || !toParser[sc] {
				return
			}
			for _, a := range call.Common().Args {
				if p, isP := a.(*ssa.Parameter); isP && p.Type().String() == "string" {
					sel[p] = true
				}
			}
		})
		if len(sel) == 0 {
			continue
		}
		n++
		allInstrs(f, func(_ *ssa.BasicBlock, in ssa.Instruction) {
			lk, ok := in.(*ssa.Lookup)
			if !ok {
				return
			}
			p, isP := lk.Index.(*ssa.Parameter)
			if !isP || !sel[p] {
				return
			}
			t := NewTB().Of(lk.X)
			if strings.HasPrefix(t.String(), "g:") || t.Op == "global" {
				return // the cache of parsed selectors, keyed by the text
			}
			why = append(why, fmt.Sprintf("%s looks the selector text %s up as a literal key of %s at %s", c.P.funcKey(f), p.Name(), t.String(), c.P.Pos(lk.Pos())))
		})
	}
	if n == 0 {
		c.Unknown("c09.no-literal-shortcut", "ExecReader", "-", "no function hands a string parameter to the selector parser")
		return
	}
	c.Check(len(why) == 0, "c09.no-literal-shortcut", "reader", c.P.Pos(parser.Pos()), fmt.Sprintf("%d functions pass a selector text on to the parser; none uses it as a literal key of the data", n), strings.Join(uniq(why), "; "))
}

func init() { register("C09", ruleC09EachOnlyForIndex) }

// ruleC09EachOnlyForIndex: `each` is an index selector whose index is -1; a range uses -1 for `begin` and `end`. A condition
// over two functions: the evaluator may test for `each` before it looks at the selector's kind only if no range selector is
// ever built with a value in its index field.
func ruleC09EachOnlyForIndex(c *Ctx) {
	c.Doc("c09.each-only-for-index", "the `each` test of the dimension walker (index == -1) is made under the INDEX arm of the selector-kind dispatch, or no constructor of a RANGE selector stores anything into the index field: otherwise `(begin:n)` -- begin is -1 -- iterates the whole dimension instead of slicing it")
	consts := c.P.enumConsts(modPath, "IndexType")
	var rangeV int64 = -1
	for v, n := range consts {
		if n == "RANGE" {
			rangeV = v
		}
	}
	var walker *ssa.Function
	for _, f := range c.P.pkgFuncs(modPath) {
		if f.Parent() == nil && paramOfType(f, "[]*IndexSelector") != nil && (walker == nil || selfCalls(f)) {
			walker = f
		}
	}
	if walker == nil || rangeV < 0 {
		c.Unknown("c09.each-only-for-index", "SelectDimension", "-", "anchor lost: no function over []*IndexSelector (or no RANGE constant)")
		return
	}
	key := c.P.funcKey(walker)
	c.Fn(key)
	tb := NewTB()
	// the each tests: comparisons of the selector's index with -1, in the walker and in whatever it calls in the module
	unguarded := ""
	n := 0
	deepInstrs(walker, func(_ *ssa.Function, _ *TB, b *ssa.BasicBlock, in ssa.Instruction) {
		bo, ok := in.(*ssa.BinOp)
		if !ok || (bo.Op != token.EQL && bo.Op != token.NEQ) {
			return
		}
		k, isK := constIntOf(bo.Y)
		if !isK || k != -1 {
			return
		}
		xt := tb.Of(bo.X).String()
		if !strings.Contains(xt, "GetIndex(") && !strings.Contains(xt, ".indexSelector") {
			return
		}
		n++
		under := false
		for _, fc := range factsAt(b) {
			if ct := tb.Of(fc.cond).String(); strings.Contains(ct, "GetType(") || strings.Contains(ct, ".selectorType") {
				under = true
			}
		}
		if !under {
			unguarded = c.P.Pos(bo.Pos())
		}
	})
	if n == 0 {
		// `each` recognised some other way (a flag, a kind of its own): nothing for this rule to decide
		c.PassTrivial("c09.each-only-for-index", key, c.P.Pos(walker.Pos()), "the dimension walker does not recognise `each` by comparing an index with -1")
		return
	}
	// range selectors built with an index: a record whose selectorType is stored as RANGE and whose indexSelector is stored too
	withIndex := ""
	for _, f := range c.P.pkgFuncs(modPath) {
		allInstrs(f, func(_ *ssa.BasicBlock, in ssa.Instruction) {
			al, ok := in.(*ssa.Alloc)
			if !ok || shortType(al.Type()) != "*IndexSelector" || al.Referrers() == nil {
				return
			}
			isRange, hasIndex := false, false
			for _, r := range *al.Referrers() {
				fa, isFA := r.(*ssa.FieldAddr)
				if !isFA || fa.Referrers() == nil {
					continue
				}
				for _, rr := range *fa.Referrers() {
					st, isSt := rr.(*ssa.Store)
					if !isSt || st.Addr != ssa.Value(fa) {
						continue
					}
					switch fieldName(fa.X.Type(), fa.Field) {
					case "selectorType":
						if v, isC := constIntOf(st.Val); isC && v == rangeV {
							isRange = true
						}
					case "indexSelector":
						if v, isC := constIntOf(st.Val); !isC || v != 0 {
							hasIndex = true
						}
					}
				}
			}
			if isRange && hasIndex {
				withIndex = c.P.funcKey(f) + " builds a RANGE selector with a value in its index field at " + c.P.Pos(al.Pos())
			}
		})
	}
	why := ""
	if unguarded != "" && withIndex != "" {
		why = "the `each` test at " + unguarded + " is made before the selector's kind is known, and " + withIndex + ": a range that starts at `begin` (-1) is taken for `each`"
	}
	c.Check(why == "", "c09.each-only-for-index", key, c.P.Pos(walker.Pos()), fmt.Sprintf("%d each tests: under the kind dispatch, or ranges carry no index", n), why)
}
