package main

import (
	"fmt"
	"go/token"
	"go/types"
	"strings"

	"golang.org/x/tools/go/ssa"
)

func init() {
	register("C09", ruleC09Total, ruleC09ReadOnly, ruleC09ParsedImmutable, ruleC09CacheKey, ruleC10LockPairing, ruleC09ThunkArms)
}

// readerReach: the module functions reachable from ExecReader on a JSON-like document, i.e. not
// through calls of lazy CTE thunks (values of type func() (any, error), which only the query
// engine puts into its own data and whose evaluation is the engine's, covered by C10/C19).
func (c *Ctx) readerReach() map[*ssa.Function]bool {
	er := c.P.Func(modPath, "ExecReader")
	if er == nil {
		return nil
	}
	cg := c.P.CallGraph()
	seen := map[*ssa.Function]bool{}
	q := []*ssa.Function{er}
	for len(q) > 0 {
		f := q[0]
		q = q[1:]
		if seen[f] {
			continue
		}
		seen[f] = true
		for _, a := range f.AnonFuncs {
			q = append(q, a)
		}
		n := cg.Nodes[f]
		if n == nil {
			continue
		}
		for _, e := range n.Out {
			if !c.P.InModule(e.Callee.Func) || seen[e.Callee.Func] {
				continue
			}
			if e.Site != nil && e.Site.Common().StaticCallee() == nil && !e.Site.Common().IsInvoke() {
				if sig, ok := e.Site.Common().Value.Type().Underlying().(*types.Signature); ok && sig.Params().Len() == 0 && sig.Results().Len() == 2 {
					continue // a thunk call
				}
			}
			q = append(q, e.Callee.Func)
		}
	}
	return seen
}

// libLenAtLeast1: values whose length is known to be >= 1 from library facts.
func libLenAtLeast1(v ssa.Value) bool {
	call, ok := v.(*ssa.Call)
	if !ok || call.Common().StaticCallee() == nil {
		return false
	}
	switch call.Common().StaticCallee().String() {
	case "strings.Split":
		// strings.Split(s, sep) with a non-empty separator returns at least one element
		if sep, isC := constString(call.Common().Args[1]); isC && sep != "" {
			return true
		}
		if cv, isConv := call.Common().Args[1].(*ssa.Convert); isConv {
			if _, isC := cv.X.(*ssa.Const); isC {
				return true
			}
		}
	case "strings.SplitN":
		if n, isC := constIntOf(call.Common().Args[2]); isC && n >= 1 {
			return true
		}
	}
	return false
}

// regexpMatchElem: v is an element of the result of FindAllString on one of the module's
// package-level patterns (every alternative of which is non-nullable: checked separately).
func regexpMatchElem(v ssa.Value) bool {
	// exactly an element of the result: load(IndexAddr(FindAllString(...), i)) — not a value derived from it
	// (trimming a match can make it empty)
	ld, ok := v.(*ssa.UnOp)
	if !ok || ld.Op != token.MUL {
		return false
	}
	ia, ok := ld.X.(*ssa.IndexAddr)
	if !ok {
		return false
	}
	call, ok := ia.X.(*ssa.Call)
	if !ok || call.Common().StaticCallee() == nil {
		return false
	}
	return call.Common().StaticCallee().String() == "(*regexp.Regexp).FindAllString"
}

func ruleC09Total(c *Ctx) {
	c.Doc("c09.total", "every function reachable from ExecReader (which has no recover): no single-result type assertion unless dominated by a successful comma-ok test of the same value to the same type; every index and slice expression on a slice or string is proven in range (both bounds) from dominating guards, range-loop indices, array types, len facts of strings.Split and non-empty regexp matches; so applying a step to a value of the wrong shape, or an index or slice bound outside the array, cannot panic")
	c.NotDecidedClause("C09: agreement of the evaluation with the documented grammar over all selector strings (incl. the `data[keep=>…]` split) — values computed by regexp tokenisation, no structural footprint")
	c.Assume("registered top-level functions (unknown callees) do not panic")
	reach := c.readerReach()
	if reach == nil {
		c.Unknown("c09.total", "ExecReader", "-", "anchor lost")
		return
	}
	nAssert, nIndex := 0, 0
	for f := range reach {
		if funcPkgPath(f) != modPath || len(f.Blocks) == 0 {
			continue
		}
		fk := c.P.funcKey(f)
		c.Fn(fk)
		ka, ki := 0, 0
		allInstrs(f, func(b *ssa.BasicBlock, in ssa.Instruction) {
			switch in := in.(type) {
			case *ssa.TypeAssert:
				if in.CommaOk {
					return
				}
				nAssert++
				ka++
				key := fmt.Sprintf("%s/assert#%d", fk, ka)
				// dominated by a successful comma-ok assertion of the same operand to the same type
				ok := false
				for _, fc := range factsAt(b) {
					if !fc.truth {
						continue
					}
					if ex, isEx := fc.cond.(*ssa.Extract); isEx && ex.Index == 1 {
						if ta, isTA := ex.Tuple.(*ssa.TypeAssert); isTA && ta.X == in.X && types.Identical(ta.AssertedType, in.AssertedType) {
							ok = true
						}
					}
				}
				// generic constraint switches `any(value).(type)` inside instantiations assert to the instance's own type
				if mi, isMI := in.X.(*ssa.MakeInterface); isMI && types.Identical(mi.X.Type(), in.AssertedType) {
					ok = true
				}
				c.Check(ok, "c09.total", key, c.P.Pos(in.Pos()), "dominated by a successful comma-ok test of the same value", "single-result assertion "+shortType(in.AssertedType)+" of "+NewTB().Of(in.X).String()+" without a dominating type test: a value of another shape panics out of ExecReader")
			case *ssa.IndexAddr, *ssa.Index:
				var x, idx ssa.Value
				if ia, isIA := in.(*ssa.IndexAddr); isIA {
					x, idx = ia.X, ia.Index
				} else {
					x, idx = in.(*ssa.Index).X, in.(*ssa.Index).Index
				}
				// arrays (and pointers to arrays) with constant or range indices are checked by the compiler
				xt := x.Type().Underlying()
				if p, isP := xt.(*types.Pointer); isP {
					xt = p.Elem().Underlying()
				}
				if at, isArr := xt.(*types.Array); isArr {
					if k, isC := constIntOf(idx); isC && k >= 0 && k < at.Len() {
						return
					}
				}
				if _, isMap := xt.(*types.Map); isMap {
					return
				}
				// range loop index: phi + 1 guarded by the loop header
				if bo, isB := idx.(*ssa.BinOp); isB && bo.Op == token.ADD {
					if _, isPhi := bo.X.(*ssa.Phi); isPhi {
						if k, isC := constIntOf(bo.Y); isC && k == 1 {
							return
						}
					}
				}
				nIndex++
				ki++
				key := fmt.Sprintf("%s/index#%d", fk, ki)
				fs := factsAt(b)
				upper := proveLTLen(idx, x, fs, 0)
				lower := proveGE0(idx, fs, 0)
				if k, isC := constIntOf(idx); isC && k == 0 && !upper {
					// element 0 of a value known to be non-empty
					if libLenAtLeast1(x) || regexpMatchElem(x) {
						upper = true
					}
				}
				why := ""
				if !upper {
					why = "upper bound of " + NewTB().Of(idx).String() + " into " + NewTB().Of(x).String() + " is not proven"
				}
				if !lower {
					why += " lower bound not proven"
				}
				c.Check(upper && lower, "c09.total", key, c.P.Pos(in.Pos()), "0 <= index < len proven", strings.TrimSpace(why))
			case *ssa.Slice:
				if a, isA := in.X.(*ssa.Alloc); isA && (a.Comment == "varargs" || a.Comment == "slicelit" || a.Comment == "makeslice") {
					return
				}
				if _, isArrPtr := in.X.Type().Underlying().(*types.Pointer); isArrPtr && in.Low == nil && in.High == nil {
					return
				}
				if in.Low == nil && in.High == nil {
					return
				}
				nIndex++
				ki++
				key := fmt.Sprintf("%s/slice#%d", fk, ki)
				fs := factsAt(b)
				var why []string
				if in.Low != nil {
					okLow := proveLELen(in.Low, in.X, fs, 0)
					if k, isC := constIntOf(in.Low); isC && k == 1 && !okLow {
						// x[1:] under len(x) != 0 / len(x) >= 1 / element 0 read before
						if proveLTLen(ssa.NewConst(constantInt(0), in.Low.Type()), in.X, fs, 0) {
							okLow = true
						}
						for _, fc := range relFacts(fs) {
							if isLenOf(fc.x, in.X) {
								if n, isN := constIntOf(fc.y); isN && (fc.r == relNE && n == 0 || fc.r == relGT && n >= 0 || fc.r == relGE && n >= 1) {
									okLow = true
								}
							}
						}
					}
					if !okLow {
						why = append(why, "low bound "+NewTB().Of(in.Low).String()+" not proven <= len")
					}
					if !proveGE0(in.Low, fs, 0) {
						why = append(why, "low bound not proven >= 0")
					}
				}
				if in.High != nil {
					if !proveLELen(in.High, in.X, fs, 0) {
						why = append(why, "high bound "+NewTB().Of(in.High).String()+" not proven <= len")
					}
					if in.Low != nil {
						// low <= high
						okLH := false
						for _, fc := range relFacts(fs) {
							if fc.x == in.Low && fc.y == in.High && (fc.r == relLE || fc.r == relLT || fc.r == relEQ) {
								okLH = true
							}
						}
						if !okLH {
							why = append(why, "low <= high not proven")
						}
					}
				}
				c.Check(len(why) == 0, "c09.total", key, c.P.Pos(in.Pos()), "slice bounds proven", strings.Join(why, "; "))
			}
		})
	}
	c.Notes = append(c.Notes, fmt.Sprintf("c09.total: %d unchecked-form assertions and %d index/slice sites examined in %d functions reachable from ExecReader", nAssert, nIndex, len(reach)))
	if nIndex < 8 {
		c.Unknown("c09.total", "inventory", "-", fmt.Sprintf("only %d index/slice sites found on the selector path", nIndex))
	}
	// the module's selector patterns cannot match the empty string (match[0] relies on it)
	c.checkPatternsNonNullable()
}

func ruleC09ReadOnly(c *Ctx) {
	c.Doc("c09.read-only", "evaluation never modifies the document: no write site in the functions reachable from ExecReader can target the document parameter or anything reachable from it (ownership analysis seeded at ExecReader's data parameter)")
	reach := c.readerReach()
	if reach == nil {
		c.Unknown("c09.read-only", "ExecReader", "-", "anchor lost")
		return
	}
	n, _ := c.classifyWrites("c09.read-only", reach, false)
	if n < 10 {
		c.Unknown("c09.read-only", "inventory", "-", fmt.Sprintf("only %d write sites found on the selector path", n))
	}
}

// ruleC09ThunkArms: every selector-kind arm of Reader that accepts data also resolves lazy CTE thunks.
func ruleC09ThunkArms(c *Ctx) {
	c.Doc("c07.thunk-siblings", "step dispatch (Reader): every selector-kind arm handles a lazy CTE thunk (func() (any, error)) by calling it, returning its error, and re-dispatching the SAME selector list on the result; a missing key yields NULL (nil data short-circuits)")
	f := c.P.Func(modPath, "Reader")
	if f == nil {
		c.Unknown("c07.thunk-siblings", "Reader", "-", "anchor lost")
		return
	}
	c.Fn("Reader")
	paths, err := WalkFunc(f, WalkCfg{MaxVisits: 1, MaxPaths: 8000})
	if err != nil {
		c.Unknown("c07.thunk-siblings", "Reader", c.P.Pos(f.Pos()), err.Error())
		return
	}
	selP, dataP := "", ""
	for _, pa := range f.Params {
		if shortType(pa.Type()) == "[]any" {
			selP = pa.Name()
		} else {
			dataP = pa.Name()
		}
	}
	kinds := map[string]bool{}
	thunk := map[string]string{}
	for _, p := range paths {
		kind, isThunk := "", false
		for _, k := range p.Order {
			kt := p.KeyTerm[k]
			if kt == nil || kt.Op != "ext" || kt.Name != "1" || kt.Args[0].Op != "assertok" {
				continue
			}
			if v, _ := p.Assumed(k); !v {
				continue
			}
			src := kt.Args[0].Args[0].String()
			if src == "p:"+selP+"[c:0]" {
				kind = kt.Args[0].Name
			}
			if strings.Contains(src, "p:"+dataP) && strings.HasPrefix(kt.Args[0].Name, "func()") {
				isThunk = true
			}
		}
		if kind == "" {
			continue
		}
		kinds[kind] = true
		if !isThunk || p.Exit != "return" {
			continue
		}
		// error path of the thunk, or the re-dispatch
		errNon := false
		for k, v := range p.Asg {
			if kt := p.KeyTerm[k]; kt != nil {
				if x, isN := isNilTest(kt); isN && isErrorType(x) && !isTrueC(v) {
					errNon = true
				}
			}
		}
		if errNon {
			if p.Ret[1].Nil {
				thunk[kind] = "the thunk's error is not returned"
			}
			continue
		}
		r := ext0(p.Ret[0].T)
		good := r != nil && r.Op == "call" && r.Name == "Reader" && len(r.Args) == 2 && r.Args[1].Op == "param" && r.Args[1].Name == selP && strings.Contains(r.Args[0].String(), "dyn(")
		if good {
			if thunk[kind] == "" {
				thunk[kind] = "ok"
			}
		} else {
			thunk[kind] = "after resolving the thunk the arm does not re-dispatch the same selector list on the result: " + avString(p.Ret[0])
		}
	}
	if len(kinds) < 4 {
		c.Unknown("c07.thunk-siblings", "Reader/kinds", c.P.Pos(f.Pos()), fmt.Sprintf("only %d selector kinds found in the dispatch", len(kinds)))
	}
	for k := range kinds {
		st := thunk[k]
		c.Check(st == "ok", "c07.thunk-siblings", "Reader/"+k, c.P.Pos(f.Pos()), "thunk called, error returned, same selectors re-dispatched", func() string {
			if st == "" {
				return "the " + k + " arm has no case for a lazy CTE thunk: a CTE read through this selector kind fails"
			}
			return st
		}())
	}
}


// ruleC09ParsedImmutable: parsed selectors (shared through the process-wide cache) are never written after construction.
func ruleC09ParsedImmutable(c *Ctx) {
	c.Doc("c09.parsed-immutable", "the parsed selector objects (IndexSelector, PipeSelector — shared by every later evaluation through the process-wide cache) are written only by the functions that allocate them: no write site on the evaluation path may target their fields or storage reached through them (e.g. the slice GetRange returns)")
	reach := c.readerReach()
	if reach == nil {
		c.Unknown("c09.parsed-immutable", "ExecReader", "-", "anchor lost")
		return
	}
	o := c.own()
	allocators := map[*ssa.Function]bool{}
	for f := range reach {
		allInstrs(f, func(_ *ssa.BasicBlock, in ssa.Instruction) {
			if a, ok := in.(*ssa.Alloc); ok && (isNamedType(a.Type(), modPath, "IndexSelector") || isNamedType(a.Type(), modPath, "PipeSelector")) {
				allocators[f] = true
			}
		})
	}
	n := 0
	for _, w := range o.Writes {
		if !reach[w.Fn] {
			continue
		}
		hit := ""
		for _, id := range w.Objs {
			ob := o.objs[id]
			if ob.kind == "field" && (strings.HasPrefix(ob.label, "IndexSelector.") || strings.HasPrefix(ob.label, "PipeSelector.")) {
				hit = ob.label
			}
		}
		if hit == "" {
			continue
		}
		n++
		key := c.writeKey(w)
		c.Check(allocators[w.Fn], "c09.parsed-immutable", key, c.P.Pos(w.Instr.Pos()), "written by the function that allocates the selector", "a cached, shared parsed selector ("+hit+") is written during evaluation: the change leaks into every later use of the same selector text")
	}
	if n == 0 {
		c.PassTrivial("c09.parsed-immutable", "selectors", "-", "no write to selector fields outside composite literals")
	}
}

// ruleC09CacheKey: the cache maps a selector text to the parse of that very text.
func ruleC09CacheKey(c *Ctx) {
	c.Doc("c09.cache-key", "the selector cache is looked up and filled under the same key, and the value stored under a key is the parse of the very text the key is computed from (the parse input contains the key's term): two selector texts that differ can never be served each other's parse")
	var f *ssa.Function
	var upd *ssa.MapUpdate
	for _, g := range c.P.pkgFuncs(modPath) {
		allInstrs(g, func(_ *ssa.BasicBlock, in ssa.Instruction) {
			if mu, ok := in.(*ssa.MapUpdate); ok {
				if ld, ok := mu.Map.(*ssa.UnOp); ok {
					if gl, ok := ld.X.(*ssa.Global); ok && gl.Name() == "cache" {
						f, upd = g, mu
					}
				}
			}
		})
	}
	if f == nil {
		c.Unknown("c09.cache-key", "selector-cache", "-", "anchor lost")
		return
	}
	key := c.P.funcKey(f)
	c.Fn(key)
	tbd := NewTB()
	kt := tbd.Of(upd.Key)
	var why []string
	// lookup key
	lookups := 0
	allInstrs(f, func(_ *ssa.BasicBlock, in ssa.Instruction) {
		if lk, ok := in.(*ssa.Lookup); ok {
			if ld, ok := lk.X.(*ssa.UnOp); ok {
				if gl, ok := ld.X.(*ssa.Global); ok && gl.Name() == "cache" {
					lookups++
					if tbd.Of(lk.Index).String() != kt.String() {
						why = append(why, "the cache is looked up with "+tbd.Of(lk.Index).String()+" but filled under "+kt.String())
					}
				}
			}
		}
	})
	if lookups == 0 {
		why = append(why, "the cache is never looked up")
	}
	// the parse input derives from the key's term
	parsed := false
	allInstrs(f, func(_ *ssa.BasicBlock, in ssa.Instruction) {
		if call, ok := in.(*ssa.Call); ok && call.Common().StaticCallee() != nil && call.Common().StaticCallee().Name() == "ParseSelector" {
			parsed = true
			at := tbd.Of(call.Common().Args[0])
			if !strings.Contains(at.String(), kt.String()) {
				why = append(why, "the value stored under the key "+kt.String()+" is the parse of "+at.String()+", which is not derived from that key: different selector texts can share an entry")
			}
		}
	})
	if !parsed {
		why = append(why, "the cached value is not produced by ParseSelector")
	}
	c.Check(len(why) == 0, "c09.cache-key", key, c.P.Pos(upd.Pos()), "lookup key == store key == the text that is parsed", strings.Join(uniq(why), "; "))
}
