package main

import (
	"fmt"
	"go/token"
	"go/types"
	"sort"
	"strings"

	"golang.org/x/tools/go/ssa"
)

func init() {
	register("C08", ruleC08CopyFields, ruleC08Recursion, ruleC08Mix,
		// the projection loop passes inner results through exactly once (shared with C02); nested evaluation awaits itself (shared with C14)
		ruleC02OnePerRow, ruleC14NestedWaits)
}

// ruleC08Mix: the `mix` top-level function flattens into storage of its own.
func ruleC08Mix(c *Ctx) {
	c.Doc("c08.mix-fresh", "the function registered as the `mix` top-level function (resolved from the RegisterTopLevelFunction call in init) and everything it calls write only into storage they allocate themselves: no append/element store/map update may target the source document (ownership analysis), so flattening is the concatenation of the inner arrays and leaves the source intact")
	var mix *ssa.Function
	// the registration call with a constant name, or a loop over a table literal of {name, function} records (refactoring
	// round 11: the two RegisterTopLevelFunction calls of init became such a loop)
	if r, ok := c.topLevelRegistrations()["mix"]; ok {
		mix = r.fn
	}
	if mix == nil {
		c.Unknown("c08.mix-fresh", "mix", "-", "anchor lost: no registration of a top-level function named mix")
		return
	}
	c.Anchor("mix top-level function", c.P.funcKey(mix)+" "+c.P.Pos(mix.Pos()))
	reach := c.P.reachableFrom(mix)
	n, _ := c.classifyWrites("c08.mix-fresh", reach, false)
	if n == 0 {
		c.Unknown("c08.mix-fresh", c.P.funcKey(mix), c.P.Pos(mix.Pos()), "no write site found in the functions reachable from the mix function")
	}
}

// queryCopies finds every (function, new-Query cell) pair in which fields of a fresh Query
// are initialised from fields of another *Query ("query copy" role).
type fieldCopy struct {
	dst, src string
	pos      token.Pos
}

func queryCopySites(p *Program) map[*ssa.Function][]fieldCopy {
	out := map[*ssa.Function][]fieldCopy{}
	for _, f := range p.pkgFuncs(modPath) {
		allInstrs(f, func(_ *ssa.BasicBlock, in ssa.Instruction) {
			st, ok := in.(*ssa.Store)
			if !ok {
				return
			}
			dfa, ok := st.Addr.(*ssa.FieldAddr)
			if !ok || !isNamedType(dfa.X.Type(), modPath, "Query") {
				return
			}
			if _, fresh := dfa.X.(*ssa.Alloc); !fresh {
				return
			}
			// value: load of another Query's field
			ld, ok := st.Val.(*ssa.UnOp)
			if !ok || ld.Op != token.MUL {
				return
			}
			sfa, ok := ld.X.(*ssa.FieldAddr)
			if !ok || !isNamedType(sfa.X.Type(), modPath, "Query") || sfa.X == dfa.X {
				return
			}
			out[f] = append(out[f], fieldCopy{fieldName(dfa.X.Type(), dfa.Field), fieldName(sfa.X.Type(), sfa.Field), st.Pos()})
		})
	}
	return out
}

func ruleC08CopyFields(c *Ctx) {
	c.Doc("c08.copy-fields", "struct-copy correspondence: in every function that initialises a fresh Query from another *Query, field F is initialised from the source's same field F; the fields the per-dimension execution needs (whereDefinition, selectDefinition, data, options) are copied")
	c.NotDecidedClause("C08: equality of each inner result with a direct run on the inner array; mix=> flattening (value-level)")
	sites := queryCopySites(c.P)
	if len(sites) == 0 {
		c.Unknown("c08.copy-fields", "query-copy", "-", "anchor lost: no function initialises a fresh Query from another Query's fields")
		return
	}
	var fns []*ssa.Function
	for f := range sites {
		fns = append(fns, f)
	}
	sort.Slice(fns, func(i, j int) bool { return fns[i].String() < fns[j].String() })
	// the copy used by the per-dimension recursion: called from (*Query).exec
	exec := c.P.Method(modPath, "Query", "exec")
	usedByExec := map[*ssa.Function]bool{}
	if exec != nil {
		deepInstrs(exec, func(_ *ssa.Function, _ *TB, _ *ssa.BasicBlock, in ssa.Instruction) {
			if call, ok := in.(*ssa.Call); ok {
				if cal := call.Common().StaticCallee(); cal != nil && sites[cal] != nil {
					usedByExec[cal] = true
				}
			}
		})
	}
	for _, f := range fns {
		key := c.P.funcKey(f)
		c.Anchor("query copy", key+" "+c.P.Pos(f.Pos()))
		c.Fn(key)
		got := map[string]bool{}
		for _, fc := range sites[f] {
			got[fc.dst] = true
			c.Check(fc.dst == fc.src, "c08.copy-fields", key+"/"+fc.dst, c.P.Pos(fc.pos),
				fmt.Sprintf("%s <- src.%s", fc.dst, fc.src),
				fmt.Sprintf("field %s of the copy is initialised from the source's field %s", fc.dst, fc.src))
		}
		if usedByExec[f] {
			for _, need := range []string{"whereDefinition", "selectDefinition", "data", "options"} {
				c.Check(got[need], "c08.copy-fields", key+"/"+need+"/present", c.P.Pos(f.Pos()),
					"field is carried into the per-dimension copy", "field "+need+" is not carried into the per-dimension copy used by exec")
			}
			// completeness: every field of Query is carried, or is one of the enumerated per-copy resets
			reset := map[string]string{
				"wg":                  "a copy waits for its own outstanding calls (zero WaitGroup)",
				"dual":                "an inner array is never the dual pseudo-table",
				"ident":               "used by the join builder only, before execution",
				"distinct":            "not carried on this tree; DISTINCT is outside C08's filter/projection grammar",
				"postProcessors":      "a copy runs its own post-processors (fresh list)",
				"singletonExecutions": "a copy evaluates its own rows: fresh memo (c07.own-state)",
			}
			if qt := c.P.namedStruct(modPath, "Query"); qt != nil {
				for i := 0; i < qt.NumFields(); i++ {
					fn := fieldVarName(qt.Field(i))
					_, isReset := reset[fn]
					c.Check(got[fn] || isReset, "c08.copy-fields", key+"/"+fn+"/accounted", c.P.Pos(f.Pos()),
						"carried into the copy or an enumerated per-copy reset", "field "+fn+" of Query is neither carried into the per-dimension copy nor an enumerated per-copy reset: state the statement builder put there is lost for inner arrays")
				}
			} else {
				c.Unknown("c08.copy-fields", key+"/fields", c.P.Pos(f.Pos()), "anchor lost: type Query")
			}
			var missing []string
			for _, opt := range []string{"distinct", "singletonExecutions", "groupDefinition", "havingDefinition", "orderByDefinition", "limitDefinition", "offsetDefinition"} {
				if !got[opt] {
					missing = append(missing, opt)
				}
			}
			if len(missing) > 0 {
				c.Notes = append(c.Notes, "fields not carried by "+key+" (informational, not obligations): "+strings.Join(missing, ","))
			}
		}
	}
	if exec != nil && len(usedByExec) == 0 {
		c.Unknown("c08.copy-fields", "exec/uses-copy", c.P.Pos(exec.Pos()), "anchor lost: (*Query).exec no longer calls a query-copy function for nested arrays")
	}
}

// ruleC08Recursion: shape of the []any arm of exec: copy → from := inner array → nested exec →
// error propagated → exactly one append of the nested result per inner array.
func ruleC08Recursion(c *Ctx) {
	c.Doc("c08.recursion-shape", "in (*Query).exec's per-element loop, on the []any arm: the copied query's `from` is the inner array itself, the nested exec's error is returned, and exactly one nested result is appended to the accumulator per inner array (path enumeration of the loop body)")
	exec := c.P.Method(modPath, "Query", "exec")
	if exec == nil {
		c.Unknown("c08.recursion-shape", "exec", "-", "anchor lost: (*Query).exec not found")
		return
	}
	key := "(*Query).exec/[]any-arm"
	c.Fn("(*Query).exec")
	scan := c.findExecScan(exec)
	if scan == nil {
		c.Unknown("c08.recursion-shape", key, c.P.Pos(exec.Pos()), "anchor lost: no loop over query.from in exec")
		return
	}
	lp := scan.lp
	paths, err := WalkFrom(scan.fn, lp.body, lp.header, WalkCfg{StopAt: func(b *ssa.BasicBlock) bool { return b == lp.header }, MaxVisits: 1})
	if err != nil {
		c.Unknown("c08.recursion-shape", key, c.P.Pos(exec.Pos()), err.Error())
		return
	}
	nArm := 0
	ok := true
	var why []string
	for _, pa := range paths {
		// paths on which the element was asserted to []any successfully
		onArm := false
		for _, k := range pa.Order {
			if strings.HasPrefix(k, "assertok[[]any](") && strings.HasSuffix(k, "#1") {
				if v, _ := pa.Assumed(k); v {
					onArm = true
				}
			}
		}
		if !onArm {
			continue
		}
		nArm++
		// effects: call to a copy function, store to .from of the copy with the asserted element, call exec on the copy
		var sawFromStore, sawExec bool
		appends := 0
		var execCall *Term
		for _, e := range pa.Effects {
			switch e.Kind {
			case "store":
				if e.Args[0].Op == "field" && e.Args[0].Name == "from" && e.Args[0].Args[0].Op == "call" {
					if strings.HasPrefix(e.Args[1].String(), "assertok[[]any](") {
						sawFromStore = true
					} else {
						ok = false
						why = append(why, "copy.from is set to "+e.Args[1].String()+", not the inner array")
					}
				}
			case "call":
				if (strings.HasSuffix(e.Callee, ".exec") || strings.HasSuffix(e.Callee, ".execAndPostProcess")) && len(e.Args) > 0 && e.Args[0].Op == "call" {
					sawExec = true
					execCall = &Term{Op: "call", Name: e.Callee, Args: e.Args}
				}
				if e.Callee == "builtin:append" {
					appends++
				}
			}
		}
		errKey := ""
		if execCall != nil {
			errKey = "(" + execCall.String() + "#1 == c:nil)"
		}
		errIsNil, assumed := pa.Assumed(errKey)
		switch {
		case !sawFromStore || !sawExec:
			ok = false
			why = append(why, fmt.Sprintf("arm path lacks copy.from=<inner array> (%v) or nested exec (%v)", sawFromStore, sawExec))
		case assumed && !errIsNil:
			// error path: must return with a non-nil error, no append
			if pa.Exit != "return" || len(pa.Ret) != 2 || pa.Ret[1].Nil || appends != 0 {
				ok = false
				why = append(why, "nested exec error is not returned as the error result")
			}
		default:
			if pa.Exit != "stop" || appends != 1 {
				ok = false
				why = append(why, fmt.Sprintf("success path appends %d results (exit %s), expected exactly one then continue", appends, pa.Exit))
			}
		}
	}
	if nArm == 0 {
		c.Unknown("c08.recursion-shape", key, c.P.Pos(exec.Pos()), "anchor lost: no []any arm in the loop over query.from")
		return
	}
	c.Check(ok, "c08.recursion-shape", key, c.P.Pos(exec.Pos()), fmt.Sprintf("%d arm paths: copy.from=inner, nested exec, error returned, one append", nArm), strings.Join(why, "; "))
}

// loopInfo describes a `for … range x` loop over a slice in go/ssa's lowered form.
type loopInfo struct {
	header, body, exit *ssa.BasicBlock
	over               ssa.Value // the slice ranged over
	elem               ssa.Value // the element value loaded in the body (may be nil)
}

// findRangeLoopOverField finds the range loop whose collection is a load of field `name`.
func findRangeLoopOverField(fn *ssa.Function, name string) *loopInfo {
	for _, l := range rangeLoops(fn) {
		t := NewTB().Of(l.over)
		if t.Op == "field" && t.Name == name {
			// the FROM-less arm of exec (`dual`: one row, its own small pipeline) is not the scan of the table
			dual := false
			for _, fc := range factsAt(l.header) {
				if ft := NewTB().Of(fc.cond); ft.Op == "field" && ft.Name == "dual" && fc.truth {
					dual = true
				}
			}
			if dual {
				continue
			}
			return l
		}
	}
	return nil
}

// rangeLoops recognises go/ssa's slice range lowering:
//
//	header: i = phi [-1, i+1]; i1 = i + 1; if i1 < len(x) goto body else done
func rangeLoops(fn *ssa.Function) []*loopInfo {
	var out []*loopInfo
	for _, b := range fn.Blocks {
		if len(b.Instrs) == 0 {
			continue
		}
		iff, ok := b.Instrs[len(b.Instrs)-1].(*ssa.If)
		if !ok {
			continue
		}
		cmp, ok := iff.Cond.(*ssa.BinOp)
		if !ok || cmp.Op != token.LSS {
			continue
		}
		ln, ok := cmp.Y.(*ssa.Call)
		if !ok {
			continue
		}
		if bi, ok := ln.Call.Value.(*ssa.Builtin); !ok || bi.Name() != "len" {
			continue
		}
		if ph, isPhi := cmp.X.(*ssa.Phi); isPhi && ph.Block() == b {
			// index-loop form: for i := 0; i < len(x); i++ — the counter starts at 0 and every back edge adds exactly 1,
			// so the loop visits the elements as the range form does
			okForm := len(ph.Edges) >= 2
			var elemIdx ssa.Value = ph
			for i, e := range ph.Edges {
				pred := b.Preds[i]
				if b.Dominates(pred) {
					bo, isBo := e.(*ssa.BinOp)
					if !isBo || bo.Op != token.ADD || bo.X != ssa.Value(ph) {
						okForm = false
						continue
					}
					if k, isK := constIntOf(bo.Y); !isK || k != 1 {
						okForm = false
					}
				} else if k, isK := constIntOf(e); !isK || k != 0 {
					okForm = false
				}
			}
			if okForm {
				l := &loopInfo{header: b, body: b.Succs[0], exit: b.Succs[1], over: ln.Call.Args[0]}
				for _, blk := range fn.Blocks {
					if blk != b && !inNaturalLoop(b, blk) {
						continue
					}
					for _, in := range blk.Instrs {
						if ia, ok := in.(*ssa.IndexAddr); ok && ia.Index == elemIdx && l.elem == nil {
							if refs := ia.Referrers(); refs != nil {
								for _, r := range *refs {
									if u, ok := r.(*ssa.UnOp); ok && u.Op == token.MUL {
										l.elem = u
									}
								}
							}
						}
					}
				}
				out = append(out, l)
			}
			continue
		}
		inc, ok := cmp.X.(*ssa.BinOp)
		if !ok || inc.Op != token.ADD {
			continue
		}
		if _, ok := inc.X.(*ssa.Phi); !ok {
			continue
		}
		l := &loopInfo{header: b, body: b.Succs[0], exit: b.Succs[1], over: ln.Call.Args[0]}
		// element: first IndexAddr on the collection with index inc in the body
		for _, in := range l.body.Instrs {
			if ia, ok := in.(*ssa.IndexAddr); ok && ia.Index == inc {
				if refs := ia.Referrers(); refs != nil {
					for _, r := range *refs {
						if u, ok := r.(*ssa.UnOp); ok && u.Op == token.MUL {
							l.elem = u
						}
					}
				}
			}
		}
		out = append(out, l)
	}
	return out
}

func init() { register("C08", ruleC08MixShape, ruleC08AsArrayIdentity, ruleExecKeptFresh) }

// ruleC08MixShape: the flattening loop.
func ruleC08MixShape(c *Ctx) {
	c.Doc("c08.mix-shape", "array flattening (MixArray): each iteration appends exactly once — for an element that is an array, the spread of the recursive flattening of that very element, whatever its length; for any other element, the element itself; no other condition selects between the two (an empty inner array contributes nothing)")
	f := c.P.Func(modPath, "MixArray")
	if f == nil {
		c.Unknown("c08.mix-shape", "MixArray", "-", "anchor lost")
		return
	}
	c.Fn("MixArray")
	loops := rangeLoops(f)
	if len(loops) == 0 {
		if c.mixAccumulatorForm(f) {
			return
		}
	}
	if len(loops) != 1 {
		c.Unknown("c08.mix-shape", "MixArray", c.P.Pos(f.Pos()), fmt.Sprintf("%d loops", len(loops)))
		return
	}
	lp := loops[0]
	paths, err := WalkFrom(f, lp.body, lp.header, WalkCfg{StopAt: func(b *ssa.BasicBlock) bool { return b == lp.header }, MaxVisits: 1})
	if err != nil {
		c.Unknown("c08.mix-shape", "MixArray", c.P.Pos(f.Pos()), err.Error())
		return
	}
	var why []string
	nArr, nOther := 0, 0
	for _, p := range paths {
		if p.Exit != "stop" {
			why = append(why, "an iteration leaves the loop ("+p.Exit+")")
			continue
		}
		isArr, has := false, false
		for k, v := range p.Asg {
			if kt := p.KeyTerm[k]; kt != nil && kt.Op == "ext" && kt.Name == "1" && kt.Args[0].Op == "assertok" && kt.Args[0].Name == "[]any" {
				has, isArr = true, isTrueC(v)
			}
		}
		if !has {
			why = append(why, "an iteration does not test whether the element is an array")
			continue
		}
		var apps []*Effect
		for i := range p.Effects {
			if isAppendOf(p.Effects[i]) {
				apps = append(apps, &p.Effects[i])
			}
		}
		if len(apps) != 1 {
			why = append(why, fmt.Sprintf("an iteration appends %d times", len(apps)))
			continue
		}
		arg := apps[0].Args[1]
		if isArr {
			nArr++
			a, ok := callArgs(arg, "MixArray")
			if !ok || len(a) != 1 || !strings.Contains(a[0].String(), "assertok[[]any]") || !elemOfLoop(a[0].Args[0].Args[0], lp) {
				why = append(why, "an array element contributes "+arg.String()+" instead of the spread of its own flattening")
			}
		} else {
			nOther++
			if !(arg.Op == "varargs" && len(arg.Args) == 1 && elemOfLoop(arg.Args[0], lp)) {
				why = append(why, "a non-array element contributes "+arg.String()+" instead of itself")
			}
		}
	}
	if nArr != 1 || nOther != 1 {
		why = append(why, fmt.Sprintf("iteration paths: array=%d other=%d (exactly one each expected: no further condition)", nArr, nOther))
	}
	c.Check(len(why) == 0, "c08.mix-shape", "MixArray", c.P.Pos(f.Pos()), "array => spread of its flattening; other => itself; one append per element", strings.Join(uniq(why), "; "))
}

// mixAccumulatorForm decides the flattening written with an accumulator: MixArray(data) = h(fresh, data), where h walks
// data once and, per element, either continues with h(acc, element) for an array element or with append(acc, element)
// for any other, and returns the accumulator. Returns false when MixArray is not of that form.
func (c *Ctx) mixAccumulatorForm(f *ssa.Function) bool {
	var hcall *ssa.Call
	allInstrs(f, func(_ *ssa.BasicBlock, in ssa.Instruction) {
		if call, ok := in.(*ssa.Call); ok && isUnknownHelper(call.Common().StaticCallee()) && len(call.Common().Args) == 2 && hcall == nil {
			hcall = call
		}
	})
	if hcall == nil {
		return false
	}
	h := hcall.Common().StaticCallee()
	loops := rangeLoops(h)
	if len(loops) != 1 {
		return false
	}
	lp := loops[0]
	var why []string
	tb := NewTB()
	if a0 := tb.Of(hcall.Common().Args[0]); !isFreshSliceTerm(a0) {
		why = append(why, "the accumulator handed to "+funcName(h)+" is "+a0.String()+", not a fresh list")
	}
	if a1 := tb.Of(hcall.Common().Args[1]); !(a1.Op == "param") {
		why = append(why, "the list handed to "+funcName(h)+" is "+a1.String()+", not the data")
	}
	// MixArray returns what the helper returns
	allInstrs(f, func(_ *ssa.BasicBlock, in ssa.Instruction) {
		if r, ok := in.(*ssa.Return); ok && len(r.Results) == 1 && r.Results[0] != ssa.Value(hcall) {
			why = append(why, "MixArray does not return the helper's list")
		}
	})
	var acc *ssa.Phi
	for _, in := range lp.header.Instrs {
		if ph, ok := in.(*ssa.Phi); ok && shortType(ph.Type()) == "[]any" {
			acc = ph
		}
	}
	if acc == nil {
		return false
	}
	// the accumulator starts as the helper's first parameter and is what the helper returns
	startsAsParam := false
	for i, e := range acc.Edges {
		if !lp.header.Dominates(lp.header.Preds[i]) && e == ssa.Value(h.Params[0]) {
			startsAsParam = true
		}
	}
	if !startsAsParam {
		why = append(why, "the helper's accumulator does not start as the list it was handed")
	}
	allInstrs(h, func(_ *ssa.BasicBlock, in ssa.Instruction) {
		if r, ok := in.(*ssa.Return); ok && len(r.Results) == 1 && r.Results[0] != ssa.Value(acc) {
			why = append(why, "the helper does not return its accumulator")
		}
	})
	paths, err := WalkFrom(h, lp.body, lp.header, WalkCfg{StopAt: func(b *ssa.BasicBlock) bool { return b == lp.header }, MaxVisits: 1})
	if err != nil {
		c.Unknown("c08.mix-shape", "MixArray", c.P.Pos(f.Pos()), err.Error())
		return true
	}
	nArr, nOther := 0, 0
	for _, p := range paths {
		if p.Exit != "stop" {
			why = append(why, "an iteration leaves the loop ("+p.Exit+")")
			continue
		}
		isArr, has := false, false
		for k, v := range p.Asg {
			if kt := p.KeyTerm[k]; kt != nil && kt.Op == "ext" && kt.Name == "1" && kt.Args[0].Op == "assertok" && kt.Args[0].Name == "[]any" {
				has, isArr = true, isTrueC(v)
			}
		}
		if !has {
			why = append(why, "an iteration does not test whether the element is an array")
			continue
		}
		next := p.PhiIn[acc].T
		if isArr {
			nArr++
			okRec := next != nil && next.Op == "call" && next.Name == funcName(h) && len(next.Args) == 2 && next.Args[0].V == ssa.Value(acc) &&
				strings.Contains(next.Args[1].String(), "assertok[[]any]") && elemOfLoop(next.Args[1].Args[0].Args[0], lp)
			if !okRec {
				why = append(why, "an array element contributes "+termStr(next)+" instead of its own flattening appended to the list so far")
			}
		} else {
			nOther++
			okApp := next != nil && next.Op == "call" && next.Name == "builtin:append" && len(next.Args) == 2 && next.Args[0].V == ssa.Value(acc) &&
				next.Args[1].Op == "varargs" && len(next.Args[1].Args) == 1 && elemOfLoop(next.Args[1].Args[0], lp)
			if !okApp {
				why = append(why, "a non-array element contributes "+termStr(next)+" instead of itself")
			}
		}
	}
	if nArr != 1 || nOther != 1 {
		why = append(why, fmt.Sprintf("iteration paths: array=%d other=%d (exactly one each expected: no further condition)", nArr, nOther))
	}
	c.Check(len(why) == 0, "c08.mix-shape", "MixArray", c.P.Pos(f.Pos()), "accumulator form: array => its flattening appended; other => itself; one step per element", strings.Join(uniq(why), "; "))
	return true
}

// ruleC08AsArrayIdentity: a []any source is taken as it is.
func ruleC08AsArrayIdentity(c *Ctx) {
	c.Doc("c08.source-identity", "source normalisation (AsArray): a []any value is returned as it is on every path of that arm (no unwrapping of single-element arrays, no flattening: the nesting of the source is the nesting of the result); a Map becomes a one-element list of itself")
	f := c.P.Func(modPath, "AsArray")
	if f == nil {
		c.Unknown("c08.source-identity", "AsArray", "-", "anchor lost")
		return
	}
	c.Fn("AsArray")
	paths, err := WalkFunc(f, WalkCfg{MaxVisits: 1})
	if err != nil {
		c.Unknown("c08.source-identity", "AsArray", c.P.Pos(f.Pos()), err.Error())
		return
	}
	pn := f.Params[0].Name()
	var why []string
	nSlice, nMap := 0, 0
	for _, p := range paths {
		if p.Exit != "return" || len(p.Ret) != 2 {
			continue
		}
		kind := ""
		for _, k := range p.Order {
			if kt := p.KeyTerm[k]; kt != nil && kt.Op == "ext" && kt.Name == "1" && kt.Args[0].Op == "assertok" && kt.Args[0].Args[0].Op == "param" {
				if v, _ := p.Assumed(k); v && kind == "" {
					kind = kt.Args[0].Name
				}
			}
		}
		switch kind {
		case "[]any":
			nSlice++
			if !p.Ret[1].Nil || termStr(p.Ret[0].T) != "assertok[[]any](p:"+pn+")#0" {
				why = append(why, "a []any source yields "+avString(p.Ret[0])+" (error "+avString(p.Ret[1])+") instead of itself")
			}
		case "Map":
			nMap++
			stored := 0
			for _, e := range p.Effects {
				if e.Kind == "store" && len(e.Args) == 2 && strings.Contains(e.Args[1].String(), "assertok[Map](p:"+pn+")#0") {
					stored++
				}
			}
			if !p.Ret[1].Nil || !strings.HasPrefix(termStr(p.Ret[0].T), "slice:alloc:slicelit") || stored != 1 {
				why = append(why, "a Map source yields "+avString(p.Ret[0])+" instead of a one-element list of itself")
			}
		}
	}
	if nSlice != 1 || nMap != 1 {
		why = append(why, fmt.Sprintf("paths: []any=%d Map=%d (one each expected)", nSlice, nMap))
	}
	c.Check(len(why) == 0, "c08.source-identity", "AsArray", c.P.Pos(f.Pos()), "[]any => itself (single path), Map => [itself]", strings.Join(uniq(why), "; "))
}

func init() { register("C08", ruleC08AliasNesting) }

// ruleC08AliasNesting: a table alias does not flatten the dimensions of the source.
func ruleC08AliasNesting(c *Ctx) {
	c.Doc("c08.alias-nesting", "alias wrapper (ProcessAlias): an element that is itself an array is replaced, at the same position, by the wrapper applied to that inner array with the same alias (the per-inner-array execution of exec then still sees arrays); every other element becomes {alias: element} — wrapping an inner array as {alias: array} hides the dimension and the query runs once over the outer list")
	f := c.P.Func(modPath, "ProcessAlias")
	if f == nil {
		c.Unknown("c08.alias-nesting", "ProcessAlias", "-", "anchor lost")
		return
	}
	c.Fn("ProcessAlias")
	loops := rangeLoops(f)
	if len(loops) != 1 {
		c.Unknown("c08.alias-nesting", "ProcessAlias", c.P.Pos(f.Pos()), fmt.Sprintf("%d loops", len(loops)))
		return
	}
	lp := loops[0]
	as := ""
	for _, p := range f.Params {
		if p.Type().String() == "string" {
			as = p.Name()
		}
	}
	paths, err := WalkFrom(f, lp.body, lp.header, WalkCfg{StopAt: func(b *ssa.BasicBlock) bool { return b == lp.header }, MaxVisits: 1})
	if err != nil {
		c.Unknown("c08.alias-nesting", "ProcessAlias", c.P.Pos(f.Pos()), err.Error())
		return
	}
	var why []string
	nArr, nRow := 0, 0
	for _, p := range paths {
		if p.Exit != "stop" {
			continue
		}
		isArr, tested := false, false
		for k, v := range p.Asg {
			if kt := p.KeyTerm[k]; kt != nil && kt.Op == "ext" && kt.Name == "1" && kt.Args[0].Op == "assertok" && kt.Args[0].Name == "[]any" && elemOfLoop(kt.Args[0].Args[0], lp) {
				tested, isArr = true, isTrueC(v)
			}
		}
		if !tested {
			why = append(why, "an element is wrapped without testing whether it is an inner array: `FROM data AS d` over an array of arrays loses the nesting")
			continue
		}
		// the store into the result slot
		var stored *Term
		for _, e := range p.Effects {
			if e.Kind == "store" && len(e.Args) == 2 && e.Args[0].Op == "index" {
				stored = e.Args[1]
			}
		}
		if isArr {
			nArr++
			a, ok := callArgs(stored, "ProcessAlias")
			if stored == nil || !ok || len(a) != 2 || !strings.Contains(a[0].String(), "assertok[[]any]") || !(a[1].Op == "param" && a[1].Name == as) {
				why = append(why, "an inner array is replaced by "+termStr(stored)+" instead of the wrapper applied to it with the same alias")
			}
		} else {
			nRow++
			if stored == nil || !(stored.Op == "make" || strings.Contains(stored.String(), "make:map")) {
				why = append(why, "a row is replaced by "+termStr(stored)+" instead of a fresh {alias: row}")
			}
		}
	}
	if nArr == 0 || nRow == 0 {
		why = append(why, fmt.Sprintf("iteration paths: inner array=%d row=%d", nArr, nRow))
	}
	c.Check(len(why) == 0, "c08.alias-nesting", "ProcessAlias", c.P.Pos(f.Pos()), "inner arrays recurse with the same alias; rows are wrapped", strings.Join(uniq(why), "; "))
}

func init() { register("C08", ruleC08InnerNonNull) }

// ruleC08InnerNonNull: an inner array whose rows were all filtered out is still an array in the result.
func ruleC08InnerNonNull(c *Ctx) {
	c.Doc("c08.inner-array-nonnull", "the result of an inner array is an array even when none of its rows survive: exec's window yields a nil slice when the offset is past the end (and for an empty inner array), so somewhere between the nested run and the result that typed nil is replaced by an empty array — decided as: in the projection's []any arm (ExecSelect) or in exec's own []any arm, every append of an inner result onto the output is either a freshly made slice or happens on a path that has tested that very slice value against nil, and a path that takes the fresh slice exists (a test of the boxed `any` against nil does not count: a typed nil slice inside an interface is not nil)")
	normalises := func(f *ssa.Function, inner func(t *Term) bool) (bool, string) {
		paths, err := WalkFunc(f, WalkCfg{MaxVisits: 2, MaxPaths: 8000})
		if err != nil {
			return false, err.Error()
		}
		sawFresh, bad, n := false, "", 0
		for _, p := range paths {
			for _, e := range p.Effects {
				if e.Kind != "call" || e.Callee != "builtin:append" || len(e.Args) != 2 || e.Args[1].Op != "varargs" || len(e.Args[1].Args) != 1 {
					continue
				}
				x := e.Args[1].Args[0]
				if isFreshSliceTerm(x) {
					// the replacement: taken on a path that found the inner result nil
					for i := 0; i < e.NAsg && i < len(p.Order); i++ {
						if y, isN := isNilTest(p.KeyTerm[p.Order[i]]); isN && (inner(y) || y.Op == "ext" && len(y.Args) == 1 && y.Args[0].Op == "assertok" && inner(y.Args[0].Args[0])) {
							if v, _ := p.Assumed(p.Order[i]); v {
								sawFresh = true
							}
						}
					}
					continue
				}
				if !inner(x) {
					continue
				}
				n++
				tested := false
				for i := 0; i < e.NAsg && i < len(p.Order); i++ {
					kt := p.KeyTerm[p.Order[i]]
					viaAssert := func(y *Term) bool {
						return y.Op == "ext" && len(y.Args) == 1 && y.Args[0].Op == "assertok" && y.Args[0].Name == "[]any" && y.Args[0].Args[0].String() == x.String()
					}
					if y, isN := isNilTest(kt); isN && y.Typ != nil && (y.String() == x.String() || viaAssert(y) && y.Name == "0") {
						if _, isSlice := y.Typ.Underlying().(*types.Slice); isSlice {
							if v, assumed := p.Assumed(p.Order[i]); assumed && !v {
								tested = true
							}
						}
					}
					// the boxed value is not an array at all on this path
					if kt != nil && viaAssert(kt) && kt.Name == "1" {
						if v, assumed := p.Assumed(p.Order[i]); assumed && !v {
							tested = true
						}
					}
				}
				if !tested {
					bad = "an inner result is appended at " + c.P.Pos(e.Instr.Pos()) + " without having been tested against nil as a slice"
				}
			}
		}
		if bad != "" {
			return false, bad
		}
		if n == 0 || !sawFresh {
			return false, "no replacement of a nil inner result by an empty array"
		}
		return true, ""
	}
	var whys []string
	ok := false
	if f := c.P.Func(modPath, "ExecSelect"); f != nil {
		c.Fn("ExecSelect")
		good, why := normalises(f, func(t *Term) bool {
			return t != nil && t.Op == "ext" && t.Name == "0" && t.Args[0].Op == "assertok" && t.Args[0].Name == "[]any"
		})
		if good {
			ok = true
		} else {
			whys = append(whys, "ExecSelect: "+why)
		}
	}
	if exec := c.P.Method(modPath, "Query", "exec"); exec != nil && !ok {
		if scan := c.findExecScan(exec); scan != nil {
			// a third way to the same end: exec never hands out a nil slice at all
			if paths, err := scan.after(WalkCfg{MaxVisits: 1, MaxPaths: 8000, NoEffects: true}); err == nil {
				n, nilSeen := 0, false
				for _, p := range paths {
					if p.Exit != "return" || len(p.Ret) != 2 || !p.Ret[1].Nil {
						continue
					}
					n++
					if r := p.Ret[0]; r.Nil || r.T != nil && r.T.Op == "const" && r.T.Name == "nil" {
						nilSeen = true
					}
				}
				if n > 0 && !nilSeen {
					ok = true
				} else {
					whys = append(whys, "exec can return a nil slice")
				}
			}
		}
		if scan := c.findExecScan(exec); scan != nil && !ok {
			good, why := normalises(scan.fn, func(t *Term) bool {
				if t == nil {
					return false
				}
				s := t.String()
				return strings.Contains(s, ".execAndPostProcess(") || strings.Contains(s, ").exec(")
			})
			if good {
				ok = true
			} else {
				whys = append(whys, funcName(scan.fn)+": "+why)
			}
		}
	}
	c.Check(ok, "c08.inner-array-nonnull", "inner-result", "-", "a nil inner result is replaced by an empty array before it enters the output", "an inner array that keeps none of its rows comes back as null instead of []: the result loses the nesting of the source ("+strings.Join(whys, "; ")+")")
}
