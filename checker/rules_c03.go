package main

import (
	"fmt"
	"go/constant"
	"go/token"
	"go/types"
	"strings"

	"golang.org/x/tools/go/ssa"
)

func init() {
	register("C03", ruleC03Partition, ruleC03GroupOrder, ruleC03MemoKey, ruleC03FilteredFlow, ruleC03AggSiblings, ruleC03Having,
		// every aggregate call is computed from its own argument: the memo is never shared between queries (shared with C07)
		ruleC07OwnState)
}

// registered resolves the function value registered under an SQL function name by the module's
// init functions (RegisterFunction / RegisterImmediateFunction / RegisterTopLevelFunction …).
func (c *Ctx) registered(name string) (*ssa.Function, bool) {
	r, ok := c.registrations()[name]
	if !ok {
		return nil, false
	}
	return r.fn, r.immediate
}

func (c *Ctx) groupByFunc() *ssa.Function {
	// the function that reads Query.groupDefinition and Query.havingDefinition's evaluator: (query, []any) ([]any, error) ranging over its rows and building groups
	var fallback *ssa.Function
	for _, f := range c.P.pkgFuncs(modPath) {
		if f.Parent() != nil || f.Signature.Params().Len() != 2 || f.Signature.Results().Len() != 2 {
			continue
		}
		if shortType(f.Signature.Params().At(1).Type()) != "[]any" {
			continue
		}
		reads, iterates := false, false
		allInstrs(f, func(_ *ssa.BasicBlock, in ssa.Instruction) {
			if fa, ok := in.(*ssa.FieldAddr); ok && fieldName(fa.X.Type(), fa.Field) == "groupDefinition" {
				reads = true
				// group formation walks the grouping keys; a function that only asks whether there are any
				// (len, nil test) is not it
				for _, r := range *fa.Referrers() {
					ld, ok := r.(*ssa.UnOp)
					if !ok || ld.Referrers() == nil {
						continue
					}
					for _, u := range *ld.Referrers() {
						switch u.(type) {
						case *ssa.Range, *ssa.Index, *ssa.IndexAddr, *ssa.Lookup:
							iterates = true
						}
					}
				}
			}
		})
		if reads && iterates {
			c.Anchor("group formation", c.P.funcKey(f)+" "+c.P.Pos(f.Pos()))
			c.Fn(c.P.funcKey(f))
			return f
		}
		if reads && fallback == nil {
			fallback = f
		}
	}
	if fallback != nil {
		c.Anchor("group formation", c.P.funcKey(fallback)+" "+c.P.Pos(fallback.Pos()))
		c.Fn(c.P.funcKey(fallback))
	}
	return fallback
}

func mapRangeNexts(f *ssa.Function) []*ssa.Next {
	var out []*ssa.Next
	allInstrs(f, func(_ *ssa.BasicBlock, in ssa.Instruction) {
		if nx, ok := in.(*ssa.Next); ok && !nx.IsString {
			if rg, ok := nx.Iter.(*ssa.Range); ok {
				if _, isMap := rg.X.Type().Underlying().(*types.Map); isMap {
					out = append(out, nx)
				}
			}
		}
	})
	return out
}

// inLoopOf: block b is inside the loop whose header contains nx.
func inLoopOf(nx *ssa.Next, b *ssa.BasicBlock) bool {
	return inNaturalLoop(nx.Block(), b)
}

// inNaturalLoop: b belongs to the natural loop headed by h: h dominates b and b reaches h
// through blocks dominated by h only.
func inNaturalLoop(h, b *ssa.BasicBlock) bool {
	if b == h || !h.Dominates(b) {
		return false
	}
	seen := map[*ssa.BasicBlock]bool{}
	q := []*ssa.BasicBlock{b}
	for len(q) > 0 {
		x := q[0]
		q = q[1:]
		if seen[x] {
			continue
		}
		seen[x] = true
		for _, s := range x.Succs {
			if s == h {
				return true
			}
			if h.Dominates(s) {
				q = append(q, s)
			}
		}
	}
	return false
}

func ruleC03Partition(c *Ctx) {
	c.Doc("c03.partition", "group formation: every input row is appended to exactly one group on every non-error path of its iteration (an existing group XOR a new group), in row order; the group key of a row is read from that row for every key of query.groupDefinition; membership compares every key of the row's key map with the candidate group's value for the same key")
	c.NotDecidedClause("C03: that ExecReader extracts the right column per member; numeric results of the aggregates; equality semantics of Go's != on interface values used for key comparison (non-comparable keys)")
	f := c.groupByFunc()
	if f == nil {
		c.Unknown("c03.partition", "ExecGroupBy", "-", "anchor lost: no (query, rows) function reads Query.groupDefinition")
		return
	}
	key := c.P.funcKey(f)
	rows := f.Params[1]
	var lp *loopInfo
	for _, l := range rangeLoops(f) {
		if l.over == ssa.Value(rows) {
			lp = l
		}
	}
	if lp == nil {
		c.Unknown("c03.partition", key, c.P.Pos(f.Pos()), "anchor lost: no loop over the rows parameter")
		return
	}
	paths, err := WalkFrom(f, lp.body, lp.header, WalkCfg{StopAt: func(b *ssa.BasicBlock) bool { return b == lp.header }, MaxVisits: 2, MaxPaths: 8000})
	if err != nil {
		c.Unknown("c03.partition", key, c.P.Pos(f.Pos()), err.Error())
		return
	}
	var why []string
	nStop := 0
	isRow := func(t *Term) bool { return elemOfLoop(t, lp) }
	for _, p := range paths {
		if p.Exit == "cut" {
			continue
		}
		appends := 0
		for _, e := range p.Effects {
			if e.Kind == "call" && e.Callee == "builtin:append" && len(e.Args) == 2 && e.Args[1].Op == "varargs" && len(e.Args[1].Args) == 1 && isRow(e.Args[1].Args[0]) {
				appends++
			}
			// a new group started as a one-element literal []any{row}
			if e.Kind == "store" && len(e.Args) == 2 && strings.Contains(e.Args[0].String(), "slicelit") && isRow(e.Args[1]) {
				appends++
			}
		}
		switch p.Exit {
		case "stop":
			nStop++
			if appends != 1 {
				why = append(why, fmt.Sprintf("an iteration appends its row to %d groups (exactly one expected)", appends))
			}
		case "return":
			if len(p.Ret) == 2 && p.Ret[1].Nil {
				why = append(why, "an iteration returns successfully from inside the loop")
			}
		}
	}
	if nStop == 0 {
		why = append(why, "no complete iteration path found")
	}
	c.Check(len(why) == 0, "c03.partition", key, c.P.Pos(lp.header.Instrs[0].Pos()), fmt.Sprintf("%d iteration paths: exactly one append of the row", nStop), strings.Join(uniq(why), "; "))

	// key construction: keyMap[k] = ExecReader(row, k)#0 for k ranging over query.groupDefinition
	okK, whyK := false, "no store keyMap[k] = reader(row, k) with k ranging over query.groupDefinition found"
	tbd := NewTB()
	var keyMapUpd *ssa.MapUpdate
	allInstrs(f, func(_ *ssa.BasicBlock, in ssa.Instruction) {
		mu, ok := in.(*ssa.MapUpdate)
		if !ok {
			return
		}
		kt, vt := tbd.Of(mu.Key), tbd.Of(mu.Value)
		v0 := ext0(vt)
		if v0 == nil {
			return
		}
		a, isReader := callArgs(v0, "ExecReader")
		if !isReader || len(a) != 2 {
			return
		}
		if kt.Op == "ext" && kt.Name == "1" && kt.Args[0].Op == "next" && strings.Contains(kt.String(), "groupDefinition") && a[1].String() == kt.String() && isRow(a[0]) {
			okK, whyK = true, ""
			keyMapUpd = mu
		}
	})
	c.Check(okK, "c03.key-equality", key+"/key-of-row", c.P.Pos(f.Pos()), "the row's key map holds reader(row, k) for every grouping key k", whyK)
	// ... for EVERY grouping key: inside the loop over the keys the store depends on nothing but the loop's own test and
	// the reader's error -- a key left out under a condition (a NULL value, say) is a key the membership loop never compares
	if keyMapUpd != nil {
		whyE := ""
		if kx, ok := keyMapUpd.Key.(*ssa.Extract); ok {
			if nx, ok := kx.Tuple.(*ssa.Next); ok {
				for _, fc := range factsAt(keyMapUpd.Block()) {
					ci, isI := fc.cond.(ssa.Instruction)
					if !isI || ci.Block() == nil || !(ci.Block() == nx.Block() || nx.Block().Dominates(ci.Block())) {
						continue
					}
					if ex, isEx := fc.cond.(*ssa.Extract); isEx && ex.Tuple == ssa.Value(nx) && ex.Index == 0 {
						continue
					}
					ct := tbd.Of(fc.cond)
					if x, isNil := isNilTest(ct); isNil && isErrorType(x) {
						continue
					}
					if ct.Op == "bin" && ct.Name == "!=" && len(ct.Args) == 2 && (isErrorType(ct.Args[0]) || isErrorType(ct.Args[1])) {
						continue
					}
					whyE = "the store of a grouping key into the row's key map depends on " + ct.String() + ": a key for which it does not hold is left out and never compared (a row with a NULL key joins the first group that agrees on the other keys)"
				}
			}
		}
		c.Check(whyE == "", "c03.key-equality", key+"/every-key-stored", c.P.Pos(keyMapUpd.Pos()), "the key-map store is unconditional inside the loop over the grouping keys", whyE)
	}
	// membership comparison: lookup(*group, k) != v with (k, v) ranging over the row's key map
	okM, whyM := false, "no comparison of the candidate group's value with the row's value for the same key, over all keys of the row's key map"
	memberFn, memberTB := f, tbd // where the membership comparison lives: the grouping function or a helper extracted from it
	deepInstrs(f, func(g *ssa.Function, gtb *TB, _ *ssa.BasicBlock, in ssa.Instruction) {
		b, ok := in.(*ssa.BinOp)
		if !ok || (b.Op != token.NEQ && b.Op != token.EQL) {
			return
		}
		if g == f {
			gtb = tbd
		}
		x, y := gtb.Of(b.X), gtb.Of(b.Y)
		for _, pair := range [][2]*Term{{x, y}, {y, x}} {
			l, v := pair[0], pair[1]
			if l.Op != "lookup" {
				continue
			}
			// v is the value of a range over a map, l's key is the key of the same range
			if v.Op == "ext" && v.Name == "2" && v.Args[0].Op == "next" && l.Args[1].Op == "ext" && l.Args[1].Name == "1" && l.Args[1].Args[0].String() == v.Args[0].String() {
				// the ranged map is the row's key map
				if keyMapUpd != nil && strings.Contains(v.Args[0].String(), tbd.Of(keyMapUpd.Map).String()) {
					okM, whyM = true, ""
					memberFn, memberTB = g, gtb
				}
			}
		}
	})
	// every key is compared: in the membership loop an equal key continues with the next key; only
	// exhaustion of the keys leaves the loop with the match flag still set
	if okM && keyMapUpd != nil {
		for _, nx := range mapRangeNexts(memberFn) {
			rg := nx.Iter.(*ssa.Range)
			if !strings.Contains(memberTB.Of(rg.X).String(), tbd.Of(keyMapUpd.Map).String()) {
				continue
			}
			h := nx.Block()
			iff, isIf := h.Instrs[len(h.Instrs)-1].(*ssa.If)
			if !isIf {
				continue
			}
			_ = iff
			body := h.Succs[0]
			mp, err := WalkFrom(memberFn, body, h, WalkCfg{StopAt: func(b *ssa.BasicBlock) bool { return b == h }, MaxVisits: 1})
			if err != nil {
				okM, whyM = false, err.Error()
				break
			}
			nEq, nNe := 0, 0
			for _, p := range mp {
				for k, v := range p.Asg {
					kt := p.KeyTerm[k]
					if kt == nil || kt.Op != "bin" || kt.Name != "==" || kt.Args[0].Op != "lookup" && kt.Args[1].Op != "lookup" {
						continue
					}
					if isTrueC(v) {
						nEq++
						if p.Exit != "stop" {
							okM, whyM = false, "after an equal key the membership loop does not go on to the next key: only some of the grouping keys are compared"
						}
					} else {
						nNe++
						// a differing key must clear the match: the path stores false somewhere or leaves the loop
					}
				}
			}
			if nEq == 0 || nNe == 0 {
				okM, whyM = false, fmt.Sprintf("membership loop paths: equal=%d different=%d", nEq, nNe)
			}
		}
	}
	c.Check(okM, "c03.key-equality", key+"/membership", c.P.Pos(f.Pos()), "group membership compares every key of the row's key map (an equal key continues with the next one)", whyM)
}

func ruleC03GroupOrder(c *Ctx) {
	c.Doc("c03.group-order", "determinism: the slice of groups that ExecGroupBy returns is never appended to inside a loop that ranges over a Go map (order must come from an insertion-ordered slice); members are appended in row order")
	f := c.groupByFunc()
	if f == nil {
		c.Unknown("c03.group-order", "ExecGroupBy", "-", "anchor lost")
		return
	}
	key := c.P.funcKey(f)
	nexts := mapRangeNexts(f)
	ok, why := true, ""
	n := 0
	allInstrs(f, func(b *ssa.BasicBlock, in ssa.Instruction) {
		call, isCall := in.(*ssa.Call)
		if !isCall {
			return
		}
		bi, isB := call.Common().Value.(*ssa.Builtin)
		if !isB || bi.Name() != "append" {
			return
		}
		// does this append feed the returned slice?
		feeds := false
		allInstrs(f, func(_ *ssa.BasicBlock, rin ssa.Instruction) {
			if r, isRet := rin.(*ssa.Return); isRet && len(r.Results) > 0 && dependsOnValue(r.Results[0], call) {
				feeds = true
			}
		})
		if !feeds {
			return
		}
		n++
		for _, nx := range nexts {
			if inLoopOf(nx, b) {
				ok, why = false, "the output slice is appended to at "+c.P.Pos(call.Pos())+" inside a loop ranging over a Go map ("+c.P.Pos(nx.Pos())+"): the order of groups changes from run to run"
			}
		}
	})
	if n == 0 {
		ok, why = false, "no append feeding the returned slice found"
	}
	c.Check(ok, "c03.group-order", key, c.P.Pos(f.Pos()), fmt.Sprintf("%d appends feed the output, none under a map range", n), why)
}

// dependsOnValue: v derives from w through phis/appends (same slice being grown).
func dependsOnValue(v, w ssa.Value) bool {
	seen := map[ssa.Value]bool{}
	var rec func(x ssa.Value) bool
	rec = func(x ssa.Value) bool {
		if x == w {
			return true
		}
		if seen[x] {
			return false
		}
		seen[x] = true
		switch x := x.(type) {
		case *ssa.Phi:
			for _, e := range x.Edges {
				if rec(e) {
					return true
				}
			}
		case *ssa.Call:
			if b, ok := x.Call.Value.(*ssa.Builtin); ok && b.Name() == "append" {
				return rec(x.Call.Args[0])
			}
		}
		return false
	}
	return rec(v)
}

func (c *Ctx) aggrFunc() (*ssa.Function, string) {
	for _, f := range c.P.pkgFuncs(modPath) {
		if f.Parent() != nil {
			continue
		}
		for _, pa := range f.Params {
			if shortType(pa.Type()) == "sqlparser.AggrFunc" {
				c.Anchor("aggregate evaluation", c.P.funcKey(f)+" "+c.P.Pos(f.Pos()))
				c.Fn(c.P.funcKey(f))
				return f, pa.Name()
			}
		}
	}
	return nil, ""
}

func ruleC03MemoKey(c *Ctx) {
	c.Doc("c03.memo-key", "the per-query memo of whole-table aggregate results (Query.singletonExecutions accessed by the function evaluating sqlparser.AggrFunc) is keyed by something that depends on the call's arguments or the call node itself, not only on AggrName(): two calls of the same function on different columns never share an entry; lookup and store use the same key")
	f, ep := c.aggrFunc()
	if f == nil {
		c.Unknown("c03.memo-key", "AggrFunExpr", "-", "anchor lost: no function takes sqlparser.AggrFunc")
		return
	}
	key := c.P.funcKey(f)
	tbd := NewTB()
	var keys []*Term
	allInstrs(f, func(_ *ssa.BasicBlock, in ssa.Instruction) {
		switch in := in.(type) {
		case *ssa.Lookup:
			if t := tbd.Of(in.X); t.Op == "field" && t.Name == "singletonExecutions" {
				keys = append(keys, tbd.Of(in.Index))
			}
		case *ssa.MapUpdate:
			if t := tbd.Of(in.Map); t.Op == "field" && t.Name == "singletonExecutions" {
				keys = append(keys, tbd.Of(in.Key))
			}
		}
	})
	if len(keys) == 0 {
		c.PassTrivial("c03.memo-key", key, c.P.Pos(f.Pos()), "the aggregate evaluator keeps no memo")
		return
	}
	ok, why := true, ""
	for _, k := range keys {
		if k.String() != keys[0].String() {
			ok, why = false, "lookup and store use different keys: "+keys[0].String()+" vs "+k.String()
		}
		// dependence on the call beyond its name
		dep := false
		k.Walk(func(x *Term) bool {
			if x.Op == "call" {
				isName := strings.HasSuffix(x.Name, "AggrName")
				for _, a := range x.Args {
					if a.Op == "param" && a.Name == ep && !isName {
						dep = true
					}
				}
				if isName {
					return false
				}
			}
			return true
		})
		if !dep {
			ok, why = false, "the memo key "+k.String()+" depends only on the aggregate's name: SUM(a) and SUM(b) share one entry"
		}
	}
	c.Check(ok, "c03.memo-key", key, c.P.Pos(f.Pos()), "memo keyed by "+keys[0].String(), why)
}

func ruleC03FilteredFlow(c *Ctx) {
	c.Doc("c03.filtered-flow", "whole-table aggregates honour WHERE: the projection's all-aggregate branch hands its rows parameter (the filter accumulator, see c01.filter-loop) to the projection under the \"*\" key; the aggregate evaluator, when the row carries \"*\", reads its arguments from that row and passes it to the function; COUNT(*) with \"*\" present returns the length of that slice (query.from is consulted only when \"*\" is absent)")
	// (a) the projection loop's all-aggregate branch
	proj := c.P.Func(modPath, "SelectExpr")
	var es *ssa.Function
	for _, g := range c.P.pkgFuncs(modPath) {
		if g.Parent() != nil || g == proj {
			continue
		}
		n := 0
		allInstrs(g, func(_ *ssa.BasicBlock, in ssa.Instruction) {
			if call, ok := in.(*ssa.Call); ok && proj != nil && call.Common().StaticCallee() == proj {
				n++
			}
		})
		if n >= 2 {
			es = g
		}
	}
	if es == nil {
		c.Unknown("c03.filtered-flow", "ExecSelect", "-", "anchor lost: no function calls the projection on both an all-aggregate branch and a per-row branch")
	} else {
		c.Fn(c.P.funcKey(es))
		rows := ""
		for _, pa := range es.Params {
			if shortType(pa.Type()) == "[]any" {
				rows = pa.Name()
			}
		}
		paths, _ := WalkFunc(es, WalkCfg{MaxVisits: 1})
		ok, why, n := true, "", 0
		for _, p := range paths {
			allAgg := false
			for k, v := range p.Asg {
				if kt := p.KeyTerm[k]; kt != nil && strings.Contains(kt.String(), "IsSelectAllAggregate(") && isTrueC(v) {
					allAgg = true
				}
			}
			if !allAgg {
				continue
			}
			for i, e := range p.Effects {
				if e.Kind != "call" || proj == nil || e.Callee != funcName(proj) {
					continue
				}
				n++
				row := e.Args[1]
				// the row is a fresh map whose "*" entry is the rows parameter
				found := false
				for _, e2 := range p.Effects[:i] {
					if e2.Kind == "mapupdate" && e2.Args[0].String() == row.String() && e2.Args[1].Name == `"*"` && e2.Args[2].Op == "param" && e2.Args[2].Name == rows {
						found = true
					}
				}
				if !found {
					ok, why = false, "the all-aggregate branch evaluates the select list on "+row.String()+", which does not carry the filtered rows under \"*\" (aggregates would read the unfiltered source)"
				}
			}
		}
		if n == 0 {
			ok, why = false, "no all-aggregate branch calling the projection"
		}
		c.Check(ok, "c03.filtered-flow", c.P.funcKey(es)+"/all-aggregate", c.P.Pos(es.Pos()), "the all-aggregate branch projects {\"*\": rows parameter}", why)
	}
	// (b) the aggregate evaluator
	f, _ := c.aggrFunc()
	if f != nil {
		cur := paramNameOfType(f, "Map")
		atoms := []Atom{{Name: "hasStar", Dom: boolDom, Match: func(t *Term) bool {
			return t.Op == "ext" && t.Name == "1" && t.Args[0].Op == "lookupok" && t.Args[0].Args[0].Op == "param" && t.Args[0].Args[0].Name == cur && t.Args[0].Args[1].Name == `"*"`
		}}}
		tb := BuildTable(f, atoms, true)
		ok, why, n := true, "", 0
		for _, p := range tb.SuccessPaths() {
			hv, has := tb.namesOnPath(p)["hasStar"]
			if !has || !isTrueC(hv) {
				continue
			}
			n++
			for _, e := range p.Effects {
				if e.Kind != "call" {
					continue
				}
				if strings.HasSuffix(e.Callee, "AggrFuncArgReader") && !(e.Args[1].Op == "param" && e.Args[1].Name == cur) {
					ok, why = false, "with \"*\" present the aggregate's arguments are read from "+e.Args[1].String()+", not from the row"
				}
				if e.Callee == "dyn" && len(e.Args) >= 3 && !(e.Args[2].Op == "param" && e.Args[2].Name == cur) {
					ok, why = false, "with \"*\" present the aggregate function receives "+e.Args[2].String()+" instead of the row"
				}
				for _, a := range e.Args {
					if a.HasField("from") {
						ok, why = false, "with \"*\" present the evaluator still reads query.from"
					}
				}
			}
		}
		if n == 0 {
			ok, why = false, "the aggregate evaluator has no branch on the presence of \"*\" in the row: whole-table aggregates cannot see the filtered rows"
		}
		c.Check(ok, "c03.filtered-flow", c.P.funcKey(f)+"/star-branch", c.P.Pos(f.Pos()), fmt.Sprintf("%d paths with \"*\": arguments and function use the row", n), why)
	}
	// (c) COUNT
	cnt, _ := c.registered("count")
	if cnt == nil {
		c.Unknown("c03.filtered-flow", "count", "-", "anchor lost: no function registered as count")
		return
	}
	c.Fn(c.P.funcKey(cnt))
	cur := paramNameOfType(cnt, "Map")
	paths, _ := WalkFunc(cnt, WalkCfg{MaxVisits: 1})
	ok, why, n := true, "", 0
	for _, p := range paths {
		if p.Exit != "return" || len(p.Ret) != 2 || !p.Ret[1].Nil {
			continue
		}
		star := false
		for k, v := range p.Asg {
			kt := p.KeyTerm[k]
			if kt != nil && kt.Op == "ext" && kt.Name == "1" && kt.Args[0].Op == "lookupok" && kt.Args[0].Args[1].Name == `"*"` && isTrueC(v) {
				star = true
			}
		}
		if !star {
			continue
		}
		n++
		r := p.Ret[0].T
		good := r != nil && r.Op == "call" && r.Name == "builtin:len" && strings.Contains(r.Args[0].String(), "lookupok:p:"+cur+`[c:"*"]`) || r != nil && r.Op == "call" && r.Name == "builtin:len" && strings.Contains(r.Args[0].String(), "AsType")
		if r != nil && r.HasField("from") {
			good = false
		}
		if !good {
			ok, why = false, "COUNT with \"*\" present returns "+avString(p.Ret[0])
		}
	}
	if n == 0 {
		ok, why = false, "COUNT has no path on which the row's \"*\" slice is counted"
	}
	c.Check(ok, "c03.filtered-flow", c.P.funcKey(cnt)+"/count-star", c.P.Pos(cnt.Pos()), "COUNT(*) returns len(row[\"*\"]) when present", why)
}

// ruleC03AggSiblings: SUM/AVG/MIN/MAX obey the same skeleton; per-iteration transfer functions.
func ruleC03AggSiblings(c *Ctx) {
	c.Doc("c03.agg-siblings", "the functions registered as sum, avg, min, max (resolved from the registration calls, not by Go name): arity guard first; the loop skips NULL members before conversion and returns conversion errors; per-iteration transfer: sum/avg accumulate acc+number, min keeps the smaller (number<acc), max the larger (number>acc), a non-NULL member clears the all-NULL flag; after the loop all-NULL yields NULL, sum/min/max yield the accumulator, avg the accumulator divided by the member count")
	for _, name := range []string{"sum", "avg", "min", "max"} {
		f, _ := c.registered(name)
		if f == nil {
			c.Unknown("c03.agg-siblings", name, "-", "anchor lost: nothing registered as "+name)
			continue
		}
		key := "registered:" + name + "=" + c.P.funcKey(f)
		c.Fn(c.P.funcKey(f))
		var why []string
		// arity guard first
		if !guardFirst(f, 1) {
			why = append(why, "the first call is not the arity guard Guard(1, args) with its error returned")
		}
		loops := rangeLoops(f)
		outer := f // the registered function
		var helperCall *ssa.Call
		if len(loops) == 0 {
			// the member loop was extracted into a helper the rule tables do not know: analyse the loop there and
			// relate the helper's results to the registered function's return afterwards
			allInstrs(f, func(_ *ssa.BasicBlock, in ssa.Instruction) {
				if call, ok := in.(*ssa.Call); ok && isUnknownHelper(call.Common().StaticCallee()) && len(rangeLoops(call.Common().StaticCallee())) == 1 && helperCall == nil {
					helperCall = call
				}
			})
			if helperCall != nil {
				f = helperCall.Common().StaticCallee()
				loops = rangeLoops(f)
			}
		}
		if len(loops) != 1 {
			c.Unknown("c03.agg-siblings", key, c.P.Pos(f.Pos()), fmt.Sprintf("expected one loop over the members, found %d", len(loops)))
			continue
		}
		lp := loops[0]
		paths, err := WalkFrom(f, lp.body, lp.header, WalkCfg{StopAt: func(b *ssa.BasicBlock) bool { return b == lp.header }, MaxVisits: 1, Bind: bindArgs(helperCall)})
		if err != nil {
			c.Unknown("c03.agg-siblings", key, c.P.Pos(f.Pos()), err.Error())
			continue
		}
		// header phis: accumulator (float64) and flag (bool)
		var acc, flag *ssa.Phi
		for _, in := range lp.header.Instrs {
			if ph, ok := in.(*ssa.Phi); ok {
				switch ph.Type().String() {
				case "float64":
					acc = ph
				case "bool":
					flag = ph
				}
			}
		}
		if acc == nil || flag == nil {
			c.Unknown("c03.agg-siblings", key, c.P.Pos(f.Pos()), "the loop does not carry an accumulator and an all-NULL flag")
			continue
		}
		// the flag's polarity: "all NULL so far" starts true and is cleared by a number; "found a number" starts false and
		// is set by one. flagInit is the value that stands for "no number seen"
		flagInit, haveInit := true, false
		for i, e := range flag.Edges {
			if !lp.header.Dominates(flag.Block().Preds[i]) {
				if k, isK := e.(*ssa.Const); isK && k.Value != nil && k.Value.Kind() == constant.Bool {
					flagInit, haveInit = constant.BoolVal(k.Value), true
				}
			}
		}
		if !haveInit {
			c.Unknown("c03.agg-siblings", key, c.P.Pos(f.Pos()), "the all-NULL flag does not start from a constant")
			continue
		}
		isNumber := func(t *Term) bool {
			x := ext0(t)
			if x == nil {
				return false
			}
			a, ok := callArgs(x, "ToFloat64")
			return ok && len(a) == 1 && elemOfLoop(a[0], lp)
		}
		nNil, nNum := 0, 0
		for _, p := range paths {
			nilItem := false
			convErr := false
			var cmpKey *Term
			var cmpVal bool
			for k, v := range p.Asg {
				kt := p.KeyTerm[k]
				if kt == nil {
					continue
				}
				if x, ok := isNilTest(kt); ok {
					if elemOfLoop(x, lp) && !isErrorType(x) && isTrueC(v) {
						nilItem = true
					}
					if isErrorType(x) && !isTrueC(v) {
						convErr = true
					}
				}
				if kt.Op == "bin" && (kt.Name == "<" || kt.Name == ">" || kt.Name == "<=" || kt.Name == ">=") {
					cmpKey, cmpVal = kt, isTrueC(v)
				}
			}
			switch {
			case convErr:
				if p.Exit != "return" || p.Ret[1].Nil {
					why = append(why, "a conversion error does not end the aggregate with that error")
				}
			case nilItem:
				nNil++
				if p.Exit != "stop" || p.PhiIn[acc].T == nil || p.PhiIn[acc].T.V != ssa.Value(acc) || p.PhiIn[flag].T == nil || p.PhiIn[flag].T.V != ssa.Value(flag) {
					why = append(why, "a NULL member changes the accumulator or the all-NULL flag")
				}
				for _, e := range p.Effects {
					if e.Kind == "call" && strings.HasSuffix(e.Callee, "ToFloat64") {
						why = append(why, "a NULL member is converted before being skipped")
					}
				}
			default:
				if p.Exit != "stop" {
					continue
				}
				nNum++
				fl := p.PhiIn[flag]
				if fl.C == nil || isTrueC(fl.C) == flagInit {
					why = append(why, "a non-NULL member does not clear the all-NULL flag")
				}
				a := p.PhiIn[acc].T
				switch name {
				case "sum", "avg":
					if !(a != nil && a.Op == "bin" && a.Name == "+" && (a.Args[0].V == ssa.Value(acc) && isNumber(a.Args[1]) || a.Args[1].V == ssa.Value(acc) && isNumber(a.Args[0]))) {
						why = append(why, "the accumulator becomes "+termStr(a)+" instead of acc + number")
					}
				case "min", "max":
					if cmpKey == nil {
						why = append(why, "no comparison of the member with the accumulator")
						break
					}
					// normalise to: number REL acc
					rel := cmpKey.Name
					x, y := cmpKey.Args[0], cmpKey.Args[1]
					if y != nil && isNumber(y) && x.V == ssa.Value(acc) {
						rel = map[string]string{"<": ">", ">": "<", "<=": ">=", ">=": "<="}[rel]
					} else if !(isNumber(x) && y.V == ssa.Value(acc)) {
						why = append(why, "the comparison is not between the member and the accumulator: "+cmpKey.String())
						break
					}
					wantRel := map[string]string{"min": "<", "max": ">"}[name]
					takes := cmpVal
					if rel != wantRel && rel != wantRel+"=" {
						// opposite relation: taking on false would be the non-strict mirror
						takes = !cmpVal
						if rel != map[string]string{"<": ">=", ">": "<="}[wantRel] && rel != map[string]string{"<": ">", ">": "<"}[wantRel] {
							why = append(why, "unexpected relation "+rel)
						}
					}
					newIsNumber := a != nil && isNumber(a)
					keeps := a != nil && a.V == ssa.Value(acc)
					if takes && !newIsNumber {
						why = append(why, fmt.Sprintf("%s does not take the member when it is %s than the accumulator", name, map[string]string{"min": "smaller", "max": "larger"}[name]))
					}
					if !takes && !keeps {
						why = append(why, fmt.Sprintf("%s replaces the accumulator although the member is not %s", name, map[string]string{"min": "smaller", "max": "larger"}[name]))
					}
				}
			}
		}
		if nNil == 0 {
			why = append(why, "NULL members are not skipped")
		}
		if nNum == 0 {
			why = append(why, "no path accumulates a member")
		}
		// after the loop
		isAcc := func(t *Term) bool { return t != nil && t.V == ssa.Value(acc) }
		isFlag := func(t *Term) bool { return t != nil && t.V == ssa.Value(flag) }
		post, err := WalkFrom(f, lp.exit, lp.header, WalkCfg{MaxVisits: 1})
		ilen := -1 // helper form: the result position that carries the member count
		if err == nil && helperCall != nil {
			// the helper hands (accumulator, flag) back: find their result positions, then judge the registered function
			ia, ifl := -1, -1
			ilen = -1
			for _, p := range post {
				if p.Exit != "return" {
					continue
				}
				for i, r := range p.Ret {
					if isAcc(r.T) {
						ia = i
					}
					if isFlag(r.T) {
						ifl = i
					}
				}
			}
			if ia < 0 || ifl < 0 {
				why = append(why, "the helper that holds the member loop does not return the accumulator and the all-NULL flag")
			}
			// the member count may be handed back as well (len of the array, taken in the helper)
			for _, p := range post {
				if p.Exit != "return" {
					continue
				}
				for i, r := range p.Ret {
					if r.T != nil && r.T.Op == "call" && r.T.Name == "builtin:len" && !p.Ret[len(p.Ret)-1].NonNil && p.Ret[len(p.Ret)-1].Nil {
						ilen = i
					}
				}
			}
			resultOf := func(t *Term, idx int) bool {
				return t != nil && t.Op == "ext" && t.Name == fmt.Sprint(idx) && len(t.Args) == 1 && t.Args[0].V == ssa.Value(helperCall)
			}
			isAcc = func(t *Term) bool { return resultOf(t, ia) }
			isFlag = func(t *Term) bool { return resultOf(t, ifl) }
			post, err = WalkFunc(outer, WalkCfg{MaxVisits: 1, NoInline: true})
			var keep []*Path
			for _, p := range post {
				called := false
				for _, e := range p.Effects {
					if e.Instr == ssa.Instruction(helperCall) {
						called = true
					}
				}
				// only the paths on which the helper ran and succeeded
				failed := false
				for k, v := range p.Asg {
					if x, isN := isNilTest(p.KeyTerm[k]); isN && isErrorType(x) && !isTrueC(v) {
						failed = true
					}
				}
				if called && !failed {
					keep = append(keep, p)
				}
			}
			post = keep
		}
		if err == nil {
			sawNull, sawVal := false, false
			for _, p := range post {
				if p.Exit != "return" || len(p.Ret) != 2 {
					continue
				}
				fv, assumed := constant.Value(nil), false
				for k, v := range p.Asg {
					if kt := p.KeyTerm[k]; kt != nil && isFlag(kt) {
						fv, assumed = v, true
					}
				}
				if assumed && isTrueC(fv) == flagInit {
					sawNull = true
					if !p.Ret[0].Nil {
						why = append(why, "all-NULL input does not yield NULL")
					}
					continue
				}
				sawVal = true
				r := p.Ret[0].T
				switch name {
				case "sum", "min", "max":
					if !isAcc(r) {
						why = append(why, "the result is "+avString(p.Ret[0])+", not the accumulator")
					}
				case "avg":
					okAvg := r != nil && r.Op == "bin" && r.Name == "/" && isAcc(r.Args[0]) && r.Args[1].Op == "conv" && r.Args[1].Args[0].Op == "call" && r.Args[1].Args[0].Name == "builtin:len"
					if !okAvg && helperCall != nil && ilen >= 0 && r != nil && r.Op == "bin" && r.Name == "/" && isAcc(r.Args[0]) && r.Args[1].Op == "conv" {
						n := r.Args[1].Args[0]
						okAvg = n.Op == "ext" && n.Name == fmt.Sprint(ilen) && len(n.Args) == 1 && n.Args[0].V == ssa.Value(helperCall)
					}
					if !okAvg {
						why = append(why, "AVG returns "+avString(p.Ret[0])+", not accumulator / member count")
					}
				}
			}
			if !sawNull || !sawVal {
				why = append(why, fmt.Sprintf("after the loop: all-NULL path=%v value path=%v", sawNull, sawVal))
			}
		}
		c.Check(len(why) == 0, "c03.agg-siblings", key, c.P.Pos(f.Pos()), fmt.Sprintf("guard, NULL skip (%d), accumulate (%d), result", nNil, nNum), strings.Join(uniq(why), "; "))
	}
	// the accumulator's initial value for min/max must not exclude any member: checked as +/-MaxFloat64 or first member
	for _, name := range []string{"min", "max"} {
		f, _ := c.registered(name)
		if f == nil {
			continue
		}
		loops := rangeLoops(f)
		var helperCall *ssa.Call
		if len(loops) == 0 {
			allInstrs(f, func(_ *ssa.BasicBlock, in ssa.Instruction) {
				if call, ok := in.(*ssa.Call); ok && isUnknownHelper(call.Common().StaticCallee()) && len(rangeLoops(call.Common().StaticCallee())) == 1 && helperCall == nil {
					helperCall = call
				}
			})
			if helperCall != nil {
				loops = rangeLoops(helperCall.Common().StaticCallee())
			}
		}
		if len(loops) != 1 {
			continue // reported by the per-function obligation above
		}
		var acc *ssa.Phi
		for _, in := range loops[0].header.Instrs {
			if ph, ok := in.(*ssa.Phi); ok && ph.Type().String() == "float64" {
				acc = ph
			}
		}
		if acc == nil {
			continue
		}
		ok, why := false, "initial accumulator not found"
		for i, e := range acc.Edges {
			if acc.Block().Preds[i] == loops[0].header.Idom() || !loops[0].header.Dominates(acc.Block().Preds[i]) {
				if prm, isP := e.(*ssa.Parameter); isP && helperCall != nil {
					// helper form: the initial value is the call site's argument
					for j, hp := range helperCall.Common().StaticCallee().Params {
						if hp == prm && j < len(helperCall.Common().Args) {
							e = helperCall.Common().Args[j]
						}
					}
				}
				if cst, isC := e.(*ssa.Const); isC && cst.Value != nil {
					fv, _ := constant.Float64Val(cst.Value)
					if name == "min" && fv >= 1.7e308 || name == "max" && fv <= -1.7e308 {
						ok, why = true, ""
					} else {
						why = fmt.Sprintf("%s starts from %v: members beyond it are ignored", name, fv)
					}
				}
			}
		}
		c.Check(ok, "c03.agg-siblings", "registered:"+name+"/initial", c.P.Pos(f.Pos()), "starts from the neutral extreme", why)
	}
}

func termStr(t *Term) string {
	if t == nil {
		return "<nil>"
	}
	return t.String()
}

// guardFirst: the first call in f is Guard(n, args) and its error is returned.
func guardFirst(f *ssa.Function, n int64) bool {
	return guardFirstOn(f, n, nil, 0)
}

// guardFirstOn: the first call of f is Guard(n, args) on f's argument list (args == nil: any []any parameter), or a
// call of a helper the rule tables do not know that receives the argument list and itself starts with that guard.
func guardFirstOn(f *ssa.Function, n int64, args *ssa.Parameter, depth int) bool {
	if len(f.Blocks) == 0 || depth > 3 {
		return false
	}
	isArgs := func(v ssa.Value) bool {
		p, isP := v.(*ssa.Parameter)
		if !isP || shortType(p.Type()) != "[]any" {
			return false
		}
		return args == nil || p == args
	}
	for _, in := range f.Blocks[0].Instrs {
		call, ok := in.(*ssa.Call)
		if !ok {
			continue
		}
		cal := call.Common().StaticCallee()
		if cal == nil {
			return false
		}
		if isUnknownHelper(cal) {
			for i, a := range call.Common().Args {
				if isArgs(a) && i < len(cal.Params) {
					return guardFirstOn(cal, n, cal.Params[i], depth+1)
				}
			}
			return false
		}
		if cal.Name() != "Guard" || len(call.Common().Args) != 2 {
			return false
		}
		k, isC := constIntOf(call.Common().Args[0])
		if !isC || k != n {
			return false
		}
		return isArgs(call.Common().Args[1])
	}
	return false
}

// ruleC03Having: one output row per group satisfying HAVING, evaluated on that group's map.
func ruleC03Having(c *Ctx) {
	c.Doc("c03.having", "per group (in insertion order): the group's map holds its key columns and its members under \"*\" (the very slice built for that group), HAVING is evaluated once on that map, the map is appended to the output iff HAVING is true, and a HAVING error is returned")
	f := c.groupByFunc()
	if f == nil {
		c.Unknown("c03.having", "ExecGroupBy", "-", "anchor lost")
		return
	}
	key := c.P.funcKey(f)
	// the emitting loop: a range loop whose body calls the HAVING evaluator
	var lp *loopInfo
	var having *ssa.Function
	for _, g := range c.P.pkgFuncs(modPath) {
		allInstrs(g, func(_ *ssa.BasicBlock, in ssa.Instruction) {
			if fa, ok := in.(*ssa.FieldAddr); ok && fieldName(fa.X.Type(), fa.Field) == "havingDefinition" && g.Parent() == nil && g.Signature.Results().Len() == 2 && g.Signature.Results().At(0).Type().String() == "bool" {
				having = g
			}
		})
	}
	if having == nil {
		c.Unknown("c03.having", key, c.P.Pos(f.Pos()), "anchor lost: no HAVING evaluator")
		return
	}
	for _, l := range rangeLoops(f) {
		callsHaving := false
		for _, b := range f.Blocks {
			if !inNaturalLoop(l.header, b) {
				continue
			}
			for _, in := range b.Instrs {
				if call, ok := in.(*ssa.Call); ok && call.Common().StaticCallee() == having {
					callsHaving = true
				}
			}
		}
		if callsHaving {
			lp = l
		}
	}
	if lp == nil {
		c.Unknown("c03.having", key, c.P.Pos(f.Pos()), "anchor lost: no slice-ordered loop evaluates HAVING per group")
		return
	}
	hname := funcName(having)
	atoms := []Atom{{Name: "keep", Dom: boolDom, Match: func(t *Term) bool {
		if t.Op != "ext" || t.Name != "0" {
			return false
		}
		_, ok := callArgs(t.Args[0], hname)
		return ok
	}}}
	seen := map[string]string{}
	paths, err := WalkFrom(f, lp.body, lp.header, WalkCfg{StopAt: func(b *ssa.BasicBlock) bool { return b == lp.header }, MaxVisits: 2, MaxPaths: 6000,
		Domain: func(t *Term) []constant.Value {
			if atoms[0].Match(t) {
				seen[t.String()] = "keep"
				return boolDom
			}
			return nil
		}})
	if err != nil {
		c.Unknown("c03.having", key, c.P.Pos(f.Pos()), err.Error())
		return
	}
	var why []string
	nT, nF := 0, 0
	for _, p := range paths {
		if p.Exit == "cut" {
			continue
		}
		var hv constant.Value
		for k, v := range p.Asg {
			if seen[k] == "keep" {
				hv = v
			}
		}
		var hcall *Effect
		appends := 0
		var appended *Term
		starOK := false
		for i := range p.Effects {
			e := &p.Effects[i]
			if e.Kind == "call" && e.Callee == hname {
				hcall = e
			}
			if e.Kind == "call" && e.Callee == "builtin:append" {
				appends++
				appended = e.Args[1]
			}
			if e.Kind == "mapupdate" && e.Args[1].Name == `"*"` {
				// the members: a lookup of the grouped map with the loop's key
				if e.Args[2].Op == "lookup" && elemOfLoop(e.Args[2].Args[1], lp) {
					starOK = true
				}
				// ... or the member list carried by the loop's own element (a list of {key, rows} records)
				if e.Args[2].Op == "field" && len(e.Args[2].Args) == 1 && elemOfLoop(e.Args[2].Args[0], lp) {
					starOK = true
				}
			}
		}
		if hv == nil {
			// error path
			if p.Exit == "return" && len(p.Ret) == 2 && p.Ret[1].Nil {
				why = append(why, "the emitting loop returns successfully from inside")
			}
			continue
		}
		if hcall == nil {
			continue
		}
		if !starOK {
			why = append(why, "the group's map does not receive its own members under \"*\"")
		}
		if isTrueC(hv) {
			nT++
			if appends != 1 || appended == nil || len(appended.Args) != 1 || appended.Args[0].String() != hcall.Args[1].String() {
				why = append(why, fmt.Sprintf("HAVING true: %d appends (want exactly the group's map once)", appends))
			}
		} else {
			nF++
			if appends != 0 {
				why = append(why, "HAVING false: the group is still emitted")
			}
		}
	}
	if nT == 0 || nF == 0 {
		why = append(why, fmt.Sprintf("HAVING true/false paths: %d/%d", nT, nF))
	}
	c.Check(len(why) == 0, "c03.having", key, c.P.Pos(f.Pos()), fmt.Sprintf("true=>group emitted once (%d paths), false=>not (%d paths)", nT, nF), strings.Join(uniq(why), "; "))
}

func init() { register("C03", ruleC03OneRowOnlyUngrouped) }

// ruleC03OneRowOnlyUngrouped: the single-row (whole-table) branch is taken only without GROUP BY.
func ruleC03OneRowOnlyUngrouped(c *Ctx) {
	c.Doc("c03.one-row-only-ungrouped", "projection stage (ExecSelect): the branch that answers with ONE row computed over all rows (the projection called on a fresh {\"*\": rows} map) is dominated by the test len(query.groupDefinition) == 0 — with GROUP BY an all-aggregate select list still yields one row per group through the per-row branch")
	proj := c.P.Func(modPath, "SelectExpr")
	es := c.P.Func(modPath, "ExecSelect")
	if proj == nil || es == nil {
		c.Unknown("c03.one-row-only-ungrouped", "ExecSelect", "-", "anchor lost")
		return
	}
	n := 0
	allInstrs(es, func(b *ssa.BasicBlock, in ssa.Instruction) {
		call, ok := in.(*ssa.Call)
		if !ok || call.Common().StaticCallee() != proj || len(call.Call.Args) < 2 {
			return
		}
		if _, fresh := call.Call.Args[1].(*ssa.MakeMap); !fresh {
			return
		}
		n++
		guarded := false
		for _, fc := range relFacts(factsAt(b)) {
			k, isK := constIntOf(fc.y)
			if !isK || k != 0 || !(fc.r == relEQ || fc.r == relLE) {
				continue
			}
			lc, isCall := fc.x.(*ssa.Call)
			if !isCall {
				continue
			}
			if bi, isB := lc.Call.Value.(*ssa.Builtin); !isB || bi.Name() != "len" {
				continue
			}
			if ld, isLd := lc.Call.Args[0].(*ssa.UnOp); isLd {
				if fa, isFa := ld.X.(*ssa.FieldAddr); isFa && fieldName(fa.X.Type(), fa.Field) == "groupDefinition" {
					guarded = true
				}
			}
		}
		c.Check(guarded, "c03.one-row-only-ungrouped", fmt.Sprintf("ExecSelect/whole-table-branch#%d", n), c.P.Pos(call.Pos()), "dominated by len(query.groupDefinition) == 0", "the one-row whole-table branch is not guarded by the absence of GROUP BY: an all-aggregate select list with GROUP BY yields a single row over the groups instead of one row per group")
	})
	if n == 0 {
		c.Unknown("c03.one-row-only-ungrouped", "ExecSelect", c.P.Pos(es.Pos()), "anchor lost: no whole-table projection call")
	}
}

func init() { register("C03", ruleC03GroupRowAddressable) }

// ruleC03GroupRowAddressable: the grouping columns can be read back from the group's row.
func ruleC03GroupRowAddressable(c *Ctx) {
	c.Doc("c03.group-row-addressable", "group emission (ExecGroupBy): each grouping value is stored into the group's row through SetPath(row, name, value) with (name, value) ranging over the group's key map — never under the flat dotted name, which no reader finds (every reader resolves `a.g` as the path a -> g); SetPath splits an unquoted name at the dots, descends creating maps and stores the value under the last part")
	f := c.groupByFunc()
	if f == nil {
		c.Unknown("c03.group-row-addressable", "ExecGroupBy", "-", "anchor lost")
		return
	}
	// the path writer is whatever function the emission hands (row, name, value) of a key-map entry to
	var sp *ssa.Function
	var why []string
	nSet := 0
	isKeyMapEntry := func(k, v ssa.Value) bool {
		kx, ok1 := k.(*ssa.Extract)
		vx, ok2 := v.(*ssa.Extract)
		if !ok1 || !ok2 || kx.Tuple != vx.Tuple || kx.Index != 1 || vx.Index != 2 {
			return false
		}
		nx, ok := kx.Tuple.(*ssa.Next)
		if !ok {
			return false
		}
		_, isDeref := nx.Iter.(*ssa.Range).X.(*ssa.UnOp)
		return isDeref
	}
	deepInstrs(f, func(g *ssa.Function, tb *TB, _ *ssa.BasicBlock, in ssa.Instruction) {
		if x, ok := in.(*ssa.Call); ok && sp == nil {
			if cal := x.Common().StaticCallee(); cal != nil && cal.Pkg == f.Pkg && len(x.Call.Args) == 3 && isKeyMapEntry(x.Call.Args[1], x.Call.Args[2]) {
				sp = cal
			}
		}
	})
	deepInstrs(f, func(g *ssa.Function, tb *TB, _ *ssa.BasicBlock, in ssa.Instruction) {
		isKeyMapEntry := func(k, v ssa.Value) bool {
			kx, ok1 := k.(*ssa.Extract)
			vx, ok2 := v.(*ssa.Extract)
			if !ok1 || !ok2 || kx.Tuple != vx.Tuple || kx.Index != 1 || vx.Index != 2 {
				return false
			}
			nx, ok := kx.Tuple.(*ssa.Next)
			if !ok {
				return false
			}
			// the ranged map is a dereferenced group key (*key), not the row's own key map under construction
			_, isDeref := nx.Iter.(*ssa.Range).X.(*ssa.UnOp)
			return isDeref
		}
		switch x := in.(type) {
		case *ssa.MapUpdate:
			if g == f && isKeyMapEntry(x.Key, x.Value) {
				why = append(why, "a grouping value is stored under its flat (possibly dotted) name at "+c.P.Pos(x.Pos())+": `GROUP BY a.g` yields rows whose a.g reads as NULL (and HAVING on it drops every group)")
			}
		case *ssa.Call:
			if sp != nil && x.Common().StaticCallee() == sp && len(x.Call.Args) == 3 && isKeyMapEntry(x.Call.Args[1], x.Call.Args[2]) {
				nSet++
			}
		}
	})
	var rawStore *ssa.MapUpdate
	var rawUnjustified []string
	if sp == nil {
		why = append(why, "the grouping values are not handed to a path writer (row, name, value)")
	} else {
		c.Fn(sp.Name())
		// shape of SetPath: the keys of the path are the keys the READERS of the name walk — taken from the selector
		// parser itself (a quoted part is one key, quotes removed) — the value is stored under the last of them along
		// maps made on the way
		parsed, makes, lastStore, literalOnQuote := false, false, false, false
		allInstrs(sp, func(b *ssa.BasicBlock, in ssa.Instruction) {
			switch x := in.(type) {
			case *ssa.Call:
				if cal := x.Common().StaticCallee(); cal != nil && (cal.Name() == "ParseSelector" || cal.Name() == "CachedSelectors") {
					parsed = true
				}
				if a, ok := callArgs(NewTB().Of(x), "strings.Split"); ok && len(a) == 2 && a[0].Op == "param" && a[1].Name == `"."` {
					// splitting the raw name at dots: right only for names without quoted parts
					for _, fc := range factsAt(b) {
						if strings.Contains(NewTB().Of(fc.cond).String(), "strings.ContainsAny") {
							literalOnQuote = true
						}
					}
				}
			case *ssa.MakeMap:
				makes = true
			case *ssa.MapUpdate:
				if p, isP := x.Value.(*ssa.Parameter); isP && p == sp.Params[2] {
					kt := NewTB().Of(x.Key)
					if kt.Op == "index" && strings.Contains(kt.String(), "builtin:len(") {
						lastStore = true
					}
					if x.Key == ssa.Value(sp.Params[1]) {
						// stored under the text of the name: right only where the parser itself says the name is not
						// a path of keys (it failed, it produced nothing); the branch taken when a step of the path
						// is not a key (a failed type assertion decides it) is the recorded finding
						kind := rawStoreReason(b)
						switch kind {
						case "non-key":
							rawStore = x
						case "":
							rawUnjustified = append(rawUnjustified, c.P.Pos(x.Pos()))
						}
					}
				}
			}
		})
		if literalOnQuote || !parsed {
			why = append(why, "SetPath does not take the keys of the path from the selector parser: a name with a quoted part (`'first name'`, x.'first name') is stored under the literal text, quotes included, where no reader looks — the grouping column reads NULL in the output row and HAVING on it drops every group")
		}
		if len(rawUnjustified) > 0 {
			why = append(why, "the value is stored under the literal text of the name ("+strings.Join(rawUnjustified, ", ")+") on a condition that does not come from the selector parser: a name the readers resolve as a path (a quoted part, a dotted name) is kept where no reader looks and reads NULL in the output row")
		}
		if !lastStore || !makes {
			why = append(why, fmt.Sprintf("SetPath does not store the value under the last key along a created path (store at last key=%v, creates maps=%v)", lastStore, makes))
		}
	}
	if nSet == 0 && len(why) == 0 {
		why = append(why, "the grouping values are not stored through SetPath")
	}
	c.Check(len(why) == 0, "c03.group-row-addressable", "ExecGroupBy", c.P.Pos(f.Pos()), "grouping values stored along the path their names are read through", strings.Join(uniq(why), "; "))
	if sp != nil {
		pos := c.P.Pos(sp.Pos())
		if rawStore != nil {
			pos = c.P.Pos(rawStore.Pos())
		}
		c.Check(rawStore == nil, "c03.group-row-addressable", sp.Name()+"/non-key-step", pos, "no grouping value is stored under the text of a name whose path has a step that is not a key", "a grouping column with an index or reshaping step (`GROUP BY `tags[0]``) is stored under the literal text `tags[0]`, where no reader looks (the readers walk tags -> [0]): the column partitions the rows but reads NULL in the group's output row")
	}
}

// rawStoreReason classifies the branch facts under which block b runs, for a store under the raw text of a name:
// "parser" — the selector parser failed or produced nothing (emptiness of a slice); "non-key" — a type assertion
// on a step of the path failed; "" — neither.
func rawStoreReason(b *ssa.BasicBlock) string {
	classify := func(fs []fact) string {
		out := ""
		for _, fc := range fs {
			// a verdict computed from what the selector parser returned (a helper that turns the parsed steps into keys
			// and says whether all of them were keys)
			// (the verdict must be the negative one: `!ok`, `!isKeyPath(steps)`)
			if _, isBin := fc.cond.(*ssa.BinOp); !isBin && !fc.truth {
				if t := NewTB().Of(fc.cond).String(); strings.Contains(t, "ParseSelector(") || strings.Contains(t, "CachedSelectors(") {
					out = "parser"
				}
			}
			switch x := fc.cond.(type) {
			case *ssa.Extract:
				if _, isTA := x.Tuple.(*ssa.TypeAssert); isTA && !fc.truth {
					return "non-key"
				}
				if call, isCall := x.Tuple.(*ssa.Call); isCall && !fc.truth {
					for _, a := range call.Call.Args {
						if t := NewTB().Of(a).String(); strings.Contains(t, "ParseSelector(") || strings.Contains(t, "CachedSelectors(") {
							out = "parser"
						}
					}
				}
			case *ssa.BinOp:
				isNil := func(v ssa.Value) bool { k, ok := v.(*ssa.Const); return ok && k.IsNil() }
				isZero := func(v ssa.Value) bool {
					k, ok := v.(*ssa.Const)
					return ok && k.Value != nil && k.Value.Kind() == constant.Int && k.Value.ExactString() == "0"
				}
				isLen := func(v ssa.Value) bool {
					cl, ok := v.(*ssa.Call)
					if !ok {
						return false
					}
					bi, ok := cl.Call.Value.(*ssa.Builtin)
					return ok && bi.Name() == "len"
				}
				isErr := func(v ssa.Value) bool {
					ex, ok := v.(*ssa.Extract)
					if !ok {
						return false
					}
					cl, ok := ex.Tuple.(*ssa.Call)
					return ok && cl.Common().StaticCallee() != nil && isErrorType2(ex.Type())
				}
				holds := (x.Op == token.NEQ && fc.truth) || (x.Op == token.EQL && !fc.truth)
				empty := (x.Op == token.EQL && fc.truth) || (x.Op == token.NEQ && !fc.truth)
				if (isErr(x.X) && isNil(x.Y) || isErr(x.Y) && isNil(x.X)) && holds {
					out = "parser"
				}
				if (isLen(x.X) && isZero(x.Y) || isLen(x.Y) && isZero(x.X)) && empty {
					out = "parser"
				}
			}
		}
		return out
	}
	if r := classify(factsAt(b)); r != "" {
		return r
	}
	if len(b.Preds) > 1 {
		all := ""
		for _, p := range b.Preds {
			r := classify(factsOnEdge(p, b))
			if r == "" {
				return ""
			}
			if all == "" || r == "non-key" {
				all = r
			}
		}
		return all
	}
	return ""
}

func init() { register("C03", ruleC03PathWriterCopies); register("C12", ruleC03PathWriterCopies) }

// ruleC03PathWriterCopies: the path writer of the group emission copies existing maps into its own, not over them.
func ruleC03PathWriterCopies(c *Ctx) {
	c.Doc("c03.path-writer-copies", "the path writer of the group emission (SetPath): a map met on the path is copied INTO the map made for that step, never the other way round — the fresh, empty map copied over the existing one wipes the sibling that was stored before: with GROUP BY o.a, o.b one of the two columns is lost, and which one depends on Go's map order (a different row on every run)")
	sp := c.P.Func(modPath, "SetPath")
	if sp == nil {
		// anchored structurally by c03.group-row-addressable; without the named function there is nothing to add here
		c.PassTrivial("c03.path-writer-copies", "SetPath", "-", "no function of that name: see c03.group-row-addressable for the path writer")
		return
	}
	c.Fn("SetPath")
	var why []string
	n := 0
	for _, mc := range mapCopies(sp) {
		n++
		if _, fresh := mc.Dst.(*ssa.MakeMap); !fresh {
			why = append(why, "a map is copied into "+NewTB().Of(mc.Dst).String()+" at "+c.P.Pos(mc.Pos)+", which is not the map made for that step: an existing map on the path is written to and a grouping column stored earlier is overwritten")
		}
	}
	c.Check(len(why) == 0, "c03.path-writer-copies", "SetPath", c.P.Pos(sp.Pos()), fmt.Sprintf("%d map copies, each into the step's own map", n), strings.Join(why, "; "))
}
