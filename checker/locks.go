package main

import (
	"strings"

	"golang.org/x/tools/go/ssa"
)

// Engine E-lock: forward must-hold dataflow for mutexes inside one function. A mutex is
// identified by the canonical term of its address; Lock/RLock generate, Unlock/RUnlock kill,
// a deferred unlock does not kill (the lock stays held to the function's exit).

type lockState map[string]int // term -> 2 (write lock) / 1 (read lock)

func muOp(cc *ssa.CallCommon) (op string, term string) {
	nm := calleeName(cc)
	for _, n := range []string{"Lock", "RLock", "Unlock", "RUnlock"} {
		if strings.HasSuffix(nm, "Mutex)."+n) && len(cc.Args) > 0 {
			return n, NewTB().Of(cc.Args[0]).String()
		}
	}
	return "", ""
}

func meet(a, b lockState) lockState {
	out := lockState{}
	for k, v := range a {
		if w, ok := b[k]; ok {
			if w < v {
				v = w
			}
			out[k] = v
		}
	}
	return out
}

func eqState(a, b lockState) bool {
	if len(a) != len(b) {
		return false
	}
	for k, v := range a {
		if b[k] != v {
			return false
		}
	}
	return true
}

func transfer(in lockState, b *ssa.BasicBlock, stopAt ssa.Instruction) lockState {
	out := lockState{}
	for k, v := range in {
		out[k] = v
	}
	for _, ins := range b.Instrs {
		if ins == stopAt {
			break
		}
		if call, ok := ins.(*ssa.Call); ok {
			op, t := muOp(call.Common())
			switch op {
			case "Lock":
				out[t] = 2
			case "RLock":
				if out[t] < 1 {
					out[t] = 1
				}
			case "Unlock", "RUnlock":
				delete(out, t)
			}
		}
	}
	return out
}

// locksHeldAt returns the mutexes that are held on every path reaching `at`.
func locksHeldAt(fn *ssa.Function, at ssa.Instruction) lockState {
	inS := map[*ssa.BasicBlock]lockState{}
	outS := map[*ssa.BasicBlock]lockState{}
	init := map[*ssa.BasicBlock]bool{}
	for changed, iter := true, 0; changed && iter < 50; iter++ {
		changed = false
		for _, b := range fn.Blocks {
			var in lockState
			if b == fn.Blocks[0] {
				in = lockState{}
			} else {
				first := true
				for _, p := range b.Preds {
					if !init[p] {
						continue
					}
					if first {
						in = outS[p]
						first = false
					} else {
						in = meet(in, outS[p])
					}
				}
				if first {
					continue // no initialised predecessor yet
				}
			}
			out := transfer(in, b, nil)
			if !init[b] || !eqState(outS[b], out) || !eqState(inS[b], in) {
				inS[b], outS[b], init[b] = in, out, true
				changed = true
			}
		}
	}
	b := at.Block()
	if !init[b] {
		return lockState{}
	}
	return transfer(inS[b], b, at)
}
