package main

import (
	"fmt"
	"go/constant"
	"go/token"
	"go/types"
	"strings"

	"golang.org/x/tools/go/ssa"
)

func init() {
	register("C05", ruleC05Window, ruleC05LessTable, ruleC05SortWiring, ruleC05BuildLimitOrder, ruleExecScansEveryRow)
}

// ruleC05Window: every reslice of the result in exec is proven in range by dominating guards
// on the very value resliced (len, not cap).
func ruleC05Window(c *Ctx) {
	c.Doc("c05.window", "every reslice x[lo:hi] of the result sequence in (*Query).exec has lo <= len(x) and hi <= len(x) established by dominating guards on the very value resliced (len, not cap: reslicing into spare capacity is legal Go and yields phantom elements); the window code has no error exit; offset is applied before limit is clamped")
	c.NotDecidedClause("C05: stability/permutation of the sort (delegated to sort.Slice, trusted); that the parser only yields non-negative LIMIT/OFFSET literals (assumed)")
	c.Assume("sqlparser rejects negative LIMIT/OFFSET literals, so offsetDefinition/limitDefinition are -1 (absent) or >= 0")
	exec := c.P.Method(modPath, "Query", "exec")
	if exec == nil {
		c.Unknown("c05.window", "(*Query).exec", "-", "anchor lost")
		return
	}
	c.Fn("(*Query).exec")
	n := 0
	tbd := NewTB()
	var slices []*ssa.Slice
	wf := exec // the function that holds the window code: exec itself or a helper extracted from it
	deepInstrs(exec, func(g *ssa.Function, tb *TB, b *ssa.BasicBlock, in ssa.Instruction) {
		sl, ok := in.(*ssa.Slice)
		if !ok {
			return
		}
		if g != exec {
			if len(slices) > 0 && wf != g {
				return
			}
			if _, isSlice := sl.X.Type().Underlying().(*types.Slice); !isSlice || (sl.Low == nil && sl.High == nil) {
				return
			}
			wf, tbd = g, tb
		}
		if a, isAlloc := sl.X.(*ssa.Alloc); isAlloc && a.Comment == "varargs" {
			return
		}
		if sl.Low == nil && sl.High == nil {
			return
		}
		if _, isSlice := sl.X.Type().Underlying().(*types.Slice); !isSlice {
			return // make([]T, k) lowering: a slice of a fresh array
		}
		if shortType(sl.X.Type()) != "[]any" {
			return // not the result sequence (e.g. the post-processor list being reset)
		}
		slices = append(slices, sl)
	})
	for i, sl := range slices {
		n++
		fs := factsAt(sl.Block())
		key := fmt.Sprintf("(*Query).exec/reslice#%d", i+1)
		var why []string
		if sl.Low != nil && !proveLELen(sl.Low, sl.X, fs, 0) {
			why = append(why, "low bound "+tbd.Of(sl.Low).String()+" is not proven <= len of the resliced value")
		}
		if sl.High != nil && !proveLELen(sl.High, sl.X, fs, 0) {
			why = append(why, "high bound "+tbd.Of(sl.High).String()+" is not proven <= len of the resliced value (a clamp against a different slice's length allows a panic or phantom elements from spare capacity)")
		}
		if sl.Low != nil && sl.High != nil {
			why = append(why, "two-sided reslice: lo <= hi is not decided by this rule")
		}
		c.Check(len(why) == 0, "c05.window", key, c.P.Pos(sl.Pos()), "bounds proven against len of the resliced value", strings.Join(why, "; "))
	}
	if n == 0 {
		c.Unknown("c05.window", "(*Query).exec/reslice", c.P.Pos(exec.Pos()), "anchor lost: exec no longer reslices the result (LIMIT/OFFSET window not found)")
		return
	}
	// the low-bounded reslice must use the offset, the high-bounded one the limit; offset first
	var offSl, limSl *ssa.Slice
	for _, sl := range slices {
		if sl.Low != nil && tbd.Of(sl.Low).HasField("offsetDefinition") {
			offSl = sl
		}
		if sl.High != nil && tbd.Of(sl.High).HasField("limitDefinition") {
			limSl = sl
		}
	}
	okw, why := offSl != nil && limSl != nil, "the window does not take its low bound from offsetDefinition and its high bound from limitDefinition"
	if okw {
		// limit applies to what remains after the offset: the limit reslice operates on the offset reslice's value
		if !(limSl.X == offSl || dependsOn(limSl.X, offSl)) {
			okw, why = false, "the LIMIT reslice is not applied to the sequence that remains after OFFSET"
		}
	}
	c.Check(okw, "c05.window", "(*Query).exec/offset-then-limit", c.P.Pos(exec.Pos()), "rs[offset:] then [:limit] on the remainder", why)
	// OFFSET is applied whether or not there is a LIMIT: the offset reslice is not control-dependent on limitDefinition --
	// unless every writer of offsetDefinition also stores the row count it parsed on each of its success exits
	// ("an offset is never set without a limit"), which is what makes skipping the window for limitDefinition == -1 sound
	if offSl != nil {
		dep := ""
		for _, fc := range factsAt(offSl.Block()) {
			if ct := tbd.Of(fc.cond); ct.HasField("limitDefinition") {
				dep = ct.String()
			}
		}
		whyU := ""
		if dep != "" {
			if site := offsetWithoutLimit(c); site != "" {
				whyU = "the OFFSET reslice is reached only under a condition on limitDefinition (" + dep + "), and " + site + ": with that offset and no stored limit the rows before the offset are returned"
			}
		}
		c.Check(whyU == "", "c05.window", "(*Query).exec/offset-unconditional", c.P.Pos(offSl.Pos()), "OFFSET applied on every path, or never set without a LIMIT", whyU)
	}
	// absent limit (-1) means all rows; absent offset means 0: decision table over the two sentinels
	atoms := []Atom{
		{Name: "noLimit", Dom: boolDom, Match: func(t *Term) bool {
			return t.Op == "bin" && t.Name == "==" && t.Args[0].Op == "field" && t.Args[0].Name == "limitDefinition" && t.Args[1].Op == "const" && t.Args[1].Name == "-1"
		}},
		{Name: "noOffset", Dom: boolDom, Match: func(t *Term) bool {
			return t.Op == "bin" && t.Name == "==" && t.Args[0].Op == "field" && t.Args[0].Name == "offsetDefinition" && t.Args[1].Op == "const" && t.Args[1].Name == "-1"
		}},
	}
	_ = atoms
	hiT := tbd.Of(limSlHigh(limSl))
	loT := tbd.Of(offSlLow(offSl))
	sentOK := true
	sentWhy := ""
	if limSl != nil && !(strings.Contains(hiT.String(), "builtin:len(") && hiT.HasField("limitDefinition")) {
		sentOK, sentWhy = false, "the high bound is not {limitDefinition when set, len(rows) otherwise}: "+hiT.String()
	}
	if offSl != nil && !(strings.Contains(loT.String(), "c:0") && loT.HasField("offsetDefinition")) {
		sentOK, sentWhy = false, sentWhy+" the low bound is not {offsetDefinition when set, 0 otherwise}: "+loT.String()
	}
	c.Check(sentOK, "c05.window", "(*Query).exec/defaults", c.P.Pos(exec.Pos()), "absent LIMIT => len(rows); absent OFFSET => 0", strings.TrimSpace(sentWhy))

	// no error return in the window code: every Return dominated by the first reslice's guard block returns a nil error
	first := slices[0]
	okE, whyE := true, ""
	allInstrs(exec, func(b *ssa.BasicBlock, in ssa.Instruction) {
		r, ok := in.(*ssa.Return)
		if !ok || len(r.Results) != 2 {
			return
		}
		// reachable from the window code?
		if !reaches(first.Block(), b) {
			return
		}
		// value stored to the error result before this return, within the window region
	})
	// named results are spilled to cells in exec (it has a defer): look at stores to the error cell in blocks reachable from the window
	if wf != exec {
		// the window lives in a helper: it must not be able to fail (no error result, or only nil)
		allInstrs(wf, func(_ *ssa.BasicBlock, in ssa.Instruction) {
			r, ok := in.(*ssa.Return)
			if !ok {
				return
			}
			for i, res := range r.Results {
				if wf.Signature.Results().At(i).Type().String() == "error" {
					if cst, isC := res.(*ssa.Const); !isC || !cst.IsNil() {
						okE, whyE = false, "the window helper can return a non-nil error at "+c.P.Pos(r.Pos())
					}
				}
			}
		})
	}
	errCell := resultCell(exec, 1)
	if errCell != nil && wf == exec {
		for _, st := range storesTo(errCell) {
			if st.Parent() != exec || !reaches(first.Block(), st.Block()) {
				continue
			}
			if cst, ok := st.Val.(*ssa.Const); !ok || cst.Value != nil {
				if _, isConst := st.Val.(*ssa.Const); !isConst {
					okE, whyE = false, "the window code can return a non-nil error: "+tbd.Of(st.Val).String()+" at "+c.P.Pos(st.Pos())
				}
			}
		}
	}
	c.Check(okE, "c05.window", "(*Query).exec/no-error", c.P.Pos(first.Pos()), "no error exit after the first reslice", whyE)
	// an empty window is an empty sequence of rows: outside the FROM-less (dual) arm no success exit of exec hands out
	// the untyped nil — its callers (CTE and derived-table builders, EXISTS, the inner arrays) convert the result to rows
	resCell := resultCell(exec, 0)
	okS, whyS := true, ""
	if resCell != nil && errCell != nil {
		for _, st := range storesTo(resCell) {
			cst, isC := st.Val.(*ssa.Const)
			if st.Parent() != exec || !isC || !cst.IsNil() {
				continue
			}
			nilErr := false
			for _, in := range st.Block().Instrs {
				if es, ok := in.(*ssa.Store); ok && es.Addr == ssa.Value(errCell) {
					if ec, ok := es.Val.(*ssa.Const); ok && ec.IsNil() {
						nilErr = true
					}
				}
			}
			if !nilErr {
				continue
			}
			dual := false
			for _, fc := range factsAt(st.Block()) {
				if strings.Contains(tbd.Of(fc.cond).String(), ".dual") && fc.truth {
					dual = true
				}
			}
			if !dual {
				okS, whyS = false, "exec returns (nil, nil) at "+c.P.Pos(st.Pos())+" outside the FROM-less arm: a window that starts past the last row must be an empty row sequence — a CTE, a derived table, EXISTS or an inner array holding such a query fails (or panics) on the untyped nil"
			}
		}
	}
	// the same for results that are not spilled to cells (no deferred call in exec)
	allInstrs(exec, func(b *ssa.BasicBlock, in ssa.Instruction) {
		r, ok := in.(*ssa.Return)
		if !ok || len(r.Results) != 2 {
			return
		}
		c0, ok0 := r.Results[0].(*ssa.Const)
		c1, ok1 := r.Results[1].(*ssa.Const)
		if !ok0 || !ok1 || !c0.IsNil() || !c1.IsNil() {
			return
		}
		dual := false
		for _, fc := range factsAt(b) {
			if strings.Contains(tbd.Of(fc.cond).String(), ".dual") && fc.truth {
				dual = true
			}
		}
		if !dual {
			okS, whyS = false, "exec returns (nil, nil) at "+c.P.Pos(r.Pos())+" outside the FROM-less arm: a window that starts past the last row must be an empty row sequence"
		}
	})
	c.Check(okS, "c05.window", "(*Query).exec/empty-window-shape", c.P.Pos(exec.Pos()), "no (nil, nil) exit outside the FROM-less arm", whyS)
}

func limSlHigh(s *ssa.Slice) ssa.Value {
	if s == nil {
		return nil
	}
	return s.High
}
func offSlLow(s *ssa.Slice) ssa.Value {
	if s == nil {
		return nil
	}
	return s.Low
}

// dependsOn: v is computed from w through phis only.
func dependsOn(v, w ssa.Value) bool {
	seen := map[ssa.Value]bool{}
	var rec func(x ssa.Value) bool
	rec = func(x ssa.Value) bool {
		if x == w {
			return true
		}
		if seen[x] {
			return false
		}
		seen[x] = true
		if ph, ok := x.(*ssa.Phi); ok {
			for _, e := range ph.Edges {
				if rec(e) {
					return true
				}
			}
		}
		return false
	}
	return rec(v)
}

func reaches(from, to *ssa.BasicBlock) bool {
	seen := map[*ssa.BasicBlock]bool{}
	q := []*ssa.BasicBlock{from}
	for len(q) > 0 {
		b := q[0]
		q = q[1:]
		if b == to {
			return true
		}
		if seen[b] {
			continue
		}
		seen[b] = true
		q = append(q, b.Succs...)
	}
	return false
}

// resultCell: the Alloc holding named result i of a function with defers (nil if not spilled).
func resultCell(fn *ssa.Function, i int) *ssa.Alloc {
	var cell *ssa.Alloc
	allInstrs(fn, func(_ *ssa.BasicBlock, in ssa.Instruction) {
		r, ok := in.(*ssa.Return)
		if !ok || i >= len(r.Results) {
			return
		}
		if u, ok := r.Results[i].(*ssa.UnOp); ok && u.Op == token.MUL {
			if a, ok := u.X.(*ssa.Alloc); ok {
				cell = a
			}
		}
	})
	return cell
}

// ruleC05LessTable: the ORDER BY comparator.
func ruleC05LessTable(c *Ctx) {
	c.Doc("c05.less-table", "the ORDER BY comparator (sort.go Compare): no keys => not less; both values NULL => the key ties and the remaining keys decide; NULL first (second non-NULL) => not less; NULL second (first non-NULL) => less, in both directions; otherwise with res = compare.Compare(first, second): res==0 => the result of the same comparator on the remaining keys with the same slice, i, j; else less <=> res<0 ascending, res>0 descending; first/second are read from slice[i]/slice[j] with the first key; the direction flag is orderBy[0].Value")
	var cmpFn *ssa.Function
	for _, f := range c.P.pkgFuncs(modPath) {
		if f.Parent() != nil || f.Signature.Params().Len() != 4 || f.Signature.Results().Len() != 2 {
			continue
		}
		if shortType(f.Signature.Params().At(3).Type()) == "OrderByDefinition" && f.Signature.Results().At(0).Type().String() == "bool" {
			cmpFn = f
		}
	}
	if cmpFn == nil {
		c.Unknown("c05.less-table", "Compare", "-", "anchor lost: no (slice, i, j, OrderByDefinition) (bool, error) function")
		return
	}
	key := c.P.funcKey(cmpFn)
	c.Anchor("ORDER BY comparator", key+" "+c.P.Pos(cmpFn.Pos()))
	c.Fn(key)
	ps := cmpFn.Params
	sl, pi, pj, ob := ps[0].Name(), ps[1].Name(), ps[2].Name(), ps[3].Name()
	self := funcName(cmpFn)
	// reader(slice[i], key)
	readOf := func(t *Term, idx string) bool {
		t = ext0(t)
		if t == nil {
			return false
		}
		a, ok := callArgs(t, "ExecReader")
		if !ok || len(a) != 2 {
			return false
		}
		e := a[0]
		if !(e.Op == "index" && e.Args[0].Op == "param" && e.Args[0].Name == sl && e.Args[1].Op == "param" && e.Args[1].Name == idx) {
			return false
		}
		k := a[1]
		return k.Op == "field" && k.Name == "Key" && k.Args[0].Op == "index" && k.Args[0].Args[0].Op == "param" && k.Args[0].Args[0].Name == ob && k.Args[0].Args[1].Op == "const" && k.Args[0].Args[1].Name == "0"
	}
	atoms := []Atom{
		{Name: "empty", Dom: boolDom, Match: func(t *Term) bool {
			// len(orderBy) == 0, or the same test of a length spelled `< 1` / `<= 0` (refactoring round 11, pipeline11-r1)
			if !(t.Op == "bin" && len(t.Args) == 2 && t.Args[1].Op == "const" && t.Args[0].Op == "call" && t.Args[0].Name == "builtin:len" && t.Args[0].Args[0].Op == "param" && t.Args[0].Args[0].Name == ob) {
				return false
			}
			return t.Name == "==" && t.Args[1].Name == "0" || t.Name == "<" && t.Args[1].Name == "1" || t.Name == "<=" && t.Args[1].Name == "0"
		}},
		{Name: "firstNil", Dom: boolDom, Match: func(t *Term) bool { x, ok := isNilTest(t); return ok && readOf(x, pi) }},
		{Name: "secondNil", Dom: boolDom, Match: func(t *Term) bool { x, ok := isNilTest(t); return ok && readOf(x, pj) }},
		{Name: "res", Dom: signDom, Match: func(t *Term) bool {
			a, ok := isCompareCall(t)
			return ok && readOf(a[0], pi) && readOf(a[1], pj)
		}},
		{Name: "resSwapped", Dom: signDom, Match: func(t *Term) bool {
			a, ok := isCompareCall(t)
			return ok && readOf(a[0], pj) && readOf(a[1], pi)
		}},
		{Name: "asc", Dom: boolDom, Match: func(t *Term) bool {
			return t.Op == "field" && t.Name == "Value" && t.Args[0].Op == "index" && t.Args[0].Args[0].Op == "param" && t.Args[0].Args[0].Name == ob && t.Args[0].Args[1].Op == "const" && t.Args[0].Args[1].Name == "0"
		}},
		{Name: "rest", Dom: boolDom, Match: func(t *Term) bool {
			x := ext0(t)
			if x == nil {
				return false
			}
			a, ok := callArgs(x, self)
			if !ok || len(a) != 4 {
				return false
			}
			if !(a[0].Op == "param" && a[0].Name == sl && a[1].Op == "param" && a[1].Name == pi && a[2].Op == "param" && a[2].Name == pj) {
				return false
			}
			// orderBy[1:]
			s := a[3]
			return s.Op == "slice" && s.Args[0].Op == "param" && s.Args[0].Name == ob && s.Args[1].Op == "const" && s.Args[1].Name == "1" && s.Args[2].Name == "-"
		}},
	}
	if !selfCalls(cmpFn) {
		// iterative form: one pass over the keys, the first key that tells the rows apart decides
		for _, lp := range rangeLoops(cmpFn) {
			if p, isP := lp.over.(*ssa.Parameter); isP && p.Name() == ob {
				c.lessTableLoopForm(cmpFn, lp, key)
				return
			}
		}
	}
	tb := BuildTable(cmpFn, atoms, true)
	if tb.Err != nil {
		c.Unknown("c05.less-table", key, c.P.Pos(cmpFn.Pos()), tb.Err.Error())
		return
	}
	r := tb.CheckTable(0, nil, func(m map[string]constant.Value) (constant.Value, bool) {
		if signOf(m["res"]) != -signOf(m["resSwapped"]) {
			return nil, false
		}
		switch {
		case isTrueC(m["empty"]):
			return cFalse, true
		case isTrueC(m["firstNil"]) && isTrueC(m["secondNil"]):
			// two rows without a value for this key tie on it: the remaining keys decide
			return m["rest"], true
		case isTrueC(m["firstNil"]):
			return cFalse, true
		case isTrueC(m["secondNil"]):
			return cTrue, true
		}
		res := signOf(m["res"])
		if res == 0 {
			return m["rest"], true
		}
		if isTrueC(m["asc"]) {
			return boolOf(res < 0), true
		}
		return boolOf(res > 0), true
	})
	var missing []string
	for _, n := range []string{"empty", "firstNil", "secondNil", "asc", "rest"} {
		if !r.Used[n] {
			missing = append(missing, n)
		}
	}
	if !r.Used["res"] && !r.Used["resSwapped"] {
		missing = append(missing, "res")
	}
	why := r.Why()
	if len(missing) > 0 {
		why = "the comparator does not consult: " + strings.Join(missing, ",") + " (as slice[i]/slice[j] read with orderBy[0].Key, orderBy[0].Value, recursion on orderBy[1:] with the same slice,i,j); " + why
	}
	c.Check(r.OK() && len(missing) == 0, "c05.less-table", key, c.P.Pos(cmpFn.Pos()), fmt.Sprintf("%d rows of the comparator table (incl. NULL placement, direction, tie recursion)", r.Rows), why)
}

// ruleC05SortWiring: Sort hands the comparator's verdict to sort.Slice on the same slice, with
// (i, j) in order; ExecOrderBy sorts the projected rows by query.orderByDefinition and exec
// passes the projected (not the source) rows; errors are propagated.
func ruleC05SortWiring(c *Ctx) {
	c.Doc("c05.sort-wiring", "Sort calls sort.Slice on its slice parameter with a less function returning the comparator's verdict for (slice, i, j, orderBy) in that order; the ORDER BY stage sorts by query.orderByDefinition; in exec the sorted sequence is the projection's output and is what the window is cut from")
	sortFn := c.P.Func(modPath, "Sort")
	if sortFn == nil {
		for _, f := range c.P.pkgFuncs(modPath) {
			if f.Parent() == nil && f.Signature.Params().Len() == 2 && shortType(f.Signature.Params().At(1).Type()) == "OrderByDefinition" {
				sortFn = f
			}
		}
	}
	if sortFn == nil {
		c.Unknown("c05.sort-wiring", "Sort", "-", "anchor lost")
		return
	}
	c.Fn(c.P.funcKey(sortFn))
	var sliceCall *ssa.Call
	allInstrs(sortFn, func(_ *ssa.BasicBlock, in ssa.Instruction) {
		if call, ok := in.(*ssa.Call); ok {
			if cal := call.Common().StaticCallee(); cal != nil && cal.Pkg != nil && cal.Pkg.Pkg.Path() == "sort" && (cal.Name() == "Slice" || cal.Name() == "SliceStable") {
				sliceCall = call
			}
		}
	})
	ok, why := true, ""
	if sliceCall == nil {
		c.Unknown("c05.sort-wiring", "Sort/sort.Slice", c.P.Pos(sortFn.Pos()), "anchor lost: Sort does not call sort.Slice")
		return
	}
	tbd := NewTB()
	if t := tbd.Of(sliceCall.Common().Args[0]); !(t.Op == "param" && t.Name == sortFn.Params[0].Name()) {
		ok, why = false, "sort.Slice is not applied to Sort's slice parameter: "+t.String()
	}
	mc, isClosure := sliceCall.Common().Args[1].(*ssa.MakeClosure)
	if !isClosure {
		ok, why = false, "less is not a closure"
	} else {
		less := mc.Fn.(*ssa.Function)
		c.Fn(c.P.funcKey(less))
		// the captured variables (or the fields of the record a method value is bound to) resolve to Sort's own values
		paths, err := WalkFunc(less, WalkCfg{MaxVisits: 1, Bind: bindFreeVars(mc)})
		if err != nil {
			ok, why = false, err.Error()
		}
		nRet := 0
		for _, p := range paths {
			if p.Exit != "return" {
				continue
			}
			nRet++
			t := ext0(p.Ret[0].T)
			if t == nil || t.Op != "call" || len(t.Args) != 4 {
				ok, why = false, "less returns "+p.Ret[0].T.String()
				continue
			}
			a := t.Args
			isSortParam := func(t *Term, k int) bool {
				return t.Op == "param" && k < len(sortFn.Params) && t.Name == sortFn.Params[k].Name()
			}
			if !(isSortParam(a[0], 0) && a[1].Op == "param" && a[1].Name == less.Params[0].Name() && a[2].Op == "param" && a[2].Name == less.Params[1].Name() && isSortParam(a[3], 1)) {
				ok, why = false, "less does not return comparator(slice, i, j, orderBy) with i, j in order: "+t.String()
			}
			// error path must not return normally
			for k, v := range p.Asg {
				if kt := p.KeyTerm[k]; kt != nil {
					if x, isNil := isNilTest(kt); isNil && isErrorType(x) && v.Kind() == constant.Bool && !constant.BoolVal(v) {
						ok, why = false, "less returns normally although the comparator reported an error"
					}
				}
			}
		}
		if nRet == 0 {
			ok, why = false, "less has no return path"
		}
	}
	c.Check(ok, "c05.sort-wiring", c.P.funcKey(sortFn), c.P.Pos(sliceCall.Pos()), "sort.Slice(slice, less=comparator(slice,i,j,orderBy)); comparator errors do not return normally", why)

	// ExecOrderBy: Sort(current, query.orderByDefinition), error returned, current returned
	var stage *ssa.Function
	for _, f := range c.P.pkgFuncs(modPath) {
		if f.Parent() != nil {
			continue
		}
		allInstrs(f, func(_ *ssa.BasicBlock, in ssa.Instruction) {
			if call, ok := in.(*ssa.Call); ok && call.Common().StaticCallee() == sortFn {
				stage = f
			}
		})
	}
	if stage == nil {
		c.Unknown("c05.sort-wiring", "ExecOrderBy", "-", "anchor lost: nothing calls Sort")
		return
	}
	c.Fn(c.P.funcKey(stage))
	okS, whyS := true, ""
	paths, _ := WalkFunc(stage, WalkCfg{MaxVisits: 1})
	sawSort := false
	rowsParam := ""
	for _, pa := range stage.Params {
		if shortType(pa.Type()) == "[]any" {
			rowsParam = pa.Name()
		}
	}
	for _, p := range paths {
		if p.Exit != "return" || len(p.Ret) != 2 {
			continue
		}
		for _, e := range p.Effects {
			if e.Kind == "call" && e.Callee == funcName(sortFn) {
				sawSort = true
				if !(e.Args[0].Op == "param" && e.Args[0].Name == rowsParam && e.Args[1].Op == "field" && e.Args[1].Name == "orderByDefinition") {
					okS, whyS = false, "Sort is not applied to (rows parameter, query.orderByDefinition): "+e.Args[0].String()+", "+e.Args[1].String()
				}
			}
		}
		if p.Ret[1].Nil && !(p.Ret[0].T.Op == "param" && p.Ret[0].T.Name == rowsParam) {
			okS, whyS = false, "a success path returns "+p.Ret[0].T.String()+" instead of the rows"
		}
	}
	if !sawSort {
		okS, whyS = false, "no path sorts"
	}
	c.Check(okS, "c05.sort-wiring", c.P.funcKey(stage), c.P.Pos(stage.Pos()), "sorts its rows by query.orderByDefinition and returns them", whyS)

	// exec: stage order projection -> (distinct) -> order-by -> window; each stage feeds the next
	exec := c.P.Method(modPath, "Query", "exec")
	if exec == nil {
		return
	}
	okX, whyX := true, ""
	var obCall *ssa.Call
	allInstrs(exec, func(_ *ssa.BasicBlock, in ssa.Instruction) {
		if call, ok := in.(*ssa.Call); ok && call.Common().StaticCallee() == stage {
			obCall = call
		}
	})
	if obCall == nil {
		okX, whyX = false, "exec does not run the ORDER BY stage"
	} else {
		arg := tbd.Of(obCall.Common().Args[1])
		if !(strings.Contains(arg.String(), "ExecSelect(") || strings.Contains(arg.String(), "ExecDistinct(")) {
			okX, whyX = false, "the ORDER BY stage does not receive the projected rows: "+arg.String()
		}
		// the window is cut from the sorted rows
		cut := false
		deepInstrs(exec, func(_ *ssa.Function, tb *TB, _ *ssa.BasicBlock, in ssa.Instruction) {
			if sl, ok := in.(*ssa.Slice); ok && sl.Low != nil {
				if strings.Contains(tb.Of(sl.X).String(), funcName(stage)+"(") {
					cut = true
				}
			}
		})
		if !cut {
			okX, whyX = false, "the window is not cut from the ORDER BY stage's output"
		}
	}
	c.Check(okX, "c05.sort-wiring", "(*Query).exec/order-then-window", c.P.Pos(exec.Pos()), "projection -> ORDER BY -> window", whyX)
}

// ruleC05BuildLimitOrder: both LIMIT spellings are read; direction flag is Direction == AscOrder.
func ruleC05BuildLimitOrder(c *Ctx) {
	c.Doc("c05.build", "BuildLimit stores Limit.Rowcount into limitDefinition and Limit.Offset (when present) into offsetDefinition, each through the integer parse of its own literal; BuildOrder's direction flag is true exactly for sqlparser.AscOrder and the key is the column's own (qualified) name; keys are appended in clause order")
	bl := c.theFunc("limit builder", "*sqlparser.Limit", "BuildLimit")
	if bl == nil {
		c.Unknown("c05.build", "BuildLimit", "-", "anchor lost: no function takes *sqlparser.Limit")
	} else {
		lp := paramNameOfType(bl, "*sqlparser.Limit")
		paths, _ := WalkFunc(bl, WalkCfg{MaxVisits: 1})
		got := map[string]string{}
		bad := ""
		for _, p := range paths {
			if p.Exit != "return" || len(p.Ret) != 1 || !p.Ret[0].Nil {
				continue
			}
			for _, e := range p.Effects {
				if e.Kind == "store" && e.Args[0].Op == "field" && (e.Args[0].Name == "limitDefinition" || e.Args[0].Name == "offsetDefinition") {
					src := ""
					fr := fieldsRead(e.Args[1], lp)
					for f := range fr {
						src += f
					}
					if !hasCallOnSpine(e.Args[1], "strconv.Atoi") && !hasCallOnSpine(e.Args[1], "strconv.ParseInt") {
						bad = "the stored value is not the integer parse of the literal: " + e.Args[1].String()
					}
					if prev, ok := got[e.Args[0].Name]; ok && prev != src {
						bad = "inconsistent sources for " + e.Args[0].Name
					}
					got[e.Args[0].Name] = src
				}
			}
		}
		ok := got["limitDefinition"] == "Rowcount" && got["offsetDefinition"] == "Offset" && bad == ""
		why := bad
		if why == "" && !ok {
			why = fmt.Sprintf("limitDefinition <- Limit.%s, offsetDefinition <- Limit.%s (want Rowcount, Offset)", got["limitDefinition"], got["offsetDefinition"])
		}
		c.Check(ok, "c05.build", c.P.funcKey(bl), c.P.Pos(bl.Pos()), "limitDefinition <- Atoi(Limit.Rowcount), offsetDefinition <- Atoi(Limit.Offset)", why)
	}
	bo := c.theFunc("order builder", "*sqlparser.OrderBy", "BuildOrder")
	if bo == nil {
		c.Unknown("c05.build", "BuildOrder", "-", "anchor lost: no function takes *sqlparser.OrderBy")
		return
	}
	asc := int64(-1)
	dirs := c.P.enumConsts(sqlp, "OrderDirection")
	for v, n := range dirs {
		if n == "AscOrder" {
			asc = v
		}
	}
	ok, why := true, ""
	n := 0
	allInstrs(bo, func(_ *ssa.BasicBlock, in ssa.Instruction) {
		st, isSt := in.(*ssa.Store)
		if !isSt {
			return
		}
		fa, isFA := st.Addr.(*ssa.FieldAddr)
		if !isFA || fieldName(fa.X.Type(), fa.Field) != "Value" {
			return
		}
		n++
		t := NewTB().Of(st.Val)
		// evaluate the flag for every OrderDirection constant: true exactly for AscOrder
		var dirT *Term
		t.Walk(func(x *Term) bool {
			if x.Op == "field" && x.Name == "Direction" {
				dirT = x
			}
			return dirT == nil
		})
		if dirT == nil {
			ok, why = false, "direction flag does not depend on the clause's Direction: "+t.String()
			return
		}
		for v, name := range dirs {
			got, decided := EvalTermN(t, Asg{dirT.String(): cInt(v)})
			if !decided || got.Kind() != constant.Bool || constant.BoolVal(got) != (v == asc) {
				ok, why = false, fmt.Sprintf("direction flag %s is not (true exactly for AscOrder) at %s", t.String(), name)
			}
		}
	})
	if n == 0 {
		ok, why = false, "no store to the direction flag found"
	}
	c.Check(ok, "c05.build", c.P.funcKey(bo)+"/direction", c.P.Pos(bo.Pos()), fmt.Sprintf("%d stores: Value = (Direction == AscOrder)", n), why)
}

// lessTableLoopForm: the comparator written as a loop over the keys. Per iteration (for every key position): NULL
// first => not less; NULL second => less; res = compare.Compare(first, second) != 0 => less iff res<0 ascending /
// res>0 descending; res == 0 => next key. After the last key: not less. Equivalent to the recursive table.
func (c *Ctx) lessTableLoopForm(f *ssa.Function, lp *loopInfo, key string) {
	ps := f.Params
	sl, pi, pj := ps[0].Name(), ps[1].Name(), ps[2].Name()
	readOf := func(t *Term, idx string) bool {
		t = ext0(t)
		if t == nil {
			return false
		}
		a, ok := callArgs(t, "ExecReader")
		if !ok || len(a) != 2 {
			return false
		}
		e := a[0]
		if !(e.Op == "index" && e.Args[0].Op == "param" && e.Args[0].Name == sl && e.Args[1].Op == "param" && e.Args[1].Name == idx) {
			return false
		}
		k := a[1]
		return k.Op == "field" && k.Name == "Key" && elemOfLoop(k, lp)
	}
	kind := func(t *Term) string {
		if x, ok := isNilTest(t); ok {
			if readOf(x, pi) {
				return "firstNil"
			}
			if readOf(x, pj) {
				return "secondNil"
			}
		}
		if a, ok := isCompareCall(t); ok {
			if readOf(a[0], pi) && readOf(a[1], pj) {
				return "res"
			}
			if readOf(a[0], pj) && readOf(a[1], pi) {
				return "resSwapped"
			}
		}
		if t.Op == "field" && t.Name == "Value" && elemOfLoop(t, lp) {
			return "asc"
		}
		return ""
	}
	seen := map[string]string{}
	cfg := WalkCfg{
		Domain: func(t *Term) []constant.Value {
			switch k := kind(t); k {
			case "firstNil", "secondNil", "asc":
				seen[t.String()] = k
				return boolDom
			case "res", "resSwapped":
				seen[t.String()] = k
				return signDom
			}
			return nil
		},
		Prune: func(_ string, t *Term, val constant.Value) bool {
			x, ok := isNilTest(t)
			return ok && isErrorType(x) && val.Kind() == constant.Bool && !constant.BoolVal(val)
		},
		StopAt:    func(b *ssa.BasicBlock) bool { return b == lp.header },
		MaxVisits: 1, MaxPaths: 4000,
	}
	paths, err := WalkFrom(f, lp.body, lp.header, cfg)
	if err != nil {
		c.Unknown("c05.less-table", key, c.P.Pos(f.Pos()), err.Error())
		return
	}
	var why []string
	rows := 0
	for _, p := range paths {
		m := map[string]constant.Value{}
		for k, v := range p.Asg {
			if n, ok := seen[k]; ok {
				m[n] = v
			}
		}
		if rs, has := m["resSwapped"]; has {
			if _, hasRes := m["res"]; !hasRes {
				m["res"] = cInt(int64(-signOf(rs)))
			}
		}
		want, decided := "", true
		switch {
		case m["firstNil"] == nil:
			decided = false
		case isTrueC(m["firstNil"]) && m["secondNil"] == nil:
			// a NULL first value alone does not decide: against another NULL the key ties
			decided = false
		case isTrueC(m["firstNil"]) && isTrueC(m["secondNil"]):
			want = "next"
		case isTrueC(m["firstNil"]):
			want = "false"
		case m["secondNil"] == nil:
			decided = false
		case isTrueC(m["secondNil"]):
			want = "true"
		case m["res"] == nil:
			decided = false
		case signOf(m["res"]) == 0:
			want = "next"
		case m["asc"] == nil:
			decided = false
		case isTrueC(m["asc"]):
			want = fmt.Sprint(signOf(m["res"]) < 0)
		default:
			want = fmt.Sprint(signOf(m["res"]) > 0)
		}
		got := p.Exit
		if p.Exit == "return" && len(p.Ret) == 2 {
			if p.Ret[0].C != nil {
				got = p.Ret[0].C.ExactString()
			} else {
				got = avString(p.Ret[0])
			}
		}
		if p.Exit == "stop" {
			got = "next"
		}
		rows++
		if !decided {
			why = append(why, fmt.Sprintf("a path ends with %s without consulting, in order, NULL first / NULL second / the comparison / the direction (%v)", got, m))
			continue
		}
		if got != want {
			why = append(why, fmt.Sprintf("wrong result: %v yields %s, reference %s", m, got, want))
		}
	}
	// after the last key: not less; before the loop: nothing but an optional empty-keys shortcut to `not less`
	post, err := WalkFrom(f, lp.exit, lp.header, WalkCfg{MaxVisits: 1})
	if err != nil || len(post) == 0 {
		why = append(why, "no path after the last key")
	}
	for _, p := range post {
		if p.Exit != "return" || len(p.Ret) != 2 || p.Ret[0].C == nil || isTrueC(p.Ret[0].C) || !p.Ret[1].Nil {
			why = append(why, "when every key ties the comparator does not answer `not less`")
		}
	}
	pre, _ := WalkFunc(f, WalkCfg{StopAt: func(b *ssa.BasicBlock) bool { return b == lp.header }, MaxVisits: 1})
	for _, p := range pre {
		if p.Exit == "return" && (len(p.Ret) != 2 || p.Ret[0].C == nil || isTrueC(p.Ret[0].C)) {
			why = append(why, "a return before the first key answers "+avString(p.Ret[0]))
		}
	}
	if rows < 6 {
		why = append(why, fmt.Sprintf("only %d iteration paths", rows))
	}
	c.Check(len(why) == 0, "c05.less-table", key, c.P.Pos(f.Pos()), fmt.Sprintf("loop form: %d iteration paths agree with the comparator table; ties on every key => not less", rows), strings.Join(uniq(why), "; "))
}

// offsetWithoutLimit looks at every function of the module that stores a computed value into Query.offsetDefinition and
// returns a description of a success exit it can reach without storing a computed value into Query.limitDefinition ("" when
// there is none): the invariant a window code that tests the limit first relies on.
func offsetWithoutLimit(c *Ctx) string {
	storesOf := func(g *ssa.Function, field string) []*ssa.Store {
		var out []*ssa.Store
		allInstrs(g, func(_ *ssa.BasicBlock, in ssa.Instruction) {
			st, ok := in.(*ssa.Store)
			if !ok {
				return
			}
			fa, ok := st.Addr.(*ssa.FieldAddr)
			if !ok || fieldName(fa.X.Type(), fa.Field) != field {
				return
			}
			if _, isC := st.Val.(*ssa.Const); isC {
				return
			}
			out = append(out, st)
		})
		return out
	}
	for _, g := range c.P.genqlFuncs() {
		offs := storesOf(g, "offsetDefinition")
		if len(offs) == 0 {
			continue
		}
		lims := storesOf(g, "limitDefinition")
		for _, off := range offs {
			for _, b := range g.Blocks {
				if len(b.Instrs) == 0 {
					continue
				}
				r, ok := b.Instrs[len(b.Instrs)-1].(*ssa.Return)
				if !ok || !(b == off.Block() || reaches(off.Block(), b)) {
					continue
				}
				failure := false
				for i, res := range r.Results {
					if g.Signature.Results().At(i).Type().String() == "error" {
						if cst, isC := res.(*ssa.Const); !isC || !cst.IsNil() {
							failure = true
						}
					}
				}
				if failure {
					continue
				}
				covered := false
				for _, lim := range lims {
					if lim.Block() == b || lim.Block().Dominates(b) {
						covered = true
					}
				}
				if !covered {
					return funcName(g) + " stores an offset at " + c.P.Pos(off.Pos()) + " and can return successfully at " + c.P.Pos(r.Pos()) + " without storing the row count"
				}
			}
		}
	}
	return ""
}
