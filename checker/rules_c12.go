package main

import (
	"fmt"
	"go/constant"
	"go/types"
	"sort"
	"strings"

	"golang.org/x/tools/go/ssa"
)

func init() {
	register("C12", ruleC12UnwrapTable, ruleC12SinksUnwrapped, ruleC12OmitFuse, ruleC12Determinism,
		// async slots are resolved (also in nested evaluations), the <- key never enters an output row (shared with C14 / C10)
		ruleC14SlotRoundTrip, ruleC14NestedWaits, ruleC10MarkerNotCopied)
}

func ruleC12UnwrapTable(c *Ctx) {
	c.Doc("c12.unwrap-table", "the unwrapper (ValueOf) resolves every engine-internal value wrapper the expression evaluators can hand out: ColumnName -> the value read from the current row by that name (error propagated), NeutalString -> the plain string, *float64 -> the number (NULL for a nil pointer); every other value is returned as it is")
	if c.Property == "C12" {
		c.NotDecidedClause("C12: JSON-representability of values returned by user functions; equality of two executions on concrete inputs")
	}
	f := c.P.Func(modPath, "ValueOf")
	if f == nil {
		c.Unknown("c12.unwrap-table", "ValueOf", "-", "anchor lost")
		return
	}
	c.Fn("ValueOf")
	paths, err := WalkFunc(f, WalkCfg{MaxVisits: 1})
	if err != nil {
		c.Unknown("c12.unwrap-table", "ValueOf", c.P.Pos(f.Pos()), err.Error())
		return
	}
	val := f.Params[len(f.Params)-1].Name()
	row := paramNameOfType(f, "Map")
	arms := map[string]string{}
	sawNilPtrArm := false
	for _, p := range paths {
		if p.Exit != "return" || len(p.Ret) != 2 {
			continue
		}
		kind := "default"
		for _, k := range p.Order {
			kt := p.KeyTerm[k]
			if kt != nil && kt.Op == "ext" && kt.Name == "1" && kt.Args[0].Op == "assertok" {
				if v, _ := p.Assumed(k); v {
					kind = kt.Args[0].Name
				}
			}
		}
		errNon := false
		for k, v := range p.Asg {
			if kt := p.KeyTerm[k]; kt != nil {
				if x, isN := isNilTest(kt); isN && isErrorType(x) && !isTrueC(v) {
					errNon = true
				}
			}
		}
		r := p.Ret[0]
		verdict := "ok"
		switch kind {
		case "ColumnName":
			if errNon {
				if p.Ret[1].Nil {
					verdict = "a failing column lookup is not reported"
				}
				break
			}
			x := ext0(r.T)
			a, isReader := callArgs(x, "ExecReader")
			if x == nil || !isReader || !(a[0].Op == "param" && a[0].Name == row) || !strings.Contains(a[1].String(), "assertok[ColumnName](p:"+val+")") {
				verdict = "a column reference yields " + avString(r) + " instead of the value read from the current row"
			}
		case "NeutalString":
			// string(value) of a named string type is a type change without a conversion instruction: the
			// static type of the returned value is checked separately below
			if !(r.T != nil && strings.Contains(r.T.String(), "assertok[NeutalString](p:"+val+")")) {
				verdict = "a string literal wrapper yields " + avString(r) + " instead of the plain string"
			}
		case "*float64":
			nilPtr := false
			for k, v := range p.Asg {
				if kt := p.KeyTerm[k]; kt != nil {
					if x, isN := isNilTest(kt); isN && strings.Contains(x.String(), "assertok[*float64]") && isTrueC(v) {
						nilPtr = true
					}
				}
			}
			if nilPtr {
				sawNilPtrArm = true
				if !r.Nil {
					verdict = "a nil number pointer does not yield NULL"
				}
			} else if !(r.T != nil && r.T.Op == "load" && strings.Contains(r.T.String(), "assertok[*float64](p:"+val+")")) {
				verdict = "a number pointer yields " + avString(r) + " instead of the number"
			}
		default:
			if !(r.T != nil && r.T.Op == "param" && r.T.Name == val) {
				verdict = "a plain value is changed: " + avString(r)
			}
		}
		if prev, has := arms[kind]; !has || prev == "ok" {
			arms[kind] = verdict
		}
	}
	// no return hands out a value whose static type is still an engine wrapper
	leak := ""
	allInstrs(f, func(_ *ssa.BasicBlock, in ssa.Instruction) {
		r, ok := in.(*ssa.Return)
		if !ok {
			return
		}
		var chk func(v ssa.Value, d int)
		chk = func(v ssa.Value, d int) {
			if d > 4 {
				return
			}
			switch x := v.(type) {
			case *ssa.Phi:
				for _, e := range x.Edges {
					chk(e, d+1)
				}
			case *ssa.MakeInterface:
				switch shortType(x.X.Type()) {
				case "NeutalString", "ColumnName", "*float64", "Ommit":
					leak = "a return boxes a value of static type " + shortType(x.X.Type()) + " at " + c.P.Pos(r.Pos())
				}
			}
		}
		chk(r.Results[0], 0)
	})
	c.Check(leak == "", "c12.unwrap-table", "ValueOf/static-types", c.P.Pos(f.Pos()), "no return boxes a wrapper-typed value", leak)
	c.Check(sawNilPtrArm, "c12.unwrap-table", "ValueOf/*float64-nil", c.P.Pos(f.Pos()), "the nil number pointer (arithmetic over a NULL operand) is tested before the dereference and yields NULL", "the number-pointer arm dereferences without a nil test: the nil pointer arithmetic hands out for a NULL operand panics instead of yielding NULL")
	for _, k := range []string{"ColumnName", "NeutalString", "*float64", "default"} {
		v, has := arms[k]
		c.Check(has && v == "ok", "c12.unwrap-table", "ValueOf/"+k, c.P.Pos(f.Pos()), "arm resolves the wrapper", func() string {
			if !has {
				return "the unwrapper has no arm for " + k + ": that wrapper type escapes into results"
			}
			return v
		}())
	}
}

// ruleC12SinksUnwrapped: raw evaluator results never enter a container.
func ruleC12SinksUnwrapped(c *Ctx) {
	c.Doc("c12.sink-unwrapped", "for every call of the expression dispatcher Expr in the module: its value result reaches a container that can end up in a result (append onto a slice, a map update) only through the unwrapper ValueOf (or a dedicated resolution of a ColumnName); raw wrapper values (NeutalString, *float64, ColumnName) are never stored")
	expr := c.P.Func(modPath, "Expr")
	if expr == nil {
		c.Unknown("c12.sink-unwrapped", "Expr", "-", "anchor lost")
		return
	}
	n := 0
	for _, f := range c.P.pkgFuncs(modPath) {
		k := 0
		allInstrs(f, func(_ *ssa.BasicBlock, in ssa.Instruction) {
			call, ok := in.(*ssa.Call)
			if !ok || call.Common().StaticCallee() != expr {
				return
			}
			k++
			n++
			key := fmt.Sprintf("%s/Expr#%d", c.P.funcKey(f), k)
			c.Fn(c.P.funcKey(f))
			var val ssa.Value
			if refs := call.Referrers(); refs != nil {
				for _, r := range *refs {
					if ex, isEx := r.(*ssa.Extract); isEx && ex.Index == 0 {
						val = ex
					}
				}
			}
			if val == nil {
				c.PassTrivial("c12.sink-unwrapped", key, c.P.Pos(call.Pos()), "value unused")
				return
			}
			bad := ""
			seen := map[ssa.Value]bool{}
			var visit func(v ssa.Value, d int)
			visit = func(v ssa.Value, d int) {
				if seen[v] || d > 5 || bad != "" {
					return
				}
				seen[v] = true
				refs := v.Referrers()
				if refs == nil {
					return
				}
				for _, r := range *refs {
					switch r := r.(type) {
					case *ssa.Phi:
						visit(r, d+1)
					case *ssa.MakeInterface, *ssa.ChangeInterface:
						visit(r.(ssa.Value), d+1)
					case *ssa.MapUpdate:
						if r.Value == v {
							bad = "stored into a map at " + c.P.Pos(r.Pos())
						}
					case *ssa.Store:
						if ia, isIA := r.Addr.(*ssa.IndexAddr); isIA && r.Val == v {
							if a, isA := ia.X.(*ssa.Alloc); isA && a.Comment == "varargs" {
								// varargs of which call?
								if ar := a.Referrers(); ar != nil {
									for _, u := range *ar {
										if sl, isSl := u.(*ssa.Slice); isSl {
											if sr := sl.Referrers(); sr != nil {
												for _, uu := range *sr {
													if ac, isC := uu.(*ssa.Call); isC {
														if b, isB := ac.Common().Value.(*ssa.Builtin); isB && b.Name() == "append" {
															bad = "appended to a slice at " + c.P.Pos(ac.Pos())
														}
													}
												}
											}
										}
									}
								}
							} else {
								bad = "stored into a slice element at " + c.P.Pos(r.Pos())
							}
						}
						if cell, isCell := r.Addr.(*ssa.Alloc); isCell && r.Val == v {
							// a variable: follow its loads in this function
							if cr := cell.Referrers(); cr != nil {
								for _, u := range *cr {
									if ld, isLd := u.(*ssa.UnOp); isLd && ld.Parent() == f {
										visit(ld, d+1)
									}
								}
							}
						}
					}
				}
			}
			visit(val, 0)
			c.Check(bad == "", "c12.sink-unwrapped", key, c.P.Pos(call.Pos()), "the evaluator's raw value reaches no container", "the raw result of Expr is "+bad+" without passing through ValueOf: a NeutalString / *float64 / ColumnName wrapper can appear in the result")
		})
	}
	if n < 20 {
		c.Unknown("c12.sink-unwrapped", "inventory", "-", fmt.Sprintf("only %d calls of Expr found", n))
	}
}

func ruleC12OmitFuse(c *Ctx) {
	c.Doc("c12.omit-fuse", "projection: the store of an item's value under its key is unreachable when the value is an Ommit marker or a Fuse wrapper (both type tests are false on every path to the store); a Fuse contributes its own entries instead, an Ommit nothing")
	f := c.theFunc("projection", "*sqlparser.SelectExprs", "SelectExpr")
	if f == nil {
		c.Unknown("c12.omit-fuse", "SelectExpr", "-", "anchor lost")
		return
	}
	key := c.P.funcKey(f)
	n := 0
	allInstrs(f, func(b *ssa.BasicBlock, in ssa.Instruction) {
		mu, ok := in.(*ssa.MapUpdate)
		if !ok {
			return
		}
		vt := NewTB().Of(mu.Value)
		if !strings.Contains(vt.String(), "ValueOf(") || strings.Contains(vt.String(), "next:") {
			return
		}
		n++
		notOmmit, notFuse := false, false
		for _, fc := range factsAt(b) {
			ex, isEx := fc.cond.(*ssa.Extract)
			if !isEx || ex.Index != 1 || fc.truth {
				continue
			}
			if ta, isTA := ex.Tuple.(*ssa.TypeAssert); isTA {
				switch shortType(ta.AssertedType) {
				case "Ommit":
					notOmmit = true
				case "Fuse":
					notFuse = true
				}
			}
		}
		c.Check(notOmmit && notFuse, "c12.omit-fuse", key+"/item-store", c.P.Pos(mu.Pos()), "reached only when the value is neither Ommit nor Fuse", fmt.Sprintf("the item store is reachable with an engine marker as value (Ommit excluded=%v, Fuse excluded=%v)", notOmmit, notFuse))
	})
	if n == 0 {
		c.Unknown("c12.omit-fuse", key+"/item-store", c.P.Pos(f.Pos()), "anchor lost: no store of an item's unwrapped value")
	}
}

// order-sensitive map iterations that the property itself allows (row order of joins) or that
// are harmless by a guard; one line of reason each.
var mapOrderAllow = map[string]string{
	"(*Join).HashJoinFunc":         "row order of joins may vary (allowed by C12)",
	"(*Join).JoinFunc":             "row order of joins may vary (allowed by C12)",
	"(*Join).ParallelJoinFunc":     "row order of joins may vary (allowed by C12)",
	"(*Join).ParallelHashJoinFunc": "row order of joins may vary (allowed by C12)",
	"(*Join).JoinMatchFunc":        "row order of joins may vary (allowed by C12)",
	"ComparisonExpr":               "IN over a subquery row reads the single column of a one-column row (break after the first entry)",
	"DefaultKeyFunc":               "returns the only entry: guarded by len(obj) <= 1",
}

// the kinds of order-sensitive sink each allowed site may have: a new kind (e.g. a `break` after the
// first matching key of a join scan) is not covered by the allowance
var mapOrderAllowedSinks = map[string][]string{
	"(*Join).HashJoinFunc":         {"append"},
	"(*Join).JoinFunc":             {"append"},
	"(*Join).ParallelJoinFunc":     {"append"},
	"(*Join).ParallelHashJoinFunc": {"append"},
	"(*Join).JoinMatchFunc":        {"append"},
	"ComparisonExpr":               {"return inside the loop", "break"},
	"DefaultKeyFunc":               {"return inside the loop"},
}

func ruleC12Determinism(c *Ctx) {
	c.Doc("c12.determinism", "nondeterminism sources reachable from New/Exec: every loop ranging over a Go map whose body feeds an order-sensitive sink (append, a return from inside the loop, a buffer/hash write) must be one of the enumerated sites the property allows (row order of joins) or a guarded single-entry read; map-to-map copies and all-keys comparisons are order-insensitive; time is read only by the function registered as timestamp; no math/rand")
	roots := []*ssa.Function{c.P.Func(modPath, "New"), c.P.Method(modPath, "Query", "Exec")}
	reach := c.P.reachableFrom(roots...)
	var fns []*ssa.Function
	for f := range reach {
		if funcPkgPath(f) == modPath {
			fns = append(fns, f)
		}
	}
	sort.Slice(fns, func(i, j int) bool { return fns[i].String() < fns[j].String() })
	nLoops, nSensitive := 0, 0
	for _, f := range fns {
		for _, nx := range mapRangeNexts(f) {
			nLoops++
			sinks := []string{}
			keyForms, computedInto, entryDependent := map[string]map[string]bool{}, map[string]bool{}, map[string]bool{}
			for _, b := range f.Blocks {
				if !inNaturalLoop(nx.Block(), b) {
					continue
				}
				for _, in := range b.Instrs {
					switch in := in.(type) {
					case *ssa.Call:
						if bi, ok := in.Common().Value.(*ssa.Builtin); ok && bi.Name() == "append" && len(in.Common().Args) == 2 {
							// every append under a map range is order-sensitive, except the idiom of registering an
							// identical clean-up closure per entry (a closure none of whose bindings derives from the entry)
							if !isIterationIndependentClosure(in.Common().Args[1], nx) && !sortedAfterwards(in) {
								sinks = append(sinks, "append")
							}
						}
						nm := calleeName(in.Common())
						if strings.Contains(nm, "Write") || strings.Contains(nm, "Fprint") {
							sinks = append(sinks, nm)
						}
					case *ssa.MapUpdate:
						// entries of the ranged map stored into one map under keys of two different forms, one of them
						// computed from the entry's key (`out[k] = v` next to `out[k+"_"+inner] = w`): two entries can
						// arrive at the same key, and which of them is written last is the iteration order
						tb := NewTB()
						kt := tb.Of(in.Key)
						computed := (kt.Op == "bin" || kt.Op == "call" && kt.Name != "builtin:string") && kt.Contains(func(x *Term) bool {
							ex, ok := x.V.(*ssa.Extract)
							return ok && ex.Tuple == ssa.Value(nx)
						})
						mt := tb.Of(in.Map).String()
						if keyForms[mt] == nil {
							keyForms[mt] = map[string]bool{}
						}
						keyForms[mt][kt.String()] = true
						if computed {
							computedInto[mt] = true
						}
						// which form an entry takes must depend on the entry itself: a loop-invariant switch between the
						// forms (all keys prefixed, or none) cannot make two entries collide
						for _, fc := range factsAt(b) {
							if ib, ok := fc.cond.(ssa.Instruction); ok && !inNaturalLoop(nx.Block(), ib.Block()) {
								continue
							}
							if tb.Of(fc.cond).Contains(func(x *Term) bool {
								ex, ok := x.V.(*ssa.Extract)
								return ok && ex.Tuple == ssa.Value(nx)
							}) {
								entryDependent[mt] = true
							}
						}
					case *ssa.Return:
						// a successful return from inside the loop picks "the first" entry
						if len(in.Results) > 0 {
							last := in.Results[len(in.Results)-1]
							if !isErrorT(last.Type()) || isNilConst(last) {
								sinks = append(sinks, "return inside the loop")
							}
						}
					}
				}
				// a break right after the first entry
				for _, s := range b.Succs {
					if !inNaturalLoop(nx.Block(), s) && s != nx.Block() && b != nx.Block() {
						if _, isRet := b.Instrs[len(b.Instrs)-1].(*ssa.Return); !isRet && !leadsOnlyToErrorReturn(s) {
							sinks = append(sinks, "break")
						}
					}
				}
			}
			for mt := range computedInto {
				if len(keyForms[mt]) >= 2 && entryDependent[mt] {
					sinks = append(sinks, "map updates under colliding key forms")
				}
			}
			if len(sinks) == 0 {
				continue
			}
			nSensitive++
			fk := c.P.funcKey(f)
			c.Fn(fk)
			reason, allowed := mapOrderAllow[fk]
			if allowed {
				for _, sk := range uniq(sinks) {
					okKind := false
					for _, a := range mapOrderAllowedSinks[fk] {
						if a == sk || strings.Contains(sk, "Write") && a == "write" {
							okKind = true
						}
					}
					if !okKind {
						allowed = false
					}
				}
			}
			// a break that only ends an all-keys comparison early (no value escapes) is order-insensitive
			onlyBreak := true
			for _, s := range sinks {
				if s != "break" {
					onlyBreak = false
				}
			}
			if onlyBreak && !allowed {
				allowed, reason = true, "the loop only leaves early on a mismatch (all-keys comparison): its outcome does not depend on the order"
			}
			c.Check(allowed, "c12.determinism", fk+"/map-range", c.P.Pos(nx.Pos()), "order-sensitive map iteration allowed: "+reason, "a loop over a Go map feeds an order-sensitive sink ("+strings.Join(uniq(sinks), ",")+"): the result can differ between two evaluations of the same query")
		}
	}
	c.Notes = append(c.Notes, fmt.Sprintf("c12.determinism: %d map-range loops reachable from New/Exec, %d order-sensitive", nLoops, nSensitive))
	// time / rand
	for _, f := range fns {
		allInstrs(f, func(_ *ssa.BasicBlock, in ssa.Instruction) {
			call, ok := in.(*ssa.Call)
			if !ok || call.Common().StaticCallee() == nil || call.Common().StaticCallee().Pkg == nil {
				return
			}
			pk := call.Common().StaticCallee().Pkg.Pkg.Path()
			if pk == "math/rand" || pk == "math/rand/v2" || pk == "crypto/rand" {
				c.Fail("c12.determinism", c.P.funcKey(f)+"/rand", c.P.Pos(call.Pos()), "random source used on the query path")
			}
			if pk == "time" && call.Common().StaticCallee().Name() == "Now" {
				ts, _ := c.registered("timestamp")
				c.Check(ts == f, "c12.determinism", c.P.funcKey(f)+"/time.Now", c.P.Pos(call.Pos()), "the current time is read by the function registered as timestamp (allowed)", "the current time is read outside the timestamp function")
			}
		})
	}
	if nLoops < 5 {
		c.Unknown("c12.determinism", "inventory", "-", fmt.Sprintf("only %d map-range loops found", nLoops))
	}
}

// derivesFromIteration: v is computed from the key or value of the map iteration nx (through
// boxing, variadic packing, closures' bindings, calls and phis).
func derivesFromIteration(v ssa.Value, nx *ssa.Next, d int) bool {
	if d > 8 || v == nil {
		return false
	}
	switch x := v.(type) {
	case *ssa.Extract:
		if x.Tuple == ssa.Value(nx) {
			return x.Index != 0
		}
		return derivesFromIteration(x.Tuple, nx, d+1)
	case *ssa.MakeInterface:
		return derivesFromIteration(x.X, nx, d+1)
	case *ssa.ChangeType:
		return derivesFromIteration(x.X, nx, d+1)
	case *ssa.TypeAssert:
		return derivesFromIteration(x.X, nx, d+1)
	case *ssa.UnOp:
		if a, ok := x.X.(*ssa.Alloc); ok {
			for _, st := range storesTo(a) {
				if derivesFromIteration(st.Val, nx, d+1) {
					return true
				}
			}
			return false
		}
		return derivesFromIteration(x.X, nx, d+1)
	case *ssa.IndexAddr:
		return derivesFromIteration(x.X, nx, d+1)
	case *ssa.Lookup:
		return derivesFromIteration(x.X, nx, d+1) || derivesFromIteration(x.Index, nx, d+1)
	case *ssa.Slice:
		if a, ok := x.X.(*ssa.Alloc); ok {
			for _, st := range storesToArray(a) {
				if derivesFromIteration(st.Val, nx, d+1) {
					return true
				}
			}
			return false
		}
		return derivesFromIteration(x.X, nx, d+1)
	case *ssa.Phi:
		for _, e := range x.Edges {
			if e != v && derivesFromIteration(e, nx, d+1) {
				return true
			}
		}
	case *ssa.MakeClosure:
		for _, b := range x.Bindings {
			if derivesFromIteration(b, nx, d+1) {
				return true
			}
		}
	case *ssa.Call:
		for _, a := range x.Common().Args {
			if derivesFromIteration(a, nx, d+1) {
				return true
			}
		}
	case *ssa.BinOp:
		return derivesFromIteration(x.X, nx, d+1) || derivesFromIteration(x.Y, nx, d+1)
	}
	return false
}

// isIterationIndependentClosure: v is the variadic pack of exactly one closure whose bindings do
// not derive from the iteration nx.
func isIterationIndependentClosure(v ssa.Value, nx *ssa.Next) bool {
	sl, ok := v.(*ssa.Slice)
	if !ok {
		return false
	}
	a, ok := sl.X.(*ssa.Alloc)
	if !ok {
		return false
	}
	sts := storesToArray(a)
	if len(sts) != 1 {
		return false
	}
	val := sts[0].Val
	if ct, ok := val.(*ssa.ChangeType); ok {
		val = ct.X
	}
	mc, ok := val.(*ssa.MakeClosure)
	if !ok {
		return false
	}
	return !derivesFromIteration(mc, nx, 0)
}

// leadsOnlyToErrorReturn: every path from b ends in a return whose last result is a non-nil error
// (leaving a loop that way is a failure, not a `break`).
func leadsOnlyToErrorReturn(b *ssa.BasicBlock) bool {
	seen := map[*ssa.BasicBlock]bool{}
	q := []*ssa.BasicBlock{b}
	n := 0
	for len(q) > 0 {
		x := q[0]
		q = q[1:]
		if seen[x] {
			continue
		}
		seen[x] = true
		n++
		if n > 12 {
			return false
		}
		if len(x.Succs) == 0 {
			r, ok := x.Instrs[len(x.Instrs)-1].(*ssa.Return)
			if !ok || len(r.Results) == 0 {
				if _, isPanic := x.Instrs[len(x.Instrs)-1].(*ssa.Panic); isPanic {
					continue
				}
				return false
			}
			last := r.Results[len(r.Results)-1]
			if !isErrorT(last.Type()) || isNilConst(last) {
				return false
			}
			continue
		}
		q = append(q, x.Succs...)
	}
	return true
}

func init() {
	register("C12", ruleC12ExecCallers, ruleC09CacheKey, ruleSelectorCacheDiscipline)
	register("C14", ruleC12ExecCallers)
}

// execCallers: who may run a query with exec() (without completing it): the sites that keep the nested rows
// by reference, so that the nested post-processors (handed to the parent) resolve the async slots in place.
var execCallers = map[string]string{
	"(*Query).execAndPostProcess": "completes the query itself: waits, then runs the post-processors",
	"ExistExpr":                   "EXISTS: only the emptiness of the rows is used",
}

func ruleC12ExecCallers(c *Ctx) {
	c.Doc("c12.exec-callers", "who may call: (*Query).exec — which returns rows that may still hold unresolved async slots (*any) — is called only by execAndPostProcess and by EXISTS, which uses nothing but the emptiness of the rows (its wait/post-processor hand-over is c07.nested-discipline); every consumer that reads or keeps the rows (derived table, row-scoped subquery, CTE thunk, union branch, inner arrays) runs the nested query to completion with execAndPostProcess: the enclosing query filters, joins and computes on those rows, and a column an ASYNC call has not delivered yet is a pointer there (`SELECT d.x FROM (SELECT ASYNC.f(a) AS x FROM t) d WHERE d.x > 2` compared an address)")
	exec := c.P.Method(modPath, "Query", "exec")
	if exec == nil {
		c.Unknown("c12.exec-callers", "(*Query).exec", "-", "anchor lost")
		return
	}
	n := 0
	for _, f := range c.P.ModFuncs {
		if len(f.TypeArgs()) > 0 {
			continue
		}
		root := f
		for root.Parent() != nil {
			root = root.Parent()
		}
		// a helper the rule tables do not know stands for the enumerated function it was split from: its only static
		// caller chain must end in an enumerated site
		for hops := 0; hops < 3 && isUnknownHelper(root); hops++ {
			var callers []*ssa.Function
			for _, g := range c.P.ModFuncs {
				allInstrs(g, func(_ *ssa.BasicBlock, gin ssa.Instruction) {
					if ci, ok := gin.(ssa.CallInstruction); ok && ci.Common().StaticCallee() == root {
						gr := g
						for gr.Parent() != nil {
							gr = gr.Parent()
						}
						dup := false
						for _, x := range callers {
							if x == gr {
								dup = true
							}
						}
						if !dup {
							callers = append(callers, gr)
						}
					}
				})
			}
			if len(callers) != 1 {
				break
			}
			root = callers[0]
		}
		allInstrs(f, func(_ *ssa.BasicBlock, in ssa.Instruction) {
			ci, ok := in.(ssa.CallInstruction)
			if !ok || ci.Common().StaticCallee() != exec {
				return
			}
			n++
			rk := c.P.funcKey(root)
			reason, allowed := execCallers[rk]
			c.Check(allowed, "c12.exec-callers", "exec <- "+c.P.funcKey(f), c.P.Pos(ci.Pos()), reason, c.P.funcKey(f)+" runs a nested query with exec() and reads or keeps its rows: columns whose ASYNC calls have not delivered yet are still `*any` slots there (wrong comparisons, pointers in the result); run it to completion with execAndPostProcess")
		})
	}
	if n < 2 {
		c.Unknown("c12.exec-callers", "(*Query).exec", c.P.Pos(exec.Pos()), fmt.Sprintf("only %d call sites of exec found (2 confirmed by reading: execAndPostProcess, EXISTS)", n))
	}
}

func init() { register("C12", ruleC12ThunkResolved, ruleC12MarkerKey, ruleC12MarkerValue) }

// ruleC12ThunkResolved: a lazy CTE entry never becomes a column value.
func ruleC12ThunkResolved(c *Ctx) {
	c.Doc("c12.thunk-resolved", "the CTE registry shares its map with the `dual` row and the enclosing document, so a row value can be a lazy CTE thunk: (a) the star copy of the projection stores a row value only when it is not a CteEvaluation (type test false on every path to the store); (b) the unwrapper's ColumnName arm returns the value read from the row only when it is not a CteEvaluation — a thunk is evaluated and its results returned")
	proj := c.theFunc("projection", "*sqlparser.SelectExprs", "SelectExpr")
	if proj == nil {
		c.Unknown("c12.thunk-resolved", "SelectExpr", "-", "anchor lost")
	} else {
		row := paramNameOfType(proj, "Map")
		n := 0
		allInstrs(proj, func(b *ssa.BasicBlock, in ssa.Instruction) {
			mu, ok := in.(*ssa.MapUpdate)
			if !ok {
				return
			}
			vx, ok := mu.Value.(*ssa.Extract)
			if !ok || vx.Index != 2 {
				return
			}
			nx, ok := vx.Tuple.(*ssa.Next)
			if !ok {
				return
			}
			if p, isP := nx.Iter.(*ssa.Range).X.(*ssa.Parameter); !isP || p.Name() != row {
				return
			}
			n++
			excluded := false
			for _, fc := range factsAt(b) {
				ex, isEx := fc.cond.(*ssa.Extract)
				if !isEx || ex.Index != 1 || fc.truth {
					continue
				}
				if ta, isTA := ex.Tuple.(*ssa.TypeAssert); isTA && ta.X == ssa.Value(vx) && isThunkType(ta.AssertedType) {
					excluded = true
				}
			}
			c.Check(excluded, "c12.thunk-resolved", c.P.funcKey(proj)+"/star-copy", c.P.Pos(mu.Pos()), "a row value is copied only when it is not a lazy CTE", "the star copy stores every row value, including the lazy CTE thunks the registry shares with the `dual` row: a func value enters the result")
		})
		if n == 0 {
			c.Unknown("c12.thunk-resolved", c.P.funcKey(proj)+"/star-copy", c.P.Pos(proj.Pos()), "anchor lost: no star copy loop")
		}
	}
	f := c.P.Func(modPath, "ValueOf")
	if f == nil {
		c.Unknown("c12.thunk-resolved", "ValueOf", "-", "anchor lost")
		return
	}
	paths, err := WalkFunc(f, WalkCfg{MaxVisits: 1})
	if err != nil {
		c.Unknown("c12.thunk-resolved", "ValueOf", c.P.Pos(f.Pos()), err.Error())
		return
	}
	var why []string
	nPlain, nThunk, nDoc := 0, 0, 0
	for _, p := range paths {
		if p.Exit != "return" || len(p.Ret) != 2 {
			continue
		}
		isCol := false
		thunkTest, thunkIs := false, false
		mapTest, mapIs := false, false
		for _, k := range p.Order {
			kt := p.KeyTerm[k]
			if kt == nil || kt.Op != "ext" || kt.Name != "1" || kt.Args[0].Op != "assertok" {
				continue
			}
			v, _ := p.Assumed(k)
			if kt.Args[0].Name == "ColumnName" && v {
				isCol = true
			}
			if (kt.Args[0].Name == "CteEvaluation" || kt.Args[0].Name == "func() (any, error)") && strings.Contains(kt.Args[0].Args[0].String(), "ExecReader(") {
				thunkTest, thunkIs = true, v
			}
			if kt.Args[0].Name == "Map" && strings.Contains(kt.Args[0].Args[0].String(), "ExecReader(") {
				mapTest, mapIs = true, v
			}
		}
		if !isCol {
			continue
		}
		if mapTest && mapIs && p.Ret[1].Nil {
			nDoc++
			a, isPlain := callArgs(p.Ret[0].T, "PlainDocument")
			if !isPlain || len(a) != 1 || !strings.Contains(a[0].String(), "ExecReader(") {
				why = append(why, "a column whose value is a document yields "+avString(p.Ret[0])+" instead of its plain view")
			}
			continue
		}
		r := ext0(p.Ret[0].T)
		if _, isReader := callArgs(r, "ExecReader"); r != nil && isReader && p.Ret[1].Nil {
			// the raw value read from the row is returned
			nPlain++
			if !thunkTest || thunkIs {
				why = append(why, "a column reference returns the value read from the row without excluding a lazy CTE thunk")
			}
			if !mapTest || mapIs {
				why = append(why, "a column reference returns a document read from the row as it is (it may be the enclosing document holding `<-` or the CTE registry)")
			}
		}
		if thunkTest && thunkIs {
			nThunk++
			if r == nil || r.Op != "call" || r.Name != "dyn" {
				why = append(why, "a column that resolves to a lazy CTE yields "+avString(p.Ret[0])+" instead of the thunk's results")
			}
		}
	}
	if nPlain == 0 || nThunk == 0 || nDoc == 0 {
		why = append(why, fmt.Sprintf("paths: plain=%d thunk=%d document=%d", nPlain, nThunk, nDoc))
	}
	c.plainDocument()
	c.Check(len(why) == 0, "c12.thunk-resolved", "ValueOf/ColumnName", c.P.Pos(f.Pos()), "thunk => evaluated; otherwise the value read", strings.Join(uniq(why), "; "))
}

func isThunkType(t types.Type) bool {
	s := shortType(t)
	if s == "CteEvaluation" || s == "func() (any, error)" {
		return true
	}
	sig, ok := t.Underlying().(*types.Signature)
	if !ok || sig.Params().Len() != 0 || sig.Results().Len() != 2 {
		return false
	}
	_, isIface := sig.Results().At(0).Type().Underlying().(*types.Interface)
	return isIface && sig.Results().At(1).Type().String() == "error"
}

// cellOf: the local cell a value is loaded from (captured variables live in cells), else the value itself.
func cellOf(v ssa.Value) ssa.Value {
	if ld, ok := v.(*ssa.UnOp); ok {
		if al, isAl := ld.X.(*ssa.Alloc); isAl {
			return al
		}
	}
	return v
}

// ruleC12MarkerKey: no item is stored under the reserved key.
func ruleC12MarkerKey(c *Ctx) {
	c.Doc("c12.marker-key", "projection: the store of an item's value under its name is dominated by name != \"<-\" (an unaliased `<-` column, or an alias `<-`, is rejected): no output row carries the navigation key as a column")
	f := c.theFunc("projection", "*sqlparser.SelectExprs", "SelectExpr")
	if f == nil {
		c.Unknown("c12.marker-key", "SelectExpr", "-", "anchor lost")
		return
	}
	n := 0
	for _, g := range withClosures(f) {
		allInstrs(g, func(b *ssa.BasicBlock, in ssa.Instruction) {
			mu, ok := in.(*ssa.MapUpdate)
			if !ok {
				return
			}
			ks := NewTB().Of(mu.Key).String()
			if !strings.Contains(ks, "ColumnName(") || strings.Contains(ks, "Sprintf") {
				return
			}
			n++
			if g != f {
				// the post-processor re-stores under the same captured name: covered by the guard at registration
				return
			}
			guard := false
			for _, fc := range relFacts(factsAt(b)) {
				if fc.r != relNE {
					continue
				}
				if s, isS := constString(fc.y); isS && s == "<-" && NewTB().Of(fc.x).String() == ks {
					guard = true
				}
			}
			c.Check(guard, "c12.marker-key", c.P.funcKey(f)+"/item-store", c.P.Pos(mu.Pos()), "reached only when the name is not `<-`", "an item can be stored under the key `<-` (unaliased `<-` column or alias `<-`): the navigation key appears in a result row")
		})
	}
	if n == 0 {
		c.Unknown("c12.marker-key", c.P.funcKey(f)+"/item-store", c.P.Pos(f.Pos()), "anchor lost: no store of an item under its name")
	}
}

// ruleC12MarkerValue: what `<-` itself evaluates to.
func ruleC12MarkerValue(c *Ctx) {
	c.Doc("c12.marker-value", "the value BackwardNavigation stores under `<-` can be selected as a column (`SELECT `<-` AS up`): it must be plain data. It is query.data, which is (i) the CTE registry when the statement has a WITH clause (the CTE builder stores thunks into the map it assigns to query.data) and (ii) for a nested row-scoped subquery the enclosing scoped row, which itself carries `<-` (the subquery sites pass BackwardNavigation's result to Prepare as data)")
	bn := c.P.Func(modPath, "BackwardNavigation")
	if bn == nil {
		c.Unknown("c12.marker-value", "BackwardNavigation", "-", "anchor lost")
		return
	}
	c.Fn("BackwardNavigation")
	// the value stored under "<-"
	var val *Term
	var pos string
	allInstrs(bn, func(_ *ssa.BasicBlock, in ssa.Instruction) {
		if mu, ok := in.(*ssa.MapUpdate); ok {
			if s, isS := constString(mu.Key); isS && s == "<-" {
				val, pos = NewTB().Of(mu.Value), c.P.Pos(mu.Pos())
			}
		}
	})
	if val == nil {
		c.Unknown("c12.marker-value", "BackwardNavigation/<-", c.P.Pos(bn.Pos()), "anchor lost: no store under `<-`")
		return
	}
	isQueryData := val.Op == "field" && val.Name == "data"
	// (i) a map that receives thunk values is stored into Query.data
	registry := ""
	for _, f := range c.P.ModFuncs {
		thunkMaps := map[ssa.Value]bool{}
		allInstrs(f, func(_ *ssa.BasicBlock, in ssa.Instruction) {
			if mu, ok := in.(*ssa.MapUpdate); ok {
				v := mu.Value
				if mi, isMI := v.(*ssa.MakeInterface); isMI {
					v = mi.X
				}
				if isThunkType(v.Type()) {
					thunkMaps[cellOf(mu.Map)] = true
				}
			}
		})
		if len(thunkMaps) == 0 {
			continue
		}
		allInstrs(f, func(_ *ssa.BasicBlock, in ssa.Instruction) {
			if st, ok := in.(*ssa.Store); ok {
				if fa, isFa := st.Addr.(*ssa.FieldAddr); isFa && fieldName(fa.X.Type(), fa.Field) == "data" && thunkMaps[cellOf(st.Val)] {
					registry = c.P.funcKey(f) + " " + c.P.Pos(st.Pos())
				}
			}
		})
	}
	// (ii) BackwardNavigation's result is passed to Prepare as data
	nested := ""
	for _, f := range c.P.ModFuncs {
		allInstrs(f, func(_ *ssa.BasicBlock, in ssa.Instruction) {
			call, ok := in.(*ssa.Call)
			if !ok || call.Common().StaticCallee() == nil || call.Common().StaticCallee().Name() != "Prepare" || len(call.Call.Args) == 0 {
				return
			}
			if strings.Contains(NewTB().Of(call.Call.Args[0]).String(), "BackwardNavigation(") {
				nested = c.P.funcKey(f) + " " + c.P.Pos(call.Pos())
			}
		})
	}
	bad := isQueryData && (registry != "" || nested != "")
	if bad && c.valueOfSanitisesDocuments() {
		c.Pass("c12.marker-value", "BackwardNavigation/<-", pos, "`<-` holds engine state ("+registry+"; "+nested+"), but a document read as a column value passes through PlainDocument (c12.thunk-resolved @ ValueOf/ColumnName, c12.plain-document)")
		return
	}
	c.Check(!bad, "c12.marker-value", "BackwardNavigation/<-", pos, "the value under `<-` is plain data", fmt.Sprintf("`<-` evaluates to query.data, which can be the CTE registry holding lazy thunks (%s) or an enclosing scoped row that carries `<-` itself (%s): selecting `<-` as a column hands that out", registry, nested))
}

// valueOfSanitisesDocuments: ValueOf calls PlainDocument on the value read by ExecReader.
func (c *Ctx) valueOfSanitisesDocuments() bool {
	f := c.P.Func(modPath, "ValueOf")
	pd := c.P.Func(modPath, "PlainDocument")
	if f == nil || pd == nil {
		return false
	}
	found := false
	allInstrs(f, func(_ *ssa.BasicBlock, in ssa.Instruction) {
		if call, ok := in.(*ssa.Call); ok && call.Common().StaticCallee() == pd && strings.Contains(NewTB().Of(call.Call.Args[0]).String(), "ExecReader(") {
			found = true
		}
	})
	return found
}

// plainDocument: the sanitiser's own obligations.
func (c *Ctx) plainDocument() {
	c.Doc("c12.plain-document", "PlainDocument: the document itself is returned only on paths where no entry is a lazy CTE and no key is `<-`; in the copy, an entry is stored only when its key is not `<-` and its value is not a lazy CTE, under its own key with its own value")
	f := c.P.Func(modPath, "PlainDocument")
	if f == nil {
		c.Unknown("c12.plain-document", "PlainDocument", "-", "anchor lost")
		return
	}
	c.Fn("PlainDocument")
	doc := f.Params[0].Name()
	var why []string
	paths, err := WalkFunc(f, WalkCfg{MaxVisits: 2, MaxPaths: 4000})
	if err != nil {
		c.Unknown("c12.plain-document", "PlainDocument", c.P.Pos(f.Pos()), err.Error())
		return
	}
	// every store into the copy (in PlainDocument or in a helper it was split into: the walker inlines those):
	// the entry's own key and value, on a path that has already excluded the marker key and a lazy CTE value
	stores := map[ssa.Instruction]bool{}
	for _, p := range paths {
		for _, e := range p.Effects {
			if e.Kind != "mapupdate" || len(e.Args) != 3 {
				continue
			}
			stores[e.Instr] = true
			k, v := e.Args[1], e.Args[2]
			if k == nil || v == nil || k.Op != "ext" || v.Op != "ext" || k.Name != "1" || v.Name != "2" || k.Args[0].Op != "next" || k.Args[0].String() != v.Args[0].String() {
				why = append(why, "the copy does not store an entry under its own key with its own value")
				continue
			}
			notMarker, notThunk := false, false
			for i := 0; i < e.NAsg && i < len(p.Order); i++ {
				kt := p.KeyTerm[p.Order[i]]
				val := p.Asg[p.Order[i]]
				if kt == nil || val == nil || val.Kind() != constant.Bool || constant.BoolVal(val) {
					continue
				}
				if kt.Op == "bin" && kt.Name == "==" && len(kt.Args) == 2 {
					for j := 0; j < 2; j++ {
						if kt.Args[j].String() == k.String() && kt.Args[1-j].String() == `c:"<-"` {
							notMarker = true
						}
					}
				}
				if kt.Op == "ext" && kt.Name == "1" && kt.Args[0].Op == "assertok" && kt.Args[0].Args[0].String() == v.String() {
					if ta, isTA := kt.Args[0].V.(*ssa.TypeAssert); isTA && isThunkType(ta.AssertedType) {
						notThunk = true
					}
				}
			}
			if !notMarker || !notThunk {
				why = append(why, fmt.Sprintf("the copy can store an engine entry (marker excluded=%v, lazy CTE excluded=%v) at %s", notMarker, notThunk, c.P.Pos(e.Instr.Pos())))
			}
		}
	}
	if len(stores) == 0 {
		why = append(why, "no store into the copy found")
	}
	nSelf := 0
	for _, p := range paths {
		if p.Exit != "return" || len(p.Ret) != 1 || p.Ret[0].T == nil || !(p.Ret[0].T.Op == "param" && p.Ret[0].T.Name == doc) {
			continue
		}
		nSelf++
		// the document is handed back as it is only after the scan of its entries ran to the end, every entry met on the
		// way having been found to be neither the marker nor a lazy CTE
		exhausted := false
		iterations := map[string]*Term{} // next term -> itself, for every entry the path looked at
		for _, k := range p.Order {
			kt := p.KeyTerm[k]
			if kt == nil || kt.Op != "ext" || kt.Name != "0" || len(kt.Args) != 1 || kt.Args[0].Op != "next" {
				continue
			}
			rg := kt.Args[0].Args[0]
			if rg.Op != "range" || !(rg.Args[0].Op == "param" && rg.Args[0].Name == doc) {
				continue
			}
			if v, assumed := p.Assumed(k); assumed && !v {
				exhausted = true
			} else if assumed && v {
				iterations[kt.Args[0].String()] = kt.Args[0]
			}
		}
		if !exhausted {
			why = append(why, "the document itself is returned on a path that has not looked at all of its entries: a lazy CTE (or the marker) it holds is handed out")
		}
		for nk := range iterations {
			notMarker, notThunk := false, false
			for k, v := range p.Asg {
				kt := p.KeyTerm[k]
				if kt == nil || isTrueC(v) {
					continue
				}
				if kt.Op == "bin" && kt.Name == "==" && len(kt.Args) == 2 {
					for j := 0; j < 2; j++ {
						if x := kt.Args[j]; x.Op == "ext" && x.Name == "1" && x.Args[0].String() == nk && kt.Args[1-j].String() == `c:"<-"` {
							notMarker = true
						}
					}
				}
				if kt.Op == "ext" && kt.Name == "1" && kt.Args[0].Op == "assertok" {
					if x := kt.Args[0].Args[0]; x.Op == "ext" && x.Name == "2" && x.Args[0].String() == nk {
						if ta, isTA := kt.Args[0].V.(*ssa.TypeAssert); isTA && isThunkType(ta.AssertedType) {
							notThunk = true
						}
					}
				}
			}
			if !notMarker || !notThunk {
				why = append(why, fmt.Sprintf("the document itself is returned although an entry was not tested (marker tested=%v, lazy CTE tested=%v)", notMarker, notThunk))
			}
		}
		for k, v := range p.Asg {
			kt := p.KeyTerm[k]
			if kt == nil || !isTrueC(v) {
				continue
			}
			if kt.Op == "ext" && kt.Name == "1" && kt.Args[0].Op == "assertok" && (kt.Args[0].Name == "CteEvaluation" || kt.Args[0].Name == "func() (any, error)") {
				why = append(why, "the document itself is returned although an entry is a lazy CTE")
			}
			if kt.Op == "bin" && kt.Name == "==" && strings.Contains(kt.String(), `c:"<-"`) {
				why = append(why, "the document itself is returned although it holds the key `<-`")
			}
		}
	}
	_ = nSelf
	// the copy goes over every entry: the loop that stores into the copy is left only when the range is exhausted — an engine
	// entry is skipped, it does not end the copy (own probe of round 11: `break` for `continue`; the columns that follow the
	// entry in map order are lost, a different set on every run)
	for _, nx := range mapRangeNexts(f) {
		hdr := nx.Block()
		stores := false
		allInstrs(f, func(b *ssa.BasicBlock, in ssa.Instruction) {
			if _, isMU := in.(*ssa.MapUpdate); isMU && inNaturalLoop(hdr, b) {
				stores = true
			}
		})
		if !stores {
			continue
		}
		for _, b := range f.Blocks {
			if b == hdr || !inNaturalLoop(hdr, b) {
				continue
			}
			for _, sc := range b.Succs {
				if sc != hdr && !inNaturalLoop(hdr, sc) {
					if _, isRet := sc.Instrs[len(sc.Instrs)-1].(*ssa.Return); isRet && len(sc.Instrs) > 0 {
						// leaving by a return is judged by the path rules above
					}
					why = append(why, "the loop that fills the copy is left before the document is exhausted (at "+c.P.Pos(b.Instrs[len(b.Instrs)-1].Pos())+"): the entries after a skipped one are not copied")
				}
			}
		}
	}
	c.Check(len(why) == 0, "c12.plain-document", "PlainDocument", c.P.Pos(f.Pos()), "self only when plain; the copy excludes `<-` and lazy CTEs and goes over every entry", strings.Join(uniq(why), "; "))
}

// the memoised CTE must stay a CTE entry (c07.cte-memo): otherwise `SELECT * FROM dual` changes between two evaluations
func init() { register("C12", ruleC07CteMemo); register("C02", ruleC07CteMemo) }

func init() { register("C12", ruleC12JoinOrderWindow) }

// ruleC12JoinOrderWindow: the allowance "row order of joins may vary" does not extend to which rows a window keeps.
func ruleC12JoinOrderWindow(c *Ctx) {
	c.Doc("c12.join-order-window", "C12 lets the ROW ORDER of a join vary between evaluations, but requires an equal MULTISET of rows. The LIMIT/OFFSET window of exec is cut from the rows in the order the join produced them, so a join executor whose output order follows Go map iteration (or goroutine completion) makes `... JOIN ... LIMIT n` return different rows on re-evaluation. One obligation per join executor that ranges over a Go map while emitting rows")
	for _, name := range []string{"HashJoinFunc", "JoinFunc", "ParallelJoinFunc", "ParallelHashJoinFunc", "JoinMatchFunc"} {
		f := c.joinMethod(name)
		if f == nil {
			c.Unknown("c12.join-order-window", "(*Join)."+name, "-", "anchor lost")
			continue
		}
		nx := mapRangeNexts(f)
		c.Check(len(nx) == 0, "c12.join-order-window", "(*Join)."+name, c.P.Pos(f.Pos()), "emits rows in an order that does not depend on map iteration", "emits rows while ranging over a Go map: with LIMIT/OFFSET and no total ORDER BY the window keeps a different multiset of rows on re-evaluation (`SELECT x.a, y.c FROM t x JOIN u y ON x.a = y.a LIMIT 1` returned 6 different rows in 50 runs)")
	}
}

func init() {
	register("C12", ruleC12ArbitraryEntry)
	register("C01", ruleC12ArbitraryEntry)
}

// ruleC12ArbitraryEntry: "the only entry of a map" is taken only from maps known to have at most one.
func ruleC12ArbitraryEntry(c *Ctx) {
	c.Doc("c12.arbitrary-entry", "a range over a Go map that leaves the loop in its first round (`for _, v := range row { …; break }`) takes an arbitrary entry: allowed only where the map is known to hold at most one (a dominating test of its length) — `x IN (SELECT p, q FROM …)` compared x with a randomly chosen column of each row, so the same query on the same document returned different rows from one evaluation to the next")
	n := 0
	for _, f := range c.P.ModFuncs {
		if len(f.Blocks) == 0 || len(f.TypeArgs()) > 0 {
			continue
		}
		k := 0
		for _, nx := range mapRangeNexts(f) {
			hdr := nx.Block()
			// does any block of the loop jump back to the header?
			loops := false
			for _, pred := range hdr.Preds {
				if pred != hdr && inNaturalLoop(hdr, pred) && hdr.Dominates(pred) {
					loops = true
				}
			}
			if loops {
				continue
			}
			// a loop without a back edge that still has a body: one round at most
			rg, ok := nx.Iter.(*ssa.Range)
			if !ok {
				continue
			}
			n++
			k++
			key := fmt.Sprintf("%s/first-of-map#%d", c.P.funcKey(f), k)
			c.Fn(c.P.funcKey(f))
			guarded := false
			for _, fc := range relFacts(factsAt(hdr)) {
				if !isLenOf(fc.x, rg.X) {
					continue
				}
				if kk, isK := constIntOf(fc.y); isK {
					if fc.r == relLE && kk <= 1 || fc.r == relLT && kk <= 2 || fc.r == relEQ && kk <= 1 {
						guarded = true
					}
				}
			}
			c.Check(guarded, "c12.arbitrary-entry", key, c.P.Pos(nx.Pos()), "the map is known to hold at most one entry", "the loop takes the first entry Go's map iteration happens to yield of "+NewTB().Of(rg.X).String()+", a map that may hold several: which entry that is changes from run to run")
		}
	}
	if n == 0 {
		c.PassTrivial("c12.arbitrary-entry", "module", "-", "no one-round range over a map in the module")
	}
}

// sortedAfterwards: the slice this append grows is handed to a sort before anything else reads it (the keys of a map
// collected in order to be walked in sorted order).
func sortedAfterwards(app *ssa.Call) bool {
	seen := map[ssa.Value]bool{}
	var walk func(v ssa.Value, d int) bool
	walk = func(v ssa.Value, d int) bool {
		if d > 6 || seen[v] || v.Referrers() == nil {
			return false
		}
		seen[v] = true
		for _, r := range *v.Referrers() {
			switch x := r.(type) {
			case *ssa.Phi:
				if walk(x, d+1) {
					return true
				}
			case *ssa.Call:
				switch calleeName(x.Common()) {
				case "sort.Strings", "sort.Ints", "sort.Float64s", "sort.Slice", "sort.SliceStable", "sort.Sort", "sort.Stable":
					return true
				}
				if sc := x.Common().StaticCallee(); sc != nil && sc.Pkg != nil && sc.Pkg.Pkg.Path() == "slices" && strings.HasPrefix(sc.Name(), "Sort") {
					return true
				}
				if bi, ok := x.Common().Value.(*ssa.Builtin); ok && bi.Name() == "append" && len(x.Common().Args) > 0 && x.Common().Args[0] == v {
					if walk(x, d+1) {
						return true
					}
				}
			case *ssa.MakeInterface:
				if walk(x, d+1) {
					return true
				}
			}
		}
		return false
	}
	return walk(app, 0)
}
