package main

import (
	"fmt"
	"go/constant"
	"go/types"
	"sort"
	"strings"

	"golang.org/x/tools/go/ssa"
)

func init() { register("C15", ruleC15Range, ruleC15Trichotomy, ruleC15ExactDomain, ruleC15Dispatch) }

// ORDER BY is deterministic (C12) and a sort at all (C05) only if the comparator treats (a, b) and (b, a) alike
func init() { register("C12", ruleC15Dispatch); register("C05", ruleC15Dispatch) }

var numericKinds = []types.BasicKind{types.Int, types.Int8, types.Int16, types.Int32, types.Int64, types.Uint, types.Uint8, types.Uint16, types.Uint32, types.Uint64, types.Float32, types.Float64}

func (c *Ctx) compareFuncs() (cmp *ssa.Function, cmps, compares, ases []*ssa.Function) {
	cmp = c.P.Func(comparePath, "Compare")
	for _, f := range c.P.ModFuncs {
		if funcPkgPath(f) != comparePath || len(f.Blocks) == 0 {
			continue
		}
		o := f.Origin()
		if o == nil && f.Parent() == nil && fnShort(f) == "compare" && f.Synthetic == "" && f.TypeParams().Len() == 0 {
			// the helper written without type parameters (its left operand is an `any` that holds a number)
			compares = append(compares, f)
			continue
		}
		if o == nil || len(f.TypeArgs()) == 0 || f.Synthetic != "" && !strings.Contains(f.Synthetic, "instance of") {
			continue
		}
		switch o.Name() {
		case "Cmp":
			cmps = append(cmps, f)
		case "compare":
			compares = append(compares, f)
		case "As":
			ases = append(ases, f)
		}
	}
	return
}

// compareFormC: Compare calls Cmp itself (no compare helper in between): `if isNumber(a) && isNumber(b) { return
// Cmp(As[float64](a), b) }; return strings.Compare(text(a), text(b))`.
func (c *Ctx) compareFormC() bool {
	cmp, _, compares, _ := c.compareFuncs()
	if cmp == nil || len(compares) > 0 {
		return false
	}
	direct := false
	allInstrs(cmp, func(_ *ssa.BasicBlock, in ssa.Instruction) {
		if call, ok := in.(*ssa.Call); ok {
			if cal := call.Common().StaticCallee(); cal != nil && cal.Origin() != nil && cal.Origin().Name() == "Cmp" && funcPkgPath(cal) == comparePath {
				direct = true
			}
		}
	})
	return direct
}

func instKey(p *Program, f *ssa.Function) string {
	s := p.funcKey(f)
	return s
}

// ruleC15Range: every return of the comparison family is a constant in {-1,0,1}, the result of
// strings.Compare, or the result of another member of the family.
func ruleC15Range(c *Ctx) {
	c.Doc("c15.range", "every return in compare.Compare, Cmp[T] and compare[T] (all instantiations) yields a constant in {-1,0,1}, the result of strings.Compare (documented range), or the result of another member of the family")
	c.NotDecidedClause("C15: transitivity as an algebraic law over values (follows from exact-domain + trichotomy for numbers and from strings.Compare for strings — argued, not computed); the %v text of floats vs their decimal text")
	if f, formB := c.compareFormB(); formB {
		c.decideCompareFormB(f)
		return
	}
	cmp, cmps, compares, _ := c.compareFuncs()
	if cmp == nil || len(cmps) == 0 || len(compares) == 0 && !c.compareFormC() {
		c.Unknown("c15.range", "compare.Compare", "-", fmt.Sprintf("anchor lost: Compare=%v Cmp instances=%d compare instances=%d", cmp != nil, len(cmps), len(compares)))
		return
	}
	family := map[*ssa.Function]bool{cmp: true}
	for _, f := range append(append([]*ssa.Function{}, cmps...), compares...) {
		family[f] = true
	}
	var fns []*ssa.Function
	for f := range family {
		fns = append(fns, f)
	}
	sort.Slice(fns, func(i, j int) bool { return fns[i].String() < fns[j].String() })
	for _, f := range fns {
		c.Fn(instKey(c.P, f))
		ok, why, n := true, "", 0
		allInstrs(f, func(_ *ssa.BasicBlock, in ssa.Instruction) {
			r, isRet := in.(*ssa.Return)
			if !isRet || len(r.Results) != 1 {
				return
			}
			n++
			var check func(v ssa.Value, d int) bool
			check = func(v ssa.Value, d int) bool {
				if d > 4 {
					return false
				}
				switch v := v.(type) {
				case *ssa.Const:
					k, isInt := constIntOf(v)
					return isInt && k >= -1 && k <= 1
				case *ssa.Call:
					cal := v.Common().StaticCallee()
					if cal == nil {
						return false
					}
					if cal.Pkg != nil && cal.Pkg.Pkg.Path() == "strings" && cal.Name() == "Compare" {
						return true
					}
					return family[cal]
				case *ssa.Phi:
					for _, e := range v.Edges {
						if !check(e, d+1) {
							return false
						}
					}
					return true
				}
				return false
			}
			if !check(r.Results[0], 0) {
				ok, why = false, "a return yields "+NewTB().Of(r.Results[0]).String()+" at "+c.P.Pos(r.Pos())
			}
		})
		c.Check(ok && n > 0, "c15.range", instKey(c.P, f), c.P.Pos(f.Pos()), fmt.Sprintf("%d returns in range", n), why)
	}
	c.Anchor("comparison family", fmt.Sprintf("Compare + %d Cmp instances + %d compare instances", len(cmps), len(compares)))
}

// ruleC15Trichotomy: Cmp[T] returns the sign of (x - y) for the two values it compares.
func ruleC15Trichotomy(c *Ctx) {
	c.Doc("c15.trichotomy", "Cmp[T] (every instantiation): over the order classes x<y, x==y, x>y of the two values it compares the result is -1, 0, 1 (decision table; the operands are abstracted to the order class, relational operators folded)")
	if _, formB := c.compareFormB(); formB {
		return // decided with c15.range on the paths of Compare itself
	}
	_, cmps, _, _ := c.compareFuncs()
	for _, f := range cmps {
		// the two compared values: operands of the relational BinOps in f
		var xs []ssa.Value
		allInstrs(f, func(_ *ssa.BasicBlock, in ssa.Instruction) {
			if b, ok := in.(*ssa.BinOp); ok && relOf(b.Op) != relNone {
				for _, o := range []ssa.Value{b.X, b.Y} {
					dup := false
					for _, x := range xs {
						if x == o {
							dup = true
						}
					}
					if !dup {
						xs = append(xs, o)
					}
				}
			}
		})
		key := instKey(c.P, f)
		if len(xs) != 2 {
			c.Unknown("c15.trichotomy", key, c.P.Pos(f.Pos()), fmt.Sprintf("expected exactly two compared values, found %d", len(xs)))
			continue
		}
		tbd := NewTB()
		t0, t1 := tbd.Of(xs[0]).String(), tbd.Of(xs[1]).String()
		// which one derives from parameter 0 (a)?
		fromA := func(v ssa.Value) bool {
			return tbd.Of(v).Contains(func(x *Term) bool { return x.Op == "param" && x.Name == f.Params[0].Name() })
		}
		if !fromA(xs[0]) && fromA(xs[1]) {
			t0, t1 = t1, t0
		}
		atoms := []Atom{
			{Name: "x", Dom: int64Dom(0, 1), Match: func(t *Term) bool { return t.String() == t0 }},
			{Name: "y", Dom: int64Dom(0, 1), Match: func(t *Term) bool { return t.String() == t1 }},
		}
		tb := BuildTable(f, atoms, false)
		r := tb.CheckTable(0, nil, func(m map[string]constant.Value) (constant.Value, bool) {
			x, y := signOf(m["x"]), signOf(m["y"])
			switch {
			case x < y:
				return cInt(-1), true
			case x > y:
				return cInt(1), true
			}
			return cInt(0), true
		})
		c.Check(r.OK() && r.Used["x"] && r.Used["y"], "c15.trichotomy", key, c.P.Pos(f.Pos()), fmt.Sprintf("%d order classes -> sign", r.Rows), r.Why())
	}
	if len(cmps) == 0 {
		c.Unknown("c15.trichotomy", "compare.Cmp/instances", "-", "no instantiation of Cmp found")
	}
	c.Notes = append(c.Notes, fmt.Sprintf("c15.trichotomy: %d instantiations of Cmp (one per numeric type the callers use)", len(cmps)))
}

// exactIn: every value of `from` (within |n| <= 2^53 for integers) is exactly representable in `to`.
func exactIn(from, to *types.Basic) bool {
	if from.Kind() == to.Kind() {
		return true
	}
	fi, ti := from.Info(), to.Info()
	switch {
	case ti&types.IsFloat != 0:
		if to.Kind() == types.Float64 {
			return true // ints within 2^53 and float32 are exact in float64
		}
		// float32 holds 24 bits
		return fi&types.IsInteger != 0 && (from.Kind() == types.Int8 || from.Kind() == types.Int16 || from.Kind() == types.Uint8 || from.Kind() == types.Uint16)
	case ti&types.IsInteger != 0:
		if fi&types.IsFloat != 0 {
			return false // truncates fractions
		}
		fu, tu := fi&types.IsUnsigned != 0, ti&types.IsUnsigned != 0
		size := func(b *types.Basic) int {
			switch b.Kind() {
			case types.Int8, types.Uint8:
				return 8
			case types.Int16, types.Uint16:
				return 16
			case types.Int32, types.Uint32:
				return 32
			}
			return 64
		}
		if !fu && tu {
			return false // negatives wrap
		}
		if fu && !tu {
			return size(to) > size(from) || (size(to) == 64 && size(from) == 64) // within 2^53
		}
		return size(to) >= size(from)
	}
	return false
}

// ruleC15ExactDomain: the type D in which Cmp[T] compares represents every value of T and of
// every dynamic type S of the right operand exactly.
func ruleC15ExactDomain(c *Ctx) {
	c.Doc("c15.exact-domain", "per instantiation Cmp[T]: both compared values have one type D; T->D is an exact conversion, and the right operand reaches D through As[D], every arm of which converts its asserted numeric type S->D exactly (no float->int, signed->unsigned or narrowing conversion): 12x12 (T,S) pairs")
	if _, formB := c.compareFormB(); formB {
		return
	}
	_, cmps, _, ases := c.compareFuncs()
	asByType := map[string]*ssa.Function{}
	for _, a := range ases {
		asByType[a.Signature.Results().At(0).Type().String()] = a
	}
	pairs, lossy := 0, 0
	for _, f := range cmps {
		key := instKey(c.P, f)
		T, _ := f.Params[0].Type().Underlying().(*types.Basic)
		var D *types.Basic
		ok, why := true, ""
		var asCall *ssa.Call
		allInstrs(f, func(_ *ssa.BasicBlock, in ssa.Instruction) {
			if b, isB := in.(*ssa.BinOp); isB && relOf(b.Op) != relNone {
				bt, _ := b.X.Type().Underlying().(*types.Basic)
				if D == nil {
					D = bt
				} else if bt == nil || bt.Kind() != D.Kind() {
					ok, why = false, "comparisons in more than one type"
				}
			}
			if call, isC := in.(*ssa.Call); isC {
				if cal := call.Common().StaticCallee(); cal != nil && cal.Origin() != nil && cal.Origin().Name() == "As" {
					asCall = call
				}
			}
		})
		if T == nil || D == nil {
			c.Unknown("c15.exact-domain", key, c.P.Pos(f.Pos()), "no comparison of basic numeric values found")
			continue
		}
		if ok && !exactIn(T, D) {
			ok, why = false, fmt.Sprintf("left operand %s is converted to %s, which is not exact", T, D)
		}
		if ok {
			if asCall == nil {
				ok, why = false, "the right operand does not reach the comparison through As[D]"
			} else {
				as := asCall.Common().StaticCallee()
				rt, _ := as.Signature.Results().At(0).Type().Underlying().(*types.Basic)
				if rt == nil || rt.Kind() != D.Kind() {
					ok, why = false, fmt.Sprintf("right operand converted by %s, comparison in %s", funcName(as), D)
				} else {
					// every arm of As[D]
					nArms := 0
					allInstrs(as, func(_ *ssa.BasicBlock, in ssa.Instruction) {
						cv, isCv := in.(*ssa.Convert)
						if !isCv {
							return
						}
						S, _ := cv.X.Type().Underlying().(*types.Basic)
						if S == nil {
							return
						}
						nArms++
						pairs++
						if !exactIn(S, D) {
							lossy++
							ok = false
							why += fmt.Sprintf("%s->%s lossy; ", S, D)
						}
					})
					// identity arm (S == D) has no Convert instruction
					if nArms < 11 {
						ok, why = false, why+fmt.Sprintf("As[%s] converts only %d numeric types", D, nArms)
					}
				}
			}
		}
		c.Check(ok, "c15.exact-domain", key, c.P.Pos(f.Pos()), fmt.Sprintf("T=%s compared in D=%s; every S->D exact", T, D), why)
	}
	// a caller that converts the LEFT operand itself before handing it to Cmp (Cmp(As[X](a), v)): every arm of As[X] exact too
	cmpX, _, comparesX, _ := c.compareFuncs()
	if c.compareFormC() {
		comparesX = append(comparesX, cmpX)
	}
	for _, f := range comparesX {
		allInstrs(f, func(_ *ssa.BasicBlock, in ssa.Instruction) {
			call, isC := in.(*ssa.Call)
			if !isC || call.Common().StaticCallee() == nil || call.Common().StaticCallee().Origin() == nil || call.Common().StaticCallee().Origin().Name() != "Cmp" {
				return
			}
			conv, isConv := call.Common().Args[0].(*ssa.Call)
			if !isConv || conv.Common().StaticCallee() == nil || conv.Common().StaticCallee().Origin() == nil || conv.Common().StaticCallee().Origin().Name() != "As" {
				return
			}
			as := conv.Common().StaticCallee()
			D, _ := as.Signature.Results().At(0).Type().Underlying().(*types.Basic)
			ok, why, nArms := D != nil, "", 0
			allInstrs(as, func(_ *ssa.BasicBlock, ain ssa.Instruction) {
				cv, isCv := ain.(*ssa.Convert)
				if !isCv || D == nil {
					return
				}
				S, _ := cv.X.Type().Underlying().(*types.Basic)
				if S == nil {
					return
				}
				nArms++
				pairs++
				if !exactIn(S, D) {
					lossy++
					ok = false
					why += fmt.Sprintf("%s->%s lossy; ", S, D)
				}
			})
			if nArms < 11 {
				ok, why = false, why+fmt.Sprintf("%s converts only %d numeric types", funcName(as), nArms)
			}
			c.Check(ok, "c15.exact-domain", instKey(c.P, f)+"/left-operand", c.P.Pos(call.Pos()), "the left operand reaches Cmp through an exact conversion of every numeric type", why)
		})
	}
	c.Notes = append(c.Notes, fmt.Sprintf("c15.exact-domain: %d (T,S) conversion pairs examined, %d lossy", pairs, lossy))
}

// ruleC15Dispatch: Compare dispatches every numeric type of the left operand to compare[T](a, b);
// compare[T] sends numeric right operands to Cmp(a, v) and strings to strings.Compare(text(a), s);
// the default arms compare the %v texts in operand order.
func ruleC15Dispatch(c *Ctx) {
	c.Doc("c15.symmetric-dispatch", "Compare's type switch covers the 12 numeric types and forwards (a, b) in order to compare[T]; compare[T] forwards numeric right operands to Cmp[T](a, v) in order, and compares text(a) with the string / text(v) via strings.Compare with the left operand first, as Compare's default arm does for non-numeric left operands")
	if _, formB := c.compareFormB(); formB {
		return
	}
	cmp, _, compares, _ := c.compareFuncs()
	if cmp == nil {
		return
	}
	key := "compare.Compare"
	// Compare: paths
	paths, err := WalkFunc(cmp, WalkCfg{MaxVisits: 1})
	if err != nil {
		c.Unknown("c15.symmetric-dispatch", key, c.P.Pos(cmp.Pos()), err.Error())
		return
	}
	a, b := cmp.Params[0].Name(), cmp.Params[1].Name()
	seenT := map[string]bool{}
	seenB := map[string]bool{}
	formC := c.compareFormC()
	ok, why := true, ""
	sawDefault := false
	for _, p := range paths {
		if p.Exit != "return" || len(p.Ret) != 1 {
			continue
		}
		t := p.Ret[0].T
		if t.Op != "call" {
			ok, why = false, "a path returns "+t.String()
			continue
		}
		if call, isCall := t.V.(*ssa.Call); isCall {
			cal := call.Common().StaticCallee()
			if cal != nil && (cal.Origin() != nil && fnShort(cal.Origin()) == "compare" || cal.Origin() == nil && fnShort(cal) == "compare" && funcPkgPath(cal) == comparePath) {
				// args: asserted a, then b
				if len(t.Args) == 2 && t.Args[0].Op == "ext" && t.Args[0].Args[0].Op == "assertok" && t.Args[0].Args[0].Args[0].Op == "param" && t.Args[0].Args[0].Args[0].Name == a &&
					t.Args[1].Op == "param" && t.Args[1].Name == b {
					seenT[t.Args[0].Args[0].Name] = true
					// the instance's T must be the asserted type
					if cal.Origin() != nil && cal.Params[0].Type().String() != call.Common().Args[0].Type().String() {
						ok, why = false, "asserted type and instance type differ"
					}
				} else if len(t.Args) == 2 && t.Args[0].Op == "param" && t.Args[0].Name == a && t.Args[1].Op == "param" && t.Args[1].Name == b {
					// one multi-type case: the operand is forwarded as it is; the numeric type is the one this path asserted
					for _, k := range p.Order {
						kt := p.KeyTerm[k]
						if kt != nil && kt.Op == "ext" && kt.Name == "1" && kt.Args[0].Op == "assertok" && kt.Args[0].Args[0].Op == "param" && kt.Args[0].Args[0].Name == a {
							if v, _ := p.Assumed(k); v {
								seenT[kt.Args[0].Name] = true
							}
						}
					}
				} else {
					ok, why = false, "numeric arm does not forward (a.(T), b) in order: "+t.String()
				}
				continue
			}
			if cal != nil && cal.Pkg != nil && cal.Pkg.Pkg.Path() == "strings" && cal.Name() == "Compare" {
				sawDefault = true
				// a string is its own text: the right operand found to be a string on this path may stand for text(b)
				bIsString := len(t.Args) == 2 && t.Args[1].Op == "ext" && t.Args[1].Name == "0" && len(t.Args[1].Args) == 1 && t.Args[1].Args[0].Op == "assertok" && t.Args[1].Args[0].Name == "string" &&
					len(t.Args[1].Args[0].Args) == 1 && t.Args[1].Args[0].Args[0].Op == "param" && t.Args[1].Args[0].Args[0].Name == b
				if !(textOf(t.Args[0], a) && (textOf(t.Args[1], b) || bIsString)) {
					ok, why = false, "default arm does not compare text(a) with text(b) in order: "+t.String()
				}
				continue
			}
			if cal != nil && cal.Origin() != nil && cal.Origin().Name() == "Cmp" && formC {
				// Compare converts its left operand on the spot and hands the right one over as it is; both operands
				// were found to be numbers on this path (the numeric types are the ones the path asserted)
				left := false
				if len(t.Args) == 2 {
					if as, isAs := callArgs(t.Args[0], "As"); isAs && len(as) == 1 && as[0].Op == "param" && as[0].Name == a {
						left = true
					} else if t.Args[0].Op == "call" && strings.Contains(t.Args[0].Name, "As[") && len(t.Args[0].Args) == 1 && t.Args[0].Args[0].Op == "param" && t.Args[0].Args[0].Name == a {
						left = true
					}
				}
				// ... or by the conversion Cmp itself starts with: float64(a.(T)) handed to Cmp[float64] (a helper predicate
				// `number(v) (float64, bool)` in front of the dispatch)
				if len(t.Args) == 2 && !left && strings.HasSuffix(t.Name, "Cmp[float64]") {
					x := t.Args[0]
					if x.Op == "conv" && x.Name == "float64" && len(x.Args) == 1 {
						x = x.Args[0]
					}
					if x.Op == "ext" && x.Name == "0" && len(x.Args) == 1 && x.Args[0].Op == "assertok" && len(x.Args[0].Args) == 1 && x.Args[0].Args[0].Op == "param" && x.Args[0].Args[0].Name == a {
						left = true
					}
				}
				right := len(t.Args) == 2 && t.Args[1].Op == "param" && t.Args[1].Name == b
				if !(left && right) {
					ok, why = false, "numeric arm does not forward (a converted, b) in order and as they are: "+t.String()
				}
				bNumeric := false
				for _, k := range p.Order {
					kt := p.KeyTerm[k]
					if kt != nil && kt.Op == "ext" && kt.Name == "1" && kt.Args[0].Op == "assertok" && kt.Args[0].Args[0].Op == "param" {
						if v, _ := p.Assumed(k); v {
							if kt.Args[0].Args[0].Name == a {
								seenT[kt.Args[0].Name] = true
							}
							if kt.Args[0].Args[0].Name == b && kt.Args[0].Name != "string" {
								seenB[kt.Args[0].Name] = true
								bNumeric = true
							}
						}
					}
				}
				if !bNumeric {
					ok, why = false, "a path hands b to the numeric comparison without having found it to be a number (a string then compares as 0 on one side and as text on the other)"
				}
				continue
			}
		}
		ok, why = false, "a path returns "+t.String()
	}
	if formC && len(seenB) < 12 {
		ok, why = false, why+fmt.Sprintf(" only %d numeric types of the right operand reach the numeric comparison", len(seenB))
	}
	if len(seenT) < 12 {
		ok, why = false, why+fmt.Sprintf(" only %d numeric types dispatched", len(seenT))
	}
	if !sawDefault {
		ok, why = false, why+" no textual default arm"
	}
	c.Fn(key)
	c.Check(ok, "c15.symmetric-dispatch", key, c.P.Pos(cmp.Pos()), fmt.Sprintf("%d numeric arms forward (a,b); default compares texts in order", len(seenT)), strings.TrimSpace(why))

	for _, f := range compares {
		k := instKey(c.P, f)
		paths, err := WalkFunc(f, WalkCfg{MaxVisits: 1})
		if err != nil {
			c.Unknown("c15.symmetric-dispatch", k, c.P.Pos(f.Pos()), err.Error())
			continue
		}
		a, v := f.Params[0].Name(), f.Params[1].Name()
		ok, why := true, ""
		nNum, nStr, nDef := 0, 0, 0
		for _, p := range paths {
			if p.Exit != "return" || len(p.Ret) != 1 {
				continue
			}
			t := p.Ret[0].T
			call, isCall := t.V.(*ssa.Call)
			if t.Op != "call" || !isCall || call.Common().StaticCallee() == nil {
				ok, why = false, "a path returns "+t.String()
				continue
			}
			cal := call.Common().StaticCallee()
			switch {
			case cal.Origin() != nil && cal.Origin().Name() == "Cmp":
				nNum++
				left := len(t.Args) == 2 && t.Args[0].Op == "param" && t.Args[0].Name == a
				if !left && len(t.Args) == 2 && f.Origin() == nil {
					// the helper without type parameters converts its left operand on the spot: Cmp(As[X](a), v)
					if as, isAs := callArgs(t.Args[0], "As"); isAs && len(as) == 1 && as[0].Op == "param" && as[0].Name == a {
						left = true
					} else if t.Args[0].Op == "call" && strings.Contains(t.Args[0].Name, "As[") && len(t.Args[0].Args) == 1 && t.Args[0].Args[0].Op == "param" && t.Args[0].Args[0].Name == a {
						left = true
					}
				}
				// the right operand is handed over as it is (the operand itself, or its asserted numeric value): a value
				// computed from it (a string parsed as a number, say) makes number-vs-string differ from string-vs-number
				right := len(t.Args) == 2 && (t.Args[1].Op == "param" && t.Args[1].Name == v ||
					t.Args[1].Op == "ext" && t.Args[1].Name == "0" && t.Args[1].Args[0].Op == "assertok" && t.Args[1].Args[0].Args[0].Op == "param" && t.Args[1].Args[0].Args[0].Name == v && t.Args[1].Args[0].Name != "string")
				if !(left && right) {
					ok, why = false, "numeric arm does not forward (a, v) in order and as they are: "+t.String()
				}
				if f.Origin() != nil && cal.Params[0].Type().String() != f.Params[0].Type().String() {
					ok, why = false, "Cmp instance type differs from T"
				}
			case cal.Pkg != nil && cal.Pkg.Pkg.Path() == "strings" && cal.Name() == "Compare":
				if !textOf(t.Args[0], a) {
					ok, why = false, "textual arm does not put text(a) first: "+t.String()
				}
				// second: the string itself (asserted v) or text(v)
				isStr := t.Args[1].Op == "ext" && t.Args[1].Args[0].Op == "assertok" && t.Args[1].Args[0].Name == "string"
				if isStr {
					nStr++
				} else if textOf(t.Args[1], v) {
					nDef++
				} else {
					ok, why = false, "textual arm's second operand is neither the string nor text(v): "+t.String()
				}
			default:
				ok, why = false, "a path returns "+t.String()
			}
		}
		// a string operand is compared as text either by its own arm or by the textual default (%v of a string is the string)
		if nNum < 12 || nStr+nDef == 0 {
			ok, why = false, why+fmt.Sprintf(" numeric arms=%d (want 12), string arm=%d, textual default=%d", nNum, nStr, nDef)
		}
		c.Check(ok, "c15.symmetric-dispatch", k, c.P.Pos(f.Pos()), fmt.Sprintf("%d numeric arms -> Cmp(a,v); string arm and default compare text(a) first", nNum), strings.TrimSpace(why))
	}
}

// textOf: t is fmt.Sprintf("%v", [param]) (the decimal/%v text of the parameter).
func textOf(t *Term, param string) bool {
	// the decimal-text helper applied to the operand itself
	if a, isText := callArgs(t, "text"); isText && len(a) == 1 {
		return a[0].Op == "param" && a[0].Name == param
	}
	// fmt.Sprint of the one operand writes it exactly as %v does
	if sa, isSprint := callArgs(t, "fmt.Sprint"); isSprint && len(sa) == 1 {
		va := sa[0]
		return va.Op == "varargs" && len(va.Args) == 1 && va.Args[0].Contains(func(x *Term) bool { return x.Op == "param" && x.Name == param }) && !va.Args[0].Contains(func(x *Term) bool { return x.Op == "call" })
	}
	args, ok := callArgs(t, "fmt.Sprintf")
	if !ok || len(args) != 2 {
		return false
	}
	if args[0].Op != "const" || args[0].Name != `"%v"` {
		return false
	}
	va := args[1]
	return va.Op == "varargs" && len(va.Args) == 1 && va.Args[0].Contains(func(x *Term) bool { return x.Op == "param" && x.Name == param }) && !va.Args[0].Contains(func(x *Term) bool { return x.Op == "call" })
}

// "the comparison used by WHERE, ORDER BY, IN and joins": the consumers decide on compare.Compare's verdict
// (operator table, membership oracle, BETWEEN, ORDER BY comparator with NULL only for the untyped nil)
func init() { register("C15", ruleC01CmpTable, ruleC01Membership, ruleC01Between, ruleC05LessTable) }

func init() { register("C15", ruleC15DecimalText); register("C01", ruleC15DecimalText) }

// ruleC15DecimalText: what "the number's decimal text" is.
func ruleC15DecimalText(c *Ctx) {
	c.Doc("c15.decimal-text", "number against string: every textual comparison of package compare renders a numeric operand through the helper text(v), and text writes a float32/float64 with strconv.FormatFloat(v, 'f', -1, bits) (no exponent: 1000000, not 1e+06) and everything else with %v; no textual arm formats a possibly-float operand with %v directly — otherwise `v = '1000000'` matches an int column but not a float64 column holding the same number")
	tf := c.P.Func(comparePath, "text")
	var why []string
	if tf == nil {
		why = append(why, "package compare has no decimal-text helper: floats are rendered by %v, i.e. with an exponent from 1e6 up and below 1e-4")
	} else {
		c.Fn("compare.text")
		paths, err := WalkFunc(tf, WalkCfg{MaxVisits: 1})
		if err != nil {
			why = append(why, err.Error())
		}
		floats := map[string]bool{}
		for _, p := range paths {
			if p.Exit != "return" || len(p.Ret) != 1 {
				continue
			}
			kind := ""
			for _, k := range p.Order {
				kt := p.KeyTerm[k]
				if kt != nil && kt.Op == "ext" && kt.Name == "1" && kt.Args[0].Op == "assertok" {
					if v, _ := p.Assumed(k); v && kind == "" {
						kind = kt.Args[0].Name
					}
				}
			}
			r := p.Ret[0].T
			switch kind {
			case "float32", "float64":
				a, ok := callArgs(r, "strconv.FormatFloat")
				if !ok || len(a) != 4 || a[1].Name != "102" || a[2].Name != "-1" {
					why = append(why, "a "+kind+" is rendered by "+termStr(r)+", not by FormatFloat(v, 'f', -1, bits)")
				}
				floats[kind] = true
			default:
				if !textOf(r, tf.Params[0].Name()) && !exactPlainText(r, kind, tf.Params[0].Name()) {
					why = append(why, "a non-float value is rendered by "+termStr(r))
				}
			}
		}
		if !floats["float32"] || !floats["float64"] {
			why = append(why, "text has no arm for float32/float64")
		}
	}
	// no direct %v of an operand inside the comparison functions
	for _, f := range c.P.pkgFuncs(comparePath) {
		if f == tf || f.Parent() != nil {
			continue
		}
		allInstrs(f, func(_ *ssa.BasicBlock, in ssa.Instruction) {
			call, ok := in.(*ssa.Call)
			if !ok || calleeName(call.Common()) != "fmt.Sprintf" || len(call.Call.Args) != 2 {
				return
			}
			if fs, isS := constString(call.Call.Args[0]); isS && fs == "%v" {
				why = append(why, c.P.funcKey(f)+" formats an operand with %v at "+c.P.Pos(call.Pos())+" (a float64 from 1e6 up prints with an exponent): the textual comparison does not use the number's decimal text")
			}
		})
	}
	c.Check(len(why) == 0, "c15.decimal-text", "compare.text", "compare/compare.go", "floats through FormatFloat('f', -1); no direct %v of operands", strings.Join(uniq(why), "; "))
}

// ---- form B: Compare written without the generic family ---------------------------------------------------------------
//
// When Compare no longer goes through compare[T] / Cmp[T] (a rewrite that converts both operands to one numeric type
// with a helper and compares in place), the four C15 obligations are decided on the paths of Compare itself, with its
// helpers inlined by the walker:
//   - every return is -1, 0, 1 or the result of strings.Compare;
//   - on the paths where both operands are numbers the result is the sign of (x ? y) for the two converted values
//     (0 iff x == y was taken, 1 iff x > y, -1 otherwise), x derived from a and y from b;
//   - each converted value is conv[D](the asserted operand) with S -> D exact, and all 12 x 12 (S, T) pairs have a path;
//   - every other path returns strings.Compare(text(a), text(b)) in that order.

func (c *Ctx) compareFormB() (*ssa.Function, bool) {
	cmp := c.P.Func(comparePath, "Compare")
	if cmp == nil {
		return nil, false
	}
	usesFamily := false
	allInstrs(cmp, func(_ *ssa.BasicBlock, in ssa.Instruction) {
		if call, ok := in.(*ssa.Call); ok {
			if cal := call.Common().StaticCallee(); cal != nil && funcPkgPath(cal) == comparePath {
				n := cal.Name()
				if o := cal.Origin(); o != nil {
					n = o.Name()
				}
				if n == "compare" || n == "Cmp" {
					usesFamily = true
				}
			}
		}
	})
	return cmp, !usesFamily
}

func (c *Ctx) decideCompareFormB(cmp *ssa.Function) {
	key := "compare.Compare"
	c.Fn(key)
	paths, err := WalkFunc(cmp, WalkCfg{MaxVisits: 1, MaxPaths: 20000})
	if err != nil {
		c.Unknown("c15.range", key, c.P.Pos(cmp.Pos()), err.Error())
		return
	}
	a, b := cmp.Params[0].Name(), cmp.Params[1].Name()
	numeric := map[string]*types.Basic{}
	for _, k := range numericKinds {
		bt := types.Typ[k]
		numeric[bt.Name()] = bt
	}
	numeric["byte"] = types.Typ[types.Uint8]
	// conv[D](assertok[S](p:x)#0), or the asserted value itself for the identity arm
	operand := func(t *Term, param string) (S, D *types.Basic, ok bool) {
		if t == nil {
			return nil, nil, false
		}
		inner := t
		if t.Op == "conv" {
			D = numeric[t.Name]
			inner = t.Args[0]
		}
		if inner.Op != "ext" || inner.Name != "0" || inner.Args[0].Op != "assertok" || inner.Args[0].Args[0].Op != "param" || inner.Args[0].Args[0].Name != param {
			return nil, nil, false
		}
		S = numeric[inner.Args[0].Name]
		if S == nil {
			return nil, nil, false
		}
		if t.Op != "conv" {
			D = S
		}
		return S, D, D != nil
	}
	var whyRange, whyTri, whyExact, whyDisp []string
	pairs := map[string]bool{}
	nNum, nText := 0, 0
	for _, p := range paths {
		if p.Exit != "return" || len(p.Ret) != 1 {
			continue
		}
		r := p.Ret[0]
		if r.C != nil {
			if k, exact := constant.Int64Val(r.C); !exact || k < -1 || k > 1 {
				whyRange = append(whyRange, "a path returns "+avString(r))
			}
		} else if !(r.T != nil && r.T.Op == "call" && r.T.Name == "strings.Compare") {
			whyRange = append(whyRange, "a path returns "+avString(r))
		}
		if r.C == nil {
			// textual path
			nText++
			if r.T != nil && r.T.Op == "call" && r.T.Name == "strings.Compare" && !(textOf(r.T.Args[0], a) && textOf(r.T.Args[1], b)) {
				whyDisp = append(whyDisp, "the textual arm does not compare text(a) with text(b) in order: "+r.T.String())
			}
			continue
		}
		// numeric path: the relational assumptions made on it
		var eq, gt, lt *bool
		var xT, yT *Term
		for _, k := range p.Order {
			kt := p.KeyTerm[k]
			if kt == nil || kt.Op != "bin" || len(kt.Args) != 2 {
				continue
			}
			v, _ := p.Assumed(k)
			vv := v
			switch kt.Name {
			case "==":
				eq = &vv
			case ">":
				gt = &vv
			case "<":
				lt = &vv
			default:
				continue
			}
			xT, yT = kt.Args[0], kt.Args[1]
		}
		if xT == nil {
			whyTri = append(whyTri, "a path returns "+avString(r)+" without comparing two values")
			continue
		}
		S, D1, ok1 := operand(xT, a)
		T, D2, ok2 := operand(yT, b)
		if !ok1 || !ok2 {
			whyDisp = append(whyDisp, "the compared values are not (a converted, b converted) in that order: "+xT.String()+" , "+yT.String())
			continue
		}
		nNum++
		pairs[S.Name()+"/"+T.Name()] = true
		if D1.Kind() != D2.Kind() {
			whyExact = append(whyExact, fmt.Sprintf("%s is compared as %s with %s as %s", S, D1, T, D2))
		}
		if !exactIn(S, D1) {
			whyExact = append(whyExact, fmt.Sprintf("%s->%s lossy", S, D1))
		}
		if !exactIn(T, D2) {
			whyExact = append(whyExact, fmt.Sprintf("%s->%s lossy", T, D2))
		}
		k, _ := constant.Int64Val(r.C)
		want := int64(-2)
		switch {
		case eq != nil && *eq:
			want = 0
		case gt != nil && *gt:
			want = 1
		case lt != nil && *lt:
			want = -1
		case eq != nil && !*eq && gt != nil && !*gt:
			want = -1
		case eq != nil && !*eq && lt != nil && !*lt:
			want = 1
		case gt != nil && !*gt && lt != nil && !*lt:
			want = 0
		}
		if want == -2 || want != k {
			whyTri = append(whyTri, fmt.Sprintf("with %s the result is %d", p.String(), k))
		}
	}
	if len(pairs) < 144 {
		whyDisp = append(whyDisp, fmt.Sprintf("only %d of the 144 pairs of numeric types reach the numeric comparison", len(pairs)))
	}
	if nText == 0 {
		whyDisp = append(whyDisp, "no textual arm")
	}
	c.Check(len(whyRange) == 0, "c15.range", key, c.P.Pos(cmp.Pos()), "every return is -1, 0, 1 or strings.Compare", strings.Join(firstN(uniq(whyRange), 3), "; "))
	c.Check(len(whyTri) == 0 && nNum > 0, "c15.trichotomy", key, c.P.Pos(cmp.Pos()), fmt.Sprintf("%d numeric paths: sign of the two converted values", nNum), strings.Join(firstN(uniq(whyTri), 3), "; "))
	c.Check(len(whyExact) == 0 && nNum > 0, "c15.exact-domain", key, c.P.Pos(cmp.Pos()), "both operands converted exactly into one type", strings.Join(firstN(uniq(whyExact), 4), "; "))
	c.Check(len(whyDisp) == 0, "c15.symmetric-dispatch", key, c.P.Pos(cmp.Pos()), fmt.Sprintf("%d type pairs dispatched, operands in order; text(a), text(b) otherwise", len(pairs)), strings.Join(firstN(uniq(whyDisp), 3), "; "))
}

// exactPlainText: r is the %v text of the value asserted to the built-in type `kind`, written without fmt: the string
// itself, strconv.Itoa of an int, strconv.FormatInt(int64(v), 10) of a signed integer, strconv.FormatUint(uint64(v), 10)
// of an unsigned one. (A named type has its own assertion arm and does not reach these.)
func exactPlainText(r *Term, kind, param string) bool {
	asserted := func(t *Term) bool {
		for t != nil && t.Op == "ext" && len(t.Args) > 0 {
			t = t.Args[0]
		}
		return t != nil && (t.Op == "assertok" || t.Op == "assert") && t.Name == kind && len(t.Args) == 1 && t.Args[0].Op == "param" && t.Args[0].Name == param
	}
	widened := func(t *Term, to string) bool {
		if t != nil && t.Op == "conv" && t.Name == to && len(t.Args) == 1 {
			return asserted(t.Args[0])
		}
		return kind == to && asserted(t)
	}
	switch kind {
	case "string":
		return asserted(r)
	case "int":
		if a, ok := callArgs(r, "strconv.Itoa"); ok && len(a) == 1 && asserted(a[0]) {
			return true
		}
		fallthrough
	case "int8", "int16", "int32", "int64":
		a, ok := callArgs(r, "strconv.FormatInt")
		return ok && len(a) == 2 && a[1].String() == "c:10" && widened(a[0], "int64")
	case "uint", "uint8", "uint16", "uint32", "uint64", "byte":
		a, ok := callArgs(r, "strconv.FormatUint")
		return ok && len(a) == 2 && a[1].String() == "c:10" && widened(a[0], "uint64")
	}
	return false
}
